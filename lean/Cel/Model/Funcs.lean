/-
  Cel.Model.Funcs — host ("extension") functions of cel-python: how they are bound
  (`Runner.__init__` / `Activation.__init__`), how the interpreter applies them
  (`Evaluator.function_eval` / `method_eval`, evaluation.py), how the transpiled program names
  and applies them (`Phase1Transpiler.func_name`, `host_function`, the templates of
  `ident_arg` / `member_dot_arg`), and an evaluation of a small expression fragment that returns
  the value **together with the call log** (which host function was applied to which arguments,
  in order).

  Own small value / expression types (this file does not depend on other evaluator models).
  Core Lean only: the driver imports it.

  Mirrors the code including its quirks:
  * interpreter `?:` tests Python truthiness of the condition (an error object is truthy, so the
    left branch is visited) and evaluates one branch only; the transpiled `?:` evaluates all three
    operands (each under `result()`);
  * interpreter evaluates every argument even after an erroneous one, then does not call;
    transpiled Python stops at the first argument that *raises*;
  * `name(args)` → `ident_arg` visits the children of the exprlist and `function_eval` looks for
    the first erroneous argument; `recv.name(args)` → the `exprlist` rule already returns the
    first error, `method_eval` checks receiver, then exprlist;
  * a function named by dotted text in the transpiled program (`direct`) receives its arguments
    as they are, error values included; a function resolved through the activation goes through
    `host_function` (argument check as in `function_eval`).
-/
import Cel.Model.Basic
namespace Cel.Funcs
open Cel

/-! ## values -/

inductive Val where
  | int (n : Int)
  | bool (b : Bool)
  | list (xs : List Val)
  | err                       -- a CELEvalError object used as a value
  deriving Repr, Inhabited

mutual
def Val.beq : Val → Val → Bool
  | .int a, .int b => a == b
  | .bool a, .bool b => a == b
  | .list xs, .list ys => Val.beqs xs ys
  | .err, .err => true
  | _, _ => false
def Val.beqs : List Val → List Val → Bool
  | [], [] => true
  | x :: xs, y :: ys => Val.beq x y && Val.beqs xs ys
  | _, _ => false
end
instance : BEq Val := ⟨Val.beq⟩

def Val.isErr : Val → Bool
  | .err => true | _ => false
def Val.isBool : Val → Bool
  | .bool _ => true | _ => false
/-- Python truthiness (`if x:`); an exception object is truthy. -/
def Val.truthy : Val → Bool
  | .int n => n != 0 | .bool b => b | .list xs => !xs.isEmpty | .err => true

/-- one recorded application of a host function: CEL name and the arguments it received -/
abbrev Call := String × List Val
abbrev Log := List Call

/-! ## host functions and how they are supplied -/

inductive HostRes where
  | ret (v : Val)             -- returns a value (possibly a CELEvalError object: `.err`)
  | raise (e : Exc)
  deriving Inhabited

abbrev HostFn := List Val → HostRes

/-- what kind of Python callable the application supplied -/
inductive CKind where
  | evalVisible   -- `module.qualname` denotes the very object in celpy.evaluation's globals (built-ins, celpy.*)
  | moduleDef     -- module-level `def` in some importable module of the application
  | mainDef       -- module-level `def` in `__main__`
  | nestedDef     -- `def` inside a function (qualname contains `<locals>`)
  | lambda
  | callableObj   -- instance with `__call__` (no `__qualname__`)
  | boundMethod
  | partialObj    -- functools.partial (no `__module__`/`__qualname__`)
  | wrapsBuiltin  -- `functools.wraps(builtin)(wrapper)`: carries the built-in's `__module__`/`__qualname__` but is another object
  | wrapsVisible  -- `functools.wraps(g)(wrapper)` for a supplied-module function `g` that IS visible from celpy.evaluation
  | equalToAll    -- callable instance carrying a built-in's `__module__`/`__qualname__` whose `__eq__` answers True to everything
  | renamedDef    -- nested `def` whose `__module__`/`__qualname__` were overwritten with those of a built-in
  deriving DecidableEq, Repr, Inhabited

/-- what the text `module.qualname` of a callable denotes when `func_name` walks it from celpy.evaluation's `globals()` -/
inductive Denotes where
  | nothing                -- the walk fails: root is no global of celpy.evaluation, `<locals>`, `<lambda>` (KeyError / AttributeError)
  | self                   -- the very object
  | other (equal : Bool)   -- ANOTHER object (the wrapped function, a namesake); `equal`: it compares `==` to the callable
  deriving DecidableEq, Repr

/-- the callable has both `__module__` and `__qualname__` (functions and methods have; plain callable instances and
`functools.partial` objects have not: AttributeError, caught by `func_name`) -/
def CKind.qualified : CKind → Bool
  | .callableObj | .partialObj => false
  | _ => true

def CKind.denotes : CKind → Denotes
  | .evalVisible => .self
  | .moduleDef | .mainDef | .nestedDef | .lambda | .callableObj | .boundMethod | .partialObj => .nothing
  | .wrapsBuiltin | .wrapsVisible | .renamedDef => .other false
  | .equalToAll => .other true

/-- `Phase1Transpiler.func_name`: the dotted text is emitted iff the attributes exist, the walk succeeds and
`target is func` — IDENTITY (`Cel.Bridge.Funcs.func_name_shape`), not equality and not "wraps it". -/
def funcNameDirect (k : CKind) : Bool := k.qualified && decide (k.denotes = .self)

structure Callable where
  pyName : Option String      -- `f.__name__` (absent on plain callable objects and partials)
  kind : CKind
  fn : HostFn
  /-- an entry of `base_functions` itself (its applications are not host-function applications) -/
  builtin : Bool := false
  deriving Inhabited

/-- a Python dict with string keys, in insertion order; keys are unique by construction -/
abbrev FMap := List (String × Callable)

def FMap.get? (m : FMap) (k : String) : Option Callable :=
  match m with
  | [] => none
  | (k', v) :: rest => if k' = k then some v else FMap.get? rest k

/-- `d[k] = v` -/
def FMap.set (m : FMap) (k : String) (v : Callable) : FMap :=
  match m with
  | [] => [(k, v)]
  | (k', v') :: rest => if k' = k then (k, v) :: rest else (k', v') :: FMap.set rest k v

/-- the `functions=` argument of `Environment.program` -/
inductive Supplied where
  | none
  | list (fs : List Callable)
  | dict (m : FMap)

/-- `{f.__name__: f for f in functions}` — AttributeError when a callable has no `__name__` -/
def localOfList : List Callable → FMap → PyM FMap
  | [], acc => .ok acc
  | f :: fs, acc =>
    match f.pyName with
    | none => .error .attributeError
    | some n => localOfList fs (acc.set n f)

/-- `Activation.__init__`: `self.functions = ChainMap(local, base_functions)` (list of maps, searched in order).
`base` is only ever *read*. -/
def chainOf (base : FMap) : Supplied → PyM (List FMap)
  | .none => .ok [base]
  | .list fs => do let l ← localOfList fs []; .ok [l, base]
  | .dict m => .ok [m, base]

/-- `ChainMap.__getitem__`: first map that has the key -/
def chainGet? : List FMap → String → Option Callable
  | [], _ => none
  | m :: ms, k => match m.get? k with
      | some c => some c
      | none => chainGet? ms k

/-- What the evaluators need to know about a bound function.
`direct = true`: `func_name` emits dotted text and the transpiled call applies the object as is;
`direct = false`: the transpiled call goes through `host_function(activation, name)`. -/
structure Fn where
  direct : Bool
  fn : HostFn
  /-- supplied by the application: its applications appear in the call log -/
  host : Bool := true

/-- the log entry of one application -/
def Fn.logOf (fn : Fn) (f : String) (vs : List Val) : Log := if fn.host then [(f, vs)] else []

/-- `Phase1Transpiler.func_name`: dotted text only when it denotes the object in celpy.evaluation's globals -/
def Callable.toFn (c : Callable) : Fn := ⟨funcNameDirect c.kind, c.fn, !c.builtin⟩

theorem funcNameDirect_iff (k : CKind) : funcNameDirect k = true ↔ k = .evalVisible := by
  cases k <;> simp [funcNameDirect, CKind.qualified, CKind.denotes]

/-- `except (C₁, C₂, …)`: does the handler catch an exception of class `e`?  `.other` in the list stands for
`except Exception`, which catches every class. -/
def catches (cs : List Exc) (e : Exc) : Bool := cs.contains e || cs.contains .other

/-- evaluation context: resolved functions + which exception classes the call sites convert -/
structure Ctx where
  fns : String → Option Fn
  /-- classes caught around `function(*args)` in `function_eval` / `method_eval`
  (`except (ValueError, OverflowError)`, `except (TypeError, AttributeError)`, `except Exception`) -/
  callCaught : List Exc := [.valueError, .overflow, .typeError, .attributeError, .other]
  /-- classes caught by `celpy.evaluation.result()` -/
  resultCaught : List Exc :=
    [.valueError, .keyError, .typeError, .zeroDiv, .overflow, .indexError, .nameError, .attributeError]

def ctxOf (chain : List FMap) : Ctx := { fns := fun n => (chainGet? chain n).map Callable.toFn }

/-! ## the expression fragment -/

inductive Expr where
  | lit (v : Val)
  | var (i : Nat)                                    -- de Bruijn index of a macro variable
  | call (f : String) (args : List Expr)             -- `f(a, b)`
  | method (recv : Expr) (f : String) (args : List Expr)   -- `recv.f(a, b)`, f not a macro name
  | or (a b : Expr)
  | and (a b : Expr)
  | not (a : Expr)
  | cond (c x y : Expr)
  | add (a b : Expr)                                 -- representative strict operator, int → int
  | lt (a b : Expr)                                  -- representative strict operator, int → bool
  | all (src body : Expr)
  | exists_ (src body : Expr)
  | map (src body : Expr)
  deriving Repr, Inhabited

/-! ## outcome = (value or escaping exception) × calls made so far -/

abbrev Out (α : Type) := PyM α × Log

def Out.pure {α} (a : α) : Out α := (.ok a, [])
/-- sequencing: an escaping exception aborts, the calls already made stay recorded -/
def Out.bind {α β} (x : Out α) (f : α → Out β) : Out β :=
  match x with
  | (.error e, l) => (.error e, l)
  | (.ok a, l) => let r := f a; (r.1, l ++ r.2)
instance : Monad Out where
  pure := Out.pure
  bind := Out.bind

def liftP {α} (r : PyM α) : Out α := (r, [])

/-! ## operators on values (celtypes.logical_*, `_+_`, `_<_`) -/

def orV (x y : Val) : PyM Val :=
  match x, y with
  | .bool a, .bool b => .ok (.bool (a || b))
  | .bool a, y => if a then .ok (.bool a) else .ok y
  | x, .bool b => if b then .ok (.bool b) else .ok x
  | _, _ => .error .typeError

def andV (x y : Val) : PyM Val :=
  match x, y with
  | .bool a, .bool b => .ok (.bool (a && b))
  | .bool a, y => if a then .ok y else .ok (.bool a)
  | x, .bool b => if b then .ok x else .ok (.bool b)
  | _, _ => .error .typeError

def notV : Val → PyM Val
  | .err => .ok .err
  | .bool b => .ok (.bool !b)
  | _ => .error .typeError

def condV (c x y : Val) : PyM Val :=
  match c with
  | .bool b => .ok (if b then x else y)
  | _ => .error .typeError

/-- `operator.add` on IntType (range-checked); a CELEvalError on the left returns itself.
(Other operand classes — bool, list — are not modelled: TypeError.) -/
def addV (x y : Val) : PyM Val :=
  match x, y with
  | .err, _ => .ok .err
  | .int a, .int b =>
      if -9223372036854775808 ≤ a + b ∧ a + b < 9223372036854775808 then .ok (.int (a + b)) else .error .valueError
  | _, _ => .error .typeError

/-- `bool_lt = boolean(operator.lt)` -/
def ltV (x y : Val) : PyM Val :=
  match x, y with
  | .err, _ => .ok .err
  | _, .err => .ok .err
  | .int a, .int b => .ok (.bool (decide (a < b)))
  | _, _ => .error .typeError

/-- `except C as ex: return CELEvalError(...)` for the classes in `cs` -/
def catchAs (cs : List Exc) (r : PyM Val) : PyM Val :=
  match r with
  | .ok v => .ok v
  | .error e => if catches cs e then .ok .err else .error e

/-- `eval_error("no such overload", TypeError)(logical_and)` as used by the `all` reducers -/
def andE (acc b : Val) : PyM Val := catchAs [.typeError] (andV acc b)
def orE (acc b : Val) : PyM Val := catchAs [.typeError] (orV acc b)

/-- `reduce(op, map(body, vs), acc)`: every element is evaluated, in order -/
def foldBody (body : Val → Out Val) (op : Val → Val → PyM Val) : Val → List Val → Out Val
  | acc, [] => Out.pure acc
  | acc, v :: vs => Out.bind (body v) fun b => Out.bind (liftP (op acc b)) fun acc' => foldBody body op acc' vs

/-- the first erroneous value of a list (function_eval's loop / the `exprlist` rule) -/
def firstErr : List Val → Bool
  | [] => false
  | v :: vs => v.isErr || firstErr vs

/-! ## interpreter -/

/-- `function(*args)` under `except ValueError` / `except (TypeError, AttributeError)` -/
def applyI (cx : Ctx) (fn : HostFn) (vs : List Val) : PyM Val :=
  match fn vs with
  | .ret v => .ok v
  | .raise e => if catches cx.callCaught e then .ok .err else .error e

/-- `Evaluator.function_eval(name, values)` -/
def functionEval (cx : Ctx) (f : String) (vs : List Val) : Out Val :=
  match cx.fns f with
  | none => Out.pure .err                                   -- KeyError → "undeclared reference"
  | some fn =>
    if firstErr vs then Out.pure .err                       -- the first erroneous argument is the result
    else (applyI cx fn.fn vs, fn.logOf f vs)

/-- the `exprlist` rule: first error, or the list of values -/
def exprlistI (vs : List Val) : Val := if firstErr vs then .err else .list vs

/-- `Evaluator.method_eval(object, name, exprlist)` -/
def methodEval (cx : Ctx) (obj : Val) (f : String) (xl : Val) : Out Val :=
  match cx.fns f with
  | none => Out.pure .err
  | some fn =>
    if obj.isErr then Out.pure .err
    else match xl with
      | .err => Out.pure .err
      | .list vs => (applyI cx fn.fn (obj :: vs), fn.logOf f (obj :: vs))
      | _ => Out.pure .err        -- unreachable: exprlistI yields .err or .list

/-- map: `ListType(map(sub_expr, member_list))` where `sub_expr` raises the body's error and the
macro returns it as its value: stops at the first erroneous element -/
def mapBodyI (body : Val → Out Val) : List Val → Out (Option (List Val))
  | [] => Out.pure (some [])
  | v :: vs => Out.bind (body v) fun b =>
      if b.isErr then Out.pure none
      else Out.bind (mapBodyI body vs) fun r => Out.pure (r.map (b :: ·))

mutual
def evalI (cx : Ctx) (env : List Val) : Expr → Out Val
  | .lit v => Out.pure v
  | .var i => match env[i]? with
      | some v => Out.pure v
      | none => Out.pure .err
  | .call f args =>
      Out.bind (evalIs cx env args) fun vs => functionEval cx f vs
  | .method recv f args =>
      Out.bind (evalI cx env recv) fun o =>
      Out.bind (evalIs cx env args) fun vs => methodEval cx o f (exprlistI vs)
  | .or a b =>
      Out.bind (evalI cx env a) fun x => Out.bind (evalI cx env b) fun y =>
        liftP (catchAs [.typeError] (orV x y))
  | .and a b =>
      Out.bind (evalI cx env a) fun x => Out.bind (evalI cx env b) fun y =>
        liftP (catchAs [.typeError] (andV x y))
  | .not a =>
      Out.bind (evalI cx env a) fun x => liftP (catchAs [.typeError, .valueError] (notV x))
  | .cond c x y =>
      Out.bind (evalI cx env c) fun cv =>
        if cv.truthy then
          Out.bind (evalI cx env x) fun l => liftP (catchAs [.typeError] (condV cv l (.bool false)))
        else
          Out.bind (evalI cx env y) fun r => liftP (catchAs [.typeError] (condV cv (.bool false) r))
  | .add a b =>
      Out.bind (evalI cx env a) fun x => Out.bind (evalI cx env b) fun y =>
        liftP (catchAs [.typeError, .valueError, .overflow] (addV x y))
  | .lt a b =>
      Out.bind (evalI cx env a) fun x => Out.bind (evalI cx env b) fun y =>
        liftP (catchAs [.typeError] (ltV x y))
  | .all src body =>
      Out.bind (evalI cx env src) fun s =>
        match s with
        | .err => Out.pure .err
        | .list vs => foldBody (fun v => evalI cx (v :: env) body) andE (.bool true) vs
        | _ => Out.pure .err                       -- "found no matching overload for 'all' applied to …"
  | .exists_ src body =>
      Out.bind (evalI cx env src) fun s =>
        match s with
        | .err => Out.pure .err
        | .list vs => foldBody (fun v => evalI cx (v :: env) body) orE (.bool false) vs
        | _ => Out.pure .err
  | .map src body =>
      Out.bind (evalI cx env src) fun s =>
        match s with
        | .err => Out.pure .err
        | .list vs => Out.bind (mapBodyI (fun v => evalI cx (v :: env) body) vs) fun r =>
            match r with
            | some ws => Out.pure (.list ws)
            | none => Out.pure .err
        | _ => Out.pure .err
/-- `visit_children`: all children, left to right -/
def evalIs (cx : Ctx) (env : List Val) : List Expr → Out (List Val)
  | [] => Out.pure []
  | e :: es => Out.bind (evalI cx env e) fun v => Out.bind (evalIs cx env es) fun vs => Out.pure (v :: vs)
end

/-- `InterpretedRunner.evaluate`: an error value is raised as CELEvalError (observed as `.ok .err`) -/
def runI (cx : Ctx) (e : Expr) : Out Val := evalI cx [] e

/-! ## transpiled program -/

/-- `celpy.evaluation.result(activation, lambda)` -/
def resultC (cx : Ctx) (o : Out Val) : Out Val :=
  match o with
  | (.error e, l) => if catches cx.resultCaught e then (.ok .err, l) else (.error e, l)
  | x => x

/-- a raised exception propagates -/
def applyC (fn : HostFn) (vs : List Val) : PyM Val :=
  match fn vs with
  | .ret v => .ok v
  | .raise e => .error e

/-- the transpiled call `F(args)` once the arguments have values -/
def callC (cx : Ctx) (f : String) (vs : List Val) : Out Val :=
  match cx.fns f with
  | none => Out.pure .err                     -- `CELEvalError('unbound function', …)(args)` returns itself
  | some fn =>
    if fn.direct then (applyC fn.fn vs, fn.logOf f vs)      -- dotted text: applied as is
    else if firstErr vs then Out.pure .err                  -- host_function(): argument check
    else (applyC fn.fn vs, fn.logOf f vs)

/-- `BoolType(x)` around the reduction of `macro_all` / `macro_exists` -/
def boolTypeOf : Val → PyM Val
  | .bool b => .ok (.bool b)
  | .int n => .ok (.bool (n != 0))
  | _ => .error .typeError

/-- `ListType(map(cel_expr, activations))`: a raise propagates, every value (error values too) is kept -/
def mapBodyC (body : Val → Out Val) : List Val → Out (List Val)
  | [] => Out.pure []
  | v :: vs => Out.bind (body v) fun b => Out.bind (mapBodyC body vs) fun r => Out.pure (b :: r)

mutual
def evalC (cx : Ctx) (env : List Val) : Expr → Out Val
  | .lit v => Out.pure v
  | .var i => match env[i]? with
      | some v => Out.pure v
      | none => liftP (.error .nameError)
  | .call f args =>
      Out.bind (evalCs cx env args) fun vs => callC cx f vs
  | .method recv f args =>
      Out.bind (evalC cx env recv) fun o =>
      Out.bind (evalCs cx env args) fun vs => callC cx f (o :: vs)
  | .or a b =>
      Out.bind (resultC cx (evalC cx env a)) fun x => Out.bind (resultC cx (evalC cx env b)) fun y =>
        liftP (orV x y)
  | .and a b =>
      Out.bind (resultC cx (evalC cx env a)) fun x => Out.bind (resultC cx (evalC cx env b)) fun y =>
        liftP (andV x y)
  | .not a => Out.bind (evalC cx env a) fun x => liftP (notV x)
  | .cond c x y =>
      Out.bind (resultC cx (evalC cx env c)) fun cv =>
      Out.bind (resultC cx (evalC cx env x)) fun l =>
      Out.bind (resultC cx (evalC cx env y)) fun r => liftP (condV cv l r)
  | .add a b =>
      Out.bind (evalC cx env a) fun x => Out.bind (evalC cx env b) fun y => liftP (addV x y)
  | .lt a b =>
      Out.bind (evalC cx env a) fun x => Out.bind (evalC cx env b) fun y => liftP (ltV x y)
  | .all src body =>
      Out.bind (evalC cx env src) fun s =>
        match s with
        | .list vs =>
            Out.bind (foldBody (fun v => resultC cx (evalC cx (v :: env) body)) andE (.bool true) vs) fun r =>
              liftP (boolTypeOf r)
        | _ => liftP (.error .typeError)           -- iterating an error object / a non-list
  | .exists_ src body =>
      Out.bind (evalC cx env src) fun s =>
        match s with
        | .list vs =>
            Out.bind (foldBody (fun v => resultC cx (evalC cx (v :: env) body)) orE (.bool false) vs) fun r =>
              liftP (boolTypeOf r)
        | _ => liftP (.error .typeError)
  | .map src body =>
      Out.bind (evalC cx env src) fun s =>
        match s with
        | .list vs => Out.bind (mapBodyC (fun v => evalC cx (v :: env) body) vs) fun ws => Out.pure (.list ws)
        | _ => liftP (.error .typeError)
/-- Python evaluates call arguments left to right; a raise aborts the rest -/
def evalCs (cx : Ctx) (env : List Val) : List Expr → Out (List Val)
  | [] => Out.pure []
  | e :: es => Out.bind (evalC cx env e) fun v => Out.bind (evalCs cx env es) fun vs => Out.pure (v :: vs)
end

/-- `Transpiler.evaluate`: `CEL = result(base_activation, …)`; an error value is raised; *every*
exception leaving `exec` is re-raised as CELEvalError -/
def runC (cx : Ctx) (e : Expr) : Out Val :=
  match resultC cx (evalC cx [] e) with
  | (.error _, l) => (.ok .err, l)
  | x => x

/-! ## built-ins that applications like to shadow (`base_functions["size"]`, `["contains"]`) -/

def sizeFn : HostFn
  | [.list xs] => .ret (.int xs.length)
  | _ => .raise .typeError
/-- `function_contains(container, item)` = `operator_in(item, container)`: an erroneous operand is returned -/
def containsFn : HostFn
  | [c, v] =>
      if v.isErr || c.isErr then .ret .err
      else match c with
        | .list xs => .ret (.bool (xs.any (· == v)))
        | _ => .raise .typeError
  | _ => .raise .typeError

def builtin (fn : HostFn) : Callable := ⟨none, .evalVisible, fn, true⟩
/-- the part of `base_functions` the model executes -/
def baseFns : FMap := [("size", builtin sizeFn), ("contains", builtin containsFn)]

/-- names that are macros, not functions: they cannot be bound or shadowed -/
def macroNames : List String := ["map", "filter", "all", "exists", "exists_one", "reduce", "min"]
def macroFunctions : List String := ["has", "dyn"]

/-! ## programs and the (read-only) base map: `Environment.program(ast, functions)` histories -/

structure Program where
  compiled : Bool
  supplied : Supplied
  expr : Expr

/-- the state cel-python keeps between API calls that matters here: the module-level `base_functions` -/
structure World where
  base : FMap

/-- build the activation's function chain and evaluate; `World` is returned to make explicit that
evaluation does not write it -/
def World.evaluate (w : World) (p : Program) : World × PyM (Out Val) :=
  (w, match chainOf w.base p.supplied with
      | .error e => .error e
      | .ok chain => .ok (if p.compiled then runC (ctxOf chain) p.expr else runI (ctxOf chain) p.expr))

def World.run (w : World) : List Program → World × List (PyM (Out Val))
  | [] => (w, [])
  | p :: ps =>
    let (w1, r) := w.evaluate p
    let (w2, rs) := w1.run ps
    (w2, r :: rs)

end Cel.Funcs
