/-
  Cel.Model.Lex — the regular expressions of the literal terminals of cel.lark and the way Python's `re`
  matches them (C07, round 2).

  lark compiles every terminal of the grammar to one Python regular expression (`TerminalDef.pattern.to_regexp()`)
  and its lexers apply it with `re.match` at the current position.  This file models that step for the
  `*_LIT` terminals:

    * `Re`  — the abstract syntax Python's own regex parser (`re._parser.parse`) produces for those sources:
      character sets, `.`, sequence, ordered alternation, greedy / lazy repetition.  The trees of the terminals
      (`intLit`, `uintLit`, `floatLit`, `stringLit`, `mlstringLit`, `bytesLit`) are regenerated from
      src/celpy/cel.lark on every run (`Cel.Gen.Lex`) and compared in `Cel.Bridge.Lex`.
    * `run` — a backtracking matcher in continuation-passing style with exactly `re`'s search order: the
      alternatives of `|` left to right, a greedy repetition tries one more iteration before the continuation,
      a lazy one (`*?`) tries the continuation first; the first complete match found in that order is the
      match (`re` is not POSIX-longest).  `lexLen r t` = length of `re.compile(r).match(t)`, or `none`.

  Not modelled: `\d` is read as `[0-9]` (Python's `\d` also accepts non-ASCII decimal digits — same caveat as
  `Cel.Str.matchLen`; such inputs are not compared); an iteration of a repetition that consumes nothing ends
  the repetition (`re` has the same guard; no terminal here has a nullable repetition body).

  Core Lean only.
-/
import Cel.Model.Str
namespace Cel.Lex
open Cel.Str

/-- a character set -/
inductive Cls where
  /-- `[…]` as a list of inclusive ranges (a single character `c` is `(c, c)`; `\d` is `(48, 57)`) -/
  | ranges (rs : List (Nat × Nat))
  /-- `.` without `re.DOTALL`: any character except LF -/
  | any
  deriving DecidableEq, Repr

def Cls.mem : Cls → Nat → Bool
  | .ranges rs, c => rs.any (fun r => r.1 ≤ c && c ≤ r.2)
  | .any, c => c != 10

inductive Re where
  | cls (c : Cls)
  | eps
  | seq (a b : Re)
  /-- ordered alternation `a|b` -/
  | alt (a b : Re)
  /-- `r*` (greedy) or `r*?` (lazy) -/
  | star (greedy : Bool) (r : Re)
  deriving DecidableEq, Repr

/-! ### the constructors the generator emits (`py/verif/translate/gen_c07.py: re_to_lean`) -/

/-- `LITERAL c` -/
def lit (c : Nat) : Re := .cls (.ranges [(c, c)])
/-- `IN […]` -/
def set (rs : List (Nat × Nat)) : Re := .cls (.ranges rs)
/-- `ANY` -/
def dot : Re := .cls .any
/-- a sequence of items -/
def seqs : List Re → Re
  | [] => .eps
  | [r] => r
  | r :: rs => .seq r (seqs rs)
/-- `BRANCH`: the alternatives in source order -/
def alts : List Re → Re
  | [] => .eps
  | [r] => r
  | r :: rs => .alt r (alts rs)
/-- `r?` (greedy: the item first, then nothing) -/
def opt (r : Re) : Re := .alt r .eps
/-- `r+` greedy -/
def plus (r : Re) : Re := .seq r (.star true r)
/-- `r*` greedy -/
def many (r : Re) : Re := .star true r
/-- `r*?` lazy -/
def manyLazy (r : Re) : Re := .star false r
/-- `r{n}` -/
def rep : Nat → Re → Re
  | 0, _ => .eps
  | 1, r => r
  | n + 1, r => .seq r (rep n r)

/-! ### matching -/

/-- continuation: the rest of the text ↦ the result of the whole match -/
abbrev K := Text → Option Nat

/-- `a <|> b` with Python's order: `b` is tried only after `a` failed entirely -/
def orElse (a : Option Nat) (b : Unit → Option Nat) : Option Nat :=
  match a with
  | some v => some v
  | none => b ()

/-- the repetition loop; `fuel ≥ t.length` suffices because every iteration must consume a character -/
def starLoop (step : Text → K → Option Nat) (greedy : Bool) : Nat → Text → K → Option Nat
  | 0, t, k => k t
  | n + 1, t, k =>
    if greedy then
      orElse (step t (fun t' => if t'.length < t.length then starLoop step greedy n t' k else none)) (fun _ => k t)
    else
      orElse (k t) (fun _ => step t (fun t' => if t'.length < t.length then starLoop step greedy n t' k else none))

/-- backtracking match of `r` at the start of `t`, then the continuation -/
def run : Re → Text → K → Option Nat
  | .cls c, t, k =>
    match t with
    | x :: xs => if c.mem x then k xs else none
    | [] => none
  | .eps, t, k => k t
  | .seq a b, t, k => run a t (fun t' => run b t' k)
  | .alt a b, t, k => orElse (run a t k) (fun _ => run b t k)
  | .star g r, t, k => starLoop (run r) g t.length t k

/-- `len(re.compile(r).match(t).group())`, `none` when there is no match at position 0 -/
def lexLen (r : Re) (t : Text) : Option Nat := run r t (fun rest => some (t.length - rest.length))

/-! ### the literal terminals of cel.lark (checked against the regenerated `Cel.Gen.Lex` in `Cel.Bridge.Lex`) -/

def digit : Re := set [(48, 57)]
def hexDigit : Re := set [(48, 57), (97, 102), (65, 70)]
/-- `[abfnrtv"'\\]` -/
def simpleSet : Re := set [(97, 97), (98, 98), (102, 102), (110, 110), (114, 114), (116, 116), (118, 118), (34, 34), (39, 39), (92, 92)]
def rPrefix : Re := opt (set [(114, 114), (82, 82)])

/-- the body alternatives of the single-quoted forms: `\\[abfnrtv"'\\]|\\\d{3}|\\x[0-9a-fA-F]{2}|\\u[0-9a-fA-F]{4}|\\U[0-9a-fA-F]{8}` -/
def escSQ : List Re :=
  [seqs [lit 92, simpleSet], seqs [lit 92, rep 3 digit], seqs [lit 92, lit 120, rep 2 hexDigit],
   seqs [lit 92, lit 117, rep 4 hexDigit], seqs [lit 92, lit 85, rep 8 hexDigit]]
/-- … of the double-quoted forms: the grammar says `\\u[0-9a-fA-F]{4-8}`, which `re` reads as `\u`, one hex digit
and the five literal characters `{4-8}`; there is no `\U` alternative (such escapes are consumed by `.`) -/
def escDQ : List Re :=
  [seqs [lit 92, simpleSet], seqs [lit 92, rep 3 digit], seqs [lit 92, lit 120, rep 2 hexDigit],
   seqs [lit 92, lit 117, hexDigit, lit 123, lit 52, lit 45, lit 56, lit 125]]
/-- `\r\n|\r|\n` of the triple-quoted forms -/
def newlines : List Re := [seqs [lit 13, lit 10], lit 13, lit 10]

def itemSQ : Re := alts (escSQ ++ [dot])
def itemDQ : Re := alts (escDQ ++ [dot])
def itemTSQ : Re := alts (escSQ ++ newlines ++ [dot])
def itemTDQ : Re := alts (escDQ ++ newlines ++ [dot])

/-- STRING_LIT -/
def stringLit : Re :=
  alts [seqs [rPrefix, lit 39, manyLazy itemSQ, lit 39], seqs [rPrefix, lit 34, manyLazy itemDQ, lit 34]]
/-- MLSTRING_LIT -/
def mlstringLit : Re :=
  alts [seqs [rPrefix, lit 39, lit 39, lit 39, manyLazy itemTSQ, lit 39, lit 39, lit 39],
        seqs [rPrefix, lit 34, lit 34, lit 34, manyLazy itemTDQ, lit 34, lit 34, lit 34]]
/-- BYTES_LIT = `[bB]` MLSTRING_LIT `|` `[bB]` STRING_LIT (Python's parser hoists the common first item) -/
def bytesLit : Re := seqs [set [(98, 98), (66, 66)], alts [mlstringLit, stringLit]]
/-- INT_LIT = `-?0x[0-9abcdefABCDEF]+ | -?[0-9]+` -/
def hexDigitLong : Re :=
  set [(48, 57), (97, 97), (98, 98), (99, 99), (100, 100), (101, 101), (102, 102), (65, 65), (66, 66), (67, 67), (68, 68), (69, 69), (70, 70)]
def intLit : Re := alts [seqs [opt (lit 45), lit 48, lit 120, plus hexDigitLong], seqs [opt (lit 45), plus digit]]
/-- UINT_LIT = INT_LIT `[uU]` -/
def uintLit : Re := seqs [intLit, set [(117, 117), (85, 85)]]
def exponent : List Re := [set [(101, 101), (69, 69)], opt (set [(43, 43), (45, 45)]), plus digit]
/-- FLOAT_LIT (lark orders the alternatives: `D+ EXP`, `D+ . D* EXP?`, `D* . D+ EXP?`) -/
def floatLit : Re :=
  alts [seqs ([opt (lit 45), plus digit] ++ exponent),
        seqs [opt (lit 45), plus digit, lit 46, many digit, opt (seqs exponent)],
        seqs [opt (lit 45), many digit, lit 46, plus digit, opt (seqs exponent)]]

/-- the terminal a string / bytes style is lexed as -/
def strTerminal (q : Quote) : Re := if q.triple then mlstringLit else stringLit

def terminals : List (String × Re) :=
  [("BYTES_LIT", bytesLit), ("FLOAT_LIT", floatLit), ("INT_LIT", intLit), ("MLSTRING_LIT", mlstringLit),
   ("STRING_LIT", stringLit), ("UINT_LIT", uintLit)]

end Cel.Lex
