/-
  Cel.Model.XlateText — `C7N_Rewriter.top_level_logic` at the level it really works on: CHARACTERS.

  `Cel.Model.Xlate.scanTop` is the scanner on token strings (string literals are single tokens).  The
  Python function scans text: it skips string literals itself (single / triple quoted, a backslash
  escapes the next character), counts `( [ {` against `) ] }` and answers True at the first `?`,
  `&&` or `||` met at depth 0.  `scanText` mirrors that loop on `List Char` (a position `i` of the
  Python loop is the suffix `text[i:]`).  `lexOK` says what the text of a token is allowed to be
  (what lark's terminals produce), `textOf` spells a token string out, blank-separated.
  Core Lean only.
-/
import Cel.Model.Xlate
namespace Cel.Xlate
open Cel.Grammar

def isQuote (c : Char) : Bool := c == '"' || c == '\''
def isOpenC (c : Char) : Bool := c == '(' || c == '[' || c == '{'
def isCloseC (c : Char) : Bool := c == ')' || c == ']' || c == '}'

/-- the inner loop
`while i < len(text) and not text.startswith(quote, i): i += 2 if text[i] == "\\" else 1`
followed by `i += len(quote)`: from a position inside a literal, the text after its closing quote
(nothing when the literal is not closed). -/
def skipLit (q : List Char) : List Char → List Char
  | [] => []
  | [c] => if q.isPrefixOf [c] then [c].drop q.length else []
  | c :: d :: cs =>
    if q.isPrefixOf (c :: d :: cs) then (c :: d :: cs).drop q.length
    else if c == '\\' then skipLit q cs
    else skipLit q (d :: cs)

theorem skipLit_length_le (q : List Char) : ∀ (n : Nat) (s : List Char), s.length ≤ n → (skipLit q s).length ≤ s.length
  | 0, s, h => by
      have : s = [] := List.eq_nil_of_length_eq_zero (Nat.le_zero.mp h)
      subst this; simp [skipLit]
  | n + 1, s, h => by
      match s with
      | [] => simp [skipLit]
      | [c] => unfold skipLit; split <;> simp
      | c :: d :: cs =>
        unfold skipLit
        split
        · simp only [List.length_drop, List.length_cons]; omega
        · split
          · have := skipLit_length_le q n cs (by simp only [List.length_cons] at h; omega)
            simp only [List.length_cons]; omega
          · have := skipLit_length_le q n (d :: cs) (by simp only [List.length_cons] at h ⊢; omega)
            simp only [List.length_cons] at this ⊢; omega

/-- the quote a literal starting with the quote character `c` (rest of the text `cs`) is closed by:
`ch * 3 if text.startswith(ch * 3, i) else ch` -/
def quoteOf (c : Char) (cs : List Char) : List Char := if [c, c].isPrefixOf cs then [c, c, c] else [c]

/-- `C7N_Rewriter.top_level_logic(text)`, started at depth `d` on the suffix `text[i:]` -/
def scanText : Int → List Char → Bool
  | _, [] => false
  | d, c :: cs =>
    if isQuote c then
      scanText d (skipLit (quoteOf c cs) (cs.drop ((quoteOf c cs).length - 1)))
    else if isOpenC c then scanText (d + 1) cs
    else if isCloseC c then scanText (d - 1) cs
    else if d == 0 && (c == '?' || ['&', '&'].isPrefixOf (c :: cs) || ['|', '|'].isPrefixOf (c :: cs)) then true
    else scanText d cs
termination_by _ s => s.length
decreasing_by
  all_goals simp_wf
  · have h1 := skipLit_length_le (quoteOf c cs) _ (cs.drop ((quoteOf c cs).length - 1)) (Nat.le_refl _)
    have h2 : (cs.drop ((quoteOf c cs).length - 1)).length ≤ cs.length := by simp [List.length_drop]
    omega

/-- `top_level_logic(text)` -/
def topLevelLogicText (text : List Char) : Bool := scanText 0 text

/-! ### what the text of a token can be -/

/-- a character that is no quote, no bracket and not part of `?`, `&&`, `||` -/
def plainChar (c : Char) : Bool :=
  !isQuote c && !isOpenC c && !isCloseC c && c != '?' && c != '&' && c != '|'

/-- `s = body ++ q`: reading `\x` as a pair, the first place where the quote `q` shows up is the end
of `s` (the lexer's `"(?:\\.|.)*?"`: a string literal ends at its first unescaped quote) -/
def litBody (q : List Char) : List Char → Bool
  | [] => false
  | [c] => q == [c]
  | c :: d :: cs =>
    if q.isPrefixOf (c :: d :: cs) then q == (c :: d :: cs)
    else if c == '\\' then litBody q cs
    else litBody q (d :: cs)

/-- the text of a STRING_LIT / MLSTRING_LIT / BYTES_LIT token: an optional prefix of plain
characters (`r`, `b`, `br` …), a quote character, and a body closed by the same quote (tripled when
the literal opens with three of them) -/
def strTokOK : List Char → Bool
  | [] => false
  | c :: cs =>
    if isQuote c then litBody (quoteOf c cs) (cs.drop ((quoteOf c cs).length - 1))
    else plainChar c && strTokOK cs

def isStrTK (k : TK) : Bool := k == .STRING_LIT || k == .MLSTRING_LIT || k == .BYTES_LIT

/-- the token's text is what lark's terminal of that kind matches: the fixed text for brackets and
`?`, `&&`, `||`; a string literal for the three literal kinds; otherwise (identifiers, numbers,
`true`, `==`, `in`, `.`, `,`, `:` …) characters that are neither quotes, brackets nor `? & |` -/
def lexOK (t : Tok) : Bool :=
  match t.k with
  | .LPAR => t.s.toList == ['('] | .RPAR => t.s.toList == [')']
  | .LSQB => t.s.toList == ['['] | .RSQB => t.s.toList == [']']
  | .LBRACE => t.s.toList == ['{'] | .RBRACE => t.s.toList == ['}']
  | .QMARK => t.s.toList == ['?'] | .ANDAND => t.s.toList == ['&', '&'] | .OROR => t.s.toList == ['|', '|']
  | .STRING_LIT | .MLSTRING_LIT | .BYTES_LIT => strTokOK t.s.toList
  | _ => t.s.toList.all plainChar

/-- the token string spelled out, one blank between tokens -/
def textOf : List Tok → List Char
  | [] => []
  | [t] => t.s.toList
  | t :: r => t.s.toList ++ ' ' :: textOf r

end Cel.Xlate
