/-
  Cel.Model.XlateCel — a text-level lexer for the token kinds the translator's resource tables use,
  in front of the token-level CEL grammar model (Cel.Model.Grammar, C06): `isCel text` = the text
  lexes and `Cel.Grammar.parse` accepts the tokens (by `Cel.Props.C06.parse_sound` that is a
  derivation of the `expr` rule of cel.lark).  Used for C19's `tables_are_cel`.

  The lexer mirrors lark on these texts: blanks skipped; IDENT `[_a-zA-Z][_a-zA-Z0-9]*` with
  `in` / `null` / `true` / `false` retyped; STRING_LIT in either quote (same backtracking regex as
  `XlateValue.lexGo`); INT_LIT as a digit run not followed by `.`, a letter or `_` (floats, uints,
  hex: `none` = not modelled); one- and two-character operators.  Compared with the real parser on
  every table entry, every emitted table text and single-character perturbations of them.
-/
import Cel.Model.XlateValue
import Cel.Model.Grammar
namespace Cel.XlateCel
open Cel.XlateValue (Str isDigit isHex isSimpleEsc isWordAscii lexEscLen lit)
open Cel.Grammar (TK)
abbrev GTok := Cel.Grammar.Tok

def isIdentStart (c : Char) : Bool := ('a' ≤ c && c ≤ 'z') || ('A' ≤ c && c ≤ 'Z') || c = '_'

/-- a word where an operand may start: IDENT, with `null` retyped by lark's "unless" callback and
`true`/`false` by `CELParser.ambiguous_literals`; `in` stays an identifier there (IN is not
acceptable in those parser states) -/
def wordTok (w : Str) : GTok :=
  let s := String.ofList w
  if s = "null" then ⟨.NULL_LIT, s⟩
  else if s = "true" || s = "false" then ⟨.BOOL_LIT, s⟩ else ⟨.IDENT, s⟩

/-- single-quoted branch of STRING_LIT: escape alternatives then `.` -/
def lexEscLenSq (tl : Str) : Option Nat :=
  match tl with
  | [] => none
  | e :: r1 =>
    if isSimpleEsc e then some 1
    else if isDigit e then (if (tl.take 3).length = 3 && (tl.take 3).all isDigit then some 3 else none)
    else if e = 'x' then (if (r1.take 2).length = 2 && (r1.take 2).all isHex then some 3 else none)
    else if e = 'u' then (if (r1.take 4).length = 4 && (r1.take 4).all isHex then some 5 else none)
    else if e = 'U' then (if (r1.take 8).length = 8 && (r1.take 8).all isHex then some 9 else none)
    else none

def lexGoQ (qc : Char) : Str → Nat → Option (Str × Str)
  | [], _ => none
  | c :: tl, skip + 1 => (lexGoQ qc tl skip).map (fun p => (c :: p.1, p.2))
  | c :: tl, 0 =>
    if c = qc then some ([], tl)
    else if c = '\n' then none
    else
      let dot := (lexGoQ qc tl 0).map (fun p => (c :: p.1, p.2))
      if c = '\\' then
        match (if qc = '"' then lexEscLen tl else lexEscLenSq tl) with
        | some k =>
          (match lexGoQ qc tl k with
           | some p => some (c :: p.1, p.2)
           | none => dot)
        | none => dot
      else dot

/-- text → tokens, for the token kinds the table entries use. `skip`: characters already consumed.
`after` = the previous token ended an operand (IDENT, literal, `)`, `]`, `}`): lark's contextual
lexer then does not offer IDENT; the only word-like terminal is the string `in`, which matches as a
PREFIX of the text (`x inall()` lexes as `x in all()`); any other word is a lexical error. -/
def lexCelGo : Str → Nat → Bool → Option (List GTok)
  | [], _, _ => some []
  | _ :: tl, skip + 1, after => lexCelGo tl skip after
  | c :: tl, 0, after =>
    if c = ' ' then lexCelGo tl 0 after
    else if c = '"' || c = '\'' then
      if after then none else
      match lexGoQ c tl 0 with
      | some (body, _) => (lexCelGo tl (body.length + 1) true).map (⟨.STRING_LIT, String.ofList (c :: (body ++ [c]))⟩ :: ·)
      | none => none
    else if isIdentStart c then
      if after then
        (if c = 'i' && tl.head? = some 'n' then (lexCelGo tl 1 false).map (Cel.Grammar.Tok.a .IN :: ·) else none)
      else
        let w := c :: tl.takeWhile isWordAscii
        (lexCelGo tl (w.length - 1) true).map (wordTok w :: ·)
    else if isDigit c then
      if after then none else
      let w := c :: tl.takeWhile isDigit
      -- a digit run directly followed by `.`, a letter or `_` would be a float / uint / error: not modelled
      match tl.dropWhile isDigit with
      | d :: _ => if d = '.' || isWordAscii d then none else (lexCelGo tl (w.length - 1) true).map (⟨.INT_LIT, String.ofList w⟩ :: ·)
      | [] => (lexCelGo tl (w.length - 1) true).map (⟨.INT_LIT, String.ofList w⟩ :: ·)
    else
      let two (k : TK) := (lexCelGo tl 1 false).map (Cel.Grammar.Tok.a k :: ·)
      let one (k : TK) := (lexCelGo tl 0 false).map (Cel.Grammar.Tok.a k :: ·)
      let close (k : TK) := (lexCelGo tl 0 true).map (Cel.Grammar.Tok.a k :: ·)
      if c = '|' then (if tl.head? = some '|' then two .OROR else none)
      else if c = '&' then (if tl.head? = some '&' then two .ANDAND else none)
      else if c = '=' then (if tl.head? = some '=' then two .EQ else none)
      else if c = '!' then (if tl.head? = some '=' then two .NE else one .BANG)
      else if c = '<' then (if tl.head? = some '=' then two .LE else one .LT)
      else if c = '>' then (if tl.head? = some '=' then two .GE else one .GT)
      else if c = '.' then (if (tl.head?.map isDigit).getD false then none else one .DOT)
      else if c = '(' then one .LPAR else if c = ')' then close .RPAR
      else if c = '[' then one .LSQB else if c = ']' then close .RSQB
      else if c = '{' then one .LBRACE else if c = '}' then close .RBRACE
      else if c = ',' then one .COMMA else if c = '?' then one .QMARK else if c = ':' then one .COLON
      else if c = '+' then one .PLUS else if c = '-' then one .MINUS else if c = '*' then one .STAR
      else if c = '/' then one .SLASH else if c = '%' then one .PERCENT
      else none

def lexCel (s : Str) : Option (List GTok) := lexCelGo s 0 false

def isCel (s : Str) : Bool := ((lexCel s).bind Cel.Grammar.parse).isSome


/-- the filter-independent shape each table-driven rewriter wraps its entry in (smallest clause) -/
def wrap (table : String) (entry : Str) : Str :=
  if table = "age" then lit "now - timestamp(" ++ entry ++ lit ") > duration(\"21d\")"
  else if table = "security-group" then entry ++ lit ".exists(sg, sg[\"GroupId\"] == 'sg-1')"
  else if table = "vpc" then entry ++ lit " == \"vpc-1\""
  else if table = "kms-key" then lit "resource." ++ entry ++ lit ".kms_key()[\"Aliases\"][0][\"AliasName\"] == \"x\""
  else if table = "cross-account" then lit "size(" ++ entry ++ lit ") > 0"
  else if table = "unused" then lit "! " ++ entry
  else entry

/-- every entry of a table, bare and wrapped, is CEL -/
def tableIsCel (table : String) (t : List (String × Str)) : Bool :=
  t.all (fun p => isCel p.2 && isCel (wrap table p.2))

end Cel.XlateCel
