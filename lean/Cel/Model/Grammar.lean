/-
  Cel.Model.Grammar — the CEL grammar of cel-python (src/celpy/cel.lark) at the token level.
-/
import Cel.Model.Basic
namespace Cel.Grammar

/-- Terminal kinds. Named terminals carry lark's name; anonymous ones (`"||"`, `"in"` …) get a
mnemonic name here and are identified by their literal text in `TK.src`. -/
inductive TK where
  | IDENT | UINT_LIT | FLOAT_LIT | INT_LIT | MLSTRING_LIT | STRING_LIT | BYTES_LIT | BOOL_LIT | NULL_LIT
  | QMARK | COLON | OROR | ANDAND | LT | LE | GT | GE | EQ | NE | IN
  | PLUS | MINUS | STAR | SLASH | PERCENT | BANG | DOT | LPAR | RPAR | LSQB | RSQB | LBRACE | RBRACE | COMMA
  deriving DecidableEq, Repr, Inhabited

/-- named terminals are kept in parse trees, anonymous ones are filtered out (lark `filter_out`) -/
def TK.named : TK → Bool
  | .IDENT | .UINT_LIT | .FLOAT_LIT | .INT_LIT | .MLSTRING_LIT | .STRING_LIT | .BYTES_LIT | .BOOL_LIT | .NULL_LIT => true
  | _ => false

/-- how the terminal appears in the regenerated production listing: lark's name for named
terminals, the quoted literal text for anonymous ones -/
def TK.src : TK → String
  | .IDENT => "IDENT" | .UINT_LIT => "UINT_LIT" | .FLOAT_LIT => "FLOAT_LIT" | .INT_LIT => "INT_LIT"
  | .MLSTRING_LIT => "MLSTRING_LIT" | .STRING_LIT => "STRING_LIT" | .BYTES_LIT => "BYTES_LIT"
  | .BOOL_LIT => "BOOL_LIT" | .NULL_LIT => "NULL_LIT"
  | .QMARK => "'?'" | .COLON => "':'" | .OROR => "'||'" | .ANDAND => "'&&'" | .LT => "'<'" | .LE => "'<='"
  | .GT => "'>'" | .GE => "'>='" | .EQ => "'=='" | .NE => "'!='" | .IN => "'in'" | .PLUS => "'+'"
  | .MINUS => "'-'" | .STAR => "'*'" | .SLASH => "'/'" | .PERCENT => "'%'" | .BANG => "'!'" | .DOT => "'.'"
  | .LPAR => "'('" | .RPAR => "')'" | .LSQB => "'['" | .RSQB => "']'" | .LBRACE => "'{'" | .RBRACE => "'}'"
  | .COMMA => "','"

/-- the text of an anonymous terminal (empty for named ones, whose text varies) -/
def TK.text : TK → String
  | .QMARK => "?" | .COLON => ":" | .OROR => "||" | .ANDAND => "&&" | .LT => "<" | .LE => "<="
  | .GT => ">" | .GE => ">=" | .EQ => "==" | .NE => "!=" | .IN => "in" | .PLUS => "+"
  | .MINUS => "-" | .STAR => "*" | .SLASH => "/" | .PERCENT => "%" | .BANG => "!" | .DOT => "."
  | .LPAR => "(" | .RPAR => ")" | .LSQB => "[" | .RSQB => "]" | .LBRACE => "{" | .RBRACE => "}"
  | .COMMA => "," | _ => ""

structure Tok where
  k : TK
  s : String
  deriving DecidableEq, Repr, Inhabited

/-- an anonymous token -/
def Tok.a (k : TK) : Tok := ⟨k, k.text⟩

/-- Nonterminals (rule names of cel.lark; the three `*_star` are lark's helper rules for `( … )*`,
named `__exprlist_star_0` … by lark and inlined into their parent when the tree is built). -/
inductive NT where
  | expr | conditionalor | conditionaland
  | relation | relation_lt | relation_le | relation_gt | relation_ge | relation_eq | relation_ne | relation_in
  | addition | addition_add | addition_sub
  | multiplication | multiplication_mul | multiplication_div | multiplication_mod
  | unary | unary_not | unary_neg
  | member | member_dot | member_dot_arg | member_index | member_object
  | primary | dot_ident_arg | dot_ident | ident_arg | ident | paren_expr | list_lit | map_lit
  | exprlist | fieldinits | mapinits | literal
  | exprlist_star | fieldinits_star | mapinits_star
  deriving DecidableEq, Repr, Inhabited

def NT.name : NT → String
  | .expr => "expr" | .conditionalor => "conditionalor" | .conditionaland => "conditionaland"
  | .relation => "relation" | .relation_lt => "relation_lt" | .relation_le => "relation_le"
  | .relation_gt => "relation_gt" | .relation_ge => "relation_ge" | .relation_eq => "relation_eq"
  | .relation_ne => "relation_ne" | .relation_in => "relation_in"
  | .addition => "addition" | .addition_add => "addition_add" | .addition_sub => "addition_sub"
  | .multiplication => "multiplication" | .multiplication_mul => "multiplication_mul"
  | .multiplication_div => "multiplication_div" | .multiplication_mod => "multiplication_mod"
  | .unary => "unary" | .unary_not => "unary_not" | .unary_neg => "unary_neg"
  | .member => "member" | .member_dot => "member_dot" | .member_dot_arg => "member_dot_arg"
  | .member_index => "member_index" | .member_object => "member_object"
  | .primary => "primary" | .dot_ident_arg => "dot_ident_arg" | .dot_ident => "dot_ident"
  | .ident_arg => "ident_arg" | .ident => "ident" | .paren_expr => "paren_expr"
  | .list_lit => "list_lit" | .map_lit => "map_lit"
  | .exprlist => "exprlist" | .fieldinits => "fieldinits" | .mapinits => "mapinits" | .literal => "literal"
  | .exprlist_star => "__exprlist_star" | .fieldinits_star => "__fieldinits_star" | .mapinits_star => "__mapinits_star"

/-- lark inlines rules whose name starts with `_` -/
def NT.inline : NT → Bool
  | .exprlist_star | .fieldinits_star | .mapinits_star => true
  | _ => false

inductive Sym where
  | t (k : TK) | n (a : NT)
  deriving DecidableEq, Repr, Inhabited

def Sym.name : Sym → String
  | .t k => k.src | .n a => a.name

/-- The BNF productions lark derives from cel.lark (`[x]` split into two alternatives, `( … )*`
turned into a left-recursive helper rule), sorted. `Cel.Bridge.Grammar` proves that the listing
regenerated from the source on every run equals this one. -/
def productions : List (NT × List Sym) := [
  (.exprlist_star, [.t .COMMA, .n .expr]),
  (.exprlist_star, [.n .exprlist_star, .t .COMMA, .n .expr]),
  (.fieldinits_star, [.t .COMMA, .t .IDENT, .t .COLON, .n .expr]),
  (.fieldinits_star, [.n .fieldinits_star, .t .COMMA, .t .IDENT, .t .COLON, .n .expr]),
  (.mapinits_star, [.t .COMMA, .n .expr, .t .COLON, .n .expr]),
  (.mapinits_star, [.n .mapinits_star, .t .COMMA, .n .expr, .t .COLON, .n .expr]),
  (.addition, [.n .addition_add, .n .multiplication]),
  (.addition, [.n .addition_sub, .n .multiplication]),
  (.addition, [.n .multiplication]),
  (.addition_add, [.n .addition, .t .PLUS]),
  (.addition_sub, [.n .addition, .t .MINUS]),
  (.conditionaland, [.n .conditionaland, .t .ANDAND, .n .relation]),
  (.conditionaland, [.n .relation]),
  (.conditionalor, [.n .conditionaland]),
  (.conditionalor, [.n .conditionalor, .t .OROR, .n .conditionaland]),
  (.dot_ident, [.t .DOT, .t .IDENT]),
  (.dot_ident_arg, [.t .DOT, .t .IDENT, .t .LPAR, .t .RPAR]),
  (.dot_ident_arg, [.t .DOT, .t .IDENT, .t .LPAR, .n .exprlist, .t .RPAR]),
  (.expr, [.n .conditionalor]),
  (.expr, [.n .conditionalor, .t .QMARK, .n .conditionalor, .t .COLON, .n .expr]),
  (.exprlist, [.n .expr]),
  (.exprlist, [.n .expr, .n .exprlist_star]),
  (.fieldinits, [.t .IDENT, .t .COLON, .n .expr]),
  (.fieldinits, [.t .IDENT, .t .COLON, .n .expr, .n .fieldinits_star]),
  (.ident, [.t .IDENT]),
  (.ident_arg, [.t .IDENT, .t .LPAR, .t .RPAR]),
  (.ident_arg, [.t .IDENT, .t .LPAR, .n .exprlist, .t .RPAR]),
  (.list_lit, [.t .LSQB, .t .RSQB]),
  (.list_lit, [.t .LSQB, .n .exprlist, .t .RSQB]),
  (.literal, [.t .BOOL_LIT]),
  (.literal, [.t .BYTES_LIT]),
  (.literal, [.t .FLOAT_LIT]),
  (.literal, [.t .INT_LIT]),
  (.literal, [.t .MLSTRING_LIT]),
  (.literal, [.t .NULL_LIT]),
  (.literal, [.t .STRING_LIT]),
  (.literal, [.t .UINT_LIT]),
  (.map_lit, [.t .LBRACE, .t .RBRACE]),
  (.map_lit, [.t .LBRACE, .n .mapinits, .t .RBRACE]),
  (.mapinits, [.n .expr, .t .COLON, .n .expr]),
  (.mapinits, [.n .expr, .t .COLON, .n .expr, .n .mapinits_star]),
  (.member, [.n .member_dot]),
  (.member, [.n .member_dot_arg]),
  (.member, [.n .member_index]),
  (.member, [.n .member_object]),
  (.member, [.n .primary]),
  (.member_dot, [.n .member, .t .DOT, .t .IDENT]),
  (.member_dot_arg, [.n .member, .t .DOT, .t .IDENT, .t .LPAR, .t .RPAR]),
  (.member_dot_arg, [.n .member, .t .DOT, .t .IDENT, .t .LPAR, .n .exprlist, .t .RPAR]),
  (.member_index, [.n .member, .t .LSQB, .n .expr, .t .RSQB]),
  (.member_object, [.n .member, .t .LBRACE, .t .RBRACE]),
  (.member_object, [.n .member, .t .LBRACE, .n .fieldinits, .t .RBRACE]),
  (.multiplication, [.n .multiplication_div, .n .unary]),
  (.multiplication, [.n .multiplication_mod, .n .unary]),
  (.multiplication, [.n .multiplication_mul, .n .unary]),
  (.multiplication, [.n .unary]),
  (.multiplication_div, [.n .multiplication, .t .SLASH]),
  (.multiplication_mod, [.n .multiplication, .t .PERCENT]),
  (.multiplication_mul, [.n .multiplication, .t .STAR]),
  (.paren_expr, [.t .LPAR, .n .expr, .t .RPAR]),
  (.primary, [.n .dot_ident]),
  (.primary, [.n .dot_ident_arg]),
  (.primary, [.n .ident]),
  (.primary, [.n .ident_arg]),
  (.primary, [.n .list_lit]),
  (.primary, [.n .literal]),
  (.primary, [.n .map_lit]),
  (.primary, [.n .paren_expr]),
  (.relation, [.n .addition]),
  (.relation, [.n .relation_eq, .n .addition]),
  (.relation, [.n .relation_ge, .n .addition]),
  (.relation, [.n .relation_gt, .n .addition]),
  (.relation, [.n .relation_in, .n .addition]),
  (.relation, [.n .relation_le, .n .addition]),
  (.relation, [.n .relation_lt, .n .addition]),
  (.relation, [.n .relation_ne, .n .addition]),
  (.relation_eq, [.n .relation, .t .EQ]),
  (.relation_ge, [.n .relation, .t .GE]),
  (.relation_gt, [.n .relation, .t .GT]),
  (.relation_in, [.n .relation, .t .IN]),
  (.relation_le, [.n .relation, .t .LE]),
  (.relation_lt, [.n .relation, .t .LT]),
  (.relation_ne, [.n .relation, .t .NE]),
  (.unary, [.n .member]),
  (.unary, [.n .unary_neg, .n .unary]),
  (.unary, [.n .unary_not, .n .unary]),
  (.unary_neg, [.t .MINUS]),
  (.unary_not, [.t .BANG])
]

inductive Tree where
  | node (r : NT) (cs : List Tree)
  | leaf (k : TK) (s : String)
  deriving Repr, Inhabited

mutual
/-- `Derives X ts cs`: the symbol `X` derives the token string `ts`, and lark's tree builder turns
that derivation into the list of children `cs` (a filtered token — an anonymous terminal, whose text
is fixed — contributes nothing, a kept token
a leaf, an inlined helper rule its children, any other rule one node). -/
inductive Derives : Sym → List Tok → List Tree → Prop where
  | tokKeep (k : TK) (s : String) : k.named = true → Derives (.t k) [⟨k, s⟩] [.leaf k s]
  | tokDrop (k : TK) : k.named = false → Derives (.t k) [Tok.a k] []
  | rule (a : NT) (rhs : List Sym) (ts : List Tok) (cs : List Tree) :
      (a, rhs) ∈ productions → DerivesSeq rhs ts cs → a.inline = false → Derives (.n a) ts [.node a cs]
  | ruleInline (a : NT) (rhs : List Sym) (ts : List Tok) (cs : List Tree) :
      (a, rhs) ∈ productions → DerivesSeq rhs ts cs → a.inline = true → Derives (.n a) ts cs
inductive DerivesSeq : List Sym → List Tok → List Tree → Prop where
  | nil : DerivesSeq [] [] []
  | cons (x : Sym) (xs : List Sym) (ts1 ts2 : List Tok) (cs1 cs2 : List Tree) :
      Derives x ts1 cs1 → DerivesSeq xs ts2 cs2 → DerivesSeq (x :: xs) (ts1 ++ ts2) (cs1 ++ cs2)
end

example : (NT.unary, [Sym.n .unary_not, .n .unary]) ∈ productions := by decide


/-! ## The specification syntax: CEL expressions with explicit parenthesis nodes -/

/-- the eight literal terminals -/
inductive LitK where
  | uint | float | int | mlstring | string | bytes | bool | null
  deriving DecidableEq, Repr, Inhabited
def LitK.tk : LitK → TK
  | .uint => .UINT_LIT | .float => .FLOAT_LIT | .int => .INT_LIT | .mlstring => .MLSTRING_LIT
  | .string => .STRING_LIT | .bytes => .BYTES_LIT | .bool => .BOOL_LIT | .null => .NULL_LIT

inductive RelOp where | lt | le | gt | ge | eq | ne | in_
  deriving DecidableEq, Repr, Inhabited
inductive AddOp where | add | sub
  deriving DecidableEq, Repr, Inhabited
inductive MulOp where | mul | div | mod
  deriving DecidableEq, Repr, Inhabited

def RelOp.tk : RelOp → TK
  | .lt => .LT | .le => .LE | .gt => .GT | .ge => .GE | .eq => .EQ | .ne => .NE | .in_ => .IN
def RelOp.nt : RelOp → NT
  | .lt => .relation_lt | .le => .relation_le | .gt => .relation_gt | .ge => .relation_ge
  | .eq => .relation_eq | .ne => .relation_ne | .in_ => .relation_in
def AddOp.tk : AddOp → TK
  | .add => .PLUS | .sub => .MINUS
def AddOp.nt : AddOp → NT
  | .add => .addition_add | .sub => .addition_sub
def MulOp.tk : MulOp → TK
  | .mul => .STAR | .div => .SLASH | .mod => .PERCENT
def MulOp.nt : MulOp → NT
  | .mul => .multiplication_mul | .div => .multiplication_div | .mod => .multiplication_mod

mutual
/-- Abstract CEL syntax *with* explicit parenthesis nodes (`paren`). -/
inductive PExpr where
  | lit (k : LitK) (s : String)
  | ident (s : String)
  | dotIdent (s : String)
  | identArg (s : String) (args : PArgs)
  | dotIdentArg (s : String) (args : PArgs)
  | paren (e : PExpr)
  | list (es : PArgs)
  | map (kvs : PInits)
  | dot (e : PExpr) (name : String)
  | dotArg (e : PExpr) (name : String) (args : PArgs)
  | index (e : PExpr) (i : PExpr)
  | obj (e : PExpr) (fs : PFields)
  | not (e : PExpr)
  | neg (e : PExpr)
  | mul (op : MulOp) (a b : PExpr)
  | add (op : AddOp) (a b : PExpr)
  | rel (op : RelOp) (a b : PExpr)
  | and (a b : PExpr)
  | or (a b : PExpr)
  | cond (c a b : PExpr)
inductive PArgs where
  | nil | cons (e : PExpr) (r : PArgs)
inductive PInits where
  | nil | cons (k v : PExpr) (r : PInits)
inductive PFields where
  | nil | cons (n : String) (v : PExpr) (r : PFields)
end

instance : Inhabited PExpr := ⟨.ident "x"⟩

/-- CEL's level table: 0 `?:`, 1 `||`, 2 `&&`, 3 relations, 4 `+ -`, 5 `* / %`, 6 unary `! -`,
7 member (select, call, index, message construction), 8 primary. -/
def level : PExpr → Nat
  | .cond .. => 0 | .or .. => 1 | .and .. => 2 | .rel .. => 3 | .add .. => 4 | .mul .. => 5
  | .not _ => 6 | .neg _ => 6
  | .dot .. => 7 | .dotArg .. => 7 | .index .. => 7 | .obj .. => 7
  | _ => 8

/-- the grammar rule of each level -/
def ntOf : Nat → NT
  | 0 => .expr | 1 => .conditionalor | 2 => .conditionaland | 3 => .relation | 4 => .addition
  | 5 => .multiplication | 6 => .unary | 7 => .member | _ => .primary

mutual
/-- the token string of an expression -/
def render : PExpr → List Tok
  | .lit k s => [⟨k.tk, s⟩]
  | .ident s => [⟨.IDENT, s⟩]
  | .dotIdent s => [.a .DOT, ⟨.IDENT, s⟩]
  | .identArg s as => [⟨.IDENT, s⟩, .a .LPAR] ++ (renderArgs as ++ [.a .RPAR])
  | .dotIdentArg s as => [.a .DOT, ⟨.IDENT, s⟩, .a .LPAR] ++ (renderArgs as ++ [.a .RPAR])
  | .paren e => [.a .LPAR] ++ (render e ++ [.a .RPAR])
  | .list es => [.a .LSQB] ++ (renderArgs es ++ [.a .RSQB])
  | .map kvs => [.a .LBRACE] ++ (renderInits kvs ++ [.a .RBRACE])
  | .dot e n => render e ++ [.a .DOT, ⟨.IDENT, n⟩]
  | .dotArg e n as => render e ++ ([.a .DOT, ⟨.IDENT, n⟩, .a .LPAR] ++ (renderArgs as ++ [.a .RPAR]))
  | .index e i => render e ++ ([.a .LSQB] ++ (render i ++ [.a .RSQB]))
  | .obj e fs => render e ++ ([.a .LBRACE] ++ (renderFields fs ++ [.a .RBRACE]))
  | .not e => .a .BANG :: render e
  | .neg e => .a .MINUS :: render e
  | .mul op a b => render a ++ (.a op.tk :: render b)
  | .add op a b => render a ++ (.a op.tk :: render b)
  | .rel op a b => render a ++ (.a op.tk :: render b)
  | .and a b => render a ++ (.a .ANDAND :: render b)
  | .or a b => render a ++ (.a .OROR :: render b)
  | .cond c a b => render c ++ (.a .QMARK :: (render a ++ (.a .COLON :: render b)))
/-- `expr ("," expr)*` (empty for no arguments) -/
def renderArgs : PArgs → List Tok
  | .nil => []
  | .cons e r => render e ++ renderArgsTail r
def renderArgsTail : PArgs → List Tok
  | .nil => []
  | .cons e r => .a .COMMA :: (render e ++ renderArgsTail r)
def renderInits : PInits → List Tok
  | .nil => []
  | .cons k v r => render k ++ (.a .COLON :: (render v ++ renderInitsTail r))
def renderInitsTail : PInits → List Tok
  | .nil => []
  | .cons k v r => .a .COMMA :: (render k ++ (.a .COLON :: (render v ++ renderInitsTail r)))
def renderFields : PFields → List Tok
  | .nil => []
  | .cons n v r => ⟨.IDENT, n⟩ :: .a .COLON :: (render v ++ renderFieldsTail r)
def renderFieldsTail : PFields → List Tok
  | .nil => []
  | .cons n v r => .a .COMMA :: ⟨.IDENT, n⟩ :: .a .COLON :: (render v ++ renderFieldsTail r)
end

/-- wrap `t` (a tree of the rule at level `m + n`) into the unit productions up to level `m` -/
def wrapUp : Nat → Nat → Tree → Tree
  | 0, _, t => t
  | n + 1, m, t => .node (ntOf m) [wrapUp n (m + 1) t]

mutual
/-- the lark tree of an expression, rooted at the rule of the expression's own level -/
def core : PExpr → Tree
  | .lit k s => .node .primary [.node .literal [.leaf k.tk s]]
  | .ident s => .node .primary [.node .ident [.leaf .IDENT s]]
  | .dotIdent s => .node .primary [.node .dot_ident [.leaf .IDENT s]]
  | .identArg s as => .node .primary [.node .ident_arg (.leaf .IDENT s :: exprlistOpt as)]
  | .dotIdentArg s as => .node .primary [.node .dot_ident_arg (.leaf .IDENT s :: exprlistOpt as)]
  | .paren e => .node .primary [.node .paren_expr [wrapUp (level e - 0) 0 (core e)]]
  | .list es => .node .primary [.node .list_lit (exprlistOpt es)]
  | .map kvs => .node .primary [.node .map_lit (mapinitsOpt kvs)]
  | .dot e n => .node .member [.node .member_dot [wrapUp (level e - 7) 7 (core e), .leaf .IDENT n]]
  | .dotArg e n as => .node .member [.node .member_dot_arg (wrapUp (level e - 7) 7 (core e) :: .leaf .IDENT n :: exprlistOpt as)]
  | .index e i => .node .member [.node .member_index [wrapUp (level e - 7) 7 (core e), wrapUp (level i - 0) 0 (core i)]]
  | .obj e fs => .node .member [.node .member_object (wrapUp (level e - 7) 7 (core e) :: fieldinitsOpt fs)]
  | .not e => .node .unary [.node .unary_not [], wrapUp (level e - 6) 6 (core e)]
  | .neg e => .node .unary [.node .unary_neg [], wrapUp (level e - 6) 6 (core e)]
  | .mul op a b => .node .multiplication [.node op.nt [wrapUp (level a - 5) 5 (core a)], wrapUp (level b - 6) 6 (core b)]
  | .add op a b => .node .addition [.node op.nt [wrapUp (level a - 4) 4 (core a)], wrapUp (level b - 5) 5 (core b)]
  | .rel op a b => .node .relation [.node op.nt [wrapUp (level a - 3) 3 (core a)], wrapUp (level b - 4) 4 (core b)]
  | .and a b => .node .conditionaland [wrapUp (level a - 2) 2 (core a), wrapUp (level b - 3) 3 (core b)]
  | .or a b => .node .conditionalor [wrapUp (level a - 1) 1 (core a), wrapUp (level b - 2) 2 (core b)]
  | .cond c a b => .node .expr [wrapUp (level c - 1) 1 (core c), wrapUp (level a - 1) 1 (core a), wrapUp (level b - 0) 0 (core b)]
/-- `[exprlist]`: no child for an empty argument list -/
def exprlistOpt : PArgs → List Tree
  | .nil => []
  | .cons e r => [.node .exprlist (wrapUp (level e - 0) 0 (core e) :: argTrees r)]
def argTrees : PArgs → List Tree
  | .nil => []
  | .cons e r => wrapUp (level e - 0) 0 (core e) :: argTrees r
def mapinitsOpt : PInits → List Tree
  | .nil => []
  | .cons k v r => [.node .mapinits (wrapUp (level k - 0) 0 (core k) :: wrapUp (level v - 0) 0 (core v) :: initTrees r)]
def initTrees : PInits → List Tree
  | .nil => []
  | .cons k v r => wrapUp (level k - 0) 0 (core k) :: wrapUp (level v - 0) 0 (core v) :: initTrees r
def fieldinitsOpt : PFields → List Tree
  | .nil => []
  | .cons n v r => [.node .fieldinits (.leaf .IDENT n :: wrapUp (level v - 0) 0 (core v) :: fieldTrees r)]
def fieldTrees : PFields → List Tree
  | .nil => []
  | .cons n v r => .leaf .IDENT n :: wrapUp (level v - 0) 0 (core v) :: fieldTrees r
end

/-- the tree of `e` used where the grammar expects the rule of level `m` (`m ≤ level e`) -/
def toTreeAt (m : Nat) (e : PExpr) : Tree := wrapUp (level e - m) m (core e)
/-- the parse tree of `e` (start symbol `expr`) -/
def toTree (e : PExpr) : Tree := toTreeAt 0 e

mutual
/-- Well-formedness: every operand sits at a level its position admits (otherwise it would need
parentheses). `?:` takes conditional-or operands in its first two positions and any expression
in the third (right-associative); the binary operators are left-associative. -/
def wf : PExpr → Bool
  | .lit _ _ => true | .ident _ => true | .dotIdent _ => true
  | .identArg _ as => wfArgs as
  | .dotIdentArg _ as => wfArgs as
  | .paren e => wf e
  | .list es => wfArgs es
  | .map kvs => wfInits kvs
  | .dot e _ => wf e && decide (7 ≤ level e)
  | .dotArg e _ as => wf e && decide (7 ≤ level e) && wfArgs as
  | .index e i => wf e && decide (7 ≤ level e) && wf i
  | .obj e fs => wf e && decide (7 ≤ level e) && wfFields fs
  | .not e => wf e && decide (6 ≤ level e)
  | .neg e => wf e && decide (6 ≤ level e)
  | .mul _ a b => wf a && decide (5 ≤ level a) && wf b && decide (6 ≤ level b)
  | .add _ a b => wf a && decide (4 ≤ level a) && wf b && decide (5 ≤ level b)
  | .rel _ a b => wf a && decide (3 ≤ level a) && wf b && decide (4 ≤ level b)
  | .and a b => wf a && decide (2 ≤ level a) && wf b && decide (3 ≤ level b)
  | .or a b => wf a && decide (1 ≤ level a) && wf b && decide (2 ≤ level b)
  | .cond c a b => wf c && decide (1 ≤ level c) && wf a && decide (1 ≤ level a) && wf b
def wfArgs : PArgs → Bool
  | .nil => true
  | .cons e r => wf e && wfArgs r
def wfInits : PInits → Bool
  | .nil => true
  | .cons k v r => wf k && wf v && wfInits r
def wfFields : PFields → Bool
  | .nil => true
  | .cons _ v r => wf v && wfFields r
end

abbrev WF (e : PExpr) : Prop := wf e = true


/-! ## Trees modulo parentheses -/

/-- rules whose single-child occurrences carry no information (precedence chain and `paren_expr`) -/
def NT.isChain : NT → Bool
  | .expr | .conditionalor | .conditionaland | .relation | .addition | .multiplication
  | .unary | .member | .primary | .paren_expr => true
  | _ => false

mutual
/-- drop `paren_expr` nodes and single-child precedence-chain nodes -/
def strip : Tree → Tree
  | .leaf k s => .leaf k s
  | .node r cs =>
    match r.isChain, stripList cs with
    | true, [c] => c
    | _, cs' => .node r cs'
def stripList : List Tree → List Tree
  | [] => []
  | c :: cs => strip c :: stripList cs
end

mutual
/-- the abstract tree of an expression: what `strip` leaves of its parse tree -/
def abs : PExpr → Tree
  | .lit k s => .node .literal [.leaf k.tk s]
  | .ident s => .node .ident [.leaf .IDENT s]
  | .dotIdent s => .node .dot_ident [.leaf .IDENT s]
  | .identArg s as => .node .ident_arg (.leaf .IDENT s :: absExprlistOpt as)
  | .dotIdentArg s as => .node .dot_ident_arg (.leaf .IDENT s :: absExprlistOpt as)
  | .paren e => abs e
  | .list es => .node .list_lit (absExprlistOpt es)
  | .map kvs => .node .map_lit (absMapinitsOpt kvs)
  | .dot e n => .node .member_dot [abs e, .leaf .IDENT n]
  | .dotArg e n as => .node .member_dot_arg (abs e :: .leaf .IDENT n :: absExprlistOpt as)
  | .index e i => .node .member_index [abs e, abs i]
  | .obj e fs => .node .member_object (abs e :: absFieldinitsOpt fs)
  | .not e => .node .unary [.node .unary_not [], abs e]
  | .neg e => .node .unary [.node .unary_neg [], abs e]
  | .mul op a b => .node .multiplication [.node op.nt [abs a], abs b]
  | .add op a b => .node .addition [.node op.nt [abs a], abs b]
  | .rel op a b => .node .relation [.node op.nt [abs a], abs b]
  | .and a b => .node .conditionaland [abs a, abs b]
  | .or a b => .node .conditionalor [abs a, abs b]
  | .cond c a b => .node .expr [abs c, abs a, abs b]
def absExprlistOpt : PArgs → List Tree
  | .nil => []
  | .cons e r => [.node .exprlist (abs e :: absArgs r)]
def absArgs : PArgs → List Tree
  | .nil => []
  | .cons e r => abs e :: absArgs r
def absMapinitsOpt : PInits → List Tree
  | .nil => []
  | .cons k v r => [.node .mapinits (abs k :: abs v :: absInits r)]
def absInits : PInits → List Tree
  | .nil => []
  | .cons k v r => abs k :: abs v :: absInits r
def absFieldinitsOpt : PFields → List Tree
  | .nil => []
  | .cons n v r => [.node .fieldinits (.leaf .IDENT n :: abs v :: absFields r)]
def absFields : PFields → List Tree
  | .nil => []
  | .cons n v r => .leaf .IDENT n :: abs v :: absFields r
end

mutual
/-- the fully parenthesised form: every operator application (ternary, binary, unary, select,
call, index, message construction) is wrapped in parentheses -/
def fullParen : PExpr → PExpr
  | .lit k s => .lit k s
  | .ident s => .ident s
  | .dotIdent s => .dotIdent s
  | .identArg s as => .identArg s (fullParenArgs as)
  | .dotIdentArg s as => .dotIdentArg s (fullParenArgs as)
  | .paren e => .paren (fullParen e)
  | .list es => .list (fullParenArgs es)
  | .map kvs => .map (fullParenInits kvs)
  | .dot e n => .paren (.dot (fullParen e) n)
  | .dotArg e n as => .paren (.dotArg (fullParen e) n (fullParenArgs as))
  | .index e i => .paren (.index (fullParen e) (fullParen i))
  | .obj e fs => .paren (.obj (fullParen e) (fullParenFields fs))
  | .not e => .paren (.not (fullParen e))
  | .neg e => .paren (.neg (fullParen e))
  | .mul op a b => .paren (.mul op (fullParen a) (fullParen b))
  | .add op a b => .paren (.add op (fullParen a) (fullParen b))
  | .rel op a b => .paren (.rel op (fullParen a) (fullParen b))
  | .and a b => .paren (.and (fullParen a) (fullParen b))
  | .or a b => .paren (.or (fullParen a) (fullParen b))
  | .cond c a b => .paren (.cond (fullParen c) (fullParen a) (fullParen b))
def fullParenArgs : PArgs → PArgs
  | .nil => .nil
  | .cons e r => .cons (fullParen e) (fullParenArgs r)
def fullParenInits : PInits → PInits
  | .nil => .nil
  | .cons k v r => .cons (fullParen k) (fullParen v) (fullParenInits r)
def fullParenFields : PFields → PFields
  | .nil => .nil
  | .cons n v r => .cons n (fullParen v) (fullParenFields r)
end

mutual
/-- does the expression contain an empty list literal `[]` (which `DumpAST` prints as nothing)? -/
def hasEmptyList : PExpr → Bool
  | .lit _ _ => false | .ident _ => false | .dotIdent _ => false
  | .identArg _ as => hasEmptyListArgs as
  | .dotIdentArg _ as => hasEmptyListArgs as
  | .paren e => hasEmptyList e
  | .list .nil => true
  | .list (.cons e r) => hasEmptyList e || hasEmptyListArgs r
  | .map kvs => hasEmptyListInits kvs
  | .dot e _ => hasEmptyList e
  | .dotArg e _ as => hasEmptyList e || hasEmptyListArgs as
  | .index e i => hasEmptyList e || hasEmptyList i
  | .obj e fs => hasEmptyList e || hasEmptyListFields fs
  | .not e => hasEmptyList e
  | .neg e => hasEmptyList e
  | .mul _ a b => hasEmptyList a || hasEmptyList b
  | .add _ a b => hasEmptyList a || hasEmptyList b
  | .rel _ a b => hasEmptyList a || hasEmptyList b
  | .and a b => hasEmptyList a || hasEmptyList b
  | .or a b => hasEmptyList a || hasEmptyList b
  | .cond c a b => hasEmptyList c || hasEmptyList a || hasEmptyList b
def hasEmptyListArgs : PArgs → Bool
  | .nil => false
  | .cons e r => hasEmptyList e || hasEmptyListArgs r
def hasEmptyListInits : PInits → Bool
  | .nil => false
  | .cons k v r => hasEmptyList k || hasEmptyList v || hasEmptyListInits r
def hasEmptyListFields : PFields → Bool
  | .nil => false
  | .cons _ v r => hasEmptyList v || hasEmptyListFields r
end

/-! ## `DumpAST` (celparser.py): a bottom-up visitor driving a stack of strings

Stack entries are kept as lists of pieces (tokens and single blanks) rather than flat strings: the
f-strings of `DumpAST` only concatenate, so the flat text is `Chunk.text` of the piece list. -/

inductive Piece where
  | tok (t : Tok)
  | sp
  deriving DecidableEq, Repr, Inhabited

abbrev Chunk := List Piece

def Piece.text : Piece → String
  | .tok t => t.s
  | .sp => " "
def Chunk.text (c : Chunk) : String := String.join (c.map Piece.text)
/-- the tokens of a chunk (blanks dropped) -/
def Chunk.toks : Chunk → List Tok
  | [] => []
  | .tok t :: r => t :: Chunk.toks r
  | .sp :: r => Chunk.toks r

def pa (k : TK) : Piece := .tok (.a k)

def pop : List Chunk → PyM (Chunk × List Chunk)
  | [] => .error .indexError
  | c :: r => .ok (c, r)

/-- pop `n` entries; the result lists them in *push* order (oldest first) -/
def popN : Nat → List Chunk → PyM (List Chunk × List Chunk)
  | 0, st => .ok ([], st)
  | n + 1, st => do
      let (c, st) ← pop st
      let (cs, st) ← popN n st
      .ok (cs ++ [c], st)

/-- `", ".join(items)` -/
def joinComma : List Chunk → Chunk
  | [] => []
  | [c] => c
  | c :: r => c ++ (pa .COMMA :: .sp :: joinComma r)

/-- `cast(lark.Token, child).value` -/
def tokenValue : Option Tree → PyM Piece
  | some (.leaf k s) => .ok (.tok ⟨k, s⟩)
  | some (.node _ _) => .error .attributeError
  | none => .error .indexError

/-- `children[::2]` -/
def evens : List Tree → List Tree
  | [] => []
  | [a] => [a]
  | a :: _ :: r => a :: evens r
/-- `children[1::2]` -/
def odds : List Tree → List Tree
  | [] => []
  | [_] => []
  | _ :: b :: r => b :: odds r

def zipFields : List Tree → List Chunk → PyM (List Chunk)
  | n :: ns, v :: vs => do
      let p ← tokenValue (some n)
      let r ← zipFields ns vs
      .ok ((p :: pa .COLON :: .sp :: v) :: r)
  | _, _ => .ok []

/-- pairs popped for `mapinits`: value first, then key; returned in source order as `key: value` -/
def popPairs : Nat → List Chunk → PyM (List Chunk × List Chunk)
  | 0, st => .ok ([], st)
  | n + 1, st => do
      let (v, st) ← pop st
      let (k, st) ← pop st
      let (cs, st) ← popPairs n st
      .ok (cs ++ [k ++ (pa .COLON :: .sp :: v)], st)

/-- binary shape shared by `relation/addition/multiplication/unary`: `f"{left} {right}"` -/
def dumpPair (n : Nat) (st : List Chunk) : PyM (List Chunk) :=
  if n = 1 then .ok st else do
    let (right, st) ← pop st
    let (left, st) ← pop st
    .ok ((left ++ (.sp :: right)) :: st)

def dumpInfix (n : Nat) (k : TK) (st : List Chunk) : PyM (List Chunk) :=
  if n = 1 then .ok st else do
    let (right, st) ← pop st
    let (left, st) ← pop st
    .ok ((left ++ (.sp :: pa k :: .sp :: right)) :: st)

def dumpRelOp (k : TK) (st : List Chunk) : PyM (List Chunk) := do
  let (left, st) ← pop st
  .ok ((left ++ [.sp, pa k, .sp]) :: st)

/-- `re.fullmatch(r"-?[0-9]+", s)` -/
def decIntText (s : String) : Bool :=
  let ds := match s.toList with
    | '-' :: r => r
    | r => r
  !ds.isEmpty && ds.all Char.isDigit

/-- `DumpAST.select(left)`: `left.`, with a blank after a decimal integer literal (`1 .f` must not
become the float `1.`) -/
def selectDot (left : Chunk) : Chunk :=
  if decIntText left.text then left ++ [.sp, pa .DOT] else left ++ [pa .DOT]

/-- the visitor method of rule `r` applied to a node with children `cs` (after the children
were visited) -/
def dumpRule (r : NT) (cs : List Tree) (st : List Chunk) : PyM (List Chunk) :=
  match r with
  | .expr =>
    if cs.length = 1 then .ok st else do
      let (right, st) ← pop st
      let (left, st) ← pop st
      let (cond, st) ← pop st
      .ok ((cond ++ (.sp :: pa .QMARK :: .sp :: (left ++ (.sp :: pa .COLON :: .sp :: right)))) :: st)
  | .conditionalor => dumpInfix cs.length .OROR st
  | .conditionaland => dumpInfix cs.length .ANDAND st
  | .relation | .addition | .multiplication | .unary => dumpPair cs.length st
  | .relation_lt => dumpRelOp .LT st | .relation_le => dumpRelOp .LE st
  | .relation_gt => dumpRelOp .GT st | .relation_ge => dumpRelOp .GE st
  | .relation_eq => dumpRelOp .EQ st | .relation_ne => dumpRelOp .NE st
  | .relation_in => dumpRelOp .IN st
  | .addition_add => dumpRelOp .PLUS st | .addition_sub => dumpRelOp .MINUS st
  | .multiplication_mul => dumpRelOp .STAR st | .multiplication_div => dumpRelOp .SLASH st
  | .multiplication_mod => dumpRelOp .PERCENT st
  | .unary_not => .ok ([pa .BANG] :: st)
  | .unary_neg => .ok ([pa .MINUS] :: st)
  | .member_dot => do
      let right ← tokenValue cs[1]?
      match st with
      | [] => .ok st
      | left :: st => .ok ((selectDot left ++ [right]) :: st)
  | .member_dot_arg => do
      let (exprlist, st) ← if cs.length = 3 then pop st else .ok ([], st)
      let right ← tokenValue cs[1]?
      let (left, st) ← pop st
      .ok ((selectDot left ++ (right :: pa .LPAR :: (exprlist ++ [pa .RPAR]))) :: st)
  | .member_index => do
      let (right, st) ← pop st
      let (left, st) ← pop st
      .ok ((left ++ (pa .LSQB :: (right ++ [pa .RSQB]))) :: st)
  | .member_object => do
      let (fieldinits, st) ← if cs.length = 2 then pop st else .ok ([], st)
      let (left, st) ← pop st
      .ok ((left ++ (pa .LBRACE :: (fieldinits ++ [pa .RBRACE]))) :: st)
  | .dot_ident_arg => do
      let (exprlist, st) ← if cs.length = 2 then pop st else .ok ([], st)
      let left ← tokenValue cs[0]?
      .ok ((pa .DOT :: left :: pa .LPAR :: (exprlist ++ [pa .RPAR])) :: st)
  | .dot_ident => do
      let left ← tokenValue cs[0]?
      .ok ([pa .DOT, left] :: st)
  | .ident_arg => do
      let (exprlist, st) ← if cs.length = 2 then pop st else .ok ([], st)
      let left ← tokenValue cs[0]?
      .ok ((left :: pa .LPAR :: (exprlist ++ [pa .RPAR])) :: st)
  | .ident => do
      let v ← tokenValue cs[0]?
      .ok ([v] :: st)
  | .paren_expr =>
      match st with
      | [] => .ok st
      | left :: st => .ok ((pa .LPAR :: (left ++ [pa .RPAR])) :: st)
  | .list_lit =>
      if cs.isEmpty then .ok ([] :: st)     -- pinned by tests/test_parser.py: `[]` dumps as ''
      else do
        let (left, st) ← pop st
        .ok ((pa .LSQB :: (left ++ [pa .RSQB])) :: st)
  | .map_lit =>
      if cs.isEmpty then .ok ([pa .LBRACE, pa .RBRACE] :: st)
      else do
        let (left, st) ← pop st
        .ok ((pa .LBRACE :: (left ++ [pa .RBRACE])) :: st)
  | .exprlist => do
      let (items, st) ← popN cs.length st
      .ok (joinComma items :: st)
  | .fieldinits => do
      let names := evens cs
      let values := odds cs
      if names.length ≠ values.length then .error .other   -- AssertionError
      else do
        let (exprs, st) ← popN values.length st
        let items ← zipFields names exprs
        .ok (joinComma items :: st)
  | .mapinits => do
      let keys := evens cs
      let values := odds cs
      if keys.length ≠ values.length then .error .other   -- AssertionError
      else do
        let (items, st) ← popPairs values.length st
        .ok (joinComma items :: st)
  | .literal =>
      if cs.isEmpty then .ok st else do
        let v ← tokenValue cs[0]?
        .ok ([v] :: st)
  | .member | .primary | .exprlist_star | .fieldinits_star | .mapinits_star => .ok st

mutual
/-- `Visitor_Recursive.visit`: subtrees first (left to right), then the node's own method -/
def dumpVisit : Tree → List Chunk → PyM (List Chunk)
  | .leaf _ _, st => .ok st
  | .node r cs, st => do
      let st ← dumpChildren cs st
      dumpRule r cs st
def dumpChildren : List Tree → List Chunk → PyM (List Chunk)
  | [], st => .ok st
  | c :: cs, st => do
      let st ← dumpVisit c st
      dumpChildren cs st
end

/-- `tree_dump(ast)`: `d.visit(ast); return d.stack[0]` (index 0 is the *bottom* of the stack) -/
def dump (t : Tree) : PyM Chunk := do
  let st ← dumpVisit t []
  match st.getLast? with
  | some c => .ok c
  | none => .error .indexError


/-! ## An executable parser with a checked result

`parseRaw` is a plain recursive-descent/precedence-climbing parser (fuel-bounded, unverified).
`parse` accepts its answer only after checking `render e = ts` and `wf e`, so that soundness
(`Cel.Props.C06.parse_sound`) follows from `render_derives` without reasoning about the parser. -/

def relOfTK : TK → Option RelOp
  | .LT => some .lt | .LE => some .le | .GT => some .gt | .GE => some .ge
  | .EQ => some .eq | .NE => some .ne | .IN => some .in_ | _ => none
def addOfTK : TK → Option AddOp
  | .PLUS => some .add | .MINUS => some .sub | _ => none
def mulOfTK : TK → Option MulOp
  | .STAR => some .mul | .SLASH => some .div | .PERCENT => some .mod | _ => none
def litOfTK : TK → Option LitK
  | .UINT_LIT => some .uint | .FLOAT_LIT => some .float | .INT_LIT => some .int
  | .MLSTRING_LIT => some .mlstring | .STRING_LIT => some .string | .BYTES_LIT => some .bytes
  | .BOOL_LIT => some .bool | .NULL_LIT => some .null | _ => none

abbrev P (α : Type) := List Tok → Option (α × List Tok)

def expect (k : TK) : P Unit
  | t :: ts => if t.k = k then some ((), ts) else none
  | [] => none

mutual
def pExpr : Nat → P PExpr
  | 0, _ => none
  | n + 1, ts => do
      let (c, ts) ← pOr n ts
      match ts with
      | ⟨.QMARK, _⟩ :: ts => do
          let (a, ts) ← pOr n ts
          let (_, ts) ← expect .COLON ts
          let (b, ts) ← pExpr n ts
          some (.cond c a b, ts)
      | _ => some (c, ts)
def pOr : Nat → P PExpr
  | 0, _ => none
  | n + 1, ts => do let (a, ts) ← pAnd n ts; pOrLoop n a ts
def pOrLoop : Nat → PExpr → P PExpr
  | 0, _, _ => none
  | n + 1, a, ts =>
      match ts with
      | ⟨.OROR, _⟩ :: ts => do let (b, ts) ← pAnd n ts; pOrLoop n (.or a b) ts
      | _ => some (a, ts)
def pAnd : Nat → P PExpr
  | 0, _ => none
  | n + 1, ts => do let (a, ts) ← pRel n ts; pAndLoop n a ts
def pAndLoop : Nat → PExpr → P PExpr
  | 0, _, _ => none
  | n + 1, a, ts =>
      match ts with
      | ⟨.ANDAND, _⟩ :: ts => do let (b, ts) ← pRel n ts; pAndLoop n (.and a b) ts
      | _ => some (a, ts)
def pRel : Nat → P PExpr
  | 0, _ => none
  | n + 1, ts => do let (a, ts) ← pAdd n ts; pRelLoop n a ts
def pRelLoop : Nat → PExpr → P PExpr
  | 0, _, _ => none
  | n + 1, a, ts =>
      match ts with
      | t :: ts' =>
        match relOfTK t.k with
        | some op => do let (b, ts) ← pAdd n ts'; pRelLoop n (.rel op a b) ts
        | none => some (a, ts)
      | [] => some (a, ts)
def pAdd : Nat → P PExpr
  | 0, _ => none
  | n + 1, ts => do let (a, ts) ← pMul n ts; pAddLoop n a ts
def pAddLoop : Nat → PExpr → P PExpr
  | 0, _, _ => none
  | n + 1, a, ts =>
      match ts with
      | t :: ts' =>
        match addOfTK t.k with
        | some op => do let (b, ts) ← pMul n ts'; pAddLoop n (.add op a b) ts
        | none => some (a, ts)
      | [] => some (a, ts)
def pMul : Nat → P PExpr
  | 0, _ => none
  | n + 1, ts => do let (a, ts) ← pUnary n ts; pMulLoop n a ts
def pMulLoop : Nat → PExpr → P PExpr
  | 0, _, _ => none
  | n + 1, a, ts =>
      match ts with
      | t :: ts' =>
        match mulOfTK t.k with
        | some op => do let (b, ts) ← pUnary n ts'; pMulLoop n (.mul op a b) ts
        | none => some (a, ts)
      | [] => some (a, ts)
def pUnary : Nat → P PExpr
  | 0, _ => none
  | n + 1, ts =>
      match ts with
      | ⟨.BANG, _⟩ :: ts => do let (e, ts) ← pUnary n ts; some (.not e, ts)
      | ⟨.MINUS, _⟩ :: ts => do let (e, ts) ← pUnary n ts; some (.neg e, ts)
      | _ => do let (e, ts) ← pPrimary n ts; pMemberLoop n e ts
def pMemberLoop : Nat → PExpr → P PExpr
  | 0, _, _ => none
  | n + 1, e, ts =>
      match ts with
      | ⟨.DOT, _⟩ :: ⟨.IDENT, name⟩ :: ⟨.LPAR, _⟩ :: ts => do
          let (as, ts) ← pArgs n ts
          let (_, ts) ← expect .RPAR ts
          pMemberLoop n (.dotArg e name as) ts
      | ⟨.DOT, _⟩ :: ⟨.IDENT, name⟩ :: ts => pMemberLoop n (.dot e name) ts
      | ⟨.LSQB, _⟩ :: ts => do
          let (i, ts) ← pExpr n ts
          let (_, ts) ← expect .RSQB ts
          pMemberLoop n (.index e i) ts
      | ⟨.LBRACE, _⟩ :: ts => do
          let (fs, ts) ← pFields n ts
          let (_, ts) ← expect .RBRACE ts
          pMemberLoop n (.obj e fs) ts
      | _ => some (e, ts)
def pPrimary : Nat → P PExpr
  | 0, _ => none
  | n + 1, ts =>
      match ts with
      | ⟨.DOT, _⟩ :: ⟨.IDENT, name⟩ :: ⟨.LPAR, _⟩ :: ts => do
          let (as, ts) ← pArgs n ts
          let (_, ts) ← expect .RPAR ts
          some (.dotIdentArg name as, ts)
      | ⟨.DOT, _⟩ :: ⟨.IDENT, name⟩ :: ts => some (.dotIdent name, ts)
      | ⟨.IDENT, name⟩ :: ⟨.LPAR, _⟩ :: ts => do
          let (as, ts) ← pArgs n ts
          let (_, ts) ← expect .RPAR ts
          some (.identArg name as, ts)
      | ⟨.IDENT, name⟩ :: ts => some (.ident name, ts)
      | ⟨.LPAR, _⟩ :: ts => do
          let (e, ts) ← pExpr n ts
          let (_, ts) ← expect .RPAR ts
          some (.paren e, ts)
      | ⟨.LSQB, _⟩ :: ts => do
          let (as, ts) ← pArgs n ts
          let (_, ts) ← expect .RSQB ts
          some (.list as, ts)
      | ⟨.LBRACE, _⟩ :: ts => do
          let (kvs, ts) ← pInits n ts
          let (_, ts) ← expect .RBRACE ts
          some (.map kvs, ts)
      | t :: ts =>
          match litOfTK t.k with
          | some k => some (.lit k t.s, ts)
          | none => none
      | [] => none
/-- `[exprlist]` up to (not including) the closing bracket -/
def pArgs : Nat → P PArgs
  | 0, _ => none
  | n + 1, ts =>
      match ts with
      | ⟨.RPAR, _⟩ :: _ => some (.nil, ts)
      | ⟨.RSQB, _⟩ :: _ => some (.nil, ts)
      | _ => do
          let (e, ts) ← pExpr n ts
          let (r, ts) ← pArgsTail n ts
          some (.cons e r, ts)
def pArgsTail : Nat → P PArgs
  | 0, _ => none
  | n + 1, ts =>
      match ts with
      | ⟨.COMMA, _⟩ :: ts => do
          let (e, ts) ← pExpr n ts
          let (r, ts) ← pArgsTail n ts
          some (.cons e r, ts)
      | _ => some (.nil, ts)
def pInits : Nat → P PInits
  | 0, _ => none
  | n + 1, ts =>
      match ts with
      | ⟨.RBRACE, _⟩ :: _ => some (.nil, ts)
      | _ => do
          let (k, ts) ← pExpr n ts
          let (_, ts) ← expect .COLON ts
          let (v, ts) ← pExpr n ts
          let (r, ts) ← pInitsTail n ts
          some (.cons k v r, ts)
def pInitsTail : Nat → P PInits
  | 0, _ => none
  | n + 1, ts =>
      match ts with
      | ⟨.COMMA, _⟩ :: ts => do
          let (k, ts) ← pExpr n ts
          let (_, ts) ← expect .COLON ts
          let (v, ts) ← pExpr n ts
          let (r, ts) ← pInitsTail n ts
          some (.cons k v r, ts)
      | _ => some (.nil, ts)
def pFields : Nat → P PFields
  | 0, _ => none
  | n + 1, ts =>
      match ts with
      | ⟨.RBRACE, _⟩ :: _ => some (.nil, ts)
      | ⟨.IDENT, name⟩ :: ⟨.COLON, _⟩ :: ts => do
          let (v, ts) ← pExpr n ts
          let (r, ts) ← pFieldsTail n ts
          some (.cons name v r, ts)
      | _ => none
def pFieldsTail : Nat → P PFields
  | 0, _ => none
  | n + 1, ts =>
      match ts with
      | ⟨.COMMA, _⟩ :: ⟨.IDENT, name⟩ :: ⟨.COLON, _⟩ :: ts => do
          let (v, ts) ← pExpr n ts
          let (r, ts) ← pFieldsTail n ts
          some (.cons name v r, ts)
      | _ => some (.nil, ts)
end

def parseRaw (ts : List Tok) : Option PExpr :=
  match pExpr (24 * (ts.length + 2)) ts with
  | some (e, []) => some e
  | _ => none

/-- parse a token string; `some e` only if `e` is well-formed and renders back to exactly `ts` -/
def parse (ts : List Tok) : Option PExpr :=
  match parseRaw ts with
  | some e => if render e = ts ∧ wf e = true then some e else none
  | none => none


/-! ## Words: identifiers vs. `true` / `false` / `null` / `in`

lark's contextual lexer matches the `IDENT` regex on a word and then (1) its own "unless"
callback retypes the token when the whole word equals a *string* terminal acceptable in the
current parser state (`null` → NULL_LIT, `in` → IN), (2) if the type is still IDENT, the
user callback `CELParser.ambiguous_literals` (celparser.py) retypes `true`/`false` to BOOL_LIT
(`BOOL_LIT` is a regex terminal, so lark's own mechanism does not apply to it). -/

/-- `%ignore`d terminals with their regular expressions: blanks (tab, newline, form feed, carriage
return, space) and `//` comments to the end of the line are dropped by the lexer, which is why
`render` and `Derives` work on token strings without them -/
def ignoredPatterns : List (String × String) :=
  [("COMMENT", "\\/\\/.*"), ("WHITESPACE", "[\t\n\x0c\r ]+")]

/-- `CELParser.ambiguous_literals` as a table: word ↦ new terminal -/
def ambiguousLiterals : List (String × TK) := [("true", .BOOL_LIT), ("false", .BOOL_LIT)]

/-- string terminals that match the IDENT regex (candidates of lark's "unless" callback) -/
def wordStrTerminals : List (String × TK) := [("in", .IN), ("null", .NULL_LIT)]

/-- the terminal lark assigns to word `w` in a parser state accepting the terminals `acc`
(`none`: IDENT is not acceptable there; other terminals are not modelled) -/
def lexWord (acc : List TK) (w : String) : Option TK :=
  if .IDENT ∈ acc then
    match wordStrTerminals.find? (fun p => p.1 = w && acc.contains p.2) with
    | some p => some p.2
    | none =>
      match ambiguousLiterals.find? (fun p => p.1 = w) with
      | some p => some p.2
      | none => some .IDENT
  else none

/-- The sets of terminals acceptable in the states of lark's LALR(1) automaton for cel.lark
that accept IDENT (distinct sets, each sorted by `TK.src`, the list sorted). Regenerated
from lark's parse table on every run and compared by `Cel.Bridge.Grammar`. -/
def identAcceptSets : List (List TK) := [
  [.BANG, .LPAR, .RPAR, .MINUS, .DOT, .LSQB, .LBRACE, .BOOL_LIT, .BYTES_LIT, .FLOAT_LIT, .IDENT, .INT_LIT, .MLSTRING_LIT, .NULL_LIT, .STRING_LIT, .UINT_LIT],
  [.BANG, .LPAR, .MINUS, .DOT, .LSQB, .RSQB, .LBRACE, .BOOL_LIT, .BYTES_LIT, .FLOAT_LIT, .IDENT, .INT_LIT, .MLSTRING_LIT, .NULL_LIT, .STRING_LIT, .UINT_LIT],
  [.BANG, .LPAR, .MINUS, .DOT, .LSQB, .LBRACE, .RBRACE, .BOOL_LIT, .BYTES_LIT, .FLOAT_LIT, .IDENT, .INT_LIT, .MLSTRING_LIT, .NULL_LIT, .STRING_LIT, .UINT_LIT],
  [.BANG, .LPAR, .MINUS, .DOT, .LSQB, .LBRACE, .BOOL_LIT, .BYTES_LIT, .FLOAT_LIT, .IDENT, .INT_LIT, .MLSTRING_LIT, .NULL_LIT, .STRING_LIT, .UINT_LIT],
  [.RBRACE, .IDENT],
  [.IDENT]
]

/-! ## Text helpers for the driver -/

def hexDigit (n : Nat) : Char := if n < 10 then Char.ofNat (48 + n) else Char.ofNat (87 + n)
def hexOfString (s : String) : String :=
  String.ofList (s.toUTF8.toList.flatMap fun b => [hexDigit (b.toNat / 16), hexDigit (b.toNat % 16)])
def hexVal (c : Char) : Option Nat :=
  if '0' ≤ c ∧ c ≤ '9' then some (c.toNat - 48)
  else if 'a' ≤ c ∧ c ≤ 'f' then some (c.toNat - 87) else none
def bytesOfHex : List Char → Option (List UInt8)
  | [] => some []
  | a :: b :: r => do
      let x ← hexVal a; let y ← hexVal b; let rest ← bytesOfHex r
      some (UInt8.ofNat (16 * x + y) :: rest)
  | _ => none
def stringOfHex (h : String) : Option String := do
  let bs ← bytesOfHex h.toList
  String.fromUTF8? (ByteArray.mk bs.toArray)

mutual
/-- `rule(child child …)`, leaves as `KIND:hex(text)` -/
def Tree.show : Tree → String
  | .leaf k s => k.src ++ ":" ++ hexOfString s
  | .node r cs => r.name ++ "(" ++ Tree.showList cs ++ ")"
def Tree.showList : List Tree → String
  | [] => ""
  | [c] => c.show
  | c :: cs => c.show ++ " " ++ Tree.showList cs
end


end Cel.Grammar
