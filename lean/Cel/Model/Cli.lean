/-
  Cel.Model.Cli — the status and output functions of the command line driver
  (`src/celpy/__main__.py`: `main`, `process_json_doc`, `get_options`, `arg_type_value`).

  The expression is abstracted to what `main` can observe of `prgm.evaluate(activation)`:
  an `Outcome` as a *function of the activation* (`Prog δ`; that evaluation is a function of the
  bindings is property C05).  The activation dict is threaded through the NDJSON loop exactly as the
  code does (`activation[variable] = …` overwrites in place, the dict object is reused between lines),
  so "the k-th output depends only on the k-th document" is a theorem about this state, not a
  definition.  stdout is the list of printed lines; the status is `PyM Nat` (an exception other than
  the ones `main` handles escapes and aborts the stream — outside the property's stated fragment).

  The numeric constants are named (`St.*`) and bridged to the constants regenerated from
  `__main__.py` (Cel.Gen.CliStatus / Cel.Bridge.Cli).  Core Lean only.
-/
import Cel.Model.Basic
namespace Cel.Cli
open Cel

/-! ### status constants (bridged to the source) -/
namespace St
/-- `except CELParseError: … return 1` -/
def parseError : Nat := 1
/-- `-n -b`: `summary = 0 if result_value else 1` -/
def nullTrue : Nat := 0
def nullFalse : Nat := 1
/-- `-n -b`, result is not a boolean: `summary = 2` -/
def nullNonBool : Nat := 2
/-- `-n` without `-b`: `output_display(result_value); summary = 0` -/
def nullPlain : Nat := 0
/-- `-n`: `except CELEvalError: … summary = 2` -/
def nullEvalError : Nat := 2
/-- `process_json_doc`: `return 0 if result_value else 1` under `boolean_to_status` -/
def docTrue : Nat := 0
def docFalse : Nat := 1
/-- `process_json_doc`: `return 0` -/
def docPlain : Nat := 0
/-- `process_json_doc`: `except CELEvalError: display(None); return 0` -/
def docEvalError : Nat := 0
/-- `process_json_doc`: `except json.decoder.JSONDecodeError: … return 3` -/
def docMalformed : Nat := 3
/-- NDJSON loop: `summary = 0` before the loop -/
def ndjsonInit : Nat := 0
/-- argparse `parser.error(...)` / a rejected `--arg`: `SystemExit(2)` -/
def usage : Nat := 2
end St

/-! ### what `main` observes of an evaluation -/

/-- result of `prgm.evaluate(activation)` followed by `display(...)`, as `main` sees it -/
inductive Outcome where
  | bool (b : Bool)          -- a `BoolType` / `bool`
  | value (text : String)    -- any other value; `text` is `json.dumps(value, cls=CELJSONEncoder)`
  | evalError                -- `CELEvalError` is raised
  | escape (e : Exc)         -- anything else is raised (by `evaluate` or by `json.dumps`): not handled by `main`
  deriving Repr, Inhabited, DecidableEq

/-- the JSON text `output_display` prints for a boolean -/
def boolText (b : Bool) : String := if b then "true" else "false"

/-- the activation: an insertion-ordered dict from names to bound values -/
abbrev Activation (δ : Type) := List (String × δ)

/-- `activation[variable] = value`: overwrite in place, else append -/
def setVar {δ : Type} : Activation δ → String → δ → Activation δ
  | [], k, v => [(k, v)]
  | (k', v') :: rest, k, v => if k' = k then (k', v) :: rest else (k', v') :: setVar rest k v

/-- the compiled program: evaluation as a function of the activation -/
abbrev Prog (δ : Type) := Activation δ → Outcome

/-- what `json.loads(document, cls=CELJSONDecoder)` does with one input text -/
inductive Line (δ : Type) where
  | json (d : δ)             -- a JSON document, converted
  | malformed                -- `json.decoder.JSONDecodeError` (not JSON, blank line, …)
  | escape (e : Exc)         -- another exception (an integer outside int64: ValueError) — not handled
  deriving Repr, Inhabited

/-- output lines and status of a piece of `main` -/
structure Res where
  out : List String
  status : PyM Nat
  deriving Repr, Inhabited

/-! ### `process_json_doc` -/

/-- `process_json_doc(display, prgm, activation, variable, document, boolean_to_status)`:
returns the (mutated) activation, the printed lines and the status. -/
def processJsonDoc {δ : Type} (prg : Prog δ) (b : Bool) (act : Activation δ) (var : String) :
    Line δ → Activation δ × Res
  | .malformed => (act, ⟨[], .ok St.docMalformed⟩)
  | .escape e => (act, ⟨[], .error e⟩)
  | .json d =>
      let act' := setVar act var d
      match prg act' with
      | .bool v => (act', ⟨[boolText v], .ok (if b then (if v then St.docTrue else St.docFalse) else St.docPlain)⟩)
      | .value t => (act', ⟨[t], .ok St.docPlain⟩)
      | .evalError => (act', ⟨["null"], .ok St.docEvalError⟩)
      | .escape e => (act', ⟨[], .error e⟩)

/-- printed lines of one document, from a given activation -/
def docOut {δ : Type} (prg : Prog δ) (b : Bool) (act : Activation δ) (var : String) (l : Line δ) : List String :=
  (processJsonDoc prg b act var l).2.out
/-- status of one document, from a given activation -/
def docStatus {δ : Type} (prg : Prog δ) (b : Bool) (act : Activation δ) (var : String) (l : Line δ) : PyM Nat :=
  (processJsonDoc prg b act var l).2.status

/-! ### the NDJSON loop: `summary = 0; for document in sys.stdin: summary = max(summary, process_json_doc(…))` -/

def ndjsonLoop {δ : Type} (prg : Prog δ) (b : Bool) (var : String) :
    Activation δ → List (Line δ) → Nat → Res
  | _, [], s => ⟨[], .ok s⟩
  | act, l :: ls, s =>
      let (act', r) := processJsonDoc prg b act var l
      match r.status with
      | .error e => ⟨r.out, .error e⟩                 -- the exception leaves `main`: nothing more is read
      | .ok st =>
          let rest := ndjsonLoop prg b var act' ls (max s st)
          ⟨r.out ++ rest.out, rest.status⟩

def ndjson {δ : Type} (prg : Prog δ) (b : Bool) (var : String) (act : Activation δ) (ls : List (Line δ)) : Res :=
  ndjsonLoop prg b var act ls St.ndjsonInit

/-! ### the input text: `for document in sys.stdin` -/

/-- `for document in sys.stdin`: the input text cut after every `'\n'` (text-mode line iteration; the `'\n'` stays at the
end of its line; a last line without `'\n'` is a line; no other character ends a line) -/
def splitLines : List Char → List (List Char)
  | [] => []
  | c :: cs =>
      if c = '\n' then [c] :: splitLines cs
      else match splitLines cs with
        | [] => [[c]]
        | l :: ls => (c :: l) :: ls

/-- the NDJSON branch on the input TEXT: every line of `for document in sys.stdin` is handed to the JSON decoder
(`decode`: the text of one line ↦ what `json.loads(document, cls=CELJSONDecoder)` does with it) -/
def ndjsonText {δ : Type} (prg : Prog δ) (b : Bool) (var : String) (act : Activation δ) (decode : List Char → Line δ)
    (text : List Char) : Res :=
  ndjson prg b var act ((splitLines text).map decode)

/-! ### `--null-input` -/

/-- the `if options.null_input:` branch of `main` -/
def nullInput (b : Bool) : Outcome → Res
  | .bool v => if b then ⟨[], .ok (if v then St.nullTrue else St.nullFalse)⟩ else ⟨[boolText v], .ok St.nullPlain⟩
  | .value t => if b then ⟨[], .ok St.nullNonBool⟩ else ⟨[t], .ok St.nullPlain⟩
  | .evalError => ⟨[], .ok St.nullEvalError⟩
  | .escape e => ⟨[], .error e⟩

/-! ### `get_options` / `arg_type_value` -/

/-- the keys of `CLI_ARG_TYPES` with the converter each selects -/
def cliArgTypes : List (String × String) :=
  [("int", "IntType"), ("uint", "UintType"), ("double", "DoubleType"), ("bool", "BoolType"),
   ("string", "StringType"), ("bytes", "BytesType"), ("list", "ListType.literal_eval"), ("map", "MapType.literal_eval"),
   ("null_type", "None"), ("single_duration", "DurationType"), ("single_timestamp", "TimestampType"),
   ("int64_value", "IntType"), ("uint64_value", "UintType"), ("double_value", "DoubleType"),
   ("bool_value", "BoolType"), ("string_value", "StringType"), ("bytes_value", "BytesType"),
   ("number_value", "DoubleType"), ("null_value", "None")]

/-- one `--arg name[:type][=value]` as far as acceptance goes: the type name (if any) and whether the
converter raises `ValueError` on the text -/
structure ArgSpec where
  typeName : Option String
  convRaisesValueError : Bool
  deriving Repr, Inhabited

/-- `arg_type_value`: no type → StringType, accepted; unknown type (KeyError) or ValueError from the converter →
`argparse.ArgumentTypeError` → usage error -/
def argAccepted (a : ArgSpec) : Bool :=
  match a.typeName with
  | none => true
  | some t => (cliArgTypes.any (fun p => p.1 == t)) && !a.convRaisesValueError

/-- `--json-package` / `--json-document`: `if not package and not document: package = "jq"`;
the variable bound to each document is `options.document or options.package` -/
def defaultPackage : String := "jq"
def varName (package document : Option String) : String :=
  match document with
  | some d => d
  | none => match package with
      | some p => p
      | none => defaultPackage

/-- `Environment(package=None if options.null_input else options.package, …)` -/
def envPackage (nullIn : Bool) (package document : Option String) : Option String :=
  if nullIn then none else
  match package, document with
  | some p, _ => some p
  | none, some _ => none
  | none, none => some defaultPackage

/-! ### `main` -/

inductive Mode where
  | nullInput | slurp | ndjson
  deriving Repr, Inhabited, DecidableEq

/-- what `main` reads: for `-n` nothing, for `-s` the whole of stdin as one text, else the lines -/
structure Invocation (δ : Type) where
  argsOk : Bool                 -- `get_options` accepts the command line (every `--arg` accepted, not both -p and -d, an expression given)
  compiles : Bool               -- `env.compile` / `env.program` succeed (else CELParseError)
  mode : Mode
  boolean : Bool
  var : String                  -- `options.document or options.package`
  act : Activation δ            -- the `--arg` bindings
  prg : Prog δ
  whole : Line δ                -- stdin as one document (slurp)
  lines : List (Line δ)         -- stdin line by line (NDJSON)

/-- `main(argv)`: stdout lines and return value (`SystemExit(2)` of argparse shown as status 2) -/
def main {δ : Type} (inv : Invocation δ) : Res :=
  if !inv.argsOk then ⟨[], .ok St.usage⟩
  else if !inv.compiles then ⟨[], .ok St.parseError⟩
  else match inv.mode with
    | .nullInput => nullInput inv.boolean (inv.prg inv.act)
    | .slurp => (processJsonDoc inv.prg inv.boolean inv.act inv.var inv.whole).2
    | .ndjson => ndjson inv.prg inv.boolean inv.var inv.act inv.lines

end Cel.Cli
