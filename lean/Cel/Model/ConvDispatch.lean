/-
  Cel.Model.ConvDispatch — the vocabulary in which the `__new__` dispatch ladders of the celtypes
  constructors are compared SEMANTICALLY (C10, round 2): the exact class of the object that reaches
  a constructor, Python's `isinstance` over the class hierarchy, and the two text tests the ladders
  use (`source[:n] in {...}`, `source in (...)`).

  `Cel.Gen.Conv` (regenerated from celtypes.py on every run) turns every ladder into a function
  `Cls → Text → String` — for an object of exactly that class (and, for text, that content), the
  statements the constructor executes; `Cel.Bridge.Conv` proves it equal, for ALL classes and ALL
  texts, to the pinned function the model was written from.  Nested vs. compound conditions,
  `elif` chains vs. early returns, the order of the members of an `isinstance` tuple or of a set
  literal do not matter; which statements run for which source does.

  Core Lean only.
-/
namespace Cel.Conv

/-- the classes the ladders can name or meet: builtins, `collections.abc.Iterable`, the celtypes
classes; `object` stands for any class not otherwise listed -/
inductive Cls where
  | NoneType | object | bool | int | float | str | bytes | list | dict | datetime | timedelta | Iterable
  | BoolType | IntType | UintType | DoubleType | StringType | BytesType | ListType | MapType
  | MessageType | PackageType | TimestampType | DurationType | NullType
deriving DecidableEq, Repr, Inhabited

/-- direct base of each celtypes class, as the `class X(Base)` statements say (regenerated:
`Cel.Gen.Conv.classBases`, bridge `classBases_eq`) -/
def celBases : List (Cls × Cls) :=
  [(.BoolType, .int), (.BytesType, .bytes), (.DoubleType, .float), (.DurationType, .timedelta), (.IntType, .int),
   (.ListType, .list), (.MapType, .dict), (.MessageType, .MapType), (.NullType, .object), (.PackageType, .MapType),
   (.StringType, .str), (.TimestampType, .datetime), (.UintType, .int)]

/-- `type(x).__mro__` plus the virtual base `Iterable`, for an object whose exact class is `c` -/
def ancestors : Cls → List Cls
  | .NoneType => [.NoneType, .object]
  | .object => [.object]
  | .bool => [.bool, .int, .object]
  | .int => [.int, .object]
  | .float => [.float, .object]
  | .str => [.str, .Iterable, .object]
  | .bytes => [.bytes, .Iterable, .object]
  | .list => [.list, .Iterable, .object]
  | .dict => [.dict, .Iterable, .object]
  | .datetime => [.datetime, .object]
  | .timedelta => [.timedelta, .object]
  | .Iterable => [.Iterable, .object]
  | .BoolType => [.BoolType, .int, .object]
  | .IntType => [.IntType, .int, .object]
  | .UintType => [.UintType, .int, .object]
  | .DoubleType => [.DoubleType, .float, .object]
  | .StringType => [.StringType, .str, .Iterable, .object]
  | .BytesType => [.BytesType, .bytes, .Iterable, .object]
  | .ListType => [.ListType, .list, .Iterable, .object]
  | .MapType => [.MapType, .dict, .Iterable, .object]
  | .MessageType => [.MessageType, .MapType, .dict, .Iterable, .object]
  | .PackageType => [.PackageType, .MapType, .dict, .Iterable, .object]
  | .TimestampType => [.TimestampType, .datetime, .object]
  | .DurationType => [.DurationType, .timedelta, .object]
  | .NullType => [.NullType, .object]

/-- `isinstance(x, (c1, …, cn))` for an object of exact class `k`; `x is None` is `isInst k [.NoneType]` -/
def isInst (k : Cls) (cs : List Cls) : Bool := cs.any (fun c => (ancestors k).contains c)

/-- `source[:n] in {t1, …}` on text (lists of code points) -/
def prefixIn (t : List Nat) (n : Nat) (opts : List (List Nat)) : Bool := opts.contains (t.take n)

/-- `source in (t1, …)` on text -/
def textIn (t : List Nat) (opts : List (List Nat)) : Bool := opts.contains t

end Cel.Conv
