/-
  Cel.Model.Names — name resolution of cel-python (property C12).

  Mirrors (src/celpy/evaluation.py):
    Referent (annotation / container / value; `.value` prefers the container, then the value, then
              the annotation), NameContainer.load_annotations / load_values (dotted names expanded
              into nested containers), find_name / dict_find_name, resolve_name (package loop,
              parent chain, longest match), Activation.resolve_variable / __getattr__,
    Evaluator.member_dot and the transpiled `.get('f')` on a NameContainer / MapType,
    macro variable binding: `nested_activation(vars={x: v})` (= a new container in front of the
    parent chain) in both runners.

  A `NameContainer` is a list of entries `name ↦ Node`; a `Node` is a `Referent`: annotation, value
  and the entries of its nested container (no entries = `container is None`; load_* never leaves an
  empty container behind).  Core Lean only.
-/
import Cel.Model.Basic
namespace Cel.Names

/-- values: what bindings hold and what references evaluate to.  `ncobj` is a `NameContainer`
object that leaked out as a result, `annobj` a declared type used as a value. -/
inductive Val where
  | null                                   -- CEL `null` (Python `None`): a value like any other
  | int (n : Int)
  | map (kvs : List (String × Val))
  | list (xs : List Val)
  | ncobj
  | annobj (a : Nat)
  deriving Repr, Inhabited

mutual
def Val.show : Val → String
  | .null => "null"
  | .int n => toString n
  | .map kvs => "{" ++ Val.showPairs kvs ++ "}"
  | .list xs => "[" ++ Val.showList xs ++ "]"
  | .ncobj => "NC"
  | .annobj a => "T" ++ toString a
def Val.showList : List Val → String
  | [] => ""
  | [x] => Val.show x
  | x :: xs => Val.show x ++ "," ++ Val.showList xs
def Val.showPairs : List (String × Val) → String
  | [] => ""
  | [(k, v)] => k ++ ":" ++ Val.show v
  | (k, v) :: kvs => k ++ ":" ++ Val.show v ++ "," ++ Val.showPairs kvs
end

/-- a `Referent` together with the entries of its nested `NameContainer` -/
inductive Node where
  | mk (ann : Option Nat) (value : Option Val) (kids : List (String × Node))
  deriving Repr, Inhabited

abbrev NC := List (String × Node)

def Node.ann : Node → Option Nat | .mk a _ _ => a
def Node.value : Node → Option Val | .mk _ v _ => v
def Node.kids : Node → NC | .mk _ _ k => k

def Node.empty : Node := .mk none none []

/-- association-list lookup (`dict.__getitem__`, `in`) -/
def lookup {α : Type} (name : String) : List (String × α) → Option α
  | [] => none
  | (k, v) :: rest => if k = name then some v else lookup name rest

/-- `context.setdefault(name, Referent())` followed by an update of that entry -/
def upsert (nc : NC) (name : String) (f : Node → Node) : NC :=
  match nc with
  | [] => [(name, f Node.empty)]
  | (k, n) :: rest => if k = name then (k, f n) :: rest else (k, n) :: upsert rest name f

/-- one iteration of `load_values`: `"n1.n2.….final": v` -/
def setValue (nc : NC) (path : List String) (v : Val) : NC :=
  match path with
  | [] => nc
  | [final] => upsert nc final (fun n => .mk n.ann (some v) n.kids)
  | name :: rest => upsert nc name (fun n => .mk n.ann n.value (setValue n.kids rest v))

/-- one iteration of `load_annotations`: `context.setdefault(final, Referent(a))` keeps an existing entry -/
def setAnn (nc : NC) (path : List String) (a : Nat) : NC :=
  match path with
  | [] => nc
  | [final] => match lookup final nc with
      | some _ => nc
      | none => nc ++ [(final, .mk (some a) none [])]
  | name :: rest => upsert nc name (fun n => .mk n.ann n.value (setAnn n.kids rest a))

def loadValues (nc : NC) (bs : List (List String × Val)) : NC :=
  bs.foldl (fun acc b => setValue acc b.1 b.2) nc

def loadAnnotations (nc : NC) (ds : List (List String × Nat)) : NC :=
  ds.foldl (fun acc d => setAnn acc d.1 d.2) nc

/-- what a lookup produces: `Referent.value` (and `Activation.__getattr__`, which agrees with it):
the container if there is one, else the value if set, else the annotation -/
inductive Res where
  | val (v : Val)
  | nc (c : NC)
  | ann (a : Nat)
  | nothing
  deriving Repr, Inhabited

def Node.result : Node → Res
  | .mk a v kids =>
      if !kids.isEmpty then .nc kids
      else match v with
        | some v => .val v
        | none => match a with
          | some a => .ann a
          | none => .nothing

inductive FErr | notFound | typeErr
  deriving DecidableEq, Repr

/-- `NameContainer.dict_find_name`: navigation inside a bound mapping value -/
def dictFind (v : Val) (path : List String) : Except FErr Res :=
  match path with
  | [] => .ok (.val v)
  | h :: t => match v with
      | .map kvs => match lookup h kvs with
          | some v' => dictFind v' t
          | none => .error .notFound
      | _ => .error .typeErr

/-- `NameContainer.find_name` -/
def findName (nc : NC) (path : List String) : Except FErr Res :=
  match path with
  | [] => .ok (.nc nc)
  | head :: tail => match lookup head nc with
      | none => .error .notFound
      | some node =>
          if tail.isEmpty then .ok node.result
          else if !node.kids.isEmpty then findName node.kids tail
          else match node.value with
            | some (.map kvs) => dictFind (.map kvs) tail
            | _ => .error .typeErr

/-- `target` candidates of `resolve_name`: the package path, then each shorter prefix, then the root -/
def targets (p : List String) : List (List String) :=
  (List.range (p.length + 1)).reverse.map fun k => p.take k

/-- the first container of the parent chain in which `target ++ [name]` is found -/
def resolveAt (chain : List NC) (target : List String) (name : String) : Option Res :=
  chain.findSome? fun nc =>
    match findName nc (target ++ [name]) with
    | .ok r => some r
    | .error _ => none

/-- `NameContainer.resolve_name(package, name)`; `none` = `KeyError` -/
def resolveName (chain : List NC) (pkg : List String) (name : String) : Option Res :=
  (targets pkg).findSome? fun t => resolveAt chain t name

/-- `member.f` (`Evaluator.member_dot`; the transpiled `.get('f')` agrees on these kinds) -/
def memberDot (r : Res) (f : String) : Option Res :=
  match r with
  | .nc c => (lookup f c).map Node.result
  | .val (.map kvs) => (lookup f kvs).map Res.val
  | _ => none

def Res.toVal : Res → Option Val
  | .val v => some v
  | .nc _ => some .ncobj
  | .ann a => some (.annobj a)
  | .nothing => none

/-! ### expressions: references, literals, list construction, the `map` macro -/

inductive NE where
  | ref (head : String) (rest : List String)
  | lit (v : Val)
  | list (es : List NE)
  | map (c : NE) (x : String) (body : NE)
  deriving Repr, Inhabited

inductive Runner | I | C
  deriving DecidableEq, Repr

/-- binding of a macro variable: a fresh container `{x: v}` in front of the chain, for both runners
(transpiled: `activation.nested_activation(vars={x: v})`; interpreter: the sub-expression evaluator's
`set_activation` uses `nested_activation` as well) -/
def bindVar (_r : Runner) (chain : List NC) (x : String) (v : Val) : List NC :=
  setValue [] [x] v :: chain

def mapOpt {α β : Type} (f : α → Option β) : List α → Option (List β)
  | [] => some []
  | x :: xs => do let y ← f x; let ys ← mapOpt f xs; pure (y :: ys)

mutual
/-- evaluation; `none` = evaluation error -/
def eval (r : Runner) (pkg : List String) : List NC → NE → Option Val
  | chain, .ref head rest => do
      let r0 ← resolveName chain pkg head
      let res ← rest.foldlM memberDot r0
      res.toVal
  | _, .lit v => some v
  | chain, .list es => do let vs ← evalList r pkg chain es; pure (.list vs)
  | chain, .map c x body => do
      match (← eval r pkg chain c) with
      | .list vs => do
          let ws ← mapOpt (fun v => eval r pkg (bindVar r chain x v) body) vs
          pure (.list ws)
      | _ => none
def evalList (r : Runner) (pkg : List String) : List NC → List NE → Option (List Val)
  | _, [] => some []
  | chain, e :: es => do
      let v ← eval r pkg chain e
      let vs ← evalList r pkg chain es
      pure (v :: vs)
end

/-- `Environment(annotations=ds, package=pkg).program(e).evaluate(bs)` -/
def run (r : Runner) (ds : List (List String × Nat)) (bs : List (List String × Val)) (pkg : List String)
    (e : NE) : String :=
  match eval r pkg [loadValues (loadAnnotations [] ds) bs] e with
  | some v => v.show
  | none => "err"

/-! ### the specification: longest bound prefix -/

/-- the value bound to exactly this dotted name (the last binding wins, as in a `dict`) -/
def boundAt (bs : List (List String × Val)) (p : List String) : Option Val :=
  (bs.reverse.find? (fun b => b.1 == p)).map (·.2)

/-- some binding's name starts with `p` -/
def bindsUnder (bs : List (List String × Val)) (p : List String) : Bool :=
  bs.any (fun b => p.isPrefixOf b.1)

/-- field selections `v.f₁.f₂…` -/
def selectFields (v : Val) : List String → Option Val
  | [] => some v
  | f :: fs => match v with
      | .map kvs => match lookup f kvs with
          | some v' => selectFields v' fs
          | none => none
      | _ => none

/-- the longest prefix `full.take k` (`k ≥ lo`) that is a bound name, tried from the longest -/
def longestBound (bs : List (List String × Val)) (full : List String) (lo : Nat) : Nat → Option (Nat × Val)
  | 0 => none
  | k+1 =>
      if k + 1 < lo then none
      else match boundAt bs (full.take (k+1)) with
        | some v => some (k+1, v)
        | none => longestBound bs full lo k

/-- `denote bs pkg ref`: the first package level (`p.q`, `p`, root) that binds the head identifier;
within it the binding with the longest dotted prefix of the reference; the remaining components
are field selections.  `none` = error. -/
def denote (bs : List (List String × Val)) (pkg : List String) (head : String) (rest : List String) :
    Option Val :=
  let r : Option (Option Val) := (targets pkg).findSome? fun level =>
    if bindsUnder bs (level ++ [head]) then
      let full := level ++ head :: rest
      some (match longestBound bs full (level.length + 1) full.length with
        | some (k, v) => selectFields v (full.drop k)
        | none => none)
    else none
  r.join

end Cel.Names
