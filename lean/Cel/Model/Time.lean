/-
  Cel.Model.Time — timestamps, durations, the proleptic Gregorian calendar and the
  timestamp / duration accessors of cel-python (src/celpy/celtypes.py, classes
  `TimestampType`, `DurationType`; src/celpy/evaluation.py `function_get*`, `addition`).

  Representation.
  * An instant on the local clock of a timestamp is an `Int` number of microseconds since
    0001-01-01T00:00:00 (the first representable `datetime`); `maxLoc` is
    9999-12-31T23:59:59.999999.  A `TimestampType` is an aware `datetime`: local clock
    fields plus a UTC offset; `Ts.loc` / `Ts.off` (both µs).  Python keeps the LOCAL fields
    in range; the UTC instant `loc - off` may lie up to a day outside.
  * A `DurationType` is a `timedelta`: an `Int` number of microseconds.
  * The floats that the code still goes through (`timedelta.total_seconds()` in `__str__`, in the
    duration getters and in `int(timestamp)`) are modelled EXACTLY as dyadic rationals `Dy` with
    IEEE-754 binary64 round-to-nearest-even (`rnd`), unbounded exponent (no overflow / subnormals:
    the magnitudes that occur are between 1e-7 and 1e18). Duration TEXT is summed in exact fractions
    (`Q`), as the code does since the fix of D52.
  * The calendar mirrors CPython's `_ymd2ord` / `_ord2ymd` (Lib/_pydatetime.py), factored
    through the 400-year era so that proofs can use periodicity.  `datetime` itself is
    trusted and swept against this model on every run.
  * IANA zones are opaque: the harness passes the UTC offset in force (`pendulum`/`zoneinfo`).

  Core Lean only.
-/
import Cel.Model.Basic
namespace Cel.Time

/-! ## 1. exact binary64 rounding -/

/-- dyadic rational `num / 2^k` (the exact value of a finite double) -/
structure Dy where
  num : Int
  k : Nat
deriving Repr, Inhabited

/-- round-half-even of the rational `n / d` (`d > 0`) to a natural number -/
def rne (n d : Nat) : Nat :=
  if 2 * (n % d) < d then n / d
  else if d < 2 * (n % d) then n / d + 1
  else if n / d % 2 = 0 then n / d else n / d + 1

def bitlen (n : Nat) : Nat := if n = 0 then 0 else Nat.log2 n + 1

/-- binary64 nearest-even rounding of `n / d` scaled up by `2^s`: value `rne(n·2^s/d) / 2^s` -/
def rndUp (n d s : Nat) : Dy := ⟨(rne (n * 2 ^ s) d : Nat), s⟩
/-- … scaled down by `2^s`: value `rne(n/(d·2^s)) · 2^s` -/
def rndDown (n d s : Nat) : Dy := ⟨((rne n (d * 2 ^ s) * 2 ^ s : Nat) : Int), 0⟩

/-- shift `s` (as `up`/`down` amount) for which `⌊n·2^s/d⌋` has exactly 53 bits -/
def shiftFor (n d : Nat) : Int :=
  let s0 : Int := 53 + (bitlen d : Int) - (bitlen n : Int)
  let q0 : Nat := if 0 ≤ s0 then n * 2 ^ s0.toNat / d else n / (d * 2 ^ (-s0).toNat)
  if 2 ^ 53 ≤ q0 then s0 - 1 else s0

/-- the binary64 value nearest to `n / d` (ties to even), `d > 0` -/
def rndNat (n d : Nat) : Dy :=
  if n = 0 then ⟨0, 0⟩
  else
    let s := shiftFor n d
    if 0 ≤ s then rndUp n d s.toNat else rndDown n d (-s).toNat

def Dy.neg (x : Dy) : Dy := ⟨-x.num, x.k⟩

/-- the binary64 value nearest to the rational `n / d` -/
def rnd (n : Int) (d : Nat) : Dy :=
  if n < 0 then (rndNat n.natAbs d).neg else rndNat n.natAbs d

namespace Dy
def ofInt (z : Int) : Dy := ⟨z, 0⟩
/-- Python `int(x)` / `math.trunc(x)` -/
def trunc (x : Dy) : Int := Int.tdiv x.num ((2 ^ x.k : Nat) : Int)
/-- Python `x <= z` for a float `x` and an int `z` (exact comparison) -/
def leInt (x : Dy) (z : Int) : Bool := decide (x.num ≤ z * ((2 ^ x.k : Nat) : Int))
def geInt (x : Dy) (z : Int) : Bool := decide (z * ((2 ^ x.k : Nat) : Int) ≤ x.num)
/-- `fl(x * p / q)` for an exact rational factor -/
def mulQ (x : Dy) (p : Int) (q : Nat) : Dy := rnd (x.num * p) (2 ^ x.k * q)
end Dy

/-- round-half-even of the rational `n / d` to an integer (sign-symmetric) -/
def rneInt (n : Int) (d : Nat) : Int :=
  if n < 0 then -((rne n.natAbs d : Nat) : Int) else ((rne n.natAbs d : Nat) : Int)

/-! ## 2. proleptic Gregorian calendar (CPython `_pydatetime`) -/

def isLeap (y : Nat) : Bool := Nat.beq (y % 4) 0 && (!(Nat.beq (y % 100) 0) || Nat.beq (y % 400) 0)

/-- `_days_before_year(y)`, `y ≥ 1` -/
def daysBeforeYear (y : Nat) : Nat := (y - 1) * 365 + (y - 1) / 4 + (y - 1) / 400 - (y - 1) / 100

/-- `_DAYS_BEFORE_MONTH[m]` -/
def dbmTable (m : Nat) : Nat :=
  bif Nat.beq m 1 then 0 else bif Nat.beq m 2 then 31 else bif Nat.beq m 3 then 59 else
  bif Nat.beq m 4 then 90 else bif Nat.beq m 5 then 120 else bif Nat.beq m 6 then 151 else
  bif Nat.beq m 7 then 181 else bif Nat.beq m 8 then 212 else bif Nat.beq m 9 then 243 else
  bif Nat.beq m 10 then 273 else bif Nat.beq m 11 then 304 else bif Nat.beq m 12 then 334 else 0

/-- `_DAYS_IN_MONTH[m]` -/
def dimTable (m : Nat) : Nat :=
  bif Nat.beq m 2 then 28
  else bif Nat.beq m 4 || Nat.beq m 6 || Nat.beq m 9 || Nat.beq m 11 then 30 else 31

/-- `_days_in_month(y, m)` -/
def daysInMonth (y m : Nat) : Nat := bif Nat.beq m 2 && isLeap y then 29 else dimTable m
/-- `_days_before_month(y, m)` -/
def daysBeforeMonth (y m : Nat) : Nat := dbmTable m + (bif Nat.blt 2 m && isLeap y then 1 else 0)

/-- day index of a civil date: `_ymd2ord(y, m, d) - 1` (0001-01-01 ↦ 0) -/
def daysOfCivil (y m d : Nat) : Nat := daysBeforeYear y + daysBeforeMonth y m + d - 1

def validDate (y m d : Nat) : Prop := 1 ≤ y ∧ 1 ≤ m ∧ m ≤ 12 ∧ 1 ≤ d ∧ d ≤ daysInMonth y m
instance (y m d : Nat) : Decidable (validDate y m d) := by unfold validDate; exact inferInstance

/-- the 100/4/1-year cycle part of `_ord2ymd` on a day index inside one 400-year era
(`n0 < 146097`): year within the era (1..400), 0-based day of the year, leap flag; the two
`n1 == 4 or n100 == 4` exits (Dec 31 closing a 4-year / 400-year cycle) are folded in. -/
def yearInEra (n0 : Nat) : Nat × Nat × Bool :=
  let n100 := n0 / 36524
  let n4 := n0 % 36524 / 1461
  let n1 := n0 % 36524 % 1461 / 365
  let n := n0 % 36524 % 1461 % 365
  let year := 1 + n100 * 100 + n4 * 4 + n1
  bif Nat.beq n1 4 || Nat.beq n100 4 then (year - 1, 365, true)
  else (year, n, Nat.beq n1 3 && (!(Nat.beq n4 24) || Nat.beq n100 3))

/-- the month estimate of `_ord2ymd`: `(n + 50) >> 5`, corrected downwards once -/
def monthDay (leap : Bool) (n : Nat) : Nat × Nat :=
  let month := (n + 50) / 32
  let preceding := dbmTable month + (bif Nat.blt 2 month && leap then 1 else 0)
  bif Nat.blt n preceding then
    (month - 1, n - (preceding - (dimTable (month - 1) + (bif Nat.beq (month - 1) 2 && leap then 1 else 0))) + 1)
  else (month, n - preceding + 1)

/-- `_ord2ymd(n + 1)`: civil date (year, month 1..12, day 1..31) of a day index -/
def civilOfDays (n : Nat) : Nat × Nat × Nat :=
  let yi := yearInEra (n % 146097)
  let md := monthDay yi.2.2 yi.2.1
  (n / 146097 * 400 + yi.1, md.1, md.2)

/-- `date.toordinal()` -/
def toordinal (n : Nat) : Nat := n + 1
/-- `date.isoweekday()`: `toordinal() % 7 or 7` (Monday = 1 … Sunday = 7) -/
def isoweekday (n : Nat) : Nat := if toordinal n % 7 = 0 then 7 else toordinal n % 7

/-! ## 3. timestamps and durations -/

def usPerDay : Int := 86400000000
/-- number of days from 0001-01-01 to 10000-01-01 (`date.max.toordinal()`) -/
def maxDays : Int := 3652059
/-- local clock of 9999-12-31T23:59:59.999999 -/
def maxLoc : Int := maxDays * usPerDay - 1

/-- `DurationType.MaxSeconds` / `MinSeconds` -/
def maxSeconds : Int := 315576000000
def minSeconds : Int := -315576000000

structure Ts where
  loc : Int
  off : Int
deriving Repr, DecidableEq, Inhabited

def Ts.utc (t : Ts) : Int := t.loc - t.off
def locOk (l : Int) : Bool := decide (0 ≤ l) && decide (l ≤ maxLoc)
def Ts.ok (t : Ts) : Prop := 0 ≤ t.loc ∧ t.loc ≤ maxLoc

/-- `timedelta.total_seconds()`: microseconds / 10**6 as a correctly rounded float -/
def totalSeconds (us : Int) : Dy := rnd us 1000000

/-- the range check of `DurationType.__new__(timedelta)`:
`timedelta(seconds=MinSeconds) <= seconds <= timedelta(seconds=MaxSeconds)` (exact) -/
def durRangeOk (us : Int) : Bool :=
  decide (minSeconds * 1000000 ≤ us) && decide (us ≤ maxSeconds * 1000000)

/-- `DurationType(timedelta)` -/
def durWrap (us : Int) : PyM Int := if durRangeOk us then .ok us else .error .valueError

/-- `datetime + timedelta` on the local clock, re-wrapped by `TimestampType(...)`:
`OverflowError("date value out of range")` outside years 1..9999 -/
def tsAdd (t : Ts) (d : Int) : PyM Ts :=
  if locOk (t.loc + d) then .ok ⟨t.loc + d, t.off⟩ else .error .overflow
/-- `TimestampType.__sub__(DurationType)` -/
def tsSubDur (t : Ts) (d : Int) : PyM Ts :=
  if locOk (t.loc - d) then .ok ⟨t.loc - d, t.off⟩ else .error .overflow
/-- `TimestampType.__sub__(TimestampType)`: aware difference, then `DurationType(timedelta)` -/
def tsSubTs (a b : Ts) : PyM Int := durWrap (a.utc - b.utc)
/-- `DurationType.__add__` -/
def durAdd (a b : Int) : PyM Int := durWrap (a + b)
/-- `DurationType.__sub__` -/
def durSub (a b : Int) : PyM Int := durWrap (a - b)

/-- how the interpreter's `addition` rule and the compiled `result()` present an exception:
every class these operators raise (TypeError, ValueError, OverflowError) is an evaluation error -/
def additionHandlers : List Exc := [.typeError, .valueError, .overflow]

/-! ### fixed offsets: `TimestampType.tz_offset_parse` -/

def isDigit (c : Nat) : Bool := decide (48 ≤ c) && decide (c ≤ 57)

/-- `^([+-]?)(\d\d?):(\d\d)$` (ASCII digits; `$` also matches before one trailing newline),
`offset_min = (hh*60 + mm) * sign`, `datetime.timezone(timedelta(seconds=offset_min*60))`
which insists on `-24h < offset < 24h` (ValueError). Result: offset in µs. -/
def tzOffsetParse (s : List Nat) : PyM Int :=
  let s := if s.getLast? = some 10 then s.dropLast else s
  let sign : Int := if s.head? = some 45 then -1 else 1
  let rest := if s.head? = some 43 ∨ s.head? = some 45 then s.tail else s
  let go (hh mm : Nat) : PyM Int :=
    if hh * 60 + mm < 1440 then .ok (sign * ((hh * 60 + mm : Nat) : Int) * 60000000) else .error .valueError
  match rest with
  | [h1, h2, 58, m1, m2] =>
    if isDigit h1 && isDigit h2 && isDigit m1 && isDigit m2 then
      go ((h1 - 48) * 10 + (h2 - 48)) ((m1 - 48) * 10 + (m2 - 48))
    else .error .valueError
  | [h1, 58, m1, m2] =>
    if isDigit h1 && isDigit m1 && isDigit m2 then go (h1 - 48) ((m1 - 48) * 10 + (m2 - 48))
    else .error .valueError
  | _ => .error .valueError

/-! ### accessors -/

/-- `self.astimezone(new_tz)`: first `self - self.utcoffset()` (the UTC clock must be
representable), then `tz.fromutc(utc)` (the new local clock must be representable);
`OverflowError` otherwise. Returns the new local clock. -/
def astimezone (t : Ts) (newOff : Int) : PyM Int :=
  if locOk t.utc then
    if locOk (t.utc + newOff) then .ok (t.utc + newOff) else .error .overflow
  else .error .overflow

/-- civil fields of a local clock value (µs), `0 ≤ l` -/
structure Civil where
  year : Nat
  month : Nat
  day : Nat
  hour : Nat
  minute : Nat
  second : Nat
  micro : Nat
  dayIndex : Nat
deriving Repr, DecidableEq

def civilOfLoc (l : Int) : Civil :=
  let n := (l / usPerDay).toNat
  let tod := (l % usPerDay).toNat
  let c := civilOfDays n
  { year := c.1, month := c.2.1, day := c.2.2,
    hour := tod / 3600000000, minute := tod / 60000000 % 60, second := tod / 1000000 % 60,
    micro := tod % 1000000, dayIndex := n }

/-- the inverse: local clock of civil fields -/
def locOfCivil (y m d hh mm ss us : Nat) : Int :=
  ((daysOfCivil y m d : Nat) : Int) * usPerDay + ((hh * 3600000000 + mm * 60000000 + ss * 1000000 + us : Nat) : Int)

inductive Acc where
  | getDate | getDayOfMonth | getDayOfWeek | getDayOfYear | getFullYear | getMonth
  | getHours | getMinutes | getSeconds | getMilliseconds
deriving DecidableEq, Repr

/-- the expression each accessor applies to `self.astimezone(new_tz)`, as written in celtypes.py -/
def accField (a : Acc) (c : Civil) : Int :=
  match a with
  | .getDate => c.day
  | .getDayOfMonth => (c.day : Int) - 1
  | .getDayOfWeek => (isoweekday c.dayIndex % 7 : Nat)
  | .getDayOfYear => (toordinal c.dayIndex : Int) - (toordinal (daysOfCivil c.year 1 1) : Int)
  | .getFullYear => c.year
  | .getMonth => (c.month : Int) - 1
  | .getHours => c.hour
  | .getMinutes => c.minute
  | .getSeconds => c.second
  | .getMilliseconds => (c.micro / 1000 : Nat)

/-- `ts.getX(tz)` with the zone already resolved to its UTC offset (µs) -/
def tsAccessor (a : Acc) (t : Ts) (newOff : Int) : PyM Int := do
  let l ← astimezone t newOff
  pure (accField a (civilOfLoc l))

/-- `ts.getX(text)` for a fixed-offset text (`tz_parse`: empty text means UTC; a text that
`pendulum.timezone` does not know goes to `tz_offset_parse`) -/
def tsAccessorFixed (a : Acc) (t : Ts) (tz : List Nat) : PyM Int := do
  let off ← if tz.isEmpty then pure 0 else tzOffsetParse tz
  tsAccessor a t off

/-- duration getters: `int(self.total_seconds() / 60 / 60)`, `int(self.total_seconds() * 1000)`,
`int(self.total_seconds() / 60)`, `int(self.total_seconds())` — float arithmetic as written -/
def durAccessor (a : Acc) (us : Int) : PyM Int :=
  let ts := totalSeconds us
  match a with
  | .getHours => .ok ((ts.mulQ 1 60).mulQ 1 60).trunc
  | .getMilliseconds => .ok (ts.mulQ 1000 1).trunc
  | .getMinutes => .ok (ts.mulQ 1 60).trunc
  | .getSeconds => .ok ts.trunc
  | _ => .error .attributeError   -- `DurationType` has no such method

/-- `int(ts.timestamp())` / `IntType(TimestampType)`: seconds since 1970-01-01T00:00:00Z,
through the float `total_seconds()` -/
def epochUs : Int := 62135596800000000
def tsTimestamp (t : Ts) : Dy := totalSeconds (t.utc - epochUs)

/-! ## 4. duration text -/

inductive DUnit where
  | ns | us | ms | s | m | h | d
deriving DecidableEq, Repr

/-- `Fraction(DurationType.scale[unit]).limit_denominator(NanosecondsPerSecond)`: the unit in
seconds as an exact fraction. Regenerated into `Cel.Gen.Time` from the source by evaluating that
very expression on the extracted table; compared by `Cel.Bridge.Time`. -/
def DUnit.scale : DUnit → Nat × Nat
  | .ns => (1, 1000000000)
  | .us => (1, 1000000)
  | .ms => (1, 1000)
  | .s => (1, 1)
  | .m => (60, 1)
  | .h => (3600, 1)
  | .d => (86400, 1)

/-- the unit alternation `(?:ns|us|µs|ms|s|m|h|d)`: `sorted(scale, key=len, reverse=True)`
puts the two-letter units first, so `ms` wins over `m` -/
def unitAt : List Nat → Option (DUnit × List Nat)
  | 110 :: 115 :: r => some (.ns, r)
  | 117 :: 115 :: r => some (.us, r)
  | 181 :: 115 :: r => some (.us, r)
  | 109 :: 115 :: r => some (.ms, r)
  | 115 :: r => some (.s, r)
  | 109 :: r => some (.m, r)
  | 104 :: r => some (.h, r)
  | 100 :: r => some (.d, r)
  | _ => none

/-- one `([0-9]*(\.[0-9]*)?)(unit)` match -/
structure Item where
  ip : List Nat
  fp : Option (List Nat)
  u : DUnit
deriving Repr, DecidableEq

def spanDigits : List Nat → List Nat × List Nat
  | [] => ([], [])
  | c :: r => if isDigit c then let (a, b) := spanDigits r; (c :: a, b) else ([], c :: r)

theorem spanDigits_length (s : List Nat) : (spanDigits s).2.length ≤ s.length := by
  induction s with
  | nil => simp [spanDigits]
  | cons c r ih => unfold spanDigits; split <;> simp <;> omega

/-- `([0-9]*(\.[0-9]*)?unit)+` up to the end of the text (the regex is deterministic: digits
are greedy, a unit letter can never be a digit, and `ms` vs `m`+`s` leave the same rest) -/
def parseItems : Nat → List Nat → Option (List Item)
  | 0, _ => none
  | fuel + 1, s =>
    let (ip, r1) := spanDigits s
    let (fp, r2) : Option (List Nat) × List Nat := match r1 with
      | 46 :: r => let (f, r') := spanDigits r; (some f, r')
      | _ => (none, r1)
    match unitAt r2 with
    | none => none
    | some (u, r3) =>
      if r3.isEmpty then some [⟨ip, fp, u⟩]
      else (parseItems fuel r3).map (⟨ip, fp, u⟩ :: ·)

def digitsVal (ds : List Nat) : Nat := ds.foldl (fun a c => a * 10 + (c - 48)) 0

/-- exact non-negative rational `num / den` -/
structure Q where
  num : Nat
  den : Nat
deriving Repr, DecidableEq

def Q.add (a b : Q) : Q := ⟨a.num * b.den + b.num * a.den, a.den * b.den⟩

/-- `Fraction(text)` for `text = ip` or `ip.fp`; `ValueError` when the text has no digit at all
(`""`, `"."`) -/
def fractionOfDecimal (ip : List Nat) (fp : Option (List Nat)) : PyM Q :=
  if ip.isEmpty && (fp.getD []).isEmpty then .error .valueError
  else .ok ⟨digitsVal (ip ++ fp.getD []), 10 ^ (fp.getD []).length⟩

/-- `Fraction(n_u.group(1)) * Fraction(cls.scale[n_u.group(3)]).limit_denominator(10**9)` -/
def itemSeconds (it : Item) : PyM Q := do
  let x ← fractionOfDecimal it.ip it.fp
  pure ⟨x.num * it.u.scale.1, x.den * it.u.scale.2⟩

/-- `sum(..., Fraction(0))` over the items, left to right; the first bad number raises -/
def itemsSeconds : List Item → PyM Q
  | [] => .ok ⟨0, 1⟩
  | it :: r => do
    let x ← itemSeconds it
    let xs ← itemsSeconds r
    pure (x.add xs)

/-- `DurationType(text)`: validate with the regex, strip the sign, add the components exactly,
range-check the exact sum, round half-even to a whole microsecond -/
def durParse (text : List Nat) : PyM Int :=
  let body := if text.getLast? = some 10 then text.dropLast else text   -- `$` before a final newline
  let neg : Bool := body.head? = some 45
  let rest := if body.head? = some 43 ∨ body.head? = some 45 then body.tail else body
  match parseItems (rest.length + 1) rest with
  | none => .error .valueError
  | some items =>
    match itemsSeconds items with
    | .error e => .error e
    | .ok tot =>
      -- MinSeconds <= sign*total <= MaxSeconds  (total ≥ 0; the bounds are symmetric)
      if tot.num ≤ 315576000000 * tot.den then
        .ok ((if neg then -1 else 1) * ((rne (tot.num * 1000000) tot.den : Nat) : Int))
      else .error .valueError

/-! ## 5. decimal text of integers (`str(int)`) -/

def natText (n : Nat) : List Nat :=
  if n < 10 then [48 + n] else natText (n / 10) ++ [48 + n % 10]
termination_by n
decreasing_by omega

def intText (z : Int) : List Nat := if z < 0 then 45 :: natText z.natAbs else natText z.natAbs

/-- `DurationType.__str__`: `"{0}s".format(int(self.total_seconds()))` -/
def durStr (us : Int) : List Nat := intText (totalSeconds us).trunc ++ [115]

end Cel.Time
