/-
  Cel.Model.Num — hand-written model of the int64 / uint64 arithmetic of
  `celpy.celtypes.IntType` / `UintType` (celtypes.py, classes IntType, UintType
  and decorators int64 / uint64) and of the branch structure of
  `DoubleType.__truediv__/__rtruediv__`.

  The model mirrors the Python text: every dunder is
      decorator( Wrapper( python-int-expression ) )
  where Wrapper(IntType) re-checks the range (IntType.__new__ → int64(int)).
  Python's `//` and `%` on ints are floor division / floor modulus
  (`Int.fdiv`, `Int.fmod`) and raise ZeroDivisionError on a zero divisor.
-/
import Cel.Model.Basic
namespace Cel

/-- the signed 64-bit range -/
def i64 (z : Int) : Prop := -(2:Int)^63 ≤ z ∧ z < (2:Int)^63
instance (z : Int) : Decidable (i64 z) := by unfold i64; exact inferInstance
/-- the unsigned 64-bit range -/
def u64 (z : Int) : Prop := 0 ≤ z ∧ z < (2:Int)^64
instance (z : Int) : Decidable (u64 z) := by unfold u64; exact inferInstance

/-- `celtypes.int64` decorator body: range check or `ValueError("overflow")`. -/
def int64 (z : Int) : PyM Int :=
  if -(2:Int)^63 ≤ z ∧ z < (2:Int)^63 then .ok z else .error .valueError
/-- `celtypes.uint64` decorator body. -/
def uint64 (z : Int) : PyM Int :=
  if (0:Int) ≤ z ∧ z < (2:Int)^64 then .ok z else .error .valueError

/-- Python `a // b` on ints. -/
def pyFloorDiv (a b : Int) : PyM Int := if b = 0 then .error .zeroDiv else .ok (Int.fdiv a b)
/-- Python `a % b` on ints. -/
def pyMod (a b : Int) : PyM Int := if b = 0 then .error .zeroDiv else .ok (Int.fmod a b)
/-- Python `abs` on ints. -/
def pyAbs (a : Int) : Int := if a < 0 then -a else a
/-- `-1 if x < IntType(0) else +1` -/
def pySign (a : Int) : Int := if a < 0 then -1 else 1

namespace IntOps
/-- `IntType(e)` applied to a Python int: `int64(int)(e)`. -/
def wrap (z : Int) : PyM Int := int64 z

def neg (a : Int) : PyM Int := wrap (-a) >>= int64
def add (a b : Int) : PyM Int := wrap (a + b) >>= int64
def sub (a b : Int) : PyM Int := wrap (a - b) >>= int64
def mul (a b : Int) : PyM Int := wrap (a * b) >>= int64
def truediv (a b : Int) : PyM Int := do
  let q ← pyFloorDiv (pyAbs a) (pyAbs b)
  let r ← wrap (pySign a * pySign b * q)
  int64 r
def mod (a b : Int) : PyM Int := do
  let m ← pyMod (pyAbs a) (pyAbs b)
  let r ← wrap (pySign a * m)
  int64 r
-- reflected dunders: `self` is the RIGHT operand, `other` the left one.
def radd (self other : Int) : PyM Int := wrap (other + self) >>= int64
def rsub (self other : Int) : PyM Int := wrap (other - self) >>= int64
def rmul (self other : Int) : PyM Int := wrap (other * self) >>= int64
def rtruediv (self other : Int) : PyM Int := do
  let q ← pyFloorDiv (pyAbs other) (pyAbs self)
  let r ← wrap (pySign self * pySign other * q)
  int64 r
def rmod (self other : Int) : PyM Int := do
  let m ← pyMod (pyAbs other) (pyAbs self)
  let r ← wrap (pySign other * m)
  int64 r
end IntOps

namespace UintOps
/-- `UintType(e)` applied to a Python int: `uint64(int)(e)`. -/
def wrap (z : Int) : PyM Int := uint64 z

/-- `UintType.__neg__` raises TypeError("no such overload"). -/
def neg (_a : Int) : PyM Int := .error .typeError
def add (a b : Int) : PyM Int := wrap (a + b) >>= uint64
def sub (a b : Int) : PyM Int := wrap (a - b) >>= uint64
def mul (a b : Int) : PyM Int := wrap (a * b) >>= uint64
def truediv (a b : Int) : PyM Int := do
  let q ← pyFloorDiv a b
  let r ← wrap q
  uint64 r
def mod (a b : Int) : PyM Int := do
  let m ← pyMod a b
  let r ← wrap m
  uint64 r
def radd (self other : Int) : PyM Int := wrap (other + self) >>= uint64
def rsub (self other : Int) : PyM Int := wrap (other - self) >>= uint64
def rmul (self other : Int) : PyM Int := wrap (other * self) >>= uint64
def rtruediv (self other : Int) : PyM Int := do
  let q ← pyFloorDiv other self
  let r ← wrap q
  uint64 r
def rmod (self other : Int) : PyM Int := do
  let m ← pyMod other self
  let r ← wrap m
  uint64 r
end UintOps

/-! ### Doubles — class abstraction used for the division-by-zero branch -/

inductive Sign | pos | neg deriving DecidableEq, Repr
def Sign.mul : Sign → Sign → Sign
  | .pos, s => s | .neg, .pos => .neg | .neg, .neg => .pos

/-- IEEE-754 classes of a binary64 value. -/
inductive DCls where
  | nan | inf (s : Sign) | zero (s : Sign) | fin (s : Sign)   -- `fin`: finite non-zero
  deriving DecidableEq, Repr

/-- Outcome of a division on classes: a class, or "delegated to the host's float division". -/
inductive DRes where
  | cls (c : DCls) | host
  deriving DecidableEq, Repr

/-- IEEE-754 `x / y` when `y` is a zero: NaN for NaN or zero dividends, otherwise a signed infinity. -/
def ieeeDivZero (x : DCls) (s : Sign) : DCls :=
  match x with
  | .nan => .nan
  | .zero _ => .nan
  | .inf sx => .inf (sx.mul s)
  | .fin sx => .inf (sx.mul s)

end Cel

namespace Cel
/-- `celtypes._ieee_divide_by_zero(dividend, zero)` on classes: the NaN test `dividend != dividend`,
the zero test, then `copysign(inf, dividend) * copysign(1.0, zero)`. -/
def pyDivideByZero (x : DCls) (s : Sign) : DCls :=
  match x with
  | .nan => .nan
  | .zero _ => .nan
  | .inf sx => .inf (sx.mul s)
  | .fin sx => .inf (sx.mul s)

/-- `DoubleType.__truediv__(self=x, other=y)`: the `other == 0.0` branch, else host division. -/
def dblTrueDiv (x y : DCls) : DRes :=
  match y with
  | .zero s => .cls (pyDivideByZero x s)
  | _ => .host
/-- `DoubleType.__rtruediv__(self=y, other=x)` computes `x / y`. -/
def dblRTrueDiv (y x : DCls) : DRes :=
  match y with
  | .zero s => .cls (pyDivideByZero x s)
  | _ => .host

/-- How a runner turns the outcome of an arithmetic dunder into what the caller observes. -/
inductive NumObs where
  | val (z : Int) | err | escapes (c : Exc)
  deriving DecidableEq, Repr
def observe (handlers : List Exc) (r : PyM Int) : NumObs :=
  match r with
  | .ok z => .val z
  | .error c => if c ∈ handlers then .err else .escapes c
end Cel

namespace Cel
/-! ### arithmetic expression trees over int64 (every intermediate result is range-checked) -/
inductive AOp | add | sub | mul | div | mod
  deriving DecidableEq, Repr

inductive AExpr where
  | lit (z : Int)                    -- a literal or bound variable holding this value
  | neg (a : AExpr)
  | bin (op : AOp) (a b : AExpr)
  deriving Repr

def IntOps.bin : AOp → Int → Int → PyM Int
  | .add => IntOps.add | .sub => IntOps.sub | .mul => IntOps.mul
  | .div => IntOps.truediv | .mod => IntOps.mod

/-- Both runners: operands are evaluated, then the dunder is applied; an erroneous operand makes the
node an error (interpreter: `CELEvalError.__add__` returns the error; compiled: the exception propagates). -/
def evalA : AExpr → PyM Int
  | .lit z => .ok z
  | .neg a => evalA a >>= IntOps.neg
  | .bin op a b => do let x ← evalA a; let y ← evalA b; IntOps.bin op x y
end Cel
