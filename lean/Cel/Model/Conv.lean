/-
  Cel.Model.Conv — the type-conversion functions of cel-python: the `__new__` dispatch ladders of
  `IntType`, `UintType`, `DoubleType`, `StringType`, `BytesType`, `BoolType`, `TimestampType`,
  `DurationType` (src/celpy/celtypes.py) as reached through `int() uint() double() string()
  bytes() bool() timestamp() duration()` (`base_functions` in evaluation.py), and the `__str__`
  methods that `string()` ends up calling.

  Strings are lists of code points (`List Nat`), bytes are lists of octets (`List Nat`, each < 256).
  Doubles are decoded from their bit pattern into exact dyadic rationals (`Cel.Time.Dy`).
  Python primitives are modelled as coded in CPython: `int(text[, base])` (blanks, sign, `0x`
  prefix for base 16, single underscores between digits, ASCII digits — other Unicode digits are
  outside the model), `math.trunc`, `float(int)` (correctly rounded), UTF-8 strict codec,
  `str(int)`.  `repr(float)` / `float(text)` with exponents, `pendulum.parse` beyond the RFC 3339
  shape are NOT modelled (the functions answer `none`: the model has no say; those routes are
  covered by the round-trip oracle only).

  Core Lean only.
-/
import Cel.Model.Basic
import Cel.Model.Num
import Cel.Model.Time
namespace Cel.Conv
open Cel.Time (Dy rnd natText intText digitsVal isDigit Ts)

abbrev Text := List Nat
abbrev Bytes := List Nat

/-! ## doubles -/

inductive Dbl where
  | nan
  | inf (neg : Bool)
  | fin (v : Dy)
deriving Repr, Inhabited

/-- exact value of an IEEE-754 binary64 bit pattern -/
def Dbl.ofBits (b : Nat) : Dbl :=
  let neg : Bool := decide (b / 2 ^ 63 % 2 = 1)
  let e := b / 2 ^ 52 % 2048
  let m := b % 2 ^ 52
  let sg (x : Nat) : Int := if neg then -(x : Int) else (x : Int)
  if e = 2047 then (if m = 0 then .inf neg else .nan)
  else if e = 0 then .fin ⟨sg m, 1074⟩
  else if 1075 ≤ e then .fin ⟨sg ((2 ^ 52 + m) * 2 ^ (e - 1075)), 0⟩
  else .fin ⟨sg (2 ^ 52 + m), 1075 - e⟩

/-- bit pattern of a dyadic value that is exactly representable as a normal binary64 (or zero) -/
def bitsOfDy (v : Dy) : Option Nat :=
  if v.num = 0 then some 0
  else
    let n := v.num.natAbs
    -- value = n / 2^k ; e = floor(log2 value)
    let e : Int := (Nat.log2 n : Int) - (v.k : Int)
    -- mantissa = value / 2^(e-52) must be an integer in [2^52, 2^53)
    let sh : Int := 52 - (Nat.log2 n : Int)      -- mant = n * 2^sh
    let mant? : Option Nat :=
      if 0 ≤ sh then some (n * 2 ^ sh.toNat)
      else if n % 2 ^ (-sh).toNat = 0 then some (n / 2 ^ (-sh).toNat) else none
    match mant? with
    | none => none
    | some mant =>
      if -1022 ≤ e ∧ e ≤ 1023 then
        some ((if v.num < 0 then 2 ^ 63 else 0) + (e + 1023).toNat * 2 ^ 52 + (mant - 2 ^ 52))
      else none

/-! ## Python `int(text, base)` -/

/-- `str.isspace` characters that `int()` / `float()` strip -/
def isSpace (c : Nat) : Bool :=
  (decide (9 ≤ c) && decide (c ≤ 13)) || (decide (28 ≤ c) && decide (c ≤ 32)) || c == 133 || c == 160 ||
  c == 5760 || (decide (8192 ≤ c) && decide (c ≤ 8202)) || c == 8232 || c == 8233 || c == 8239 ||
  c == 8287 || c == 12288

def dropSpaces : Text → Text
  | [] => []
  | c :: r => if isSpace c then dropSpaces r else c :: r

def strip (s : Text) : Text := (dropSpaces (dropSpaces s).reverse).reverse

def digitVal (c : Nat) : Option Nat :=
  if 48 ≤ c ∧ c ≤ 57 then some (c - 48)
  else if 97 ≤ c ∧ c ≤ 122 then some (c - 87)
  else if 65 ≤ c ∧ c ≤ 90 then some (c - 55)
  else none

/-- digits of the given base with single underscores between them (`PyLong_FromString`):
`afterDigit` says whether an underscore is allowed next -/
def digitsUnderscore (base : Nat) : Text → Bool → Nat → Option Nat
  | [], afterDigit, acc => if afterDigit then some acc else none
  | c :: r, afterDigit, acc =>
    if c = 95 then (if afterDigit then digitsUnderscore base r false acc else none)
    else match digitVal c with
      | some d => if d < base then digitsUnderscore base r true (acc * base + d) else none
      | none => none

/-- Python `int(text, base)` for base 10 or 16: blanks stripped, optional sign, for base 16 an
optional `0x`/`0X` (after which one underscore may follow), digits with single underscores.
`ValueError` otherwise. -/
def pyInt (base : Nat) (text : Text) : PyM Int :=
  let s := strip text
  let neg : Bool := s.head? = some 45
  let s1 := if s.head? = some 43 ∨ s.head? = some 45 then s.tail else s
  let pfx : Bool := decide (base = 16) && (decide (s1.take 2 = [48, 120]) || decide (s1.take 2 = [48, 88]))
  let s2 := if pfx then s1.drop 2 else s1
  -- after a base prefix a single leading underscore is allowed
  let s3 := if pfx && decide (s2.head? = some 95) then s2.tail else s2
  if s3.isEmpty then .error .valueError
  else
    match digitsUnderscore base s3 false 0 with
    | some n => .ok (if neg then -(n : Int) else (n : Int))
    | none => .error .valueError

/-! ## int() / uint() -/

/-- `math.trunc(float)`: `ValueError` for NaN, `OverflowError` for an infinity -/
def pyTrunc : Dbl → PyM Int
  | .nan => .error .valueError
  | .inf _ => .error .overflow
  | .fin v => .ok v.trunc

/-- `IntType(IntType)` returns the source itself -/
def intOfInt (i : Int) : PyM Int := .ok i
/-- `IntType(UintType)`: final `else` of the ladder, `int64(int)` -/
def intOfUint (u : Int) : PyM Int := int64 u
/-- `IntType(float)`: `int64(trunc)` -/
def intOfDouble (d : Dbl) : PyM Int := pyTrunc d >>= int64
/-- `IntType(str)`: `0x`/`0X` ↦ `int(src[2:], 16)`, `-0x`/`-0X` ↦ `-int(src[3:], 16)`, else `int(src)` -/
def intOfText (s : Text) : PyM Int :=
  if s.take 2 = [48, 120] ∨ s.take 2 = [48, 88] then pyInt 16 (s.drop 2) >>= int64
  else if s.take 3 = [45, 48, 120] ∨ s.take 3 = [45, 48, 88] then
    (pyInt 16 (s.drop 3) >>= fun v => int64 (-v))
  else pyInt 10 s >>= int64
/-- `IntType(TimestampType)`: `int64(lambda src: src.timestamp())` gives a float that
`int.__new__` truncates -/
def intOfTs (t : Ts) : PyM Int :=
  let x := Cel.Time.tsTimestamp t
  if x.geInt (-(2:Int)^63) && !(x.geInt ((2:Int)^63)) then .ok x.trunc else .error .valueError
/-- `IntType(BoolType)` -/
def intOfBool (b : Bool) : PyM Int := .ok (if b then 1 else 0)

def uintOfUint (u : Int) : PyM Int := .ok u
def uintOfInt (i : Int) : PyM Int := uint64 i
def uintOfDouble (d : Dbl) : PyM Int := pyTrunc d >>= uint64
/-- `UintType(str)`: only the `0x` branch exists; `-0x…` falls to `int(src)` and fails -/
def uintOfText (s : Text) : PyM Int :=
  if s.take 2 = [48, 120] ∨ s.take 2 = [48, 88] then pyInt 16 (s.drop 2) >>= uint64
  else pyInt 10 s >>= uint64
def uintOfTs (t : Ts) : PyM Int :=
  let x := Cel.Time.tsTimestamp t
  if x.geInt 0 && !(x.geInt ((2:Int)^64)) then .ok x.trunc else .error .valueError

/-! ## double() -/

/-- `DoubleType(int)`: `float(int)`, correctly rounded (always finite for 64-bit values) -/
def doubleOfInt (i : Int) : Dy := rnd i 1

/-! ## string() of numbers, bool -/
def stringOfInt (i : Int) : Text := intText i
def stringOfUint (u : Int) : Text := intText u
/-- `str(bool(self))` -/
def stringOfBool (b : Bool) : Text := if b then [84, 114, 117, 101] else [70, 97, 108, 115, 101]

/-- `BoolType(str)`: the two literal tables, else `int.__new__(cls, text)` -/
def boolOfText (s : Text) : PyM Bool :=
  if s = [70, 97, 108, 115, 101] ∨ s = [102] ∨ s = [70, 65, 76, 83, 69] ∨ s = [102, 97, 108, 115, 101] then .ok false
  else if s = [84, 114, 117, 101] ∨ s = [116] ∨ s = [84, 82, 85, 69] ∨ s = [116, 114, 117, 101] then .ok true
  else (fun v => decide (v ≠ 0)) <$> pyInt 10 s

/-! ## UTF-8: `str.encode('utf-8')` / `bytes.decode('utf')`, both strict -/

def isSurrogate (c : Nat) : Bool := decide (0xD800 ≤ c) && decide (c ≤ 0xDFFF)
/-- Unicode scalar value -/
def isScalar (c : Nat) : Bool := decide (c < 0x110000) && !isSurrogate c

def utf8Cp (c : Nat) : PyM Bytes :=
  if c < 0x80 then .ok [c]
  else if c < 0x800 then .ok [0xC0 + c / 64, 0x80 + c % 64]
  else if c < 0x10000 then
    (if isSurrogate c then .error .valueError
     else .ok [0xE0 + c / 4096, 0x80 + c / 64 % 64, 0x80 + c % 64])
  else if c < 0x110000 then .ok [0xF0 + c / 262144, 0x80 + c / 4096 % 64, 0x80 + c / 64 % 64, 0x80 + c % 64]
  else .error .valueError

/-- `BytesType(str)` -/
def utf8Encode : Text → PyM Bytes
  | [] => .ok []
  | c :: cs =>
    match utf8Cp c with
    | .error e => .error e
    | .ok b =>
      match utf8Encode cs with
      | .error e => .error e
      | .ok r => .ok (b ++ r)

def isCont (b : Nat) : Bool := decide (0x80 ≤ b) && decide (b < 0xC0)

/-- `StringType(bytes)`: strict decoder (no overlong forms, no surrogates, nothing above U+10FFFF,
no stray or missing continuation bytes); `UnicodeDecodeError` is a `ValueError` -/
def utf8Decode : Bytes → PyM Text
  | [] => .ok []
  | b0 :: rest =>
    if b0 < 0x80 then
      (match utf8Decode rest with | .ok r => .ok (b0 :: r) | .error e => .error e)
    else if b0 < 0xC2 then .error .valueError
    else if b0 < 0xE0 then
      match rest with
      | b1 :: r =>
        if isCont b1 then
          (match utf8Decode r with
           | .ok t => .ok (((b0 - 0xC0) * 64 + (b1 - 0x80)) :: t) | .error e => .error e)
        else .error .valueError
      | _ => .error .valueError
    else if b0 < 0xF0 then
      match rest with
      | b1 :: b2 :: r =>
        if isCont b1 && isCont b2 && decide (0x800 ≤ (b0 - 0xE0) * 4096 + (b1 - 0x80) * 64 + (b2 - 0x80))
            && !isSurrogate ((b0 - 0xE0) * 4096 + (b1 - 0x80) * 64 + (b2 - 0x80)) then
          (match utf8Decode r with
           | .ok t => .ok (((b0 - 0xE0) * 4096 + (b1 - 0x80) * 64 + (b2 - 0x80)) :: t) | .error e => .error e)
        else .error .valueError
      | _ => .error .valueError
    else if b0 < 0xF5 then
      match rest with
      | b1 :: b2 :: b3 :: r =>
        if isCont b1 && isCont b2 && isCont b3
            && decide (0x10000 ≤ (b0 - 0xF0) * 262144 + (b1 - 0x80) * 4096 + (b2 - 0x80) * 64 + (b3 - 0x80))
            && decide ((b0 - 0xF0) * 262144 + (b1 - 0x80) * 4096 + (b2 - 0x80) * 64 + (b3 - 0x80) < 0x110000) then
          (match utf8Decode r with
           | .ok t => .ok (((b0 - 0xF0) * 262144 + (b1 - 0x80) * 4096 + (b2 - 0x80) * 64 + (b3 - 0x80)) :: t)
           | .error e => .error e)
        else .error .valueError
      | _ => .error .valueError
    else .error .valueError

def bytesOfString (s : Text) : PyM Bytes := utf8Encode s
def stringOfBytes (b : Bytes) : PyM Text := utf8Decode b

/-! ## timestamp text -/

def pad2 (n : Nat) : Text := [48 + n / 10 % 10, 48 + n % 10]
def pad4 (n : Nat) : Text := [48 + n / 1000 % 10, 48 + n / 100 % 10, 48 + n / 10 % 10, 48 + n % 10]

/-- `%z` of `strftime` for an offset of whole minutes, then the rewrite of `__str__`:
`+0000` ↦ `Z`, otherwise a colon before the last two digits -/
def zoneText (off : Int) : Text :=
  let mins := off.natAbs / 60000000
  if mins = 0 then [90]
  else (if off < 0 then 45 else 43) :: (pad2 (mins / 60) ++ [58] ++ pad2 (mins % 60))

/-- `TimestampType.__str__`: `f"{year:04d}" + strftime("-%m-%dT%H:%M:%S%z")` (microseconds are
dropped), for offsets of whole minutes -/
def stringOfTs (t : Ts) : Text :=
  let c := Cel.Time.civilOfLoc t.loc
  pad4 c.year ++ [45] ++ pad2 c.month ++ [45] ++ pad2 c.day ++ [84] ++ pad2 c.hour ++ [58] ++
    pad2 c.minute ++ [58] ++ pad2 c.second ++ zoneText t.off

def num2 (a b : Nat) : Option Nat := if isDigit a && isDigit b then some ((a - 48) * 10 + (b - 48)) else none

/-- zone designator of the RFC 3339 shape as `pendulum.parse` reads it: `Z`, nothing (UTC),
`±HH:MM`, `±HHMM`, `±HH`; offset in µs; `datetime` rejects |offset| ≥ 24 h (ValueError).
`none`: not this shape. -/
def parseZone (s : Text) : Option (PyM Int) :=
  let mk (neg : Bool) (hh mm : Nat) : PyM Int :=
    let mins := hh * 60 + mm
    if mins < 1440 then .ok ((if neg then -1 else 1) * (mins : Int) * 60000000) else .error .valueError
  match s with
  | [] => some (.ok 0)
  | [90] => some (.ok 0)
  | sg :: h1 :: h2 :: rest =>
    if sg = 43 ∨ sg = 45 then
      match num2 h1 h2, rest with
      | some hh, [] => some (mk (sg = 45) hh 0)
      | some hh, [58, m1, m2] => (num2 m1 m2).map (mk (sg = 45) hh)
      | some hh, [m1, m2] => (num2 m1 m2).map (mk (sg = 45) hh)
      | _, _ => none
    else none
  | _ => none

/-- `TimestampType(text)` for `YYYY-MM-DD(T| )HH:MM:SS[(.|,)f{1,9}]zone` — the RFC 3339 shape.
`some (.error .valueError)`: this shape but not a date/time (`ParserError`, year 0, offset);
`none`: another shape (pendulum accepts many; the model has no say). -/
def tsOfText (s : Text) : Option (PyM Ts) :=
  match s with
  | y1 :: y2 :: y3 :: y4 :: 45 :: mo1 :: mo2 :: 45 :: d1 :: d2 :: sep :: h1 :: h2 :: 58 :: mi1 :: mi2 :: 58 :: s1 :: s2 :: rest =>
    if sep = 84 ∨ sep = 32 then
      match num2 y1 y2, num2 y3 y4, num2 mo1 mo2, num2 d1 d2, num2 h1 h2, num2 mi1 mi2, num2 s1 s2 with
      | some ya, some yb, some mo, some d, some hh, some mi, some ss =>
        let y := ya * 100 + yb
        -- optional fraction
        let (frac, zone) : Option Text × Text := match rest with
          | c :: r => if c = 46 ∨ c = 44 then
                        let (f, z) := Cel.Time.spanDigits r
                        (some f, z)
                      else (none, rest)
          | [] => (none, [])
        let fracOk : Bool := match frac with
          | none => true
          | some f => decide (1 ≤ f.length) && decide (f.length ≤ 9)
        if !fracOk then none
        else
          match parseZone zone with
          | none => none
          | some zr =>
            let us : Nat := match frac with
              | none => 0
              | some f => digitsVal ((f ++ [48, 48, 48, 48, 48, 48]).take 6)
            if 1 ≤ y ∧ 1 ≤ mo ∧ mo ≤ 12 ∧ 1 ≤ d ∧ d ≤ Cel.Time.daysInMonth y mo ∧ hh < 24 ∧ mi < 60 ∧ ss < 60 then
              some (match zr with
                | .ok off => .ok ⟨Cel.Time.locOfCivil y mo d hh mi ss us, off⟩
                | .error e => .error e)
            else some (.error .valueError)
      | _, _, _, _, _, _, _ => none
    else none
  | _ => none

/-! ## duration text (see Cel.Model.Time for `durParse`, `durStr`) -/
def durOfText (s : Text) : PyM Int := Cel.Time.durParse s
def stringOfDur (us : Int) : Text := Cel.Time.durStr us
/-- `DurationType(int)`: whole seconds, exact range check -/
def durOfInt (secs : Int) : PyM Int :=
  if Cel.Time.minSeconds ≤ secs ∧ secs ≤ Cel.Time.maxSeconds then .ok (secs * 1000000) else .error .valueError

/-- how the interpreter's `function_eval` presents exceptions of a conversion: ValueError (incl.
UnicodeDecodeError, ParserError) and TypeError are evaluation errors -/
def functionEvalHandlers : List Exc := [.valueError, .typeError, .attributeError]

end Cel.Conv
