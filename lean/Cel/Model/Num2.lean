/-
  Cel.Model.Num2 — round-2 additions to the numeric model of C01 (kept in a file of its own so that the
  many modules importing `Cel.Model.Num` are not rebuilt):

  * uint64 expression trees (`evalU`): every node is one `UintType` dunder, unary minus is a TypeError;
  * the `DoubleType` arithmetic dunders over an ABSTRACT host float type: `DoubleType.__add__` & co. are
    `DoubleType(super().__op__(other))`, and `DoubleType(<python float>)` is the identity on the bits
    (`DoubleType.__new__`: not None, not a MessageType → `float.__new__(cls, source)`), so each operator IS
    the host's binary64 operator; `__truediv__/__rtruediv__` test the divisor against zero first.
-/
import Cel.Model.Num
namespace Cel

def UintOps.bin : AOp → Int → Int → PyM Int
  | .add => UintOps.add | .sub => UintOps.sub | .mul => UintOps.mul
  | .div => UintOps.truediv | .mod => UintOps.mod

/-- Both runners on a uint expression: operands first, then the dunder; an erroneous operand makes the
node an error; unary minus of a uint is `TypeError("no such overload")`. -/
def evalU : AExpr → PyM Int
  | .lit z => .ok z
  | .neg a => evalU a >>= UintOps.neg
  | .bin op a b => do let x ← evalU a; let y ← evalU b; UintOps.bin op x y

/-- The host's binary64 arithmetic (CPython `float`), abstract: nothing is assumed about it. -/
structure HostFloat (F : Type) where
  neg : F → F
  add : F → F → F
  sub : F → F → F
  mul : F → F → F
  div : F → F → F              -- only ever called with a non-zero divisor
  isZero : F → Bool            -- `x == 0.0` (true for +0.0 and -0.0)
  divZero : F → F → F          -- `_ieee_divide_by_zero(dividend, zero)`

namespace DoubleOps
variable {F : Type} (H : HostFloat F)
/-- `DoubleType(x)` for a Python float `x`: the `else` branch of `__new__`, `float.__new__(cls, x)` -/
def wrap (x : F) : F := x
def neg (self : F) : F := wrap (H.neg self)
def add (self other : F) : F := wrap (H.add self other)
def sub (self other : F) : F := wrap (H.sub self other)
def mul (self other : F) : F := wrap (H.mul self other)
def radd (self other : F) : F := wrap (H.add other self)
def rsub (self other : F) : F := wrap (H.sub other self)
def rmul (self other : F) : F := wrap (H.mul other self)
def truediv (self other : F) : F :=
  if H.isZero other then wrap (H.divZero self other) else wrap (H.div self other)
def rtruediv (self other : F) : F :=
  if H.isZero self then wrap (H.divZero other self) else wrap (H.div other self)
end DoubleOps

/-- double expression trees (leaves: bound variables / literals) -/
inductive DOp | add | sub | mul | div
  deriving DecidableEq, Repr
inductive DExpr (F : Type) where
  | lit (x : F)
  | neg (a : DExpr F)
  | bin (op : DOp) (a b : DExpr F)

def DoubleOps.bin {F : Type} (H : HostFloat F) : DOp → F → F → F
  | .add => DoubleOps.add H | .sub => DoubleOps.sub H | .mul => DoubleOps.mul H | .div => DoubleOps.truediv H

/-- both runners on a double expression: no operator on two doubles can raise -/
def evalD {F : Type} (H : HostFloat F) : DExpr F → F
  | .lit x => x
  | .neg a => DoubleOps.neg H (evalD H a)
  | .bin op a b => DoubleOps.bin H op (evalD H a) (evalD H b)

end Cel
