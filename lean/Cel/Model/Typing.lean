/-
  Cel.Model.Typing — which Python class carries the result of an operator, function, macro or conversion
  (C13), for the well-typed operator fragment of CEL.

  Mirrors
    * celtypes.py: the arithmetic dunders of the wrapper classes *as the class bodies define them or not*:
      a dunder the class defines and that ends in `return C(…)` re-wraps its result in class `C`; a dunder the
      class does not define is inherited from the native base (`float.__add__`, `str.__add__`, `list.__add__`,
      `timedelta.__sub__`, …) and returns the NATIVE class — the result degrades.  This is the parameter
      `ResTable`; the table the theorems use (`resTable`) is compared with the one regenerated from the class
      bodies on every run (`Cel.Gen.ResultCls`, `Cel.Bridge.ResultCls`);
    * CPython's binary-operator dispatch (left dunder, `NotImplemented`, reflected dunder of the right operand);
    * evaluation.py: `boolean()` for relations, `operator_in`, `macro_has_eval` vs. the transpiled `has()`
      template, the string predicates, `size`, the boolean macros, the conversions (constructor calls of the
      wrapper classes), `TypeType` and the type names of `base_functions`.

  Payload arithmetic that does not influence the class (IEEE arithmetic, text parsing and formatting, regular
  expressions, …) is a parameter (`Prims`): the theorems hold for every choice of it.
-/
import Cel.Model.Value
import Cel.Model.Num
namespace Cel

/-- the arithmetic dunders -/
inductive ArOp where
  | add | sub | mul | div | mod | neg
  deriving DecidableEq, Repr, Inhabited

/-- what a wrapper class body says about one arithmetic dunder (`refl` = the reflected `__rX__`) -/
inductive ResImpl where
  /-- not defined in the class body: inherited from the native base, returns the native class -/
  | inherit
  /-- defined, every path raises TypeError -/
  | raises
  /-- defined; every `return` constructs one of these classes (in source order) or passes `NotImplemented` on -/
  | returns (cs : List Cls)
  deriving DecidableEq, Repr, Inhabited

abbrev ResTable := Cls → ArOp → Bool → ResImpl

/-- The table the theorems are about (celtypes.py at the time of writing): every arithmetic dunder CEL can
reach on well-typed operands re-wraps. -/
def resTable : ResTable
  | .int, .neg, false => .returns [.int]
  | .int, .neg, true => .inherit
  | .int, _, _ => .returns [.int]
  | .uint, .neg, false => .raises
  | .uint, .neg, true => .inherit
  | .uint, _, _ => .returns [.uint]
  | .dbl, .mod, _ => .raises
  | .dbl, .neg, false => .returns [.dbl]
  | .dbl, .neg, true => .inherit
  | .dbl, _, _ => .returns [.dbl]
  | .bool, .neg, false => .raises
  | .str, .add, false => .returns [.str]
  | .str, .mod, false => .raises          -- 714b49c: `string % x` is "no matching overload", not Python %-formatting
  | .bytes, .add, false => .returns [.bytes]
  | .bytes, .mod, false => .raises
  | .list, .add, false => .returns [.list]
  | .ts, .add, _ => .returns [.ts]
  | .ts, .sub, false => .returns [.dur, .ts]
  | .dur, .add, _ => .returns [.ts, .dur]
  | .dur, .sub, _ => .returns [.dur]
  | .dur, .neg, false => .returns [.dur]
  | _, _, _ => .inherit

/-- payload functions that do not influence the class of a result -/
structure Prims where
  dAdd : Dbl → Dbl → Dbl
  dSub : Dbl → Dbl → Dbl
  dMul : Dbl → Dbl → Dbl
  dDiv : Dbl → Dbl → Dbl
  dNeg : Dbl → Dbl
  /-- payload of `int(v)`, `uint(v)`, `double(v)`, `string(v)`, `bytes(v)`, `bool(v)`, `duration(v)`,
  `timestamp(v)` (or the exception the constructor raises) -/
  toInt : Val → PyM Int
  toUint : Val → PyM Int
  toDbl : Val → PyM Dbl
  toStr : Val → PyM (List Nat)
  toBytes : Val → PyM (List Nat)
  toBool : Val → PyM Bool
  toDur : Val → PyM Int
  toTs : Val → PyM (Int × Int)
  /-- startsWith / endsWith / contains / matches on two strings -/
  strPred : Nat → List Nat → List Nat → PyM Bool
  /-- payload of a timestamp / duration accessor (`getFullYear`, `getHours`, …; optional time zone argument) -/
  getter : Nat → Val → Option (List Nat) → PyM Int

/-- the wrapper class whose native base class this is -/
def Cls.wrapperOfNative : Cls → Option Cls
  | .pyfloat => some .dbl | .pystr => some .str | .pybytes => some .bytes | .pylist => some .list
  | .pytimedelta => some .dur | .pydatetime => some .ts | .pybool => some .bool
  | _ => none

def durMaxUs : Int := 315576000000 * 1000000
/-- datetime.min / datetime.max in µs since the Unix epoch -/
def dtMinUs : Int := -62135596800 * 1000000
def dtMaxUs : Int := 253402300799 * 1000000 + 999999
/-- timedelta range: |days| ≤ 999999999 -/
def tdMaxUs : Int := 999999999 * 86400 * 1000000 + 86399 * 1000000 + 999999

/-- the constructor call `C(native)` at the end of a re-wrapping dunder -/
def wrapAs (c : Cls) (native : Val) : PyM Val :=
  match c, native with
  | .dbl, .nfloat d => .ok (.dbl d)
  | .str, .nstr s => .ok (.str s)
  | .bytes, .nbytes b => .ok (.bytes b)
  | .list, .nlist xs => .ok (.list xs)
  | .dur, .ntimedelta us => if -durMaxUs ≤ us ∧ us ≤ durMaxUs then .ok (.dur us) else .error .valueError
  | .ts, .ndatetime us off => .ok (.ts us off)
  | .int, .nint i => (int64 i).map .int
  | .uint, .nint i => (uint64 i).map .uint
  | _, _ => .error .typeError

/-- a defined dunder applied to the native result of the base-class operation -/
def applyRes (impl : ResImpl) (native : Val) : PyM Val :=
  match impl with
  | .inherit => .ok native
  | .raises => .error .typeError
  | .returns cs =>
      match cs.find? (fun c => (clsOf native).wrapperOfNative == some c || (clsOf native == .pyint && (c == .int || c == .uint))) with
      | some c => wrapAs c native
      | none => match cs.getLast? with
        | some c => wrapAs c native
        | none => .error .typeError

def nativeDt (us off d : Int) : PyM Val :=
  let loc := us + off * 60000000 + d
  if dtMinUs ≤ loc ∧ loc ≤ dtMaxUs then .ok (.ndatetime (us + d) off) else .error .overflow
def nativeTd (us : Int) : PyM Val :=
  if -tdMaxUs ≤ us ∧ us ≤ tdMaxUs then .ok (.ntimedelta us) else .error .overflow

/-- float arithmetic payload -/
def dblOp (P : Prims) (op : ArOp) (x y : Dbl) : PyM Dbl :=
  match op with
  | .add => .ok (P.dAdd x y) | .sub => .ok (P.dSub x y) | .mul => .ok (P.dMul x y) | .div => .ok (P.dDiv x y)
  | _ => .error .other       -- float % float: not reachable (DoubleType.__mod__ raises)

/-- the native base class's binary operation `base.__op__(self, other)` (for `refl`: `base.__rop__(self, other)`,
i.e. `other op self`); `none` = `NotImplemented`. Int-likes are handled by `intDunder`. -/
def nativeBin (P : Prims) (op : ArOp) (refl : Bool) (self other : Val) : PyM (Option Val) :=
  match self, other with
  | .dbl x, .dbl y => (dblOp P op (if refl then y else x) (if refl then x else y)).map (fun d => some (.nfloat d))
  | .str x, .str y => if op = .add ∧ refl = false then .ok (some (.nstr (x ++ y))) else .ok none
  | .bytes x, .bytes y => if op = .add ∧ refl = false then .ok (some (.nbytes (x ++ y))) else .ok none
  | .list x, .list y => if op = .add ∧ refl = false then .ok (some (.nlist (x ++ y))) else .ok none
  -- datetime ± timedelta, datetime − datetime
  | .ts us off, .dur d =>
      if op = .add then (nativeDt us off d).map some
      else if op = .sub ∧ refl = false then (nativeDt us off (-d)).map some
      else .ok none
  | .ts a _, .ts b _ =>
      if op = .sub then (nativeTd (if refl then b - a else a - b)).map some else .ok none
  -- timedelta ± timedelta; timedelta + datetime is left to datetime.__radd__
  | .dur a, .dur b =>
      if op = .add then (nativeTd (a + b)).map some
      else if op = .sub then (nativeTd (if refl then b - a else a - b)).map some
      else .ok none
  | _, _ => .ok none

/-- the native class `nativeBin` answers with, per operand classes -/
def natClsOf : Cls → Cls → Cls
  | .dbl, .dbl => .pyfloat | .str, .str => .pystr | .bytes, .bytes => .pybytes | .list, .list => .pylist
  | .ts, .dur => .pydatetime | .ts, .ts => .pytimedelta | .dur, .dur => .pytimedelta
  | _, _ => .pyint

/-- IntType / UintType dunders (C01 proves them exact; here only the class matters): defined → the
range-checked wrapper, inherited → a native int (a native float for `/`). -/
def intDunder (impl : ResImpl) (uns : Bool) (op : ArOp) (refl : Bool) (self other : Int) : PyM (Option Val) :=
  let (a, b) := if refl then (other, self) else (self, other)
  match impl with
  | .raises => .error .typeError
  | .inherit =>
      match op with
      | .add => .ok (some (.nint (a + b))) | .sub => .ok (some (.nint (a - b))) | .mul => .ok (some (.nint (a * b)))
      | .mod => (pyMod a b).map (fun m => some (.nint m))
      | .div => if b = 0 then .error .zeroDiv else .ok (some (.nfloat .nan))   -- int / int is a native float
      | .neg => .ok (some (.nint (-a)))
  | .returns _ =>
      let r : PyM Int := match uns, op with
        | false, .add => IntOps.add a b | false, .sub => IntOps.sub a b | false, .mul => IntOps.mul a b
        | false, .div => IntOps.truediv a b | false, .mod => IntOps.mod a b | false, .neg => IntOps.neg a
        | true, .add => UintOps.add a b | true, .sub => UintOps.sub a b | true, .mul => UintOps.mul a b
        | true, .div => UintOps.truediv a b | true, .mod => UintOps.mod a b | true, .neg => UintOps.neg a
      r.map (fun z => some (if uns then .uint z else .int z))

/-- one dunder call `type(self).__op__(self, other)` (or the reflected one) -/
def arDunder (P : Prims) (R : ResTable) (op : ArOp) (refl : Bool) (self other : Val) : PyM (Option Val) :=
  let impl := R (clsOf self) op refl
  match self, other with
  | .int a, .int b => intDunder impl false op refl a b
  | .uint a, .uint b => intDunder impl true op refl a b
  | _, _ =>
    match impl with
    | .raises => .error .typeError
    | _ => do
      match (← nativeBin P op refl self other) with
      | none => .ok none
      | some nat => (applyRes impl nat).map some

/-- Python's `a op b`: left dunder, then the right operand's reflected dunder, then TypeError. -/
def pyBin (P : Prims) (R : ResTable) (op : ArOp) (a b : Val) : PyM Val := do
  if !(clsOf a).isWrapper || !(clsOf b).isWrapper then .error .other
  else match (← arDunder P R op false a b) with
    | some v => .ok v
    | none =>
      match (← arDunder P R op true b a) with
      | some v => .ok v
      | none => .error .typeError

/-- unary minus -/
def pyNeg (P : Prims) (R : ResTable) (a : Val) : PyM Val :=
  match a with
  | .int i => do match (← intDunder (R .int .neg false) false .neg false i 0) with
      | some v => .ok v | none => .error .typeError
  | .uint i => do match (← intDunder (R .uint .neg false) true .neg false i 0) with
      | some v => .ok v | none => .error .typeError
  | .dbl d => applyRes (R .dbl .neg false) (.nfloat (P.dNeg d))
  | .dur us => applyRes (R .dur .neg false) (.ntimedelta (-us))
  | .bool b => applyRes (R .bool .neg false) (.nint (if b then -1 else 0))
  | _ => .error .typeError

/-! ### functions and macros whose result is constructed by `BoolType(…)` / `IntType(…)` / a wrapper constructor -/

/-- What evaluation.py says about how results are wrapped (regenerated: `Cel.Gen.ResultCls.wrapSpec`). -/
structure WrapSpec where
  /-- `boolean()` returns `BoolType(bool(…))` (relations) -/
  relation : Bool
  /-- every value `operator_in` returns is built by `BoolType(…)` -/
  opIn : Bool
  /-- `Evaluator.macro_has_eval` returns `BoolType(…)` -/
  hasI : Bool
  /-- the transpiled `has()` template wraps its result in `BoolType(…)` -/
  hasC : Bool
  /-- `function_startsWith/endsWith/contains/matches` return `BoolType(…)` -/
  strPred : Bool
  /-- `function_size` returns `IntType(…)` -/
  size : Bool
  /-- interpreter `all`/`exists` fold `logical_and/or` from a `BoolType` seed; `exists_one` returns `BoolType(…)` -/
  macroI : Bool
  /-- `macro_all/macro_exists/macro_exists_one` return `BoolType(…)` -/
  macroC : Bool
  /-- `logical_not/and/or` build their results with `BoolType(…)` (or return an operand) -/
  logical : Bool
  /-- `map`/`filter` build `ListType(…)` in both runners; list and map literals build `ListType`/`MapType` -/
  listMacro : Bool
  /-- every timestamp / duration accessor hands back `IntType(…)`: `function_getX` wraps, or passes on the result of
  `TimestampType.getX` / `DurationType.getX` which both wrap on every path -/
  accessors : Bool
  deriving DecidableEq, Repr

def wrapSpec : WrapSpec := ⟨true, true, true, false, true, true, true, true, true, true, true⟩

inductive Runner where | I | C deriving DecidableEq, Repr

def mkBool (wrapped : Bool) (b : Bool) : Val := if wrapped then .bool b else .nbool b

/-- the conversion functions of `base_functions`: name ↦ class whose constructor is called -/
def convTable : List (String × Cls) :=
  [("bool", .bool), ("bytes", .bytes), ("double", .dbl), ("duration", .dur), ("int", .int), ("list", .list),
   ("map", .map), ("null_type", .null), ("string", .str), ("timestamp", .ts), ("uint", .uint)]

/-- the type names CEL code can mention: the conversion names plus `type` (↦ `TypeType`) -/
def typeNames : List (String × Cls) := convTable ++ [("type", .type)]

/-- the name under which CEL code mentions the class -/
def typeNameOf (c : Cls) : String := ((typeNames.find? (fun p => p.2 == c)).map (·.1)).getD ""

/-- a constructor call `C(v)` of a wrapper class returns an instance of `C` (every `return` of `C.__new__` is
`super().__new__(cls, …)` or an argument already known to be a `C`) — payload from `Prims` -/
def convTo (P : Prims) (target : Cls) (v : Val) : PyM Val :=
  match target with
  | .int => (P.toInt v).map .int
  | .uint => (P.toUint v).map .uint
  | .dbl => (P.toDbl v).map .dbl
  | .str => (P.toStr v).map .str
  | .bytes => (P.toBytes v).map .bytes
  | .bool => (P.toBool v).map .bool
  | .dur => (P.toDur v).map .dur
  | .ts => (P.toTs v).map (fun p => .ts p.1 p.2)
  | _ => .error .typeError

/-- `TypeType(v)`: `type(v)`, except that the type of a type object is `TypeType` -/
def typeFn (v : Val) : Val :=
  match v with
  | .type _ => .type .type
  | _ => .type (clsOf v)

/-! ### the expression fragment -/

inductive TExpr where
  | lit (v : Val)
  | neg (e : TExpr)
  | bin (op : ArOp) (a b : TExpr)
  | rel (op : RelOp) (a b : TExpr)
  | isIn (a b : TExpr)
  | not (e : TExpr)
  | and (a b : TExpr)
  | or (a b : TExpr)
  | cond (c a b : TExpr)
  | conv (target : Cls) (e : TExpr)
  | typeOf (e : TExpr)
  | size (e : TExpr)
  | strPred (p : Nat) (a b : TExpr)
  /-- `e.getX()` / `e.getX(tz)` on a timestamp or a duration -/
  | getter (k : Nat) (e : TExpr) (tz : Option (List Nat))
  /-- `has(m.f)` where `m` evaluates to a map: is the string `f` a key -/
  | has (m : TExpr) (f : List Nat)
  /-- `l.all(x, body)`, `l.exists(x, body)`, `l.exists_one(x, body)` with the body instantiated per element -/
  | macroBool (kind : Nat) (bodies : List TExpr)
  /-- `r.map(x, body)` (`isFilter = false`) / `r.filter(x, body)` over a list or the keys of a map: the range's
  elements and the body instantiated per element -/
  | macroList (isFilter : Bool) (elems : List Val) (bodies : List TExpr)
  /-- `[e₁, …]` -/
  | listLit (es : List TExpr)
  deriving Repr, Inhabited

/-- `operator_in(item, container)`: the first element equal to the item decides; a TypeError of `==` is
remembered and is the result when nothing is found -/
def inLoop (S : CmpSpecs) (wrapped : Bool) (item : Val) : List Val → Bool → PyM Val
  | [], sawErr => if sawErr then .error .typeError else .ok (mkBool wrapped false)
  | c :: rest, sawErr =>
      match pyRel S .eq c item with
      | .ok true => .ok (mkBool wrapped true)
      | .ok false => inLoop S wrapped item rest sawErr
      | .error .typeError => inLoop S wrapped item rest true
      | .error e => .error e

def opIn (S : CmpSpecs) (wrapped : Bool) (item container : Val) : PyM Val :=
  match container with
  | .list xs => inLoop S wrapped item xs false
  | .map kvs => inLoop S wrapped item (kvs.map (fun kv => kv.1.toVal)) false
  | _ => .error .typeError

/-- three-valued `&&` / `||` / `!` on evaluated operands (errors as exceptions): a `false` (`true`) operand
decides, an error otherwise wins, two booleans combine. The result is built by `BoolType(…)` or is an operand. -/
def logAnd (x y : PyM Val) : PyM Val :=
  match x, y with
  | .ok (.bool false), _ => .ok (.bool false)
  | _, .ok (.bool false) => .ok (.bool false)
  | .ok (.bool true), .ok (.bool true) => .ok (.bool true)
  | .error e, _ => .error e
  | _, .error e => .error e
  | _, _ => .error .typeError
def logOr (x y : PyM Val) : PyM Val :=
  match x, y with
  | .ok (.bool true), _ => .ok (.bool true)
  | _, .ok (.bool true) => .ok (.bool true)
  | .ok (.bool false), .ok (.bool false) => .ok (.bool false)
  | .error e, _ => .error e
  | _, .error e => .error e
  | _, _ => .error .typeError

structure Ctx where
  P : Prims
  R : ResTable
  S : CmpSpecs
  W : WrapSpec
  runner : Runner

def Ctx.hasWrapped (c : Ctx) : Bool := match c.runner with | .I => c.W.hasI | .C => c.W.hasC
def Ctx.macroWrapped (c : Ctx) : Bool := match c.runner with | .I => c.W.macroI | .C => c.W.macroC

mutual
def evalT (c : Ctx) : TExpr → PyM Val
  | .lit v => .ok v
  | .neg e => do let v ← evalT c e; pyNeg c.P c.R v
  | .bin op a b => do let x ← evalT c a; let y ← evalT c b; pyBin c.P c.R op x y
  | .rel op a b => do
      let x ← evalT c a; let y ← evalT c b
      match pyRel c.S op x y with
      | .ok r => .ok (mkBool c.W.relation r)
      | .error e => .error e
  | .isIn a b => do let x ← evalT c a; let y ← evalT c b; opIn c.S c.W.opIn x y
  | .not e => do
      match (← evalT c e) with
      | .bool b => .ok (mkBool c.W.logical (!b))
      | _ => .error .typeError
  | .and a b => logAnd (evalT c a) (evalT c b)
  | .or a b => logOr (evalT c a) (evalT c b)
  | .cond g a b => do
      match (← evalT c g) with
      | .bool true => evalT c a
      | .bool false => evalT c b
      | _ => .error .typeError
  | .conv t e => do let v ← evalT c e; convTo c.P t v
  | .typeOf e => do let v ← evalT c e; .ok (typeFn v)
  | .size e => do
      match (← evalT c e) with
      | .str s => .ok (if c.W.size then .int s.length else .nint s.length)
      | .bytes s => .ok (if c.W.size then .int s.length else .nint s.length)
      | .list s => .ok (if c.W.size then .int s.length else .nint s.length)
      | .map s => .ok (if c.W.size then .int s.length else .nint s.length)
      | _ => .error .typeError
  | .strPred p a b => do
      match (← evalT c a), (← evalT c b) with
      | .str s, .str t => (c.P.strPred p s t).map (mkBool c.W.strPred)
      | _, _ => .error .typeError
  | .getter k e tz => do
      match (← evalT c e) with
      | .ts us off => (c.P.getter k (.ts us off) tz).map (fun i => if c.W.accessors then .int i else .nint i)
      | .dur us => (c.P.getter k (.dur us) tz).map (fun i => if c.W.accessors then .int i else .nint i)
      | _ => .error .typeError
  | .has m f => do
      match (← evalT c m) with
      | .map kvs => .ok (mkBool c.hasWrapped (kvs.any (fun kv => kv.1 == Key.str f)))
      | _ => .ok (mkBool c.hasWrapped false)
  | .macroBool kind bodies => do
      let vs ← evalBodies c bodies
      -- all: no false; exists: some true; exists_one: exactly one true
      let r := match kind with
        | 0 => vs.all id
        | 1 => vs.any id
        | _ => (vs.filter id).length == 1
      .ok (mkBool c.macroWrapped r)
  | .macroList isFilter elems bodies =>
      if isFilter then do
        let bs ← evalBodies c bodies
        let kept := ((elems.zip bs).filter (fun p => p.2)).map (fun p => p.1)
        .ok (if c.W.listMacro then .list kept else .nlist kept)
      else do
        let vs ← evalList c bodies
        .ok (if c.W.listMacro then .list vs else .nlist vs)
  | .listLit es => do let vs ← evalList c es; .ok (if c.W.listMacro then .list vs else .nlist vs)
def evalBodies (c : Ctx) : List TExpr → PyM (List Bool)
  | [] => .ok []
  | e :: es => do
      match (← evalT c e) with
      | .bool b => do let bs ← evalBodies c es; .ok (b :: bs)
      | _ => .error .typeError
def evalList (c : Ctx) : List TExpr → PyM (List Val)
  | [] => .ok []
  | e :: es => do let v ← evalT c e; let vs ← evalList c es; .ok (v :: vs)
end

/-! ### the typing judgement (result class only) -/

/-- result type of an arithmetic / concatenation / time operator on operand types -/
def binTy : ArOp → Cls → Cls → Option Cls
  | .add, .int, .int | .sub, .int, .int | .mul, .int, .int | .div, .int, .int | .mod, .int, .int => some .int
  | .add, .uint, .uint | .sub, .uint, .uint | .mul, .uint, .uint | .div, .uint, .uint | .mod, .uint, .uint => some .uint
  | .add, .dbl, .dbl | .sub, .dbl, .dbl | .mul, .dbl, .dbl | .div, .dbl, .dbl => some .dbl
  | .add, .str, .str => some .str
  | .add, .bytes, .bytes => some .bytes
  | .add, .list, .list => some .list
  | .add, .ts, .dur | .add, .dur, .ts | .sub, .ts, .dur => some .ts
  | .sub, .ts, .ts | .add, .dur, .dur | .sub, .dur, .dur => some .dur
  | _, _, _ => none

def negTy : Cls → Option Cls
  | .int => some .int | .dbl => some .dbl | .dur => some .dur
  | _ => none

def isConvTarget : Cls → Bool
  | .int | .uint | .dbl | .str | .bytes | .bool | .dur | .ts => true
  | _ => false

mutual
/-- `typeOfE e = some τ`: `e` is in the well-typed fragment and its CEL type is (the one whose class is) `τ` -/
def typeOfE : TExpr → Option Cls
  | .lit v => if (clsOf v).isWrapper then some (clsOf v) else none
  | .neg e => (typeOfE e).bind negTy
  | .bin op a b => do let x ← typeOfE a; let y ← typeOfE b; binTy op x y
  | .rel _ a b => do let x ← typeOfE a; let y ← typeOfE b; if x = y then some .bool else none
  | .isIn a b => do let _ ← typeOfE a; let y ← typeOfE b; if y = .list ∨ y = .map then some .bool else none
  | .not e => do let x ← typeOfE e; if x = .bool then some .bool else none
  | .and a b => do let x ← typeOfE a; let y ← typeOfE b; if x = .bool ∧ y = .bool then some .bool else none
  | .or a b => do let x ← typeOfE a; let y ← typeOfE b; if x = .bool ∧ y = .bool then some .bool else none
  | .cond g a b => do
      let t ← typeOfE g; let x ← typeOfE a; let y ← typeOfE b
      if t = .bool ∧ x = y then some x else none
  | .conv t e => do let _ ← typeOfE e; if isConvTarget t then some t else none
  | .typeOf e => do let _ ← typeOfE e; some .type
  | .size e => do let x ← typeOfE e; if x = .str ∨ x = .bytes ∨ x = .list ∨ x = .map then some .int else none
  | .strPred _ a b => do let x ← typeOfE a; let y ← typeOfE b; if x = .str ∧ y = .str then some .bool else none
  | .getter _ e _ => do let x ← typeOfE e; if x = .ts ∨ x = .dur then some .int else none
  | .has m _ => do let x ← typeOfE m; if x = .map then some .bool else none
  | .macroBool _ bodies => if allBool bodies then some .bool else none
  | .macroList isFilter _ bodies =>
      if (if isFilter then allBool bodies else allTyped bodies) then some .list else none
  | .listLit es => if allTyped es then some .list else none
def allBool : List TExpr → Bool
  | [] => true
  | e :: es => (typeOfE e == some .bool) && allBool es
def allTyped : List TExpr → Bool
  | [] => true
  | e :: es => (typeOfE e).isSome && allTyped es
end

mutual
/-- does the expression contain `has()` -/
def usesHas : TExpr → Bool
  | .lit _ => false
  | .neg e | .not e | .conv _ e | .typeOf e | .size e | .getter _ e _ => usesHas e
  | .bin _ a b | .rel _ a b | .isIn a b | .and a b | .or a b | .strPred _ a b => usesHas a || usesHas b
  | .cond g a b => usesHas g || usesHas a || usesHas b
  | .has _ _ => true
  | .macroBool _ bodies => usesHasList bodies
  | .macroList _ _ bodies => usesHasList bodies
  | .listLit es => usesHasList es
def usesHasList : List TExpr → Bool
  | [] => false
  | e :: es => usesHas e || usesHasList es
end

end Cel
