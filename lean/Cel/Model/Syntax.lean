/-
  Cel.Model.Syntax — abstract CEL expressions and the value domain shared by the
  interpreter model (`Cel.Model.EvalI`) and the denotation of the transpiled program
  (`Cel.Model.EvalC`), plus the decidable syntactic predicates that name the zones in
  which the two runners of the unchanged code diverge (C03).

  Core Lean only.
-/
import Cel.Model.Basic
namespace Cel

/-- Python values the two runners compute with. `err` is a `CELEvalError` *object used as a value*
(all error objects are identified); `pybool` is a native Python `bool` (what the transpiled `has()`
returns); `fnobj` is a function/type object an identifier can denote; `other` stands for every
value kind the skeleton never inspects (doubles, timestamps, …). -/
inductive Val where
  | int (i : Int)
  | bool (b : Bool)
  | pybool (b : Bool)
  | str (s : String)
  | list (xs : List Val)
  | map (ks : List Val) (vs : List Val)
  | null
  | err
  | fnobj (name : String)
  | other (tag : Nat)
  deriving Repr, Inhabited

namespace Val
def isErr : Val → Bool
  | .err => true | _ => false
/-- `isinstance(x, BoolType)` -/
def isBool : Val → Bool
  | .bool _ => true | _ => false
/-- Python truthiness (`if x:`, `bool(x)`); an exception object is truthy. -/
def truthy : Val → Bool
  | .int i => i != 0
  | .bool b => b
  | .pybool b => b
  | .str s => s != ""
  | .list xs => !xs.isEmpty
  | .map ks _ => !ks.isEmpty
  | .null => false
  | .err => true
  | .fnobj _ => true
  | .other _ => true

mutual
/-- no `CELEvalError` object at the top or nested inside -/
def clean : Val → Bool
  | .err => false
  | .list xs => cleanL xs
  | .map ks vs => cleanL ks && cleanL vs
  | _ => true
def cleanL : List Val → Bool
  | [] => true
  | x :: xs => clean x && cleanL xs
end
end Val

inductive UnOp where
  | not | neg
  deriving DecidableEq, Repr, Inhabited

inductive BinOp where
  | add | sub | mul | div | mod | lt | le | gt | ge | eq | ne | in_
  deriving DecidableEq, Repr, Inhabited

inductive MacroK where
  | all | exists_ | existsOne | map | filter
  deriving DecidableEq, Repr, Inhabited

/-- Abstract CEL. `map` carries the flattened `k0, v0, k1, v1, …` children of `mapinits`;
`call` is `f(args)` for a name other than `has`/`dyn`; `mcall` is `a.f(args)` for a non-macro name;
`badlit` is a literal whose conversion raises `ValueError` (e.g. an integer out of range). -/
inductive Expr where
  | lit (v : Val)
  | badlit
  | ident (x : String)
  | un (op : UnOp) (a : Expr)
  | bin (op : BinOp) (a b : Expr)
  | idx (a i : Expr)
  | sel (a : Expr) (f : String)
  | or (a b : Expr)
  | and (a b : Expr)
  | cond (c x y : Expr)
  | list (xs : List Expr)
  | map (kvs : List Expr)
  | call (f : String) (args : List Expr)
  | mcall (a : Expr) (f : String) (args : List Expr)
  | macro (k : MacroK) (a : Expr) (x : String) (body : Expr)
  | has (a : Expr)
  | dyn (a : Expr)
  deriving Repr, Inhabited

/-- primitives both runners delegate to (`operator.*`, `celtypes`, `base_functions[name]`) -/
inductive PrimOp where
  | un (op : UnOp)
  | bin (op : BinOp)
  | index
  | mkMap
  | fn (name : String)
  deriving DecidableEq, Repr, Inhabited

/-- variable bindings; macro variables are pushed in front (shadowing) -/
abbrev Env := List (String × Val)

def Env.lookup (env : Env) (x : String) : Option Val :=
  match env with
  | [] => none
  | (n, v) :: rest => if n = x then some v else Env.lookup rest x

def Env.bind (env : Env) (x : String) (v : Val) : Env := (x, v) :: env

def Env.clean : Env → Bool
  | [] => true
  | (_, v) :: rest => v.clean && Env.clean rest

/-- What is fixed besides the expression: the primitive semantics, which names are functions
(`base_functions` + host functions), which function names the transpiled call treats strictly. -/
structure Sem where
  prim : PrimOp → List Val → PyM Val
  isFun : String → Bool
  /-- functions whose application to an error-object argument yields an error (value or raised) -/
  strictFn : String → Bool
  /-- Python iteration over a value (`map(f, x)`, `for v in x`): list elements, map keys, …; `TypeError` if not iterable -/
  iter : Val → PyM (List Val)
  /-- `celpy.celtypes.BoolType(x)` as applied to the fold result in `macro_all`/`macro_exists` -/
  toBool : Val → PyM Val

/-! ### syntactic zones -/

/-- primitives that can *return* a `CELEvalError` object for error-free operands
(`operator_in`, `function_matches`) -/
def errSourceFn (f : String) : Bool := f == "matches"

mutual
/-- The compiled runner can never produce an error *value* (object) for this expression: it contains
no `||`, `&&`, `?:`, no `in`, no `matches`, no call of an unbound function, no `has`. -/
def Expr.noErrVal (S : Sem) : Expr → Bool
  | .lit v => v.clean
  | .badlit => true
  | .ident _ => true
  | .un _ a => a.noErrVal S
  | .bin op a b => op != .in_ && a.noErrVal S && b.noErrVal S
  | .idx a i => a.noErrVal S && i.noErrVal S
  | .sel a _ => a.noErrVal S
  | .or _ _ => false
  | .and _ _ => false
  | .cond _ _ _ => false
  | .list xs => Expr.noErrValL S xs
  | .map kvs => Expr.noErrValL S kvs
  | .call f args => S.isFun f && !errSourceFn f && Expr.noErrValL S args
  | .mcall a f args => S.isFun f && !errSourceFn f && a.noErrVal S && Expr.noErrValL S args
  | .macro _ a _ body => a.noErrVal S && body.noErrVal S
  | .has _ => false
  | .dyn a => a.noErrVal S
def Expr.noErrValL (S : Sem) : List Expr → Bool
  | [] => true
  | x :: xs => x.noErrVal S && Expr.noErrValL S xs
end

/-- syntactically boolean-valued (value is a `BoolType` or an error) -/
def Expr.boolish : Expr → Bool
  | .lit (.bool _) => true
  | .un .not _ => true
  | .bin op _ _ => op == .lt || op == .le || op == .gt || op == .ge || op == .eq || op == .ne || op == .in_
  | .or a b => a.boolish && b.boolish
  | .and a b => a.boolish && b.boolish
  | .cond _ x y => x.boolish && y.boolish
  | .macro k _ _ body => k == .existsOne || ((k == .all || k == .exists_) && body.boolish)
  | .dyn a => a.boolish
  | _ => false

mutual
/-- `Safe e`: no place where the transpiled program hands a possible error *value* to a consumer that
does not look at it (D7): list elements, map keys/values, call and method-call arguments and receivers,
bodies of `map`/`filter`/`exists_one`; no `has()` (D6: the transpiled `has` returns a Python `bool`);
bodies of `all`/`exists` syntactically boolean (the transpiled helper coerces the fold with `BoolType`). -/
def Expr.safe (S : Sem) : Expr → Bool
  | .lit v => v.clean
  | .badlit => true
  | .ident _ => true
  | .un _ a => a.safe S
  | .bin _ a b => a.safe S && b.safe S
  | .idx a i => a.safe S && i.safe S
  | .sel a _ => a.safe S
  | .or a b => a.safe S && b.safe S
  | .and a b => a.safe S && b.safe S
  | .cond c x y => c.safe S && x.safe S && y.safe S
  | .list xs => Expr.noErrValL S xs && Expr.safeL S xs
  | .map kvs => Expr.noErrValL S kvs && Expr.safeL S kvs
  | .call f args => (S.strictFn f || Expr.noErrValL S args) && Expr.safeL S args
  | .mcall a f args => (S.strictFn f || (a.noErrVal S && Expr.noErrValL S args)) && a.safe S && Expr.safeL S args
  | .macro k a _ body =>
      a.safe S && body.safe S &&
      (if k == .all || k == .exists_ then body.boolish else body.noErrVal S)
  | .has _ => false
  | .dyn a => a.safe S
def Expr.safeL (S : Sem) : List Expr → Bool
  | [] => true
  | x :: xs => x.safe S && Expr.safeL S xs
end

end Cel
