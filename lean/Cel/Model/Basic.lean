/-
  Cel.Model.Basic — Python exception classes that occur in cel-python, and the
  monad in which the model runs Python code (`PyM α = Except Exc α`).
  Core Lean only (no Mathlib): the driver imports this.
-/
namespace Cel

/-- Python exception classes (as far as cel-python can raise/observe them). -/
inductive Exc where
  | typeError | valueError | keyError | indexError | zeroDiv | overflow
  | nameError | attributeError | recursion | re2Error | syntaxError
  | celEval | celSyntax | other
  deriving DecidableEq, Repr, Inhabited

def Exc.name : Exc → String
  | .typeError => "TypeError" | .valueError => "ValueError" | .keyError => "KeyError"
  | .indexError => "IndexError" | .zeroDiv => "ZeroDivisionError" | .overflow => "OverflowError"
  | .nameError => "NameError" | .attributeError => "AttributeError" | .recursion => "RecursionError"
  | .re2Error => "re2.error" | .syntaxError => "SyntaxError" | .celEval => "CELEvalError"
  | .celSyntax => "CELSyntaxError" | .other => "Exception"

abbrev PyM := Except Exc

def PyM.show {α} (f : α → String) : PyM α → String
  | .ok a => "ok " ++ f a
  | .error e => "raise " ++ e.name

end Cel
