/-
  Cel.Model.Logic — the logical operators of cel-python over outcome classes.

  `O` abstracts a Python value as seen by `logical_and/or/not/condition`
  (celtypes.py): a BoolType true/false, a CELEvalError object, or some other
  (non-boolean) value which is truthy (`vt`, e.g. `1`, `'s'`) or falsy (`vf`,
  e.g. `0`, `''`, `[]`) for Python's `if`.

  `evI` mirrors the interpreter (`Evaluator.expr/conditionalor/conditionaland/
  unary`, the `all`/`exists` macro branches of `member_dot_arg`), `evC` mirrors
  the transpiled program (templates of `Phase1Transpiler.expr/conditionalor/
  conditionaland/unary`, `macro_all/macro_exists`, `result()`).
-/
import Cel.Model.Basic
namespace Cel

inductive O where
  | t | f | e | vt | vf
  deriving DecidableEq, Repr, Inhabited

namespace O
def isBool : O → Bool
  | .t => true | .f => true | _ => false
def toBool : O → Bool
  | .t => true | _ => false
def ofBool : Bool → O
  | true => .t | false => .f
/-- Python truthiness (`if x:`); a CELEvalError object is truthy. -/
def truthy : O → Bool
  | .t => true | .f => false | .e => true | .vt => true | .vf => false
def name : O → String
  | .t => "t" | .f => "f" | .e => "e" | .vt => "vt" | .vf => "vf"
def ofName? : String → Option O
  | "t" => some .t | "f" => some .f | "e" => some .e | "vt" => some .vt | "vf" => some .vf | _ => none
end O

/-- `celtypes.logical_and` -/
def land (x y : O) : PyM O :=
  if !x.isBool && !y.isBool then .error .typeError
  else if !x.isBool && y.isBool then (if y = .t then .ok x else .ok y)
  else if x.isBool && !y.isBool then (if x = .t then .ok y else .ok x)
  else .ok (O.ofBool (x.toBool && y.toBool))

/-- `celtypes.logical_or` -/
def lor (x y : O) : PyM O :=
  if !x.isBool && !y.isBool then .error .typeError
  else if !x.isBool && y.isBool then (if y = .t then .ok y else .ok x)
  else if x.isBool && !y.isBool then (if x = .t then .ok x else .ok y)
  else .ok (O.ofBool (x.toBool || y.toBool))

/-- `celtypes.logical_not` -/
def lnot (x : O) : PyM O :=
  if x = .e then .ok x
  else if x.isBool then .ok (O.ofBool (!x.toBool))
  else .error .typeError

/-- `celtypes.logical_condition` -/
def lcond (c x y : O) : PyM O :=
  if !c.isBool then .error .typeError
  else .ok (if c = .t then x else y)

/-- `except TypeError as ex: … return CELEvalError(...)` around a call. -/
def catchTE (r : PyM O) : PyM O :=
  match r with
  | .ok v => .ok v
  | .error .typeError => .ok .e
  | .error c => .error c

/-- The logical fragment of CEL. A leaf is the outcome class of an arbitrary
sub-expression; list macros carry the per-element body outcomes. -/
inductive LExpr where
  | lit (o : O)
  | and (a b : LExpr)
  | or (a b : LExpr)
  | not (a : LExpr)
  | cond (c x y : LExpr)
  | all (xs : List LExpr)
  | exists_ (xs : List LExpr)
  deriving Repr, Inhabited

/-! ### interpreter -/

/-- `reduce(eval_error("no such overload", TypeError)(logical_and), map(sub_expr, l), BoolType(True))`.
The fold is over already evaluated element outcomes. -/
def allI (l : List O) : PyM O :=
  l.foldlM (fun acc x => catchTE (land acc x)) .t
def existsI (l : List O) : PyM O :=
  l.foldlM (fun acc x => catchTE (lor acc x)) .f

mutual
/-- Interpreter. In this fragment every rule returns a value (possibly the error value `e`);
`PyM` is kept so that an escaping exception would be visible. -/
def evI : LExpr → PyM O
  | .lit o => .ok o
  | .and a b => do let x ← evI a; let y ← evI b; catchTE (land x y)
  | .or a b => do let x ← evI a; let y ← evI b; catchTE (lor x y)
  | .not a => do let x ← evI a; catchTE (lnot x)
  | .cond c x y => do
      let cv ← evI c
      -- `if cond_value: left = visit(children[1]) else: right = visit(children[2])`,
      -- the other one stays BoolType(False); then `func(cond_value, left, right)` under `except TypeError`
      if cv.truthy then do
        let l ← evI x
        catchTE (lcond cv l .f)
      else do
        let r ← evI y
        catchTE (lcond cv .f r)
  | .all xs => do let vs ← evIs xs; allI vs
  | .exists_ xs => do let vs ← evIs xs; existsI vs
/-- `map(sub_expr, member_list)` with `build_ss_macro_eval` (a raised CELEvalError becomes the value). -/
def evIs : List LExpr → PyM (List O)
  | [] => .ok []
  | x :: xs => do let v ← evI x; let vs ← evIs xs; .ok (v :: vs)
end

/-! ### compiled (transpiled) runner -/

/-- exception classes caught by `celpy.evaluation.result()` -/
def resultCaught : List Exc :=
  [.valueError, .keyError, .typeError, .zeroDiv, .overflow, .indexError, .nameError, .attributeError]

/-- `celpy.evaluation.result(activation, cel_expr)` -/
def result (r : PyM O) : PyM O :=
  match r with
  | .ok v => .ok v
  | .error c => if c ∈ resultCaught then .ok .e else .error c

/-- `BoolType(x)` applied to the result of the reduction in `macro_all/macro_exists`:
a CELEvalError object is not convertible (`int()` raises TypeError); other non-bools are coerced. -/
def boolTypeOf (x : O) : PyM O :=
  match x with
  | .t => .ok .t | .f => .ok .f
  | .e => .error .typeError
  | .vt => .ok .t | .vf => .ok .f

def allC (l : List O) : PyM O := do
  let r ← l.foldlM (fun acc x => catchTE (land acc x)) .t
  boolTypeOf r
def existsC (l : List O) : PyM O := do
  let r ← l.foldlM (fun acc x => catchTE (lor acc x)) .f
  boolTypeOf r

mutual
/-- Denotation of the transpiled Python: an erroneous leaf *raises* (here: TypeError, a class
`result()` catches); `result()` sits exactly where the templates put it. -/
def evC : LExpr → PyM O
  | .lit .e => .error .typeError
  | .lit o => .ok o
  | .and a b => do let x ← result (evC a); let y ← result (evC b); land x y
  | .or a b => do let x ← result (evC a); let y ← result (evC b); lor x y
  | .not a => do let x ← evC a; lnot x
  | .cond c x y => do
      let cv ← result (evC c); let l ← result (evC x); let r ← result (evC y)
      lcond cv l r
  | .all xs => do let vs ← evCs xs; allC vs
  | .exists_ xs => do let vs ← evCs xs; existsC vs
/-- `(result(act, cel_expr) for act in activations)` -/
def evCs : List LExpr → PyM (List O)
  | [] => .ok []
  | x :: xs => do let v ← result (evC x); let vs ← evCs xs; .ok (v :: vs)
end

/-- What the API caller observes: the top-level `result()`; an error value is raised as CELEvalError. -/
def runC (e : LExpr) : PyM O := result (evC e)
def runI (e : LExpr) : PyM O := evI e

/-! ### the property's reading (specification), partial: `none` = "the statement says nothing"

Mirrors `spec()` of `py/verif/props/c02.py` (the independent oracle of the check); the driver prints it
(`S` lines) so that the two are compared on every generated tree, and `Props.C02.spec_sound` proves that
both runners' models meet it on EVERY tree, non-boolean leaves included. -/

/-- a non-boolean, non-error value -/
def O.nb : O → Bool
  | .vt => true | .vf => true | _ => false

/-- `a && b` (`dec = f`, `oth = t`) / `a || b` (`dec = t`, `oth = f`): the deciding operand decides whatever the
other one is (unspecified, error, non-boolean); two non-booleans are an error; one non-boolean beside a
non-deciding operand is unspecified; otherwise Kleene. -/
def specBin (dec oth : O) (a b : Option O) : Option O :=
  if a = some dec ∨ b = some dec then some dec
  else match a, b with
    | some x, some y =>
      if x.nb && y.nb then some .e
      else if x.nb || y.nb then none
      else if x = oth ∧ y = oth then some oth
      else some .e
    | _, _ => none

def specNot : Option O → Option O
  | some .t => some .f | some .f => some .t | some .e => some .e | _ => none

/-- `c ? x : y`: the selected branch (whatever the other one is); an error or non-boolean condition is an error -/
def specCond (c x y : Option O) : Option O :=
  match c with
  | some .t => x
  | some .f => y
  | none => none
  | some _ => some .e

mutual
def spec : LExpr → Option O
  | .lit o => some o
  | .and a b => specBin .f .t (spec a) (spec b)
  | .or a b => specBin .t .f (spec a) (spec b)
  | .not a => specNot (spec a)
  | .cond c x y => specCond (spec c) (spec x) (spec y)
  -- "the all / exists macros apply the same absorbing rules across the elements of a list"
  | .all xs => (specs xs).foldl (specBin .f .t) (some .t)
  | .exists_ xs => (specs xs).foldl (specBin .t .f) (some .f)
def specs : List LExpr → List (Option O)
  | [] => []
  | x :: xs => spec x :: specs xs
end

end Cel
