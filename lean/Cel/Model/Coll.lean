/-
  Cel.Model.Coll — lists, maps, strings and the comprehension macros of cel-python
  (property C09), over a small value type of its own.

  Mirrors (src/celpy):
    evaluation.py  operator_in, function_size/contains/startsWith/endsWith/matches,
                   Evaluator.member_dot / member_dot_arg (macro branches) / member_index /
                   exprlist / mapinits / macro_has_eval / primary(list_lit, map_lit),
                   build_macro_eval / build_ss_macro_eval,
                   macro_map / macro_filter / macro_exists_one / macro_exists / macro_all,
                   result(), the transpiler templates for `_[_]`, `.get('f')`, `has`,
                   list_lit (`ListType([..])`), map_lit (`MapType([(k, v), ..])`)
    celtypes.py    ListType.__getitem__/__eq__/contains, MapType.__init__/__getitem__/get/
                   valid_key_type/contains, StringType.contains, logical_and/or/not/condition

  `ev r env e : PyM V` evaluates an expression with runner `r`.  `.error c` is a *raised*
  Python exception of class `c` (for the interpreter: one that escapes the rule methods;
  for the transpiled program: any raise);  `.ok .err` is a `CELEvalError` *object* handled
  as a value (the interpreter's normal way to carry an error; in transpiled code the output
  of `result()` and of `function_matches` on a bad pattern).  At the API both are an
  evaluation error (`obs`).

  Core Lean only.
-/
import Cel.Model.Basic
import Cel.Model.Num
namespace Cel.Coll
open Cel

/-! ### values -/

/-- int / uint / bool / string (code points) / list / map (insertion-ordered, keys unique) /
a `CELEvalError` object -/
inductive V where
  | int (i : Int)
  | uint (n : Int)
  | bool (b : Bool)
  | str (cs : List Nat)
  | list (xs : List V)
  | map (kvs : List (V × V))
  | err
  /-- a native Python `bool` (what the transpiled `has(…)` template returns: `not isinstance(…)`);
  not a `BoolType` for `logical_*`, but an `int` for comparisons -/
  | pybool (b : Bool)
  /-- CEL `null` (Python `None`): an ordinary value — bound to a present key, held by a list -/
  | null
  /-- a `DoubleType` (IEEE-754 binary64; `Float` is the same native type): equality is IEEE equality,
  so a NaN is equal to nothing, itself included -/
  | dbl (f : Float)
  deriving Repr, Inhabited

inductive Runner | I | C
  deriving DecidableEq, Repr

mutual
/-- canonical text used by the correspondence harness -/
def V.show : V → String
  | .int i => "i" ++ toString i
  | .uint n => "u" ++ toString n
  | .bool b => if b then "bT" else "bF"
  | .str cs => "s" ++ ".".intercalate (cs.map toString)
  | .list xs => "L[" ++ V.showList xs ++ "]"
  | .map kvs => "M{" ++ V.showPairs kvs ++ "}"
  | .err => "E"
  | .pybool b => if b then "bT" else "bF"
  | .null => "n"
  | .dbl f => if f.isNaN then "dnan" else "d" ++ toString f.toBits.toNat
def V.showList : List V → String
  | [] => ""
  | [x] => V.show x
  | x :: xs => V.show x ++ "," ++ V.showList xs
def V.showPairs : List (V × V) → String
  | [] => ""
  | [(k, v)] => V.show k ++ ":" ++ V.show v
  | (k, v) :: kvs => V.show k ++ ":" ++ V.show v ++ "," ++ V.showPairs kvs
end

/-- Python truthiness (`bool(x)`, `if x:`); an exception object is truthy. -/
def truthy : V → Bool
  | .int i => i != 0
  | .uint n => n != 0
  | .bool b => b
  | .str cs => !cs.isEmpty
  | .list xs => !xs.isEmpty
  | .map kvs => !kvs.isEmpty
  | .err => true
  | .pybool b => b
  | .null => false
  | .dbl f => f != 0

def V.isErr : V → Bool
  | .err => true | _ => false

/-! ### exception plumbing -/

/-- `except (c₁, …) as ex: return CELEvalError(…)` around a call (interpreter rule methods). -/
def catching (hs : List Exc) (m : PyM V) : PyM V :=
  match m with
  | .ok v => .ok v
  | .error c => if c ∈ hs then .ok .err else .error c

/-- the interpreter wraps, the transpiled code does not -/
def handled (r : Runner) (hs : List Exc) (m : PyM V) : PyM V :=
  match r with
  | .I => catching hs m
  | .C => m

/-- exception classes caught by `celpy.evaluation.result()` -/
def resultCaught : List Exc :=
  [.valueError, .keyError, .typeError, .zeroDiv, .overflow, .indexError, .nameError, .attributeError]

/-- `celpy.evaluation.result(activation, cel_expr)` -/
def result (m : PyM V) : PyM V := catching resultCaught m

/-- `Evaluator.evaluate`: `if isinstance(value, CELEvalError): raise value` -/
def raiseIfErr (m : PyM V) : PyM V :=
  match m with
  | .ok .err => .error .celEval
  | x => x

/-- `build_ss_macro_eval`: `try: return nested_eval.evaluate(..) except CELEvalError as ex: return ex` -/
def ssBody (m : PyM V) : PyM V :=
  match raiseIfErr m with
  | .error .celEval => .ok .err
  | x => x

/-! ### equality, membership -/

/-- three-valued conjunction of comparison outcomes (`reduce(logical_and, …)` over `BoolType`s and
caught `TypeError`s in `ListType.__eq__` / `MapType.__eq__`) -/
def kand (a b : PyM Bool) : PyM Bool :=
  match a, b with
  | .ok false, _ => .ok false
  | _, .ok false => .ok false
  | .ok true, .ok true => .ok true
  | .error e, _ => .error e
  | _, .error e => .error e

/-- equality of map keys as `dict` lookup sees it (`stored == looked_up`, only reached when the
hashes collide): same kind structural; `BoolType` stored keys compare numerically with ints
(`int.__eq__`); `IntType`/`UintType` stored keys raise `TypeError` on another numeric kind
(`type_matched`). -/
def keyEq (stored lookup : V) : PyM Bool :=
  match stored, lookup with
  | .int a, .int b => .ok (a == b)
  | .uint a, .uint b => .ok (a == b)
  | .bool a, .bool b => .ok (a == b)
  | .str a, .str b => .ok (a == b)
  | .bool a, .int b => .ok ((if a then 1 else 0) == b)
  | .bool a, .uint b => .ok ((if a then 1 else 0) == b)
  | .int a, .uint b => if a == b then .error .typeError else .ok false
  | .uint a, .int b => if a == b then .error .typeError else .ok false
  | .int a, .bool b => if a == (if b then 1 else 0) then .error .typeError else .ok false
  | .uint a, .bool b => if a == (if b then 1 else 0) then .error .typeError else .ok false
  | _, _ => .ok false

/-- `MapType.valid_key_type` (also: only these are hashable among the modelled kinds) -/
def validKey : V → Bool
  | .int _ => true | .uint _ => true | .bool _ => true | .str _ => true | _ => false

/-- `dict.__getitem__`: the value stored under the first matching key -/
def lookup (k : V) : List (V × V) → PyM (Option V)
  | [] => .ok none
  | (k', v) :: rest => do
      if (← keyEq k' k) then .ok (some v) else lookup k rest

mutual
/-- Python `a == b` (`operator.eq`) on the modelled kinds.  Different kinds raise `TypeError`
(`type_matched`, `ListType.__eq__`, `MapType.__eq__`) except the `bool` quirks of `int.__eq__` /
`str.__eq__`; a `CELEvalError` operand: `TypeError` (`NotImplemented` then the reflected method). -/
def veq : V → V → PyM Bool
  | .int a, .int b => .ok (a == b)
  | .uint a, .uint b => .ok (a == b)
  | .bool a, .bool b => .ok (a == b)
  | .str a, .str b => .ok (a == b)
  | .bool a, .int b => .ok ((if a then 1 else 0) == b)
  | .bool a, .uint b => .ok ((if a then 1 else 0) == b)
  | .bool _, .str _ => .ok false
  | .str _, .bool _ => .ok false
  | .pybool a, .pybool b => .ok (a == b)
  | .pybool a, .bool b => .ok (a == b)
  | .bool a, .pybool b => .ok (a == b)
  | .pybool a, .int b => .ok ((if a then 1 else 0) == b)
  | .pybool a, .uint b => .ok ((if a then 1 else 0) == b)
  | .pybool _, .str _ => .ok false
  | .str _, .pybool _ => .ok false
  | .list a, .list b => if a.length != b.length then .ok false else veqZip a b
  | .map a, .map b => if a.length != b.length then .ok false else veqEntries a b
  -- `None == None`; `None` against a bool / string / list / map: Python's default `False`
  -- (the numeric kinds insist on their own type: `type_matched` raises)
  | .null, .null => .ok true
  | .null, .bool _ => .ok false
  | .bool _, .null => .ok false
  | .null, .pybool _ => .ok false
  | .pybool _, .null => .ok false
  | .null, .str _ => .ok false
  | .str _, .null => .ok false
  | .null, .list _ => .ok false
  | .list _, .null => .ok false
  | .null, .map _ => .ok false
  | .map _, .null => .ok false
  -- `float.__eq__`: IEEE-754 (`Float`'s `==`), never object identity
  | .dbl a, .dbl b => .ok (a == b)
  | _, _ => .error .typeError
/-- `reduce(logical_and, (equal(s, o) for s, o in zip(self, other)), True)` -/
def veqZip : List V → List V → PyM Bool
  | x :: xs, y :: ys => kand (veq x y) (veqZip xs ys)
  | _, _ => .ok true
/-- `keys_s == keys_o and reduce(logical_and, (equal(self[k], other[k]) for k in keys_s), True)`
(both maps have the same number of unique keys, so `keys_s ⊆ keys_o` is key-set equality) -/
def veqEntries : List (V × V) → List (V × V) → PyM Bool
  | [], _ => .ok true
  | (k, v) :: rest, other =>
      match lookup k other with
      | .ok (some v') => kand (veq v v') (veqEntries rest other)
      | .ok none => .ok false
      | .error e => .error e
end

/-- `operator_in` loop: `for c in container: try: if c == item: return True except TypeError: result = error` -/
def inLoop (item : V) : List V → V → V
  | [], acc => acc
  | c :: rest, acc =>
      match veq c item with
      | .ok true => .bool true
      | .ok false => inLoop item rest acc
      | .error _ => inLoop item rest .err

/-- what `for c in container` iterates over -/
def iterOf : V → PyM (List V)
  | .list xs => .ok xs
  | .map kvs => .ok (kvs.map (·.1))
  | _ => .error .typeError

/-- `operator_in(item, container)` -/
def vin (item container : V) : PyM V :=
  if item.isErr then .ok item
  else if container.isErr then .ok container
  else do
    let xs ← iterOf container
    .ok (inLoop item xs (.bool false))

/-! ### indexing, field selection, size -/

/-- Python's `list.__getitem__` with an int (primitive): a negative index counts from the end -/
def pyListGetitem (xs : List V) (n : Int) : PyM V :=
  let m : Int := if n < 0 then n + xs.length else n
  if m < 0 then .error .indexError
  else match xs[m.toNat]? with
    | some v => .ok v
    | none => .error .indexError

/-- `ListType.__getitem__(index)` for an `int` index: `if isinstance(index, int) and index < 0: raise
IndexError`, then `super().__getitem__(index)` -/
def listAt (xs : List V) (n : Int) : PyM V :=
  if n < 0 then .error .indexError else pyListGetitem xs n

/-- `operator.getitem(member, index)`: `ListType.__getitem__` (negative ints are out of range,
any `int` subclass is an index), `MapType.__getitem__` (key type check, then `dict` lookup).
String indexing is not modelled (not CEL). -/
def getitem (c i : V) : PyM V :=
  match c with
  | .list xs =>
      match i with
      | .int n => listAt xs n
      | .uint n => listAt xs n
      | .bool b => listAt xs (if b then 1 else 0)
      | _ => .error .typeError
  | .map kvs =>
      if !validKey i then .error .typeError
      else do
        match (← lookup i kvs) with
        | some v => .ok v
        | none => .error .keyError
  | _ => .error .typeError

/-! primitives the translated `MapType.get` (Cel.Gen.Coll.mapGet) is written in; Python's `None` is `V.null` -/

/-- `key in self` on a `dict` -/
def dictContains (k : V) (kvs : List (V × V)) : PyM Bool := do
  match (← lookup k kvs) with
  | some _ => .ok true
  | none => .ok false

/-- `dict.get(self, key, default)` -/
def dictGetD (kvs : List (V × V)) (k d : V) : PyM V := do
  match (← lookup k kvs) with
  | some v => .ok v
  | none => .ok d

/-- `dict.__getitem__(self, key)` -/
def dictGetitem (kvs : List (V × V)) (k : V) : PyM V := do
  match (← lookup k kvs) with
  | some v => .ok v
  | none => .error .keyError

/-- `x is None` -/
def V.isNone : V → Bool
  | .null => true | _ => false

/-- exception classes turned into error values by `Evaluator.member_index` -/
def indexHandlers : List Exc := [.typeError, .keyError, .indexError]

/-- `member.f`.  Interpreter (`member_dot`): error passes through, `MapType` → `member["f"]` with
`KeyError` caught, anything else an error value.  Transpiled: `member.get('f')` — `MapType.get`
raises `KeyError`, other kinds have no `get` (`AttributeError`). -/
def select (r : Runner) (m : V) (f : List Nat) : PyM V :=
  match r, m with
  | .I, .err => .ok .err
  | _, .map kvs =>
      handled r [.keyError] (do
        match (← lookup (.str f) kvs) with
        | some v => .ok v
        | none => .error .keyError)
  | .I, _ => .ok .err
  | .C, _ => .error .attributeError

/-- `function_size` = `IntType(len(container))` -/
def sizeFn : V → PyM V
  | .str cs => .ok (.int cs.length)
  | .list xs => .ok (.int xs.length)
  | .map kvs => .ok (.int kvs.length)
  | .null => .ok (.int 0)                     -- `if container is None: return IntType(0)`
  | _ => .error .typeError

/-- a function/method call through `function_eval` / `method_eval` (interpreter: an error argument
is returned, `TypeError`/`ValueError`/`AttributeError` become error values) or a plain Python call
(transpiled) -/
def callFn (r : Runner) (args : List V) (f : PyM V) : PyM V :=
  match r with
  | .I => if args.any V.isErr then .ok .err
          else catching [.typeError, .valueError, .attributeError] f
  | .C => f

/-! ### strings -/

/-- `item in self` on `str`: substring test -/
def isInfix (needle : List Nat) : List Nat → Bool
  | [] => needle.isEmpty
  | c :: cs => needle.isPrefixOf (c :: cs) || isInfix needle cs

inductive SFn | contains | startsWith | endsWith
  deriving DecidableEq, Repr

/-- `function_contains` / `function_startsWith` / `function_endsWith` -/
def strFn (f : SFn) (a b : V) : PyM V :=
  match f, a, b with
  | .contains, .str s, .str t => .ok (.bool (isInfix t s))
  | .contains, .list xs, x => .ok (inLoopPy x xs)
  | .contains, .map kvs, x => .ok (inLoopPy x (kvs.map (·.1)))
  | .startsWith, .str s, .str t => .ok (.bool (t.isPrefixOf s))
  | .endsWith, .str s, .str t => .ok (.bool (t.isSuffixOf s))
  | _, _, _ => .error .typeError
where
  /-- `item in list` / `item in dict` of Python for well-typed (same kind) operands; a comparison
  that raises is not modelled beyond reporting an error -/
  inLoopPy (x : V) (xs : List V) : V :=
    match inLoop x xs (.bool false) with
    | .err => .err
    | v => v

/-! ### regular expressions (fragment of RE2 syntax, search semantics) -/

inductive Re where
  | eps
  | chr (c : Nat)
  | any                                   -- `.` : every code point except newline
  | cls (neg : Bool) (rs : List (Nat × Nat))   -- `[a-cx]`, `[^…]`
  | cat (a b : Re)
  | alt (a b : Re)
  | star (a : Re)
  | plus (a : Re)
  | opt (a : Re)
  | bol                                   -- `^` : beginning of text
  | eol                                   -- `$` : end of text
  deriving Repr, Inhabited

def inCls (rs : List (Nat × Nat)) (c : Nat) : Bool := rs.any (fun p => p.1 ≤ c && c ≤ p.2)

def union (a b : List Nat) : List Nat := (a ++ b).eraseDups
def unionMap (f : Nat → List Nat) (l : List Nat) : List Nat := (l.flatMap f).eraseDups

/-- `n` rounds of "add every position one more iteration reaches" -/
def closure (f : Nat → List Nat) : Nat → List Nat → List Nat
  | 0, set => set
  | n+1, set => closure f n (union set (unionMap f set))

/-- every end position `j` such that `r` matches `s[i..j)` -/
def ends (s : List Nat) : Re → Nat → List Nat
  | .eps, i => [i]
  | .chr c, i => if s[i]? = some c then [i+1] else []
  | .any, i => match s[i]? with
      | some c => if c ≠ 10 then [i+1] else []
      | none => []
  | .cls neg rs, i => match s[i]? with
      | some c => if inCls rs c != neg then [i+1] else []
      | none => []
  | .cat a b, i => unionMap (fun j => ends s b j) (ends s a i)
  | .alt a b, i => union (ends s a i) (ends s b i)
  | .star a, i => closure (fun j => ends s a j) (s.length + 1) [i]
  | .plus a, i => closure (fun j => ends s a j) (s.length + 1) (ends s a i)
  | .opt a, i => union [i] (ends s a i)
  | .bol, i => if i = 0 then [i] else []
  | .eol, i => if i = s.length then [i] else []

/-- `re2.search(pattern, text) is not None` -/
def searchM (r : Re) (s : List Nat) : Bool :=
  (List.range (s.length + 1)).any (fun i => !(ends s r i).isEmpty)

/-- a pattern literal: in the fragment, or rejected by RE2 (`re2.error`) -/
inductive Pat | ok (r : Re) | bad
  deriving Repr, Inhabited

/-- `function_matches(text, pattern)`: a bad pattern gives a `CELEvalError` *value* in both runners -/
def matchesFn (a : V) (p : Pat) : PyM V :=
  match a, p with
  | .str s, .ok r => .ok (.bool (searchM r s))
  | _, .bad => .ok .err              -- the pattern is compiled first, whatever the text is
  | _, .ok _ => .error .typeError

/-! ### logical operators on values (celtypes.logical_*) -/

def V.isBool : V → Bool
  | .bool _ => true | _ => false

def vand (x y : V) : PyM V :=
  match x, y with
  | .bool a, .bool b => .ok (.bool (a && b))
  | .bool a, y => if a then .ok y else .ok (.bool false)
  | x, .bool b => if b then .ok x else .ok (.bool false)
  | _, _ => .error .typeError

def vor (x y : V) : PyM V :=
  match x, y with
  | .bool a, .bool b => .ok (.bool (a || b))
  | .bool a, y => if a then .ok (.bool true) else .ok y
  | x, .bool b => if b then .ok (.bool true) else .ok x
  | _, _ => .error .typeError

def vnot : V → PyM V
  | .err => .ok .err
  | .bool b => .ok (.bool !b)
  | _ => .error .typeError

def vcond (c x y : V) : PyM V :=
  match c with
  | .bool b => .ok (if b then x else y)
  | _ => .error .typeError

/-! ### arithmetic and relations -/

inductive BOp | add | sub | mul | div | mod | eq | ne | lt | le | gt | ge | in_
  deriving DecidableEq, Repr

def lexLt : List Nat → List Nat → Bool
  | [], [] => false
  | [], _ :: _ => true
  | _ :: _, [] => false
  | a :: as, b :: bs => a < b || (a == b && lexLt as bs)

/-- `<` on two values of the same kind (other pairings are not modelled: `TypeError`) -/
def vlt (a b : V) : PyM Bool :=
  match a, b with
  | .int a, .int b => .ok (a < b)
  | .uint a, .uint b => .ok (a < b)
  | .bool a, .bool b => .ok (!a && b)
  | .pybool a, .bool b => .ok (!a && b)
  | .bool a, .pybool b => .ok (!a && b)
  | .pybool a, .pybool b => .ok (!a && b)
  | .str a, .str b => .ok (lexLt a b)
  | .dbl a, .dbl b => .ok (a < b)
  | _, _ => .error .typeError

/-- `a <= b`: on doubles IEEE `<=` (false whenever a NaN is involved — not the negation of `>`);
on the totally ordered kinds `not (b < a)` -/
def vle (a b : V) : PyM Bool :=
  match a, b with
  | .dbl a, .dbl b => .ok (a <= b)
  | a, b => (fun x => !x) <$> vlt b a

/-- `a != b` raises where `ListType.__ne__` / `MapType.__ne__` answer a `None` operand with `TypeError`
(their `__eq__` returns `False` there) -/
def neRaises : V → V → Bool
  | .null, .list _ => true
  | .list _, .null => true
  | .null, .map _ => true
  | .map _, .null => true
  | _, _ => false

/-- three-valued disjunction of comparison outcomes (`reduce(logical_or, …)` in `ListType.__ne__` /
`MapType.__ne__`) -/
def kor (a b : PyM Bool) : PyM Bool :=
  match a, b with
  | .ok true, _ => .ok true
  | _, .ok true => .ok true
  | .ok false, .ok false => .ok false
  | .error e, _ => .error e
  | _, .error e => .error e

mutual
/-- Python `a != b` (`operator.ne`): `ListType.__ne__` / `MapType.__ne__` are written separately from
`__eq__` (element-wise `!=`, three-valued `or`; a `None` operand raises); everything else is the negated `==` -/
def vne : V → V → PyM Bool
  | .list a, .list b => if a.length != b.length then .ok true else vneZip a b
  | .map a, .map b => if a.length != b.length then .ok true else vneEntries a b
  | a, b => if neRaises a b then .error .typeError else (fun x => !x) <$> veq a b
def vneZip : List V → List V → PyM Bool
  | x :: xs, y :: ys => kor (vne x y) (vneZip xs ys)
  | _, _ => .ok false
def vneEntries : List (V × V) → List (V × V) → PyM Bool
  | [], _ => .ok false
  | (k, v) :: rest, other =>
      match lookup k other with
      | .ok (some v') => kor (vne v v') (vneEntries rest other)
      | .ok none => .ok true
      | .error e => .error e
end

def arith (op : BOp) (a b : V) : PyM V :=
  match op, a, b with
  | .add, .int a, .int b => .int <$> IntOps.add a b
  | .sub, .int a, .int b => .int <$> IntOps.sub a b
  | .mul, .int a, .int b => .int <$> IntOps.mul a b
  | .div, .int a, .int b => .int <$> IntOps.truediv a b
  | .mod, .int a, .int b => .int <$> IntOps.mod a b
  | .add, .uint a, .uint b => .uint <$> UintOps.add a b
  | .sub, .uint a, .uint b => .uint <$> UintOps.sub a b
  | .mul, .uint a, .uint b => .uint <$> UintOps.mul a b
  | .div, .uint a, .uint b => .uint <$> UintOps.truediv a b
  | .mod, .uint a, .uint b => .uint <$> UintOps.mod a b
  | .add, .str a, .str b => .ok (.str (a ++ b))
  | .add, .list a, .list b => .ok (.list (a ++ b))
  -- `DoubleType` arithmetic is `float`'s (IEEE-754; `__truediv__` spells out x/0 = ±inf or NaN)
  | .add, .dbl a, .dbl b => .ok (.dbl (a + b))
  | .sub, .dbl a, .dbl b => .ok (.dbl (a - b))
  | .mul, .dbl a, .dbl b => .ok (.dbl (a * b))
  | .div, .dbl a, .dbl b => .ok (.dbl (a / b))
  | _, _, _ => .error .typeError

/-- `operator.<op>(a, err)` with a `CELEvalError` object on the right (measured): `IntType`/`UintType`
dunders and `str`/`list` concatenation raise `TypeError` before the reflected `CELEvalError.__r<op>__`
(which returns the error) is tried; for the other left kinds the reflected method answers. -/
def arithErrRight (op : BOp) (a : V) : PyM V :=
  match a, op with
  | .int _, _ => .error .typeError
  | .uint _, _ => .error .typeError
  | .str _, .add => .error .typeError
  | .str _, .mod => .error .typeError
  | .list _, .add => .error .typeError
  | .dbl _, .div => .error .typeError
  | .dbl _, .mod => .error .typeError
  | _, _ => .ok .err

/-- a binary operator applied to evaluated operands (`operator.*`, `boolean(operator.*)`,
`operator_in`): `boolean` and `operator_in` return a `CELEvalError` operand; the arithmetic dunders of
`CELEvalError` return `self` -/
def binop (op : BOp) (a b : V) : PyM V :=
  match op with
  | .eq => if a.isErr then .ok a else if b.isErr then .ok b else (fun x => .bool x) <$> veq a b
  | .ne => if a.isErr then .ok a else if b.isErr then .ok b else .bool <$> vne a b
  | .lt => if a.isErr then .ok a else if b.isErr then .ok b else .bool <$> vlt a b
  | .gt => if a.isErr then .ok a else if b.isErr then .ok b else .bool <$> vlt b a
  | .le => if a.isErr then .ok a else if b.isErr then .ok b else .bool <$> vle a b
  | .ge => if a.isErr then .ok a else if b.isErr then .ok b else .bool <$> vle b a
  | .in_ => vin a b
  | op => if a.isErr then .ok a else if b.isErr then arithErrRight op a else arith op a b

/-- handlers of `Evaluator.relation/addition/multiplication` -/
def binHandlers : List Exc := [.typeError, .valueError, .overflow, .zeroDiv]

/-! ### macros over already evaluated collections -/

inductive MK | map | filter | all | exists_ | existsOne
  deriving DecidableEq, Repr

/-- `ListType(map(sub_expr, member_list))` -/
def mapM (f : V → PyM V) (l : List V) : PyM (List V) := l.mapM f

/-- `ListType(filter(sub_expr, member_list))` / the loop of `macro_filter` -/
def filterM (p : V → PyM V) : List V → PyM (List V)
  | [] => .ok []
  | x :: xs => do
      let b ← p x
      let rest ← filterM p xs
      .ok (if truthy b then x :: rest else rest)

/-- `sum(1 for value in member_list if bool(sub_expr(value)))` -/
def countM (p : V → PyM V) : List V → PyM Nat
  | [] => .ok 0
  | x :: xs => do
      let b ← p x
      let n ← countM p xs
      .ok (if truthy b then n + 1 else n)

def existsOneM (p : V → PyM V) (l : List V) : PyM V := do
  let n ← countM p l
  .ok (.bool (n == 1))

/-- `reduce(eval_error("no such overload", TypeError)(logical_and), map(sub_expr, l), BoolType(True))` -/
def allFold (p : V → PyM V) : List V → V → PyM V
  | [], acc => .ok acc
  | x :: xs, acc => do
      let b ← p x
      let acc' ← catching [.typeError] (vand acc b)
      allFold p xs acc'

def existsFold (p : V → PyM V) : List V → V → PyM V
  | [], acc => .ok acc
  | x :: xs, acc => do
      let b ← p x
      let acc' ← catching [.typeError] (vor acc b)
      existsFold p xs acc'

/-- `BoolType(x)` around the reduction in `macro_all` / `macro_exists`: an error object is not
convertible (`TypeError`), other values are coerced by truthiness (`int.__new__`) — only ints and
bools are modelled -/
def boolTypeOf : V → PyM V
  | .bool b => .ok (.bool b)
  | .int i => .ok (.bool (i != 0))
  | .uint i => .ok (.bool (i != 0))
  | .pybool b => .ok (.bool b)
  | .null => .ok (.bool false)
  | .dbl f => if f.isNaN then .error .valueError else .ok (.bool (f != 0))
  | _ => .error .typeError

/-- one macro applied to the evaluated collection `c`; `body v` evaluates the macro's expression
with the variable bound to `v` (raw: before the runner-specific wrapping) -/
def macroM (r : Runner) (k : MK) (c : V) (body : V → PyM V) : PyM V :=
  match r with
  | .I =>
      if c.isErr then .ok c else
      match iterOf c with
      -- a range that cannot be iterated (`null.all(x, p)`): the `TypeError` is handled inside the interpreter,
      -- the macro's value is an error VALUE (absorbed by `||` / `&&`) — measured, round 3
      | .error _ => .ok .err
      | .ok l =>
      match k with
      -- `try: … except CELEvalError as ex: result_value = ex` around the three eager macros
      | .map => catching [.celEval] (.list <$> mapM (fun v => raiseIfErr (body v)) l)
      | .filter => catching [.celEval] (.list <$> filterM (fun v => raiseIfErr (body v)) l)
      | .existsOne => catching [.celEval] (existsOneM (fun v => raiseIfErr (body v)) l)
      | .all => allFold (fun v => ssBody (body v)) l (.bool true)
      | .exists_ => existsFold (fun v => ssBody (body v)) l (.bool false)
  | .C => do
      let l ← iterOf c
      match k with
      | .map => .list <$> mapM body l
      | .filter => .list <$> filterM body l
      | .existsOne => existsOneM body l
      | .all => do boolTypeOf (← allFold (fun v => result (body v)) l (.bool true))
      | .exists_ => do boolTypeOf (← existsFold (fun v => result (body v)) l (.bool false))

/-! ### map construction -/

/-- the loop of `mapinits` / `MapType.__init__` over evaluated `[k₁, v₁, k₂, v₂, …]`:
`if key in result: raise ValueError("Duplicate key")`; an unhashable key is a `TypeError` -/
def buildMap : List V → List (V × V) → PyM (List (V × V))
  | k :: v :: rest, acc => do
      if !validKey k then .error .typeError
      else match (← lookup k acc) with
        | some _ => .error .valueError
        | none => buildMap rest (acc ++ [(k, v)])
  | _, acc => .ok acc

/-! ### expressions and the two evaluators -/

inductive E where
  | lit (v : V)
  | var (x : Nat)
  | listLit (es : List E)
  | mapLit (kvs : List E)              -- `[k₁, v₁, k₂, v₂, …]` as `visit_children` returns them
  | index (a i : E)
  | sel (a : E) (f : List Nat)
  | has (a : E) (f : List Nat)         -- `has(a.f)`
  | size (a : E)
  | neg (a : E)
  | not (a : E)
  | bin (op : BOp) (a b : E)
  | and (a b : E)
  | or (a b : E)
  | cond (c a b : E)
  | meth (f : SFn) (a b : E)
  | matches (a : E) (p : Pat)
  | macro (k : MK) (c : E) (x : Nat) (body : E)
  deriving Repr, Inhabited

abbrev Env := List (Nat × V)

def Env.find (env : Env) (x : Nat) : Option V :=
  match env with
  | [] => none
  | (y, v) :: rest => if x = y then some v else Env.find rest x

def vneg (r : Runner) (a : V) : PyM V :=
  match a with
  | .err => .ok .err
  | .int i => handled r [.typeError, .valueError] (.int <$> IntOps.neg i)
  | .dbl f => .ok (.dbl (-f))
  | _ => handled r [.typeError, .valueError] (.error .typeError)

mutual
def ev (r : Runner) : Env → E → PyM V
  | _, .lit v => .ok v
  | env, .var x =>
      match env.find x with
      | some v => .ok v
      | none => handled r [.keyError, .nameError] (.error (if r = .I then .keyError else .nameError))
  | env, .listLit es => do
      let vs ← evs r env es
      match r with
      | .I => if vs.any V.isErr then .ok .err else .ok (.list vs)      -- `exprlist`
      | .C => .ok (.list vs)
  | env, .mapLit kvs => do
      let vs ← evs r env kvs
      match r with
      | .I => if vs.any V.isErr then .ok .err                            -- `mapinits`
              else catching [.valueError, .typeError] (.map <$> buildMap vs [])  -- `primary(map_lit)`
      | .C => .map <$> buildMap vs []
  | env, .index a i => do
      let c ← ev r env a
      let j ← ev r env i
      handled r indexHandlers (getitem c j)
  | env, .sel a f => do
      let m ← ev r env a
      select r m f
  | env, .has a f =>
      match r with
      | .I => do
          let m ← ev r env a
          let v ← select r m f
          .ok (.bool !v.isErr)
      | .C => do
          let v ← result (do let m ← ev r env a; select r m f)
          .ok (.pybool !v.isErr)
  | env, .size a => do
      let v ← ev r env a
      callFn r [v] (sizeFn v)
  | env, .neg a => do
      let v ← ev r env a
      vneg r v
  | env, .not a => do
      let v ← ev r env a
      handled r [.typeError, .valueError] (vnot v)
  | env, .bin op a b => do
      let x ← ev r env a
      let y ← ev r env b
      handled r binHandlers (binop op x y)
  | env, .and a b =>
      match r with
      | .I => do let x ← ev r env a; let y ← ev r env b; catching [.typeError] (vand x y)
      | .C => do let x ← result (ev r env a); let y ← result (ev r env b); vand x y
  | env, .or a b =>
      match r with
      | .I => do let x ← ev r env a; let y ← ev r env b; catching [.typeError] (vor x y)
      | .C => do let x ← result (ev r env a); let y ← result (ev r env b); vor x y
  | env, .cond c a b =>
      match r with
      | .I => do
          let cv ← ev r env c
          if truthy cv then do
            let x ← ev r env a
            catching [.typeError] (vcond cv x (.bool false))
          else do
            let y ← ev r env b
            catching [.typeError] (vcond cv (.bool false) y)
      | .C => do
          let cv ← result (ev r env c)
          let x ← result (ev r env a)
          let y ← result (ev r env b)
          vcond cv x y
  | env, .meth f a b => do
      let x ← ev r env a
      let y ← ev r env b
      callFn r [x, y] (strFn f x y)
  | env, .matches a p => do
      let x ← ev r env a
      callFn r [x] (matchesFn x p)
  | env, .macro k c x body => do
      let cv ← ev r env c
      macroM r k cv (fun v => ev r ((x, v) :: env) body)
def evs (r : Runner) : Env → List E → PyM (List V)
  | _, [] => .ok []
  | env, e :: es => do
      let v ← ev r env e
      let vs ← evs r env es
      .ok (v :: vs)
end

/-- what `Runner.evaluate` lets the caller observe: a value, or an evaluation error -/
def obs (m : PyM V) : String :=
  match m with
  | .error _ => "err"
  | .ok .err => "err"
  | .ok v => v.show

def run (r : Runner) (e : E) : String := obs (ev r [] e)

/-- evaluation with variables supplied by the evaluation context (`Runner.evaluate(activation)`): the
context is the outermost scope; each binding is given as a literal expression -/
def runWith (r : Runner) (binds : List (Nat × E)) (e : E) : String :=
  match binds.mapM (fun (x, b) => (fun v => (x, v)) <$> ev r [] b) with
  | .ok env => obs (ev r env e)
  | .error _ => "bad-binding"

end Cel.Coll
