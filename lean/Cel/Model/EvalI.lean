/-
  Cel.Model.EvalI — the interpreting runner (`celpy.evaluation.Evaluator`), one clause per grammar
  rule method, each with that rule's `except` handler set; error *values* vs. raised exceptions as coded.

  evaluation.py: `expr` `conditionalor` `conditionaland` `relation` `addition` `multiplication` `unary`
  `member_dot` `member_dot_arg` (macros, `method_eval`) `member_index` `primary` (`ident`, `ident_arg`:
  `has`, `dyn`, `function_eval`; `list_lit`/`exprlist`; `map_lit`/`mapinits`) `literal`,
  `build_macro_eval`, `build_ss_macro_eval`, `Evaluator.evaluate`.
-/
import Cel.Model.Syntax
namespace Cel

/-! ### pieces shared by both runners (they call the same `celtypes` functions) -/

/-- `celtypes.logical_or` on values (returns one of its operands, or a `BoolType`) -/
def vor (x y : Val) : PyM Val :=
  if !x.isBool && !y.isBool then .error .typeError
  else if !x.isBool && y.isBool then (if y.truthy then .ok y else .ok x)
  else if x.isBool && !y.isBool then (if x.truthy then .ok x else .ok y)
  else .ok (.bool (x.truthy || y.truthy))

/-- `celtypes.logical_and` -/
def vand (x y : Val) : PyM Val :=
  if !x.isBool && !y.isBool then .error .typeError
  else if !x.isBool && y.isBool then (if y.truthy then .ok x else .ok y)
  else if x.isBool && !y.isBool then (if x.truthy then .ok y else .ok x)
  else .ok (.bool (x.truthy && y.truthy))

/-- `celtypes.logical_condition` -/
def vcond (c x y : Val) : PyM Val :=
  if !c.isBool then .error .typeError else .ok (if c.truthy then x else y)

/-- `try: … except <hs> as ex: return CELEvalError(…)`; `Exception` in the tuple catches everything -/
def catchH (hs : List Exc) (r : PyM Val) : PyM Val :=
  match r with
  | .ok v => .ok v
  | .error c => if hs.contains c || hs.contains .other then .ok .err else .error c

/-- the driver's `Sem.iter`: list elements, map keys. Strings/bytes iterate too (native `str`/`int`
items) — outside the driver's fragment: `.error .other`. Everything else is not `Iterable`: `TypeError`. -/
def iterV : Val → PyM (List Val)
  | .list xs => .ok xs
  | .map ks _ => .ok ks
  | .str _ => .error .other
  | .other _ => .error .other
  | _ => .error .typeError

/-- first `CELEvalError` among values (`exprlist`, `mapinits`, `function_eval`) -/
def firstErr : List Val → Bool
  | [] => false
  | v :: vs => v.isErr || firstErr vs

/-- is this value the string `f`? -/
def Val.isStrEq : Val → String → Bool
  | .str s, f => s == f
  | _, _ => false

/-- association-list lookup of a Python `str` key in a `MapType` -/
def mapGet : List Val → List Val → String → Option Val
  | k :: ks, v :: vs, f => if k.isStrEq f then some v else mapGet ks vs f
  | _, _, _ => none

/-! ### handler sets of the rules (bridged to `Cel.Gen.Eval` in `Cel.Bridge.Eval`) -/
namespace HI
def unary : List Exc := [.typeError, .valueError]
def addition : List Exc := [.typeError, .valueError, .overflow]
def multiplication : List Exc := [.typeError, .zeroDiv, .valueError, .overflow]
def relation : List Exc := [.typeError, .valueError, .overflow]
def memberIndex : List Exc := [.typeError, .keyError, .indexError]
def logical : List Exc := [.typeError]
def mapLit : List Exc := [.valueError, .typeError]
def literal : List Exc := [.valueError]
/-- the `try` around `function(*args)` in `function_eval` / `method_eval` -/
def call : List Exc := [.valueError, .overflow, .typeError, .attributeError, .other]
/-- `build_ss_macro_eval` and the map/filter/exists_one branches of `member_dot_arg` -/
def macroBody : List Exc := [.celEval]
end HI

def ruleOfBin : BinOp → List Exc
  | .add | .sub => HI.addition
  | .mul | .div | .mod => HI.multiplication
  | _ => HI.relation

/-- `Evaluator.member_dot` (maps only; `NameContainer`/`MessageType` members are outside the model) -/
def selectI (v : Val) (f : String) : Val :=
  match v with
  | .err => .err
  | .map ks vs => match mapGet ks vs f with
      | some x => x
      | none => .err
  | _ => .err

/-- `Evaluator.evaluate` of a macro sub-evaluator: an error value is *raised* as `CELEvalError`. -/
def raiseIfErr (r : PyM Val) : PyM Val :=
  match r with
  | .ok .err => .error .celEval
  | r => r

/-- `build_ss_macro_eval`: `try: return nested_eval.evaluate(…) except CELEvalError as ex: return ex` -/
def ssBody (r : PyM Val) : PyM Val := catchH HI.macroBody (raiseIfErr r)

/-- run `f` on each element, in order, stopping at the first raise -/
def mapMV (f : Val → PyM Val) : List Val → PyM (List Val)
  | [] => .ok []
  | v :: vs => do let r ← f v; let rs ← mapMV f vs; .ok (r :: rs)

/-- `ListType(filter(sub_expr, member_list))` -/
def filterMV (f : Val → PyM Val) : List Val → PyM (List Val)
  | [] => .ok []
  | v :: vs => do
      let r ← f v
      let rs ← filterMV f vs
      .ok (if r.truthy then v :: rs else rs)

/-- `sum(1 for value in member_list if bool(sub_expr(value)))` -/
def countMV (f : Val → PyM Val) : List Val → PyM Nat
  | [] => .ok 0
  | v :: vs => do
      let r ← f v
      let n ← countMV f vs
      .ok (if r.truthy then n + 1 else n)

/-- `reduce(eval_error("no such overload", TypeError)(logical_and), values, BoolType(True))` -/
def foldAnd (acc : Val) : List Val → PyM Val
  | [] => .ok acc
  | v :: vs => do let a ← catchH HI.logical (vand acc v); foldAnd a vs
def foldOr (acc : Val) : List Val → PyM Val
  | [] => .ok acc
  | v :: vs => do let a ← catchH HI.logical (vor acc v); foldOr a vs

mutual
/-- The interpreter. `.ok .err` = the rule returned a `CELEvalError` object; `.error c` = a Python
exception of class `c` is propagating. -/
def evalI (S : Sem) : Expr → Env → PyM Val
  | .lit v, _ => .ok v
  | .badlit, _ => catchH HI.literal (.error .valueError)
  | .ident x, env =>
      -- `primary`/`ident`: `resolve_variable`, falling back to the functions; `except KeyError`
      match env.lookup x with
      | some v => .ok v
      | none => if S.isFun x then .ok (.fnobj x) else .ok .err
  | .un op a, env => do
      let v ← evalI S a env
      catchH HI.unary (S.prim (.un op) [v])
  | .bin op a b, env => do
      let x ← evalI S a env
      let y ← evalI S b env
      catchH (ruleOfBin op) (S.prim (.bin op) [x, y])
  | .idx a i, env => do
      let x ← evalI S a env
      let y ← evalI S i env
      catchH HI.memberIndex (S.prim .index [x, y])
  | .sel a f, env => do
      let v ← evalI S a env
      .ok (selectI v f)
  | .or a b, env => do
      let x ← evalI S a env
      let y ← evalI S b env
      catchH HI.logical (vor x y)
  | .and a b, env => do
      let x ← evalI S a env
      let y ← evalI S b env
      catchH HI.logical (vand x y)
  | .cond c x y, env => do
      let cv ← evalI S c env
      -- `if cond_value: left = visit(children[1]) else: right = visit(children[2])`; the other stays BoolType(False)
      if cv.truthy then do
        let l ← evalI S x env
        catchH HI.logical (vcond cv l (.bool false))
      else do
        let r ← evalI S y env
        catchH HI.logical (vcond cv (.bool false) r)
  | .list xs, env => do
      -- `exprlist`: the first error value, else `ListType(values)`
      let vs ← evalIs S xs env
      if firstErr vs then .ok .err else .ok (.list vs)
  | .map kvs, env => do
      -- `mapinits`: the first error value, else build the map (`ValueError` duplicate key, `TypeError` unhashable)
      let vs ← evalIs S kvs env
      if firstErr vs then .ok .err else catchH HI.mapLit (S.prim .mkMap vs)
  | .call f args, env => do
      -- `function_eval`
      let vs ← evalIs S args env
      if !S.isFun f then .ok .err
      else if firstErr vs then .ok .err
      else catchH HI.call (S.prim (.fn f) vs)
  | .mcall a f args, env => do
      -- `member_dot_arg` (not a macro) → `method_eval`
      let o ← evalI S a env
      let vs ← evalIs S args env
      if !S.isFun f then .ok .err
      else if o.isErr then .ok .err
      else if firstErr vs then .ok .err
      else catchH HI.call (S.prim (.fn f) (o :: vs))
  | .macro k a x body, env => do
      let recv ← evalI S a env
      if recv.isErr then .ok .err
      else match S.iter recv with
        | .error .typeError => .ok .err          -- `not isinstance(member_list, Iterable)`
        | .error c => .error c
        | .ok elems =>
          match k with
          | .map =>
              catchH HI.macroBody (do
                let rs ← mapMV (fun v => raiseIfErr (evalI S body (env.bind x v))) elems
                .ok (.list rs))
          | .filter =>
              catchH HI.macroBody (do
                let rs ← filterMV (fun v => raiseIfErr (evalI S body (env.bind x v))) elems
                .ok (.list rs))
          | .existsOne =>
              catchH HI.macroBody (do
                let n ← countMV (fun v => raiseIfErr (evalI S body (env.bind x v))) elems
                .ok (.bool (n == 1)))
          | .all => do
              let rs ← mapMV (fun v => ssBody (evalI S body (env.bind x v))) elems
              foldAnd (.bool true) rs
          | .exists_ => do
              let rs ← mapMV (fun v => ssBody (evalI S body (env.bind x v))) elems
              foldOr (.bool false) rs
  | .has a, env => do
      let v ← evalI S a env
      .ok (.bool (!v.isErr))
  | .dyn a, env => evalI S a env
/-- `visit_children` -/
def evalIs (S : Sem) : List Expr → Env → PyM (List Val)
  | [], _ => .ok []
  | x :: xs, env => do
      let v ← evalI S x env
      let vs ← evalIs S xs env
      .ok (v :: vs)
end

/-- `InterpretedRunner.evaluate` → `Evaluator.evaluate`: an error value is raised as `CELEvalError`. -/
def runI (S : Sem) (e : Expr) (env : Env) : PyM Val := raiseIfErr (evalI S e env)

end Cel
