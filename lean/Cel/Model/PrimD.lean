/-
  Cel.Model.PrimD — a concrete primitive semantics for the value fragment
  {IntType, BoolType, StringType, ListType, None, CELEvalError object}, used by the Lean driver
  (correspondence with `operator.*` / `celtypes` on the pool) and as the witness that `PrimLaws` is
  satisfiable.  Outside the fragment (and wherever the Python result is a degraded native or depends
  on string formatting etc.) the result is `.error .other` = "not modelled"; nothing in either
  evaluator catches `.other`, so it surfaces as `skip`.
-/
import Cel.Model.EvalC
import Cel.Model.Num
namespace Cel
namespace PrimD

def unk : PyM Val := .error .other
def te : PyM Val := .error .typeError

def ofInt (r : PyM Int) : PyM Val := r.map Val.int

/-- `IntType` arithmetic, by operator -/
def intArith (op : BinOp) (a b : Int) : PyM Val :=
  match op with
  | .add => ofInt (IntOps.add a b)
  | .sub => ofInt (IntOps.sub a b)
  | .mul => ofInt (IntOps.mul a b)
  | .div => ofInt (IntOps.truediv a b)
  | .mod => ofInt (IntOps.mod a b)
  | _ => unk

def isArith : BinOp → Bool
  | .add | .sub | .mul | .div | .mod => true
  | _ => false

def isOrd : BinOp → Bool
  | .lt | .le | .gt | .ge => true
  | _ => false

/-- `operator.add` … `operator.mod` -/
def arith (op : BinOp) (x y : Val) : PyM Val :=
  match x, y with
  | .err, _ => .ok .err                        -- `CELEvalError.__add__` … return self
  | .int a, .int b => intArith op a b
  | .str a, .str b => if op == .add then .ok (.str (a ++ b)) else unk
  | .list a, .list b => if op == .add then .ok (.list (a ++ b)) else unk
  | .int _, .err => te                         -- `IntType(NotImplemented)`
  | .int _, .str _ => te
  | .int _, .list _ => te
  | .int _, .null => te
  | .null, .int _ => te
  | _, _ => unk

def cmpInt (op : BinOp) (a b : Int) : Bool :=
  match op with
  | .lt => a < b | .le => a ≤ b | .gt => a > b | .ge => a ≥ b | _ => false

def cmpStr (op : BinOp) (a b : String) : Bool :=
  match op with
  | .lt => a < b | .le => a ≤ b | .gt => a > b | .ge => a ≥ b | _ => false

def b2i (b : Bool) : Int := if b then 1 else 0

/-- `bool_lt` … `bool_ge` = `boolean(operator.lt)` … -/
def ord (op : BinOp) (x y : Val) : PyM Val :=
  match x, y with
  | .err, _ => .ok .err
  | _, .err => .ok .err
  | .int a, .int b => .ok (.bool (cmpInt op a b))
  | .bool a, .bool b => .ok (.bool (cmpInt op (b2i a) (b2i b)))
  | .str a, .str b => .ok (.bool (cmpStr op a b))
  | .list _, .int _ => te
  | .list _, .str _ => te
  | .list _, .list _ => te
  | .list _, .null => te
  | .list _, .bool _ => te
  | .int _, .list _ => te
  | .str _, .list _ => te
  | .null, .list _ => te
  | .bool _, .list _ => te
  | .int _, .bool _ => te
  | .int _, .str _ => te
  | .int _, .null => te
  | .str _, .int _ => te
  | .null, .int _ => te
  | .null, .null => te
  | .str _, .null => te
  | .null, .str _ => te
  | _, _ => unk

mutual
/-- Python `x == y` for the fragment; `none` = not modelled, `some (.error _)` = raises -/
def eqRaw : Val → Val → Option (PyM Bool)
  | .int a, .int b => some (.ok (a == b))
  | .bool a, .bool b => some (.ok (a == b))
  | .str a, .str b => some (.ok (a == b))
  | .null, .null => some (.ok true)
  | .int _, .bool _ => some (.error .typeError)
  | .int _, .str _ => some (.error .typeError)
  | .int _, .null => some (.error .typeError)
  | .int _, .list _ => some (.error .typeError)
  | .bool a, .int b => some (.ok (b2i a == b))          -- `BoolType` inherits `int.__eq__`
  | .bool _, .str _ => some (.ok false)
  | .bool _, .null => some (.ok false)
  | .bool _, .list _ => some (.error .typeError)
  | .str _, .int _ => some (.error .typeError)
  | .str _, .bool _ => some (.ok false)
  | .str _, .null => some (.ok false)
  | .str _, .list _ => some (.error .typeError)
  | .null, .int _ => some (.error .typeError)
  | .null, .bool _ => some (.ok false)
  | .null, .str _ => some (.ok false)
  | .null, .list _ => some (.ok false)
  | .list _, .null => some (.ok false)
  | .list _, .int _ => some (.error .typeError)
  | .list _, .bool _ => some (.error .typeError)
  | .list _, .str _ => some (.error .typeError)
  | .list xs, .list ys => eqIntLists xs ys
  | _, _ => none
/-- `ListType.__eq__` restricted to lists of ints (element comparisons cannot raise) -/
def eqIntLists : List Val → List Val → Option (PyM Bool)
  | [], [] => some (.ok true)
  | .int a :: xs, .int b :: ys =>
      match eqIntLists xs ys with
      | some (.ok r) => some (.ok (a == b && r))
      | o => o
  | [], .int _ :: ys => (eqIntLists [] ys).map fun _ => .ok false
  | .int _ :: xs, [] => (eqIntLists xs []).map fun _ => .ok false
  | _, _ => none
end

/-- `bool_eq` / `bool_ne` -/
def eqOp (neg : Bool) (x y : Val) : PyM Val :=
  match x, y with
  | .err, _ => .ok .err
  | _, .err => .ok .err
  | .list _, .null => if neg then te else .ok (.bool false)      -- `ListType.__ne__(None)` raises
  | .null, .list _ => if neg then te else .ok (.bool false)
  | x, y =>
    match eqRaw x y with
    | some (.ok b) => .ok (.bool (if neg then !b else b))
    | some (.error c) => .error c
    | none => unk

/-- `operator_in` over a list container -/
def inList (item : Val) : List Val → Bool → PyM Val
  | [], sawErr => if sawErr then .ok .err else .ok (.bool false)
  | c :: cs, sawErr =>
      match eqRaw c item with
      | some (.ok true) => .ok (.bool true)
      | some (.ok false) => inList item cs sawErr
      | some (.error .typeError) => inList item cs true
      | _ => unk

def inOp (item cont : Val) : PyM Val :=
  match item, cont with
  | .err, _ => .ok .err
  | _, .err => .ok .err
  | item, .list xs => inList item xs false
  | _, .int _ => te
  | _, .bool _ => te
  | _, .null => te
  | _, _ => unk

def getNth : List Val → Nat → PyM Val
  | [], _ => .error .indexError
  | x :: _, 0 => .ok x
  | _ :: xs, n+1 => getNth xs n

/-- `operator.getitem` -/
def index (x i : Val) : PyM Val :=
  match x, i with
  | .list xs, .int n => if n < 0 then .error .indexError else getNth xs n.toNat
  | .list _, .str _ => te
  | .list _, .null => te
  | .list _, .list _ => te
  | .list _, .err => te
  | .int _, _ => te
  | .bool _, _ => te
  | .null, _ => te
  | .err, _ => te
  | _, _ => unk

/-- `function_size` -/
def size : Val → PyM Val
  | .str s => .ok (.int s.length)
  | .list xs => .ok (.int xs.length)
  | .null => .ok (.int 0)
  | .int _ => te
  | .bool _ => te
  | .err => te
  | _ => unk

/-- `operator.neg`, `celtypes.logical_not` -/
def un (op : UnOp) (x : Val) : PyM Val :=
  match op, x with
  | .neg, .int a => ofInt (IntOps.neg a)
  | .neg, .err => .ok .err
  | .neg, .bool _ => te
  | .neg, .str _ => te
  | .neg, .list _ => te
  | .neg, .null => te
  | .not, .bool b => .ok (.bool (!b))
  | .not, .err => .ok .err
  | .not, .int _ => te
  | .not, .str _ => te
  | .not, .list _ => te
  | .not, .null => te
  | _, _ => unk

def bin (op : BinOp) (x y : Val) : PyM Val :=
  if isArith op then arith op x y
  else if isOrd op then ord op x y
  else match op with
    | .eq => eqOp false x y
    | .ne => eqOp true x y
    | .in_ => inOp x y
    | _ => unk

def prim : PrimOp → List Val → PyM Val
  | .un op, [x] => un op x
  | .bin op, [x, y] => bin op x y
  | .index, [x, i] => index x i
  | .fn f, [x] => if f == "size" then size x else unk
  | _, _ => unk

/-- keys of `celpy.evaluation.base_functions` (bridged to the regenerated list) -/
def baseFunctions : List String :=
  ["!_", "-_", "_+_", "_-_", "_*_", "_/_", "_%_", "_<_", "_<=_", "_>_", "_>=_", "_==_", "_!=_", "_in_", "_||_", "_&&_",
   "_?_:_", "_[_]", "size", "contains", "type", "endsWith", "startsWith", "matches", "getDate", "getDayOfMonth",
   "getDayOfWeek", "getDayOfYear", "getFullYear", "getMonth", "getHours", "getMilliseconds", "getMinutes", "getSeconds",
   "bool", "bytes", "double", "duration", "int", "list", "map", "null_type", "string", "timestamp", "uint"]

def isFun (f : String) : Bool := baseFunctions.contains f

/-- base functions that are NOT error-strict (measured): `type`, `string`, `contains` -/
def strictFn (f : String) : Bool := !(f == "type" || f == "string" || f == "contains")

def sem : Sem := { prim := prim, isFun := isFun, strictFn := strictFn, iter := iterV, toBool := boolTypeOf }

end PrimD
end Cel

namespace Cel
namespace PrimD
/-- totalised variant: what the driver reports as "not modelled" (`.other`) is a `TypeError` here.
Used as the witness that `PrimLaws` is satisfiable by a non-trivial semantics (int64 arithmetic with overflow,
comparisons, list indexing, concatenation, `in`, `size`). -/
def totalise (r : PyM α) : PyM α :=
  match r with
  | .error .other => .error .typeError
  | r => r

def semT : Sem :=
  { prim := fun op args => totalise (prim op args), isFun := isFun, strictFn := fun _ => true,
    iter := fun v => totalise (iterV v), toBool := fun v => totalise (boolTypeOf v) }
end PrimD
end Cel
