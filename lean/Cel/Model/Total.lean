/-
  Cel.Model.Total — abstract skeleton of the interpreter (`celpy.evaluation.Evaluator`) for property C04
  ("evaluation ends in a value or a CEL error, never another exception").

  Every grammar rule method of `Evaluator` is modelled as the control skeleton the source has:
  sub-expressions are evaluated, a Python primitive (`operator.add`, a `base_functions` entry,
  `member[property_name]`, `min(member_list)`, name resolution, …) is applied at a *site* (`Rule`), and
  the `try … except` statements that enclose the call in the source turn the listed exception classes
  into an error VALUE.  What the primitives do is abstract (`Prims`): the model only keeps which
  exception CLASS (an id into the regenerated class table, `Cel.Gen.Handlers.classNames`) a primitive
  raises.  `handlers : Rule → List Cls` and the class hierarchy are parameters; they are instantiated
  with the tables regenerated from the source (`Cel.Gen.Handlers`) in `Cel.Bridge.Total`.

  Mirrors evaluation.py: Evaluator.expr … mapinits, function_eval, method_eval, macro_has_eval,
  Evaluator.evaluate, Transpiler.evaluate (blanket handler), CELParser.parse.
  Core Lean only.
-/
import Cel.Model.Basic
namespace Cel.Total

/-- Primitive sites of `Evaluator`: one per place where a Python primitive is applied to operand values
    (the source location of each is listed in `py/verif/translate/measure_c04.py: build_sites`). -/
inductive Rule where
  | exprCond | condOr | condAnd | relation | addition | multiplication | unary | memberIndex
  | dotNameContainer | dotMessage | dotMap
  | macroIter | macroIterBare | macroMin | macroFold
  | methodResolve | methodCall | funcResolve | funcCall
  | objectFields | objectNew0 | objectNew | mapLit | dotIdent | ident | literal | exprlist
  deriving DecidableEq, Repr, Inhabited

def Rule.all : List Rule :=
  [.exprCond, .condOr, .condAnd, .relation, .addition, .multiplication, .unary, .memberIndex,
   .dotNameContainer, .dotMessage, .dotMap, .macroIter, .macroIterBare, .macroMin, .macroFold,
   .methodResolve, .methodCall, .funcResolve, .funcCall, .objectFields, .objectNew0, .objectNew, .mapLit,
   .dotIdent, .ident, .literal, .exprlist]

def Rule.name : Rule → String
  | .exprCond => "exprCond" | .condOr => "condOr" | .condAnd => "condAnd" | .relation => "relation"
  | .addition => "addition" | .multiplication => "multiplication" | .unary => "unary"
  | .memberIndex => "memberIndex" | .dotNameContainer => "dotNameContainer" | .dotMessage => "dotMessage"
  | .dotMap => "dotMap" | .macroIter => "macroIter" | .macroIterBare => "macroIterBare"
  | .macroMin => "macroMin" | .macroFold => "macroFold"
  | .methodResolve => "methodResolve" | .methodCall => "methodCall" | .funcResolve => "funcResolve"
  | .funcCall => "funcCall" | .objectFields => "objectFields" | .objectNew0 => "objectNew0"
  | .objectNew => "objectNew" | .mapLit => "mapLit" | .dotIdent => "dotIdent" | .ident => "ident"
  | .literal => "literal" | .exprlist => "exprlist"

def Rule.ofName? (s : String) : Option Rule := Rule.all.find? (fun r => r.name == s)

/-- A Python exception class, as an id into the regenerated class table. -/
abbrev Cls := Nat
/-- `celpy.evaluation.CELEvalError` is class 0 and `celpy.celparser.CELParseError` class 1 of every
    regenerated table (checked by `Cel.Bridge.Total.class_ids`). -/
def celEval : Cls := 0
def celParse : Cls := 1

/-- class hierarchy: `H c` = ids of `c` and of all its base classes (`c.__mro__` without `object`) -/
abbrev Hier := Cls → List Cls

/-- `except (hs…)` catches an exception of class `c` iff one of the listed classes is among c's bases
    (Python's `isinstance` test: subclass closure). -/
def caught (H : Hier) (hs : List Cls) (c : Cls) : Bool := (H c).any (fun b => hs.contains b)

/-- Python computations: a value, or an escaping exception of some class. -/
abbrev M := Except Cls

/-- The abstract CEL expression skeleton: one constructor per shape the `Evaluator` distinguishes.
    Lists are flat (`map [k1, v1, k2, v2 …]` like the children of `mapinits`). -/
inductive Expr where
  | lit (kind text : String)                       -- literal
  | ident (n : String)                             -- primary / ident
  | dotIdent (n : String)                          -- primary / dot_ident
  | dotCall (n : String) (args : List Expr)        -- primary / dot_ident_arg
  | paren (e : Expr)
  | cond (c a b : Expr)                            -- expr:  c ? a : b
  | lor (a b : Expr) | land (a b : Expr)
  | rel (op : String) (a b : Expr) | add (op : String) (a b : Expr) | mul (op : String) (a b : Expr)
  | un (op : String) (a : Expr)
  | dot (e : Expr) (f : String)                    -- member_dot
  | index (e i : Expr)                             -- member_index
  | call (f : String) (args : List Expr)           -- ident_arg: function call, has(), dyn()
  | mcall (e : Expr) (f : String) (args : List Expr)   -- member_dot_arg, not a macro
  | macro1 (e : Expr) (m : String) (x : String) (body : Expr)   -- map filter all exists exists_one, well-formed
  | reduce (e : Expr) (r i : String) (init body : Expr)          -- reduce, well-formed
  | macroMin (e : Expr) (args : List Expr)                      -- min (arguments are not used)
  | macroBad (e : Expr) (m : String) (args : List Expr)         -- malformed macro call (macro_arguments_error)
  | list (es : List Expr)
  | map (kvs : List Expr)
  | obj (e : Expr) (names : List String) (vals : List Expr)      -- member_object
  deriving Repr, Inhabited

/-- which branch of `member_dot`'s isinstance ladder a (non-error) member value takes -/
inductive DotBranch where
  | nameContainer   -- NameContainer holding the name
  | message | mapping
  | other           -- NameContainer without the name, or a value without fields: an error VALUE, nothing raised
  deriving DecidableEq, Repr

/-- The primitives the skeleton is parameterised by. `V` values (including error values), `N` activations. -/
structure Prims (V N : Type) where
  err : V                                          -- a `CELEvalError` value
  isErr : V → Bool                                 -- isinstance(v, CELEvalError)
  boolV : Bool → V
  emptyList : V
  emptyMap : V
  prim : Rule → N → String → List V → M V          -- the primitive applied at a site (label: operator / function / name / token)
  truth : Rule → V → M Bool                        -- `bool(v)` / `if v:` at a site
  iter : Rule → V → M (List V)                     -- iterating a macro receiver
  iterable : V → Bool                              -- isinstance(v, typing.Iterable)
  dotBranch : V → String → DotBranch
  bind : N → String → V → N                        -- activation for a macro body: variable bound to an item

section
variable {V N : Type} (H : Hier) (hs : Rule → List Cls) (P : Prims V N)

/-- `try: m  except (l…) as ex: <error value>` -/
def catchWith (l : List Cls) (m : M V) : M V :=
  match m with
  | .ok v => .ok v
  | .error c => if caught H l c then .ok P.err else .error c

/-- `Evaluator.evaluate`: the value, or `raise value` when it is a CELEvalError -/
def raiseIfErr (m : M V) : M V :=
  match m with
  | .ok v => if P.isErr v then .error celEval else .ok v
  | .error c => .error c

def firstErr (vs : List V) : Option V := vs.find? P.isErr

/-- the `exprlist` rule on already evaluated children -/
def exprlistOf (env : N) (vs : List V) : M V :=
  match firstErr P vs with
  | some e => .ok e
  | none => catchWith H P (hs .exprlist) (P.prim .exprlist env "list" vs)

/-- `function_eval` on evaluated arguments -/
def functionEval (env : N) (f : String) (vs : List V) : M V :=
  match P.prim .funcResolve env f [] with
  | .error c => if caught H (hs .funcResolve) c then .ok P.err else .error c
  | .ok _ =>
    match firstErr P vs with
    | some e => .ok e
    | none => catchWith H P (hs .funcCall) (P.prim .funcCall env f vs)

/-- `method_eval` on the evaluated receiver and the (collapsed) argument list -/
def methodEval (env : N) (f : String) (mv : V) (argErr : Option V) (vs : List V) : M V :=
  match P.prim .methodResolve env f [] with
  | .error c => if caught H (hs .methodResolve) c then .ok P.err else .error c
  | .ok _ =>
    if P.isErr mv then .ok mv
    else match argErr with
      | some e => .ok e
      | none => catchWith H P (hs .methodCall) (P.prim .methodCall env f (mv :: vs))

/-- left fold of `logical_and` / `logical_or` wrapped by `eval_error(…, TypeError)` -/
def foldLogic (env : N) (op : String) : V → List V → M V
  | acc, [] => .ok acc
  | acc, r :: rs => do
      let acc' ← catchWith H P (hs .macroFold) (P.prim .macroFold env op [acc, r])
      foldLogic env op acc' rs

/-- iterate a receiver at a site whose enclosing `try` statements (none in the current source for
    `macroIterBare`) would turn a caught exception into an error value of the whole macro -/
def iterAt (r : Rule) (mv : V) (k : List V → M V) : M V :=
  match P.iter r mv with
  | .error c => if caught H (hs r) c then .ok P.err else .error c
  | .ok items => k items

/-- keep the items whose body value is truthy (`filter(sub_expr, member_list)`) — returns the count kept -/
def countTruthy : List V → M Nat
  | [] => .ok 0
  | r :: rs => do
      let t ← P.truth .macroIter r
      let n ← countTruthy rs
      pure (if t then n + 1 else n)

/-- macro bodies for `all` / `exists`: `build_ss_macro_eval` — the value (possibly an error value) of the
    body `f` per item -/
def evalBodies (f : N → M V) (env : N) (x : String) : List V → M (List V)
  | [] => .ok []
  | it :: its => do
      let r ← f (P.bind env x it)
      let rs ← evalBodies f env x its
      pure (r :: rs)

/-- macro bodies for `map` / `filter` / `exists_one`: `build_macro_eval` — `Evaluator.evaluate` RAISES an
    error value of the body -/
def evalBodiesRaise (f : N → M V) (env : N) (x : String) : List V → M (List V)
  | [] => .ok []
  | it :: its => do
      let r ← raiseIfErr P (f (P.bind env x it))
      let rs ← evalBodiesRaise f env x its
      pure (r :: rs)

/-- `functools.reduce(reduce_expr, member_list, initial_value)` with `reduce_expr` raising body errors -/
def evalReduce (f : N → M V) (env : N) (r i : String) : V → List V → M V
  | acc, [] => .ok acc
  | acc, it :: its => do
      let acc' ← raiseIfErr P (f (P.bind (P.bind env r acc) i it))
      evalReduce f env r i acc' its

mutual
/-- The interpreter: `Evaluator.visit` on an expression. `.error c`: an exception of class `c` escapes. -/
def evalI (env : N) : Expr → M V
  | .lit k t => catchWith H P (hs .literal) (P.prim .literal env (k ++ ":" ++ t) [])
  | .ident n => catchWith H P (hs .ident) (P.prim .ident env n [])
  | .dotIdent n => catchWith H P (hs .dotIdent) (P.prim .dotIdent env n [])
  | .dotCall n args => do
      -- the argument list is evaluated (exprlist rule) and ignored; only the name is resolved
      let vs ← evalList env args
      let _ ← (if args.isEmpty then pure P.emptyList else exprlistOf H hs P env vs)
      catchWith H P (hs .dotIdent) (P.prim .dotIdent env n [])
  | .paren e => evalI env e
  | .cond c a b => do
      let cv ← evalI env c
      catchWith H P (hs .exprCond) (do
        let t ← P.truth .exprCond cv
        if t then do
          let l ← evalI env a
          P.prim .exprCond env "_?_:_" [cv, l, P.boolV false]
        else do
          let r ← evalI env b
          P.prim .exprCond env "_?_:_" [cv, P.boolV false, r])
  | .lor a b => do
      let l ← evalI env a
      let r ← evalI env b
      catchWith H P (hs .condOr) (P.prim .condOr env "_||_" [l, r])
  | .land a b => do
      let l ← evalI env a
      let r ← evalI env b
      catchWith H P (hs .condAnd) (P.prim .condAnd env "_&&_" [l, r])
  | .rel op a b => do
      let l ← evalI env a
      let r ← evalI env b
      catchWith H P (hs .relation) (P.prim .relation env op [l, r])
  | .add op a b => do
      let l ← evalI env a
      let r ← evalI env b
      catchWith H P (hs .addition) (P.prim .addition env op [l, r])
  | .mul op a b => do
      let l ← evalI env a
      let r ← evalI env b
      catchWith H P (hs .multiplication) (P.prim .multiplication env op [l, r])
  | .un op a => do
      let r ← evalI env a
      catchWith H P (hs .unary) (P.prim .unary env op [r])
  | .dot e f => do
      let mv ← evalI env e
      if P.isErr mv then pure mv
      else match P.dotBranch mv f with
        | .nameContainer => catchWith H P (hs .dotNameContainer) (P.prim .dotNameContainer env f [mv])
        | .message => catchWith H P (hs .dotMessage) (P.prim .dotMessage env f [mv])
        | .mapping => catchWith H P (hs .dotMap) (P.prim .dotMap env f [mv])
        | .other => pure P.err
  | .index e i => do
      let mv ← evalI env e
      let iv ← evalI env i
      catchWith H P (hs .memberIndex) (P.prim .memberIndex env "_[_]" [mv, iv])
  | .call f args => do
      let vs ← evalList env args
      if f == "has" then
        match vs with
        | [] => pure P.err
        | v :: _ => pure (P.boolV (!P.isErr v))
      else if f == "dyn" then
        match vs with
        | [] => pure P.err
        | v :: _ => pure v
      else functionEval H hs P env f vs
  | .mcall e f args => do
      let mv ← evalI env e
      let vs ← evalList env args
      if args.isEmpty then methodEval H hs P env f mv none []
      else do
        let lv ← exprlistOf H hs P env vs
        methodEval H hs P env f mv (if P.isErr lv then some lv else none) vs
  | .macro1 e m x body => do
      let mv ← evalI env e
      if P.isErr mv then pure mv
      else if !P.iterable mv then pure P.err
      else if m == "all" || m == "exists" then do
        -- build_ss_macro_eval: a body error is a value; the fold is not inside a try
        iterAt H hs P .macroIterBare mv (fun items => do
          let rs ← evalBodies P (fun env' => evalI env' body) env x items
          foldLogic H hs P env (if m == "all" then "_&&_" else "_||_") (P.boolV (m == "all")) rs)
      else
        -- map, filter, exists_one: `nested_eval.evaluate` raises a body error, `except CELEvalError` returns it
        catchWith H P (hs .macroIter) (do
          let items ← P.iter .macroIter mv
          let rs ← evalBodiesRaise P (fun env' => evalI env' body) env x items
          if m == "map" then pure P.emptyList      -- ListType(results): some list value
          else do
            let n ← countTruthy P rs
            pure (if m == "filter" then P.emptyList else P.boolV (n == 1)))
  | .reduce e r i init body => do
      let mv ← evalI env e
      if P.isErr mv then pure mv
      else if !P.iterable mv then pure P.err
      else do
        let iv ← evalI env init
        iterAt H hs P .macroIterBare mv (fun items => evalReduce P (fun env' => evalI env' body) env r i iv items)
  | .macroMin e _ => do
      let mv ← evalI env e
      if P.isErr mv then pure mv
      else if !P.iterable mv then pure P.err
      else catchWith H P (hs .macroMin) (P.prim .macroMin env "min" [mv])
  | .macroBad _ _ _ => pure P.err
  | .list es =>
      if es.isEmpty then pure P.emptyList
      else do
        let vs ← evalList env es
        exprlistOf H hs P env vs
  | .map kvs =>
      if kvs.isEmpty then pure P.emptyMap
      else catchWith H P (hs .mapLit) (do
        let vs ← evalList env kvs
        match firstErr P vs with
        | some e => pure e
        | none => P.prim .mapLit env "map" vs)
  | .obj e names vals =>
      -- `try: values = self.visit_children(tree)` : the member, then fieldinits (duplicate label: ValueError)
      match (do
          let mv ← evalI env e
          if vals.isEmpty then pure (mv, none)
          else do
            let vs ← evalList env vals
            let fv ← P.prim .objectFields env (",".intercalate names) vs
            pure (mv, some fv) : M (V × Option V)) with
      | .error c => if caught H (hs .objectFields) c then .ok P.err else .error c
      | .ok (mv, none) => catchWith H P (hs .objectNew0) (P.prim .objectNew0 env "new" [mv])
      | .ok (mv, some fv) =>
          if P.isErr mv then .ok mv
          else catchWith H P (hs .objectNew) (P.prim .objectNew env "new" [mv, fv])

/-- `visit_children`: the children in order; an escaping exception stops the evaluation -/
def evalList (env : N) : List Expr → M (List V)
  | [] => .ok []
  | e :: es => do
      let v ← evalI env e
      let vs ← evalList env es
      pure (v :: vs)

end

/-- `InterpretedRunner.evaluate` = `Evaluator.evaluate`: visit, then `raise value` for an error value -/
def runI (env : N) (e : Expr) : M V := raiseIfErr P (evalI H hs P env e)

/-- `Transpiler.evaluate`: the transpiled program `body` runs inside `try … except <runCCaught>` which
    re-raises `CELEvalError`; an error VALUE is raised as well. -/
def runC (caughtC : List Cls) (body : M V) : M V :=
  match raiseIfErr P body with
  | .ok v => .ok v
  | .error c => if caught H caughtC c then .error celEval else .error c

end

/-- `CELParser.parse`: lark's parse inside `try … except <parseCaught>: raise CELParseError(…)` -/
def parseM {T : Type} (H : Hier) (caughtP : List Cls) (lark : M T) : M T :=
  match lark with
  | .ok t => .ok t
  | .error c => if caught H caughtP c then .error celParse else .error c

/-! ### Sessions: one `Environment` used for several texts (round 2)

`Environment.compile` hands the text to the Environment's `CELParser`, which KEEPS it (`self.text`, read by
`error_text` for the command line's source excerpt); `Environment.program` builds a runner around the tree;
`Runner.evaluate` runs it under an activation. A session is any interleaving of these calls. The model keeps the
parser's last text as state and evaluates a program with `runI`, which does not read that state — the content of
the session theorems is that NO history changes what may escape from a step. -/

inductive Step (T N : Type) where
  | compile (text : T)                  -- `env.compile(text)` followed by `env.program(ast)`
  | evaluate (i : Nat) (act : N)        -- `programs[i].evaluate(act)`; nothing happens when there is no such program

inductive Out (V : Type) where
  | tree | value (v : V) | raised (c : Cls) | skipped

structure Session (T : Type) where
  lastText : Option T := none           -- `CELParser.text`
  progs : List Expr := []

section
variable {V N T : Type} (H : Hier) (hs : Rule → List Cls) (P : Prims V N) (caughtP : List Cls) (lark : T → M Expr)

def stepS (s : Session T) : Step T N → Session T × Out V
  | .compile t =>
      match parseM H caughtP (lark t) with
      | .ok e => ({ lastText := some t, progs := s.progs ++ [e] }, .tree)
      | .error c => ({ s with lastText := some t }, .raised c)
  | .evaluate i act =>
      match s.progs[i]? with
      | none => (s, .skipped)
      | some e =>
          match runI H hs P act e with
          | .ok v => (s, .value v)
          | .error c => (s, .raised c)

/-- the outcomes of a history of steps, in order -/
def runS : Session T → List (Step T N) → List (Out V)
  | _, [] => []
  | s, st :: rest => let r := stepS H hs P caughtP lark s st; r.2 :: runS r.1 rest

/-- the state after a history -/
def stateS : Session T → List (Step T N) → Session T
  | s, [] => s
  | s, st :: rest => stateS (stepS (V := V) H hs P caughtP lark s st).1 rest
end

mutual
/-- does the expression contain a (well-formed) `reduce` macro? Its body errors are RAISED (as CELEvalError). -/
def Expr.hasReduce : Expr → Bool
  | .lit _ _ | .ident _ | .dotIdent _ => false
  | .dotCall _ args => hasReduceL args
  | .paren e => e.hasReduce
  | .cond c a b => c.hasReduce || a.hasReduce || b.hasReduce
  | .lor a b | .land a b | .rel _ a b | .add _ a b | .mul _ a b => a.hasReduce || b.hasReduce
  | .un _ a => a.hasReduce
  | .dot e _ => e.hasReduce
  | .index e i => e.hasReduce || i.hasReduce
  | .call _ args => hasReduceL args
  | .mcall e _ args => e.hasReduce || hasReduceL args
  | .macro1 e _ _ body => e.hasReduce || body.hasReduce
  | .reduce _ _ _ _ _ => true
  | .macroMin e _ => e.hasReduce
  | .macroBad _ _ _ => false
  | .list es => hasReduceL es
  | .map kvs => hasReduceL kvs
  | .obj e _ vals => e.hasReduce || hasReduceL vals
def hasReduceL : List Expr → Bool
  | [] => false
  | e :: es => e.hasReduce || hasReduceL es
end

end Cel.Total
