/-
  Cel.Model.Json — the JSON adapter of cel-python (`src/celpy/adapter.py`) and the
  navigation the evaluator performs on converted documents.

  * `PCls`, `PCls.mro`, `isInst`   Python's class lattice as far as the adapter can see it
                                   (`bool <: int`; the CEL wrappers below the natives)
  * `Json`                         a JSON document as `json.loads` hands it over (Python natives)
  * `PV`                           Python objects that occur on the CEL side: the celtypes wrappers and
                                   the "hybrid beast" `CELJSONEncoder.to_python` builds from them
  * `jsonLadder`, `dispatch`       the `isinstance` ladder of `json_to_cel` IN SOURCE ORDER; the model
                                   converts by walking this list, so a different order is a different model
  * `jsonToCel`                    `adapter.json_to_cel`
  * `toPython`, `defaultHook`, `jsonEnc`, `encode`
                                   `CELJSONEncoder.to_python/default/encode`, composed with the ladder of
                                   `json.JSONEncoder` (hand-modelled stdlib; float/str *text* is json's, so
                                   `encode` returns the document the emitted text denotes, floats as bits)
  * `b64encode`, `b64decode`       RFC 4648 base64 (what `base64.b64encode` does for `BytesType`)
  * `tsStr`, `durStr`              `TimestampType.__str__`, `DurationType.__str__`
  * `Step`, `Json.lookup`, `navCel` path navigation `.f`, `["k"]`, `[i]`: Python on the document vs.
                                   `Evaluator.member_dot` / `member_index` on `MapType` / `ListType`

  Core Lean only.  Floats are opaque 64-bit patterns: the model never inspects them.
-/
import Cel.Model.Basic
import Cel.Model.Time
namespace Cel.JsonM
open Cel

/-! ### Python classes -/

inductive PCls where
  | object | noneType | bool | int | float | str | bytes | list | tuple | dict | datetime | timedelta
  | boolType | intType | uintType | doubleType | stringType | bytesType | listType | mapType
  | timestampType | durationType | messageType | packageType
  deriving DecidableEq, Repr, Inhabited

/-- `cls.__mro__` restricted to the classes above (`typing.Generic`, `date` dropped). -/
def PCls.mro : PCls → List PCls
  | .object => [.object]
  | .noneType => [.noneType, .object]
  | .bool => [.bool, .int, .object]
  | .int => [.int, .object]
  | .float => [.float, .object]
  | .str => [.str, .object]
  | .bytes => [.bytes, .object]
  | .list => [.list, .object]
  | .tuple => [.tuple, .object]
  | .dict => [.dict, .object]
  | .datetime => [.datetime, .object]
  | .timedelta => [.timedelta, .object]
  | .boolType => [.boolType, .int, .object]
  | .intType => [.intType, .int, .object]
  | .uintType => [.uintType, .int, .object]
  | .doubleType => [.doubleType, .float, .object]
  | .stringType => [.stringType, .str, .object]
  | .bytesType => [.bytesType, .bytes, .object]
  | .listType => [.listType, .list, .object]
  | .mapType => [.mapType, .dict, .object]
  | .timestampType => [.timestampType, .datetime, .object]
  | .durationType => [.durationType, .timedelta, .object]
  | .messageType => [.messageType, .mapType, .dict, .object]
  | .packageType => [.packageType, .mapType, .dict, .object]

def PCls.name : PCls → String
  | .object => "object" | .noneType => "NoneType" | .bool => "bool" | .int => "int" | .float => "float"
  | .str => "str" | .bytes => "bytes" | .list => "list" | .tuple => "tuple" | .dict => "dict"
  | .datetime => "datetime" | .timedelta => "timedelta"
  | .boolType => "BoolType" | .intType => "IntType" | .uintType => "UintType" | .doubleType => "DoubleType"
  | .stringType => "StringType" | .bytesType => "BytesType" | .listType => "ListType" | .mapType => "MapType"
  | .timestampType => "TimestampType" | .durationType => "DurationType" | .messageType => "MessageType"
  | .packageType => "PackageType"

def PCls.all : List PCls :=
  [.object, .noneType, .bool, .int, .float, .str, .bytes, .list, .tuple, .dict, .datetime, .timedelta,
   .boolType, .intType, .uintType, .doubleType, .stringType, .bytesType, .listType, .mapType,
   .timestampType, .durationType, .messageType, .packageType]

def PCls.ofName? (s : String) : Option PCls := PCls.all.find? (fun c => c.name == s)

/-- `isinstance(x, (T1, …, Tn))` for an object of class `c`. -/
def isInst (c : PCls) (tests : List PCls) : Bool := tests.any (fun t => c.mro.contains t)

/-- An `if isinstance(x, T₁): r₁ elif isinstance(x, T₂): r₂ …` ladder: first matching rung. -/
def dispatch {α : Type} : List (List PCls × α) → PCls → Option α
  | [], _ => none
  | (ts, a) :: rest, c => if isInst c ts then some a else dispatch rest c

/-! ### documents and CEL-side objects -/

/-- A JSON document as produced by `json.loads` (Python natives). `float` carries the IEEE bits,
never inspected. An object is a Python `dict` (insertion ordered; keys pairwise distinct — `keysUnique`). -/
inductive Json where
  | null
  | bool (b : Bool)
  | int (z : Int)
  | float (bits : UInt64)
  | str (s : String)
  | arr (xs : List Json)
  | obj (kvs : List (String × Json))
  deriving Repr, Inhabited

def Json.cls : Json → PCls
  | .null => .noneType | .bool _ => .bool | .int _ => .int | .float _ => .float | .str _ => .str
  | .arr _ => .list | .obj _ => .dict

/-- A `datetime` with its stored civil fields; `offMin` = utcoffset in minutes. -/
structure TS where
  year : Nat
  month : Nat
  day : Nat
  hour : Nat
  minute : Nat
  second : Nat
  micro : Nat
  offMin : Int
  deriving Repr, Inhabited, DecidableEq

/-- Python objects on the CEL side. `c*` are instances of the celtypes wrappers, `p*` natives
(`to_python` output), `none` is `None`. -/
inductive PV where
  | none
  | pbool (b : Bool) | pint (z : Int) | pfloat (bits : UInt64) | pstr (s : String)
  | plist (xs : List PV) | pdict (kvs : List (PV × PV))
  | cbool (b : Bool) | cint (z : Int) | cuint (n : Nat) | cdbl (bits : UInt64) | cstr (s : String)
  | cbytes (bs : List UInt8)
  | clist (xs : List PV) | cmap (kvs : List (PV × PV))
  | cts (t : TS) | cdur (us : Int)
  deriving Repr, Inhabited

def PV.cls : PV → PCls
  | .none => .noneType | .pbool _ => .bool | .pint _ => .int | .pfloat _ => .float | .pstr _ => .str
  | .plist _ => .list | .pdict _ => .dict
  | .cbool _ => .boolType | .cint _ => .intType | .cuint _ => .uintType | .cdbl _ => .doubleType
  | .cstr _ => .stringType | .cbytes _ => .bytesType | .clist _ => .listType | .cmap _ => .mapType
  | .cts _ => .timestampType | .cdur _ => .durationType

/-! ### dict keys -/

/-- hash/eq class of a dict key: ints (bool ⊂ int, all int subclasses) by value, strings by content,
bytes by content; floats and unhashable containers are not keys here. -/
inductive KeyCls where
  | num (z : Int) | text (s : String) | octets (bs : List UInt8) | nil | unhashable
  deriving DecidableEq, Repr

def PV.keyCls : PV → KeyCls
  | .none => .nil
  | .pbool b | .cbool b => .num (if b then 1 else 0)
  | .pint z | .cint z => .num z
  | .cuint n => .num n
  | .pstr s | .cstr s => .text s
  | .cbytes bs => .octets bs
  | _ => .unhashable

def keyEq (a b : PV) : Bool := a.keyCls ≠ .unhashable ∧ a.keyCls = b.keyCls

/-- `d[k] = v` on an insertion-ordered dict: overwrite in place, else append. -/
def dictInsert : List (PV × PV) → PV → PV → List (PV × PV)
  | [], k, v => [(k, v)]
  | (k', v') :: rest, k, v => if keyEq k' k then (k', v) :: rest else (k', v') :: dictInsert rest k v

/-- `{k: v for k, v in pairs}` -/
def dictOfPairs (pairs : List (PV × PV)) : List (PV × PV) :=
  pairs.foldl (fun acc kv => dictInsert acc kv.1 kv.2) []

/-- `dict.__getitem__` -/
def dictFind : List (PV × PV) → PV → Option PV
  | [], _ => none
  | (k', v') :: rest, k => if keyEq k' k then some v' else dictFind rest k

/-! ### `json_to_cel` -/

/-- what a rung of `json_to_cel` does with the document -/
inductive Ctor where
  | boolType | doubleType | intType | stringType | none | listType | mapType | timestampType | durationType
  deriving DecidableEq, Repr, Inhabited

/-- The `isinstance` ladder of `adapter.json_to_cel`, in source order (`document is None` is the class test
`NoneType`; `typing.List`/`Dict` are `list`/`dict`). Falling off the end raises `ValueError`. -/
def jsonLadder : List (List PCls × Ctor) :=
  [([.bool], .boolType), ([.float], .doubleType), ([.int], .intType), ([.str], .stringType),
   ([.noneType], .none), ([.tuple, .list], .listType), ([.dict], .mapType),
   ([.datetime], .timestampType), ([.timedelta], .durationType)]

/-- `IntType(n)` for a Python int: `int64(int)(n)` — ValueError outside the signed 64-bit range. -/
def intTypeOf (z : Int) : PyM PV :=
  if -(2:Int)^63 ≤ z ∧ z < (2:Int)^63 then .ok (.cint z) else .error .valueError

/-- the scalar constructors applied to a scalar document (`IntType(True)` is `IntType(1)`); combinations
Python's class lattice cannot dispatch (e.g. `BoolType` rung on a `str`) are `.other`. -/
def convScalar : Option Ctor → Json → PyM PV
  | some .boolType, .bool b => .ok (.cbool b)
  | some .intType, .bool b => intTypeOf (if b then 1 else 0)
  | some .intType, .int z => intTypeOf z
  | some .doubleType, .float f => .ok (.cdbl f)
  | some .stringType, .str s => .ok (.cstr s)
  | some .none, .null => .ok .none
  | none, _ => .error .valueError
  | some _, _ => .error .other

mutual
/-- `adapter.json_to_cel` -/
def jsonToCel : Json → PyM PV
  | .arr xs =>
      match dispatch jsonLadder PCls.list with
      | some .listType => do let vs ← jsonToCelList xs; .ok (.clist vs)
      | some _ => .error .other
      | none => .error .valueError
  | .obj kvs =>
      match dispatch jsonLadder PCls.dict with
      | some .mapType => do let ps ← jsonToCelKvs kvs; .ok (.cmap (dictOfPairs ps))
      | some _ => .error .other
      | none => .error .valueError
  | .null => convScalar (dispatch jsonLadder PCls.noneType) .null
  | .bool b => convScalar (dispatch jsonLadder PCls.bool) (.bool b)
  | .int z => convScalar (dispatch jsonLadder PCls.int) (.int z)
  | .float f => convScalar (dispatch jsonLadder PCls.float) (.float f)
  | .str s => convScalar (dispatch jsonLadder PCls.str) (.str s)
/-- `[json_to_cel(item) for item in document]` -/
def jsonToCelList : List Json → PyM (List PV)
  | [] => .ok []
  | x :: xs => do let v ← jsonToCel x; let vs ← jsonToCelList xs; .ok (v :: vs)
/-- the (key, value) pairs of `{json_to_cel(key): json_to_cel(value) for key, value in document.items()}` -/
def jsonToCelKvs : List (String × Json) → PyM (List (PV × PV))
  | [] => .ok []
  | (k, x) :: rest => do
      let k' ← convScalar (dispatch jsonLadder PCls.str) (.str k)
      let v ← jsonToCel x
      let ps ← jsonToCelKvs rest
      .ok ((k', v) :: ps)
end

/-! ### base64 (RFC 4648 §4) -/

def b64Alphabet : List Char :=
  ['A','B','C','D','E','F','G','H','I','J','K','L','M','N','O','P','Q','R','S','T','U','V','W','X','Y','Z',
   'a','b','c','d','e','f','g','h','i','j','k','l','m','n','o','p','q','r','s','t','u','v','w','x','y','z',
   '0','1','2','3','4','5','6','7','8','9','+','/']

def b64Char (n : Nat) : Char := b64Alphabet.getD n '?'

/-- inverse of `b64Char` on the alphabet -/
def b64Val (c : Char) : Option Nat :=
  let n := c.toNat
  if 65 ≤ n ∧ n ≤ 90 then some (n - 65)
  else if 97 ≤ n ∧ n ≤ 122 then some (n - 97 + 26)
  else if 48 ≤ n ∧ n ≤ 57 then some (n - 48 + 52)
  else if n = 43 then some 62
  else if n = 47 then some 63
  else none

/-- 24-bit group → four sextets; the tail is zero-padded and marked with `=`. -/
def b64encode : List UInt8 → List Char
  | a :: b :: c :: rest =>
      let n := a.toNat * 65536 + b.toNat * 256 + c.toNat
      b64Char (n / 262144) :: b64Char (n / 4096 % 64) :: b64Char (n / 64 % 64) :: b64Char (n % 64) :: b64encode rest
  | [a, b] =>
      let n := a.toNat * 65536 + b.toNat * 256
      [b64Char (n / 262144), b64Char (n / 4096 % 64), b64Char (n / 64 % 64), '=']
  | [a] =>
      let n := a.toNat * 65536
      [b64Char (n / 262144), b64Char (n / 4096 % 64), '=', '=']
  | [] => []

def b64decode : List Char → Option (List UInt8)
  | [] => some []
  | [c0, c1, '=', '='] => do
      let s0 ← b64Val c0; let s1 ← b64Val c1
      let n := s0 * 262144 + s1 * 4096
      some [UInt8.ofNat (n / 65536)]
  | [c0, c1, c2, '='] => do
      let s0 ← b64Val c0; let s1 ← b64Val c1; let s2 ← b64Val c2
      let n := s0 * 262144 + s1 * 4096 + s2 * 64
      some [UInt8.ofNat (n / 65536), UInt8.ofNat (n / 256 % 256)]
  | c0 :: c1 :: c2 :: c3 :: rest => do
      let s0 ← b64Val c0; let s1 ← b64Val c1; let s2 ← b64Val c2; let s3 ← b64Val c3
      let n := s0 * 262144 + s1 * 4096 + s2 * 64 + s3
      let tl ← b64decode rest
      some (UInt8.ofNat (n / 65536) :: UInt8.ofNat (n / 256 % 256) :: UInt8.ofNat (n % 256) :: tl)
  | _ => none

/-! ### `str(TimestampType)`, `str(DurationType)` -/

def padNat (w n : Nat) : List Char :=
  let ds := (toString n).toList
  List.replicate (w - ds.length) '0' ++ ds

/-- `strftime("%z")` for a whole-minute offset, then the rewrite of `__str__`: `+0000` → `Z`, else `±HH:MM`. -/
def offStr (offMin : Int) : List Char :=
  if offMin = 0 then ['Z']
  else
    let a := offMin.natAbs
    (if offMin < 0 then '-' else '+') :: (padNat 2 (a / 60) ++ ':' :: padNat 2 (a % 60))

/-- `TimestampType.__str__`: `%Y-%m-%dT%H:%M:%S%z` (sub-second part dropped), RFC 3339. The year is
written with four digits (`f"{self.year:04d}"`, RFC 3339). -/
def tsStr (t : TS) : List Char :=
  padNat 4 t.year ++ '-' :: padNat 2 t.month ++ '-' :: padNat 2 t.day ++ 'T' :: padNat 2 t.hour ++ ':' ::
    padNat 2 t.minute ++ ':' :: padNat 2 t.second ++ offStr t.offMin

/-- the integer `DurationType.__str__` writes: `int(self.total_seconds())` — `total_seconds()` is the binary64 value nearest to
µs/10^6 (`Cel.Time.totalSeconds`, exact model of the correctly rounded quotient), `int()` truncates it toward zero.
`Cel.Props.C15.duration_seconds_truncate`: for |d| < 2^34 s this is exactly the truncation of the duration to whole seconds
(beyond, a fraction within half a spacing of the next second rounds up to it first — `duration_seconds_sharp`). -/
def durSeconds (us : Int) : Int := (Cel.Time.totalSeconds us).trunc

/-- `DurationType.__str__`: `"{0}s".format(int(self.total_seconds()))` -/
def durStr (us : Int) : List Char := (toString (durSeconds us)).toList ++ ['s']

/-! ### `CELJSONEncoder` -/

inductive ToPy where
  | bool | list | dict
  deriving DecidableEq, Repr, Inhabited

/-- the ladder of `CELJSONEncoder.to_python` (else: the object itself) -/
def toPythonLadder : List (List PCls × ToPy) :=
  [([.boolType], .bool), ([.listType], .list), ([.mapType], .dict)]

mutual
/-- `CELJSONEncoder.to_python` -/
def toPython : PV → PV
  | .cbool b => match dispatch toPythonLadder PCls.boolType with
      | some .bool => .pbool b
      | _ => .cbool b
  | .clist xs => match dispatch toPythonLadder PCls.listType with
      | some .list => .plist (toPythonList xs)
      | _ => .clist xs
  | .cmap kvs => match dispatch toPythonLadder PCls.mapType with
      | some .dict => .pdict (dictOfPairs (toPythonKvs kvs))
      | _ => .cmap kvs
  | v => v
def toPythonList : List PV → List PV
  | [] => []
  | x :: xs => toPython x :: toPythonList xs
def toPythonKvs : List (PV × PV) → List (PV × PV)
  | [] => []
  | (k, v) :: rest => (toPython k, toPython v) :: toPythonKvs rest
end

inductive DefaultAct where
  | strOf | base64
  deriving DecidableEq, Repr, Inhabited

/-- the ladder of `CELJSONEncoder.default` (else: `super().default` raises TypeError) -/
def defaultLadder : List (List PCls × DefaultAct) :=
  [([.timestampType], .strOf), ([.durationType], .strOf), ([.bytesType], .base64)]

/-- `CELJSONEncoder.default` -/
def defaultHook (v : PV) : PyM PV :=
  match dispatch defaultLadder v.cls, v with
  | some .strOf, .cts t => .ok (.pstr (String.ofList (tsStr t)))
  | some .strOf, .cdur us => .ok (.pstr (String.ofList (durStr us)))
  | some .base64, .cbytes bs => .ok (.pstr (String.ofList (b64encode bs)))
  | some _, _ => .error .other
  | none, _ => .error .typeError

/-- key coercion of `json`'s encoder: str as is; `True/False/None` (identity!) → `true/false/null`;
other ints via `int.__repr__`; anything else TypeError (`skipkeys=False`). Float keys (text is
`float.__repr__`) are outside the model: `.other`. -/
def jsonKey : PV → PyM String
  | .pstr s | .cstr s => .ok s
  | .pfloat _ | .cdbl _ => .error .other
  | .pbool b => .ok (if b then "true" else "false")
  | .none => .ok "null"
  | .pint z | .cint z => .ok (toString z)
  | .cuint n => .ok (toString n)
  | .cbool b => .ok (if b then "1" else "0")
  | _ => .error .typeError

mutual
/-- `json.JSONEncoder.encode` with `CELJSONEncoder.default` as the hook, as the document the text denotes.
Ladder of the stdlib encoder: str, None, True, False (identity), int (`int.__repr__` — so a `BoolType`
that was not converted by `to_python` prints as `1`/`0`), float, list/tuple, dict, else `default()`. -/
def jsonEnc : PV → PyM Json
  | .pstr s | .cstr s => .ok (.str s)
  | .none => .ok .null
  | .pbool b => .ok (.bool b)
  | .pint z | .cint z => .ok (.int z)
  | .cuint n => .ok (.int n)
  | .cbool b => .ok (.int (if b then 1 else 0))
  | .pfloat f | .cdbl f => .ok (.float f)
  | .plist xs | .clist xs => do let js ← jsonEncList xs; .ok (.arr js)
  | .pdict kvs | .cmap kvs => do let ms ← jsonEncKvs kvs; .ok (.obj ms)
  | .cbytes bs => match defaultHook (.cbytes bs) with
      | .ok (.pstr s) => .ok (.str s) | .ok _ => .error .other | .error e => .error e
  | .cts t => match defaultHook (.cts t) with
      | .ok (.pstr s) => .ok (.str s) | .ok _ => .error .other | .error e => .error e
  | .cdur us => match defaultHook (.cdur us) with
      | .ok (.pstr s) => .ok (.str s) | .ok _ => .error .other | .error e => .error e
def jsonEncList : List PV → PyM (List Json)
  | [] => .ok []
  | x :: xs => do let j ← jsonEnc x; let js ← jsonEncList xs; .ok (j :: js)
def jsonEncKvs : List (PV × PV) → PyM (List (String × Json))
  | [] => .ok []
  | (k, v) :: rest => do
      let k' ← jsonKey k
      let j ← jsonEnc v
      let ms ← jsonEncKvs rest
      .ok ((k', j) :: ms)
end

/-- `json.dumps(v, cls=CELJSONEncoder)` = `CELJSONEncoder.encode(v)` = `super().encode(to_python(v))` -/
def encode (v : PV) : PyM Json := jsonEnc (toPython v)

/-! ### hypotheses of the round trip -/

def i64b (z : Int) : Bool := decide (-(2:Int)^63 ≤ z ∧ z < (2:Int)^63)

/-- no key occurs twice (the invariant of a Python `dict`) -/
def keysNodup : List String → Bool
  | [] => true
  | k :: ks => !ks.contains k && keysNodup ks

mutual
/-- every integer of the document is within int64 -/
def Json.intsInI64 : Json → Bool
  | .int z => i64b z
  | .arr xs => Json.intsInI64L xs
  | .obj kvs => Json.intsInI64K kvs
  | _ => true
def Json.intsInI64L : List Json → Bool
  | [] => true
  | x :: xs => x.intsInI64 && Json.intsInI64L xs
def Json.intsInI64K : List (String × Json) → Bool
  | [] => true
  | (_, x) :: rest => x.intsInI64 && Json.intsInI64K rest
end

mutual
/-- every object of the document is a well-formed `dict`: keys pairwise distinct -/
def Json.keysUnique : Json → Bool
  | .arr xs => Json.keysUniqueL xs
  | .obj kvs => keysNodup (kvs.map (·.1)) && Json.keysUniqueK kvs
  | _ => true
def Json.keysUniqueL : List Json → Bool
  | [] => true
  | x :: xs => x.keysUnique && Json.keysUniqueL xs
def Json.keysUniqueK : List (String × Json) → Bool
  | [] => true
  | (_, x) :: rest => x.keysUnique && Json.keysUniqueK rest
end

/-! ### navigation -/

/-- one step of a path: `.f`, `["k"]`, `[i]` -/
inductive Step where
  | field (k : String) | key (k : String) | idx (i : Nat)
  deriving Repr, Inhabited, DecidableEq

def assocFind (k : String) : List (String × Json) → Option Json
  | [] => none
  | (k', v) :: rest => if k' = k then some v else assocFind k rest

/-- Python navigation in the parsed document: `doc[k]`, `doc[i]` (valid steps only). -/
def Json.lookup : Json → List Step → Option Json
  | j, [] => some j
  | .obj kvs, .field k :: p => match assocFind k kvs with | some v => v.lookup p | none => none
  | .obj kvs, .key k :: p => match assocFind k kvs with | some v => v.lookup p | none => none
  | .arr xs, .idx i :: p => match xs[i]? with | some v => v.lookup p | none => none
  | _, _ :: _ => none

/-- the class tuple of `MapType.valid_key_type` -/
def validKeyClasses : List PCls := [.intType, .uintType, .boolType, .stringType, .str]
/-- `MapType.valid_key_type` -/
def validKeyType (k : PV) : Bool := isInst k.cls validKeyClasses

/-- `operator.getitem(container, index)` for the containers of a converted document.
List indexes follow Python (`i < 0` counts from the end — not reachable from `Step.idx`). -/
def getitem : PV → PV → PyM PV
  | .cmap kvs, k =>
      if validKeyType k then (match dictFind kvs k with | some v => .ok v | none => .error .keyError)
      else .error .typeError
  | .clist xs, .cint i =>
      let n : Int := xs.length
      if 0 ≤ i ∧ i < n then (match xs[i.toNat]? with | some v => .ok v | none => .error .indexError)
      else if -n ≤ i ∧ i < 0 then (match xs[(n + i).toNat]? with | some v => .ok v | none => .error .indexError)
      else .error .indexError
  | _, _ => .error .typeError

/-- `Evaluator.member_dot` on a value: a `MapType` is indexed with the (native `str`) identifier, KeyError →
CELEvalError; every other class → CELEvalError. (`.celEval` stands for the error result.) -/
def memberDot (m : PV) (name : String) : PyM PV :=
  if isInst m.cls [.mapType] then
    match getitem m (.pstr name) with
    | .ok v => .ok v
    | .error .keyError => .error .celEval
    | .error e => .error e
  else .error .celEval

/-- `Evaluator.member_index`: `operator.getitem` under `except TypeError / KeyError / IndexError` → CELEvalError -/
def memberIndex (m ix : PV) : PyM PV :=
  match getitem m ix with
  | .ok v => .ok v
  | .error e => if e = .typeError ∨ e = .keyError ∨ e = .indexError then .error .celEval else .error e

def stepCel (v : PV) : Step → PyM PV
  | .field k => memberDot v k
  | .key k => memberIndex v (.cstr k)
  | .idx i => memberIndex v (.cint i)

/-- evaluation of `doc<path>` with `doc` bound to `v` -/
def navCel : PV → List Step → PyM PV
  | v, [] => .ok v
  | v, s :: p => do let v' ← stepCel v s; navCel v' p

end Cel.JsonM
