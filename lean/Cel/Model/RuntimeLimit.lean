/-
  Cel.Model.RuntimeLimit — the process-wide recursion limit as part of the API state machine (C05).

  mirrors  src/celpy/__init__.py  Environment.__init__:  `sys.setrecursionlimit(2500)`

  Creating an `Environment` raises Python's recursion limit (a process-wide interpreter setting; the evaluator,
  the transpiler's visitors and lark recurse once or more per nesting level of the expression, so the limit decides
  which nesting depths can be built/evaluated at all).  No other operation of the API touches it.  What matters for
  history independence is WHEN it is set: `LimitPolicy` is read from the source on every run
  (`py/verif/translate/gen_c05_c16.py`, `limit_policy`).

  Core Lean only.
-/
import Cel.Model.Runtime
namespace Cel.Runtime

/-- when `Environment.__init__` calls `sys.setrecursionlimit(n)` -/
inductive LimitPolicy
  | never                          -- no call at all
  | always (n : Nat)               -- unconditionally, for every environment
  | onlyKind (k : Kind) (n : Nat)  -- only for environments of runner class `k`
  deriving DecidableEq, Repr

/-- the recursion limit after one API operation -/
def limitStep (pol : LimitPolicy) (lim : Nat) : Op → Nat
  | .mkEnv k _ _ =>
    match pol with
    | .never => lim
    | .always n => n
    | .onlyKind k' n => if k = k' then n else lim
  | _ => lim

/-- … after a history -/
def limitRun (pol : LimitPolicy) (lim : Nat) : List Op → Nat
  | [] => lim
  | op :: ops => limitRun pol (limitStep pol lim op) ops

/-- … after every operation of a history -/
def limitTrace (pol : LimitPolicy) (lim : Nat) : List Op → List Nat
  | [] => []
  | op :: ops => limitStep pol lim op :: limitTrace pol (limitStep pol lim op) ops

def Op.isMkEnv : Op → Bool
  | .mkEnv _ _ _ => true
  | _ => false

/-- the history creates at least one environment -/
def hasEnvOp (ops : List Op) : Bool := ops.any Op.isMkEnv

/-- the history of the same evaluation performed alone (the one `ideal` runs) -/
def aloneOps (p : Prog) : List Op := [.mkEnv p.kind p.decls p.pkg, .compile 0 (some p.expr), .program 0 0]

end Cel.Runtime
