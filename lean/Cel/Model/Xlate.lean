/-
  Cel.Model.Xlate — the boolean skeleton of the Cloud Custodian → CEL translator
  (src/xlate/c7n_to_cel.py): `C7N_Rewriter.logical_connector`, `operands`, `top_level_logic`.

  The translator pastes *text*; here a clause's text is the token string of an arbitrary CEL
  expression (`render c`), so string joins become token-list joins. The step text ↔ tokens is lark's
  lexer (string literals are single tokens, which is why the scanner of `top_level_logic` skips them).
-/
import Cel.Model.Grammar
namespace Cel.Xlate
open Cel.Grammar

mutual
/-- a Custodian filter tree: primitive clause (already translated to a CEL expression),
`and:` / `or:` / `not:` blocks, and the implicit-and list -/
inductive Filter where
  | prim (c : PExpr)
  | and (fs : Filters)
  | or (fs : Filters)
  | not (fs : Filters)
  | list (fs : Filters)
inductive Filters where
  | nil
  | cons (f : Filter) (r : Filters)
end

def Filters.length : Filters → Nat
  | .nil => 0
  | .cons _ r => r.length + 1

/-! ### `top_level_logic`, on tokens -/

def opener (k : TK) : Bool := k == .LPAR || k == .LSQB || k == .LBRACE
def closer (k : TK) : Bool := k == .RPAR || k == .RSQB || k == .RBRACE
/-- `?`, `&&`, `||` -/
def isLogic (k : TK) : Bool := k == .QMARK || k == .ANDAND || k == .OROR

/-- `C7N_Rewriter.top_level_logic`: is there a `&&`, `||` or `?` at bracket depth 0?
(`depth` is a Python int and may go negative on unbalanced text) -/
def scanTop : Int → List Tok → Bool
  | _, [] => false
  | d, t :: ts =>
    if opener t.k then scanTop (d + 1) ts
    else if closer t.k then scanTop (d - 1) ts
    else if d == 0 && isLogic t.k then true
    else scanTop d ts

def topLevelLogic (ts : List Tok) : Bool := scanTop 0 ts

/-- `f"({clause})"` -/
def parenToks (ts : List Tok) : List Tok := .a .LPAR :: (ts ++ [.a .RPAR])

/-- `C7N_Rewriter.operands`: with two or more clauses, parenthesise those with top-level logic -/
def operands (clauses : List (List Tok)) : List (List Tok) :=
  if clauses.length < 2 then clauses
  else clauses.map fun c => if topLevelLogic c then parenToks c else c

/-- `" op ".join(xs)` -/
def joinWith (op : TK) : List (List Tok) → List Tok
  | [] => []
  | [x] => x
  | x :: r => x ++ (.a op :: joinWith op r)

/-- `f"({details})" if level > 1 else details` -/
def parenIfDeep (level : Nat) (details : List Tok) : List Tok :=
  if level > 1 then parenToks details else details

mutual
/-- `C7N_Rewriter.logical_connector(resource, c7n_filter, level)` -/
def logicalConnector : Nat → Filter → List Tok
  | _, .prim c => render c
  | level, .not (.cons f .nil) =>
      .a .BANG :: parenToks (logicalConnector (level + 1) f)
  | level, .not fs =>
      .a .BANG :: parenToks (joinWith .ANDAND (operands (connectAll (level + 1) fs)))
  | level, .or fs => parenIfDeep level (joinWith .OROR (operands (connectAll (level + 1) fs)))
  | level, .and fs => parenIfDeep level (joinWith .ANDAND (operands (connectAll (level + 1) fs)))
  | level, .list fs => parenIfDeep level (joinWith .ANDAND (operands (connectAll (level + 1) fs)))
/-- `[logical_connector(resource, f, level) for f in fs]` -/
def connectAll : Nat → Filters → List (List Tok)
  | _, .nil => []
  | level, .cons f r => logicalConnector level f :: connectAll level r
end

/-- the translation of a policy's `filters:` (`c7n_rewrite`) -/
def emit (f : Filter) : List Tok := logicalConnector 0 f

/-! ### what Custodian means -/

mutual
/-- Custodian's combinators over the clause values `ev c`: list and `and` = all, `or` = any,
`not` = not all -/
def c7nDenote (ev : PExpr → Bool) : Filter → Bool
  | .prim c => ev c
  | .and fs => c7nAll ev fs
  | .list fs => c7nAll ev fs
  | .or fs => c7nAny ev fs
  | .not fs => !c7nAll ev fs
def c7nAll (ev : PExpr → Bool) : Filters → Bool
  | .nil => true
  | .cons f r => c7nDenote ev f && c7nAll ev r
def c7nAny (ev : PExpr → Bool) : Filters → Bool
  | .nil => false
  | .cons f r => c7nDenote ev f || c7nAny ev r
end

/-! ### the expression the emitted text parses to -/

/-- does the expression have `&&`, `||` or `?:` outside all brackets? -/
def tops : PExpr → Bool
  | .cond .. => true | .or .. => true | .and .. => true
  | .rel _ a b => tops a || tops b
  | .add _ a b => tops a || tops b
  | .mul _ a b => tops a || tops b
  | .not e => tops e
  | .neg e => tops e
  | .dot e _ => tops e
  | .dotArg e _ _ => tops e
  | .index e _ => tops e
  | .obj e _ => tops e
  | _ => false

/-- an operand of a multi-clause join -/
def groupE (e : PExpr) : PExpr := if tops e then .paren e else e

def operandsE (es : List PExpr) : List PExpr := if es.length < 2 then es else es.map groupE

/-- left-nested `e1 op e2 op … op en` (how CEL's left-associative `&&`/`||` group a join) -/
def joinE (mk : PExpr → PExpr → PExpr) : List PExpr → Option PExpr
  | [] => none
  | e :: r => some (r.foldl mk e)

def parenIfDeepE (level : Nat) (e : PExpr) : PExpr := if level > 1 then .paren e else e

mutual
/-- the CEL expression denoted by the emitted token string (`none` for an empty connective,
whose emitted text is not CEL) -/
def exprOf : Nat → Filter → Option PExpr
  | _, .prim c => some c
  | level, .not (.cons f .nil) => (exprOf (level + 1) f).map fun e => .not (.paren e)
  | level, .not fs => do
      let es ← exprsOf (level + 1) fs
      let j ← joinE .and (operandsE es)
      some (.not (.paren j))
  | level, .or fs => do
      let es ← exprsOf (level + 1) fs
      let j ← joinE .or (operandsE es)
      some (parenIfDeepE level j)
  | level, .and fs => do
      let es ← exprsOf (level + 1) fs
      let j ← joinE .and (operandsE es)
      some (parenIfDeepE level j)
  | level, .list fs => do
      let es ← exprsOf (level + 1) fs
      let j ← joinE .and (operandsE es)
      some (parenIfDeepE level j)
def exprsOf : Nat → Filters → Option (List PExpr)
  | _, .nil => some []
  | level, .cons f r => do
      let e ← exprOf level f
      let es ← exprsOf level r
      some (e :: es)
end

mutual
/-- every connective has at least one child (the property's "1–3 children") -/
def nonEmpty : Filter → Bool
  | .prim _ => true
  | .and fs => fs.length != 0 && nonEmptyAll fs
  | .or fs => fs.length != 0 && nonEmptyAll fs
  | .not fs => fs.length != 0 && nonEmptyAll fs
  | .list fs => fs.length != 0 && nonEmptyAll fs
def nonEmptyAll : Filters → Bool
  | .nil => true
  | .cons f r => nonEmpty f && nonEmptyAll r
end

mutual
/-- every primitive clause is a well-formed CEL expression -/
def clausesWF : Filter → Bool
  | .prim c => wf c
  | .and fs => clausesWFAll fs
  | .or fs => clausesWFAll fs
  | .not fs => clausesWFAll fs
  | .list fs => clausesWFAll fs
def clausesWFAll : Filters → Bool
  | .nil => true
  | .cons f r => clausesWF f && clausesWFAll r
end

/-- equality of two literal tokens: same terminal and same text -/
def litEq (k1 : LitK) (s1 : String) (k2 : LitK) (s2 : String) : Bool := k1 == k2 && s1 == s2

mutual
/-- a concrete evaluator for the boolean fragment: identifiers are looked up in `ρ`; `true`/`false`,
`! && || ?:` and parentheses have their usual meaning. To evaluate the clause representatives of
the correspondence run it also knows `==`/`!=` (between two literals: same text; otherwise between
boolean values), `x in [..]`, `[..].exists(v, v)` and `{k: v}[k]`. Anything else is `false`. -/
def evalBool (ρ : String → Bool) : PExpr → Bool
  | .ident s => ρ s
  | .lit .bool s => s == "true"
  | .paren e => evalBool ρ e
  | .not e => !evalBool ρ e
  | .and a b => evalBool ρ a && evalBool ρ b
  | .or a b => evalBool ρ a || evalBool ρ b
  | .cond c a b => if evalBool ρ c then evalBool ρ a else evalBool ρ b
  | .rel .eq (.lit k1 s1) (.lit k2 s2) => litEq k1 s1 k2 s2
  | .rel .ne (.lit k1 s1) (.lit k2 s2) => !litEq k1 s1 k2 s2
  | .rel .eq a b => evalBool ρ a == evalBool ρ b
  | .rel .ne a b => evalBool ρ a != evalBool ρ b
  | .rel .in_ a (.list es) => memB ρ (evalBool ρ a) es
  | .dotArg (.list es) "exists" (.cons (.ident _) (.cons (.ident _) .nil)) => anyB ρ es
  | .index (.map (.cons _ v .nil)) _ => evalBool ρ v
  | _ => false
def anyB (ρ : String → Bool) : PArgs → Bool
  | .nil => false
  | .cons e r => evalBool ρ e || anyB ρ r
def memB (ρ : String → Bool) (v : Bool) : PArgs → Bool
  | .nil => false
  | .cons e r => (evalBool ρ e == v) || memB ρ v r
end

/-! ### the translator before the fix 71012e7 (kept for the regression witness) -/

mutual
def logicalConnectorOld : Nat → Filter → List Tok
  | _, .prim c => render c
  | level, .not (.cons f .nil) => .a .BANG :: parenToks (logicalConnectorOld (level + 1) f)
  | level, .not fs => .a .BANG :: parenToks (joinWith .ANDAND (connectAllOld (level + 1) fs))
  | level, .or fs => parenIfDeep level (joinWith .OROR (connectAllOld (level + 1) fs))
  | level, .and fs => parenIfDeep level (joinWith .ANDAND (connectAllOld (level + 1) fs))
  | level, .list fs => parenIfDeep level (joinWith .ANDAND (connectAllOld (level + 1) fs))
def connectAllOld : Nat → Filters → List (List Tok)
  | _, .nil => []
  | level, .cons f r => logicalConnectorOld level f :: connectAllOld level r
end

end Cel.Xlate

namespace Cel.Xlate
/-! ### the source the model was written against

Canonical templates of the branches of `logical_connector` / `operands` as produced by the
symbolic reader `py/verif/translate/gen_c18.py` (`rec` = recursive call, `join` = `" op ".join`,
`fmt` = f-string). `logicalConnector`, `operands` above are these templates on token lists;
`Cel.Bridge.Xlate` proves that today's source still yields exactly them. -/
def sourceBranches : List (String × String) := [
  ("and", "if(level > 1, fmt('(' join('&&', operands(map(rec(x, level + 1), x, filter['and']))) ')'), join('&&', operands(map(rec(x, level + 1), x, filter['and']))))"),
  ("else-dict", "prim(filter)"),
  ("else-outer", "raise"),
  ("list", "if(level > 1, fmt('(' join('&&', operands(map(rec(x, level + 1), x, filter))) ')'), join('&&', operands(map(rec(x, level + 1), x, filter))))"),
  ("not", "fmt('!(' if(len(filter['not']) == 1, rec(filter['not'][0], level + 1), join('&&', operands(map(rec(x, level + 1), x, filter['not'])))) ')')"),
  ("or", "if(level > 1, fmt('(' join('||', operands(map(rec(x, level + 1), x, filter['or']))) ')'), join('||', operands(map(rec(x, level + 1), x, filter['or']))))")
]
def sourceOperands : String :=
  "if(len(clauses) < 2, clauses, map(if(top_level_logic(x), fmt('(' x ')'), x), x, clauses))"
/-- string constants the character scanner `top_level_logic` tests for: quotes, the three logical
operators, brackets, the escape character -/
def sourceScannerConstants : List String := ["\"'", "&&", "([{", ")]}", "?", "\\", "||"]
/-- fingerprint of the scanner's normalised AST (control flow of the loop) -/
def sourceScannerFingerprint : String := "773fcab0b0908501"
end Cel.Xlate
