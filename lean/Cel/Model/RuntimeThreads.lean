/-
  Cel.Model.RuntimeThreads — thread part of the runtime model (C16).

  A compiled program is its *statement list* as `Transpiler.transpile` emits it
  (evaluation.py:3065-3081, templates 3172-3240, 3549-3553):

      ex_2_l = lambda activation: <expr>          -- `Stmt.defn`
      ex_2   = lambda activation: logical_and(result(activation, ex_2_l), result(activation, ex_2_r))
      CEL    = result(base_activation, ex_2)      -- `Stmt.cel`

  The lambdas refer to each other and to `base_activation` BY NAME: the name is looked up in the
  namespace handed to `exec` at the moment the referring code runs (late binding).
  `Transpiler.evaluate` (evaluation.py:3083-3105) writes `base_activation`, executes the statements,
  reads `CEL`.  One atomic step of a thread = one machine transition below; the transitions that touch
  the namespace (one global-name read or write each) and host-function calls are the *visible* ones.

  `NamespacePolicy.shared`: every compiled evaluation uses the one namespace of the module
  `celpy.evaluation` (the code before the fix of D4); `perCall`: each evaluation has its own.
  The interpreter (`Evaluator`) keeps all its state in per-call objects: its threads never use the shared namespace.

  Core Lean only.
-/
import Cel.Model.Runtime
namespace Cel.Runtime
open Cel

/-- values of the fragment; `err tag` is a `CELEvalError` value -/
inductive CV where
  | int (n : Int) | bool (b : Bool) | err (tag : String)
  deriving DecidableEq, Repr, Inhabited

/-- bodies of the transpiled lambdas -/
inductive CExp where
  | lit (v : CV)
  | var (x : String)                       -- `activation.x`
  | bin (op : String) (a b : CExp)         -- `celpy.evaluation.bool_eq(a, b)`, `operator.add(a, b)`, …
  | lnot (a : CExp)                        -- `celpy.celtypes.logical_not(a)`
  | land (a b : CExp) | lor (a b : CExp)   -- `celpy.celtypes.logical_and(a, b)` / `logical_or`
  | cond (c a b : CExp)                    -- `celpy.celtypes.logical_condition(c, a, b)`
  | resultN (n : String)                   -- `celpy.evaluation.result(activation, n)`   (n: a global name)
  | callN (n : String)                     -- `n(activation)`
  | catch (a : CExp)                       -- exception → error value, without any name (interpreter; inline lambda)
  | host (f : String) (a : CExp)           -- host function applied to one argument
  deriving DecidableEq, Repr, Inhabited

inductive Stmt where
  | defn (n : String) (body : CExp)        -- `n = lambda activation: body`
  | celN (n : String)                      -- `CEL = result(base_activation, n)`
  | celL (body : CExp)                     -- `CEL = result(base_activation, lambda activation: body)`
  deriving DecidableEq, Repr

abbrev Act := List (String × CV)

/-- what a global name can hold -/
inductive GVal where
  | closure (body : CExp) | act (b : Act) | val (v : CV)
  deriving DecidableEq, Repr

abbrev NS := List (String × GVal)

def NS.get : NS → String → Option GVal
  | [], _ => none
  | (k, v) :: rest, n => if k = n then some v else NS.get rest n
def NS.put (ns : NS) (n : String) (v : GVal) : NS := (n, v) :: ns

/-- normal return or raised exception -/
inductive Res where
  | val (v : CV) | exc (tag : String)
  deriving DecidableEq, Repr

inductive Frame where
  | binL (op : String) (b : CExp) | binR (op : String) (va : CV) | notK
  | andL (b : CExp) | andR (va : CV) | orL (b : CExp) | orR (va : CV)
  | condC (a b : CExp) | condA (vc : CV) (b : CExp) | condB (vc va : CV)
  | catchK                                  -- the try/except of `result()`
  | hostA (f : String)                      -- argument evaluated next: call `f`
  | storeCEL                                -- `CEL = …`
  deriving DecidableEq, Repr

inductive Ctl where
  | idle                                    -- between statements
  | eval (e : CExp)
  | ret (r : Res)
  | enter (n : String) (caught : Bool)      -- about to read the global `n` and call it (inside / outside result()'s try)
  | hostCall (f : String) (v : CV)          -- about to call the host function
  deriving DecidableEq, Repr

structure TState where
  todo : List Stmt
  started : Bool := false     -- `evaluation_globals["base_activation"] = self.activation` executed
  ctl : Ctl := .idle
  stack : List Frame := []
  act : Act := []             -- the `activation` argument of the running lambdas
  mine : Act                  -- the activation of this call
  priv : NS := []             -- the per-call namespace (used under `perCall`, and always by the interpreter)
  out : Option CV := none     -- the evaluation returned this
  deriving DecidableEq, Repr

def Act.get : Act → String → Option CV
  | [], _ => none
  | (k, v) :: rest, n => if k = n then some v else Act.get rest n

def binOp : String → CV → CV → Res
  | "eq", .int a, .int b => .val (.bool (a == b))
  | "eq", .bool a, .bool b => .val (.bool (a == b))
  | "ne", .int a, .int b => .val (.bool (a != b))
  | "ne", .bool a, .bool b => .val (.bool (a != b))
  | "lt", .int a, .int b => .val (.bool (a < b))
  | "le", .int a, .int b => .val (.bool (a ≤ b))
  | "gt", .int a, .int b => .val (.bool (a > b))
  | "ge", .int a, .int b => .val (.bool (a ≥ b))
  | "add", .int a, .int b => if i64 (a + b) then .val (.int (a + b)) else .exc "overflow"
  | "sub", .int a, .int b => if i64 (a - b) then .val (.int (a - b)) else .exc "overflow"
  | "mul", .int a, .int b => if i64 (a * b) then .val (.int (a * b)) else .exc "overflow"
  | _, _, _ => .exc "type"

/-- `logical_and` on already evaluated operands (celtypes.py:269-303) -/
def landV : CV → CV → Res
  | .bool false, _ => .val (.bool false)
  | _, .bool false => .val (.bool false)
  | .bool true, .bool true => .val (.bool true)
  | .bool true, .err t => .val (.err t)
  | .err t, .bool true => .val (.err t)
  | .bool true, v => .val v                -- a non-boolean operand next to `true` is returned as is
  | v, .bool true => .val v
  | _, _ => .exc "type"
def lorV : CV → CV → Res
  | .bool true, _ => .val (.bool true)
  | _, .bool true => .val (.bool true)
  | .bool false, .bool false => .val (.bool false)
  | .bool false, .err t => .val (.err t)
  | .err t, .bool false => .val (.err t)
  | .bool false, v => .val v
  | v, .bool false => .val v
  | _, _ => .exc "type"
def lnotV : CV → Res
  | .bool b => .val (.bool (!b))
  | .err t => .val (.err t)
  | _ => .exc "type"
def condV : CV → CV → CV → Res
  | .bool true, a, _ => .val a
  | .bool false, _, b => .val b
  | _, _, _ => .exc "type"                 -- an erroneous or non-boolean condition: TypeError

/-- return `r` into the top frame -/
def retStep (ns : NS) (ts : TState) (r : Res) : NS × TState :=
  match ts.stack with
  | [] => (ns, { ts with out := some (.err "stack") })     -- cannot happen
  | fr :: stk =>
    match fr, r with
    | .catchK, .exc t => (ns, { ts with ctl := .ret (.val (.err t)), stack := stk })
    | .catchK, .val v => (ns, { ts with ctl := .ret (.val v), stack := stk })
    -- an exception that is not caught by a `result()` leaves `exec`: `Transpiler.evaluate` raises CELEvalError
    | .storeCEL, .exc t => (ns, { ts with out := some (.err t), ctl := .idle, stack := [] })
    | .storeCEL, .val v => (ns.put "CEL" (.val v), { ts with ctl := .idle, stack := stk })
    | _, .exc t => (ns, { ts with ctl := .ret (.exc t), stack := stk })
    | .binL op b, .val v => (ns, { ts with ctl := .eval b, stack := .binR op v :: stk })
    | .binR op va, .val v => (ns, { ts with ctl := .ret (binOp op va v), stack := stk })
    | .notK, .val v => (ns, { ts with ctl := .ret (lnotV v), stack := stk })
    | .andL b, .val v => (ns, { ts with ctl := .eval b, stack := .andR v :: stk })
    | .andR va, .val v => (ns, { ts with ctl := .ret (landV va v), stack := stk })
    | .orL b, .val v => (ns, { ts with ctl := .eval b, stack := .orR v :: stk })
    | .orR va, .val v => (ns, { ts with ctl := .ret (lorV va v), stack := stk })
    | .condC a b, .val v => (ns, { ts with ctl := .eval a, stack := .condA v b :: stk })
    | .condA vc b, .val v => (ns, { ts with ctl := .eval b, stack := .condB vc v :: stk })
    | .condB vc va, .val v => (ns, { ts with ctl := .ret (condV vc va v), stack := stk })
    | .hostA f, .val v => (ns, { ts with ctl := .hostCall f v, stack := stk })

/-- **one atomic step** of an evaluation, in the namespace `ns` it executes in -/
def lstep (ns : NS) (ts : TState) : NS × TState :=
  match ts.out with
  | some _ => (ns, ts)                                   -- finished: nothing more happens
  | none =>
    match ts.ctl with
    | .idle =>
      if !ts.started then (ns.put "base_activation" (.act ts.mine), { ts with started := true })
      else match ts.todo with
        | .defn n body :: rest => (ns.put n (.closure body), { ts with todo := rest })
        | .celN n :: rest =>
          -- `result(base_activation, n)`: the arguments are evaluated first, `base_activation` then `n`
          let a := match ns.get "base_activation" with | some (.act b) => b | _ => []
          (ns, { ts with todo := rest, act := a, ctl := .enter n true, stack := [.storeCEL] })
        | .celL body :: rest =>
          let a := match ns.get "base_activation" with | some (.act b) => b | _ => []
          (ns, { ts with todo := rest, act := a, ctl := .eval body, stack := [.catchK, .storeCEL] })
        | [] =>
          -- `value = evaluation_globals["CEL"]`
          match ns.get "CEL" with
          | some (.val v) => (ns, { ts with out := some v })
          | _ => (ns, { ts with out := some (.err "CEL") })
    | .enter n caught =>
      match ns.get n with
      | some (.closure body) =>
        (ns, { ts with ctl := .eval body, stack := if caught then .catchK :: ts.stack else ts.stack })
      | some _ => (ns, { ts with ctl := .ret (if caught then .val (.err "notcallable") else .exc "notcallable") })
      | none => (ns, { ts with ctl := .ret (.exc ("name:" ++ n)) })     -- NameError, raised while the arguments are evaluated
    | .hostCall _ v => (ns, { ts with ctl := .ret (.val v) })           -- the host functions of the model return their argument
    | .eval e =>
      match e with
      | .lit v => (ns, { ts with ctl := .ret (.val v) })
      | .var x => (ns, { ts with ctl := .ret (match ts.act.get x with | some v => .val v | none => .exc ("key:" ++ x)) })
      | .bin op a b => (ns, { ts with ctl := .eval a, stack := .binL op b :: ts.stack })
      | .lnot a => (ns, { ts with ctl := .eval a, stack := .notK :: ts.stack })
      | .land a b => (ns, { ts with ctl := .eval a, stack := .andL b :: ts.stack })
      | .lor a b => (ns, { ts with ctl := .eval a, stack := .orL b :: ts.stack })
      | .cond c a b => (ns, { ts with ctl := .eval c, stack := .condC a b :: ts.stack })
      | .resultN n => (ns, { ts with ctl := .enter n true })
      | .callN n => (ns, { ts with ctl := .enter n false })
      | .catch a => (ns, { ts with ctl := .eval a, stack := .catchK :: ts.stack })
      | .host f a => (ns, { ts with ctl := .eval a, stack := .hostA f :: ts.stack })
    | .ret r => retStep ns ts r

/-- is the next step of the thread one that touches the namespace or calls a host function? -/
def TState.visible (ts : TState) : Bool :=
  match ts.out, ts.ctl with
  | some _, _ => false
  | none, .idle => true
  | none, .enter _ _ => true
  | none, .hostCall _ _ => true
  | none, .ret _ => (match ts.stack with | .storeCEL :: _ => true | _ => false)
  | none, .eval _ => false

/-! ## threads, schedules -/

abbrev Tid := Nat
abbrev Sched := List Tid

structure MState where
  threads : Tid → TState
  kinds : Tid → Kind          -- runner class of each thread's program
  shared : NS := []           -- the namespace of the module `celpy.evaluation`

def updT (f : Tid → TState) (t : Tid) (x : TState) : Tid → TState := fun i => if i = t then x else f i

/-- a step in the evaluation's own namespace -/
def privStep (ts : TState) : TState :=
  let r := lstep ts.priv ts
  { r.2 with priv := r.1 }

/-- thread `t` performs one atomic step -/
def stepThread (pol : NamespacePolicy) (t : Tid) (m : MState) : MState :=
  match pol, m.kinds t with
  | .shared, .C =>
    let r := lstep m.shared (m.threads t)
    { m with threads := updT m.threads t r.2, shared := r.1 }
  | _, _ => { m with threads := updT m.threads t (privStep (m.threads t)) }

def runSched (pol : NamespacePolicy) (m : MState) : Sched → MState
  | [] => m
  | t :: s => runSched pol (stepThread pol t m) s

def iter (f : TState → TState) : Nat → TState → TState
  | 0, x => x
  | n + 1, x => iter f n (f x)

/-- the evaluation performed alone: `n` steps in its own namespace -/
def runAlone (ts : TState) (n : Nat) : TState := iter privStep n ts

/-- the observation of thread `t` after the schedule `s` -/
def obsOf (pol : NamespacePolicy) (m : MState) (s : Sched) (t : Tid) : Option CV := ((runSched pol m s).threads t).out

/-! ## schedules with a bounded number of preemptions (driver / explorer) -/

/-- run thread `t` until it is finished or until just before its `k`-th next visible step -/
def runUntilVisible (pol : NamespacePolicy) (t : Tid) : Nat → Nat → MState → MState
  | 0, _, m => m
  | fuel + 1, k, m =>
    let ts := m.threads t
    if ts.out.isSome then m
    else if ts.visible then
      (match k with
       | 0 => m
       | k' + 1 => runUntilVisible pol t fuel k' (stepThread pol t m))
    else runUntilVisible pol t fuel k (stepThread pol t m)

def runToEnd (pol : NamespacePolicy) (t : Tid) : Nat → MState → MState
  | 0, m => m
  | fuel + 1, m => if (m.threads t).out.isSome then m else runToEnd pol t fuel (stepThread pol t m)

/-- the order in which the threads finish after the preemption segments: one segment `(i,_)` — the others, then `i`
resumes; two segments `(i,_),(j,_)` — `i` resumes, the others, then `j` -/
def finishOrder (n : Nat) : List (Tid × Nat) → List Tid
  | [(i, _)] => (List.range n).filter (· != i) ++ [i]
  | [(i, _), (j, _)] => [i] ++ (List.range n).filter (fun x => x != i && x != j) ++ [j]
  | _ => List.range n

def runSegs (pol : NamespacePolicy) (fuel : Nat) (m : MState) : List (Tid × Nat) → MState
  | [] => m
  | (t, k) :: rest => runSegs pol fuel (runUntilVisible pol t fuel k m) rest

/-- a segmented schedule: run `t` for `k` visible steps, …; afterwards every thread runs to its end -/
def runSegments (pol : NamespacePolicy) (fuel : Nat) (n : Nat) (m : MState) (segs : List (Tid × Nat)) : MState :=
  (finishOrder n segs).foldl (fun m t => runToEnd pol t fuel m) (runSegs pol fuel m segs)

/-! ## hold schedules (driver query `H`; py/verif/props/c16_worker.py)

Every thread is started in turn and runs until it is about to call its host function `gate` (where the real thread
blocks) or is finished; then the held threads are released in the order `release`, each running to its end before the
next one is released; finally whatever is left runs to its end. -/

/-- run thread `t` until it is about to call the host function `gate` (or is finished) -/
def runToGate (pol : NamespacePolicy) (t : Tid) : Nat → MState → MState
  | 0, m => m
  | f + 1, m =>
    let ts := m.threads t
    if ts.out.isSome then m else
    match ts.ctl with
    | .hostCall g _ => if g = "gate" then m else runToGate pol t f (stepThread pol t m)
    | _ => runToGate pol t f (stepThread pol t m)

def runHold (pol : NamespacePolicy) (fuel : Nat) (n : Nat) (m : MState) (release : List Tid) : MState :=
  (release ++ List.range n).foldl (fun m t => runToEnd pol t fuel m)
    ((List.range n).foldl (fun m t => runToGate pol t fuel m) m)

end Cel.Runtime
