/-
  Cel.Model.Value — the values cel-python hands back, their Python classes, and the
  six relations `== != < <= > >=` as the code composes them.

  Mirrors
    * celtypes.py: `type_matched`, the comparison dunders (or their absence) in the class bodies of
      IntType, UintType, DoubleType, BoolType, StringType, BytesType, ListType, MapType,
      TimestampType, DurationType; `ListType.__eq__/__ne__`, `MapType.__eq__/__ne__`
      (length / key-set test, then `reduce(logical_and | logical_or, …)` over element comparisons whose
      TypeError is captured as a value, then `raise` if the fold ended in a TypeError, `bool()` otherwise);
    * CPython's binary-operator dispatch for rich comparisons (`NotImplemented` → reflected method of the
      right operand → identity for `==`/`!=`, TypeError for the orderings);
    * evaluation.py: `boolean()` (error operands pass through, result re-wrapped as BoolType),
      `bool_lt … bool_ne`, the `relation` rule of both runners (TypeError → evaluation error).

  Which class defines which comparison dunder, and how, is a *parameter* (`CmpTable`) of the model; the
  table used by the theorems (`cmpTable`) is compared with the one regenerated from the class bodies on
  every run (`Cel.Gen.Compare`, `Cel.Bridge.Compare`).

  Payloads: int/uint are `Int`; a double is `Dbl` — NaN, or an *order key* (the sign-magnitude reading of
  the IEEE bit pattern, which is strictly monotone on non-NaN doubles and sends -0.0 and +0.0 to 0) plus
  a flag telling -0.0 from +0.0; strings are lists of code points; bytes lists of octets; a timestamp is
  the instant in µs plus the UTC offset (minutes) it was written with; a duration is µs; maps are
  association lists in insertion order.  Core Lean only.
-/
import Cel.Model.Logic
namespace Cel

/-- Python classes of the values the implementation can return. The first twelve are the library's
classes for the CEL types (`null` = `NoneType`, `type` = the class of the library's type objects as
`TypeType(x)` reports it); the `py…` ones are native classes a result can *degrade* to when a wrapper
class inherits an operator from its native base. -/
inductive Cls where
  | int | uint | dbl | bool | str | bytes | list | map | null | ts | dur | type
  | pyfloat | pystr | pybytes | pylist | pytimedelta | pybool | pyint | pydatetime
  deriving DecidableEq, Repr, Inhabited

inductive Dbl where
  | nan
  | num (key : Int) (negZero : Bool)
  deriving DecidableEq, Repr, Inhabited

/-- CEL map keys: int, uint, bool, string. -/
inductive Key where
  | int (i : Int) | uint (n : Int) | bool (b : Bool) | str (s : List Nat)
  deriving DecidableEq, Repr, Inhabited

inductive Val where
  | int (i : Int) | uint (n : Int) | dbl (d : Dbl) | bool (b : Bool)
  | str (s : List Nat) | bytes (b : List Nat)
  | list (xs : List Val) | map (kvs : List (Key × Val)) | null
  | ts (us : Int) (off : Int) | dur (us : Int) | type (c : Cls)
  -- degraded natives (results of operators a wrapper class inherits from its native base)
  | nfloat (d : Dbl) | nstr (s : List Nat) | nbytes (b : List Nat) | nlist (xs : List Val)
  | ntimedelta (us : Int) | nbool (b : Bool) | nint (i : Int) | ndatetime (us : Int) (off : Int)
  deriving Repr, Inhabited

/-- `type(v)` in Python (identity of the class object). -/
def clsOf : Val → Cls
  | .int _ => .int | .uint _ => .uint | .dbl _ => .dbl | .bool _ => .bool
  | .str _ => .str | .bytes _ => .bytes | .list _ => .list | .map _ => .map | .null => .null
  | .ts _ _ => .ts | .dur _ => .dur | .type _ => .type
  | .nfloat _ => .pyfloat | .nstr _ => .pystr | .nbytes _ => .pybytes | .nlist _ => .pylist
  | .ntimedelta _ => .pytimedelta | .nbool _ => .pybool | .nint _ => .pyint | .ndatetime _ _ => .pydatetime

def Cls.isWrapper : Cls → Bool
  | .int | .uint | .dbl | .bool | .str | .bytes | .list | .map | .null | .ts | .dur | .type => true
  | _ => false

def Key.toVal : Key → Val
  | .int i => .int i | .uint n => .uint n | .bool b => .bool b | .str s => .str s
def Key.cls : Key → Cls
  | .int _ => .int | .uint _ => .uint | .bool _ => .bool | .str _ => .str

/-! ### relations on payloads -/

inductive RelOp where
  | eq | ne | lt | le | gt | ge
  deriving DecidableEq, Repr, Inhabited

/-- the operator Python tries on the right operand when the left one answers `NotImplemented` -/
def RelOp.swap : RelOp → RelOp
  | .eq => .eq | .ne => .ne | .lt => .gt | .le => .ge | .gt => .lt | .ge => .le

/-- Python's rich comparison on a totally ordered payload, given the three-way comparison. -/
def RelOp.holds : RelOp → Ordering → Bool
  | .eq, .eq => true | .eq, _ => false
  | .ne, .eq => false | .ne, _ => true
  | .lt, .lt => true | .lt, _ => false
  | .le, .gt => false | .le, _ => true
  | .gt, .gt => true | .gt, _ => false
  | .ge, .lt => false | .ge, _ => true

def cmpInt (a b : Int) : Ordering := if a < b then .lt else if b < a then .gt else .eq
def cmpNat (a b : Nat) : Ordering := if a < b then .lt else if b < a then .gt else .eq
def cmpBool : Bool → Bool → Ordering
  | false, true => .lt | true, false => .gt | _, _ => .eq

/-- lexicographic comparison of code-point / octet sequences (`str`/`bytes` rich comparison) -/
def cmpSeq : List Nat → List Nat → Ordering
  | [], [] => .eq
  | [], _ :: _ => .lt
  | _ :: _, [] => .gt
  | a :: as, b :: bs => if a < b then .lt else if b < a then .gt else cmpSeq as bs

/-- IEEE comparison: unordered (`none`) when a NaN is involved, else by order key. -/
def Dbl.cmp : Dbl → Dbl → Option Ordering
  | .num a _, .num b _ => some (cmpInt a b)
  | _, _ => none

/-- a comparison involving NaN is false, except `!=` which is true -/
def RelOp.holdsO (op : RelOp) : Option Ordering → Bool
  | some o => op.holds o
  | none => op == .ne

/-! ### the comparison dunders of the wrapper classes -/

/-- What a wrapper class body says about one comparison dunder. -/
inductive CmpImpl where
  /-- not defined in the class body: the native base class's method is used -/
  | inherit
  /-- `@type_matched def __op__(self, other): return super().__sup__(other)` -/
  | matched (sup : RelOp)
  /-- `def __op__(self, other): return super().__sup__(other)` -/
  | plain (sup : RelOp)
  /-- `def __op__(self, other): raise TypeError(...)` -/
  | raisesTE
  /-- the element-wise reductions of ListType / MapType (`ContSpec`) -/
  | custom
  deriving DecidableEq, Repr, Inhabited

abbrev CmpTable := Cls → RelOp → CmpImpl

/-- The table the theorems are about (celtypes.py at the time of writing). -/
def cmpTable : CmpTable
  | .int, op => .matched op
  | .uint, .eq => .matched .eq | .uint, .ne => .matched .ne
  | .dbl, .eq => .matched .eq | .dbl, .ne => .matched .ne
  | .str, .eq => .plain .eq | .str, .ne => .plain .ne
  | .list, .eq => .custom | .list, .ne => .custom | .list, _ => .raisesTE
  | .map, .eq => .custom | .map, .ne => .custom
  | _, _ => .inherit

/-- the native base class of every wrapper class, as the `class` statements spell it; the native comparison
semantics of `nativeRel` (and the native result classes in C13) are those of these bases -/
def nativeBases : List (String × String) :=
  [("int", "int"), ("uint", "int"), ("dbl", "float"), ("bool", "int"), ("str", "str"), ("bytes", "bytes"),
   ("list", "List[Value]"), ("map", "Dict[Value, Value]"), ("ts", "datetime.datetime"), ("dur", "datetime.timedelta"),
   ("type", "type")]

/-- `type_matched`: the two `issubclass` tests between the operand classes. Among the library's classes
none is a subclass of another; a wrapper is a subclass of its native base. -/
def Cls.subclassOf : Cls → Cls → Bool
  | a, b => a == b ||
    match a, b with
    | .int, .pyint | .uint, .pyint | .bool, .pyint | .pybool, .pyint => true
    | .dbl, .pyfloat | .str, .pystr | .bytes, .pybytes | .list, .pylist | .dur, .pytimedelta | .ts, .pydatetime => true
    | _, _ => false

/-- structure of the `type_matched` decorator as read from the source -/
structure TypeMatchedSpec where
  /-- `issubclass(type(other), type(self))` is accepted -/
  otherSubSelf : Bool
  /-- `issubclass(type(self), type(other))` is accepted -/
  selfSubOther : Bool
  /-- a mismatch raises TypeError -/
  raisesTypeError : Bool
  deriving DecidableEq, Repr

def typeMatchedSpec : TypeMatchedSpec := ⟨true, true, true⟩

def typeMatched (s : TypeMatchedSpec) (self other : Cls) : Bool :=
  (s.otherSubSelf && other.subclassOf self) || (s.selfSubOther && self.subclassOf other)

/-- outcome of one dunder call: a truth value, `NotImplemented`, or a raised exception -/
abbrev Dunder := PyM (Option Bool)

/-- The native base class's rich comparison `base.__op__(self, other)` on scalar payloads.
`none` = `NotImplemented`. Comparisons the model does not cover (an int-like against a float: exact
int/float comparison; degraded natives) are `.error .other`. -/
def nativeRel (op : RelOp) : Val → Val → Dunder
  | .int a, .int b | .int a, .uint b | .uint a, .int b | .uint a, .uint b => .ok (some (op.holds (cmpInt a b)))
  | .int a, .bool b | .uint a, .bool b => .ok (some (op.holds (cmpInt a (if b then 1 else 0))))
  | .bool a, .int b | .bool a, .uint b => .ok (some (op.holds (cmpInt (if a then 1 else 0) b)))
  | .bool a, .bool b => .ok (some (op.holds (cmpBool a b)))
  | .int _, .dbl _ | .uint _, .dbl _ | .bool _, .dbl _ => .error .other
  | .dbl _, .int _ | .dbl _, .uint _ | .dbl _, .bool _ => .error .other
  | .dbl a, .dbl b => .ok (some (op.holdsO (a.cmp b)))
  | .str a, .str b => .ok (some (op.holds (cmpSeq a b)))
  | .bytes a, .bytes b => .ok (some (op.holds (cmpSeq a b)))
  | .ts a _, .ts b _ => .ok (some (op.holds (cmpInt a b)))      -- aware datetimes compare by instant
  | .dur a, .dur b => .ok (some (op.holds (cmpInt a b)))
  | .null, .null => .ok (match op with | .eq => some true | .ne => some false | _ => none)
  | .type a, .type b => .ok (match op with | .eq => some (a == b) | .ne => some (a != b) | _ => none)
  | .nfloat _, _ | .nstr _, _ | .nbytes _, _ | .nlist _, _ | .ntimedelta _, _ | .nbool _, _ | .nint _, _ | .ndatetime _ _, _ => .error .other
  | _, .nfloat _ | _, .nstr _ | _, .nbytes _ | _, .nlist _ | _, .ntimedelta _ | _, .nbool _ | _, .nint _ | _, .ndatetime _ _ => .error .other
  | _, _ => .ok none

/-- A scalar class's dunder as the table describes it. -/
def scalarDunder (T : CmpTable) (tm : TypeMatchedSpec) (op : RelOp) (self other : Val) : Dunder :=
  match T (clsOf self) op with
  | .inherit => nativeRel op self other
  | .plain sup => nativeRel sup self other
  | .matched sup =>
      if typeMatched tm (clsOf self) (clsOf other) then nativeRel sup self other
      else if tm.raisesTypeError then .error .typeError else nativeRel sup self other
  | .raisesTE => .error .typeError
  | .custom => .error .other

/-- structure of `ListType.__eq__/__ne__` and `MapType.__eq__/__ne__` as read from the source -/
structure ContSpec where
  /-- `if other is None: return False` present -/
  noneIsFalse : Bool
  /-- `if not isinstance(other, …): raise TypeError` present -/
  foreignRaises : Bool
  /-- size / key-set test: `==` (true) or `!=` (false) -/
  sizeTestEq : Bool
  /-- connective between the size test and the reduction: `and` (true) or `or` (false) -/
  connAnd : Bool
  /-- reducer: `logical_and` (true) or `logical_or` (false) -/
  reducerAnd : Bool
  /-- initial value of the reduction -/
  init : Bool
  /-- operator of the element comparison: `==` (true) or `!=` (false) -/
  elemEq : Bool
  /-- the element comparison captures TypeError as a value -/
  capturesTE : Bool
  /-- a TypeError left by the reduction is raised -/
  reraises : Bool
  /-- (MapType.__ne__) singleton special case present -/
  singleton : Bool
  deriving DecidableEq, Repr

def listEqSpec : ContSpec := ⟨true, true, true, true, true, true, true, true, true, false⟩
def listNeSpec : ContSpec := ⟨false, true, false, false, false, false, false, true, true, false⟩
def mapEqSpec : ContSpec := ⟨true, true, true, true, true, true, true, true, true, false⟩
def mapNeSpec : ContSpec := ⟨false, true, false, false, false, false, false, true, true, true⟩

structure CmpSpecs where
  table : CmpTable
  tm : TypeMatchedSpec
  listEq : ContSpec
  listNe : ContSpec
  mapEq : ContSpec
  mapNe : ContSpec

def cmpSpecs : CmpSpecs := ⟨cmpTable, typeMatchedSpec, listEqSpec, listNeSpec, mapEqSpec, mapNeSpec⟩

/-- `equal(s, o)` / `not_equal(s, o)`: `BoolType(s op o)`, a TypeError becomes the value (`O.e`). -/
def captured (capt : Bool) (r : PyM Bool) : PyM O :=
  match r with
  | .ok b => .ok (O.ofBool b)
  | .error .typeError => if capt then .ok .e else .error .typeError
  | .error c => .error c

def reducer (isAnd : Bool) (x y : O) : PyM O := if isAnd then land x y else lor x y

/-- the tail of the container dunders: `if isinstance(result_value, TypeError): raise …; return bool(result_value)`.
(`bool()` of a TypeError object that is not re-raised is `True`.) -/
def finish (s : ContSpec) (r : O) : PyM Bool :=
  match r with
  | .t => .ok true | .f => .ok false
  | .e => if s.reraises then .error .typeError else .ok true
  | .vt => .ok true | .vf => .ok false

/-- does a stored key `stored` answer a lookup for `k`?  (`dict` compares `stored == k` when the hashes
agree: equal ints of different classes collide.) -/
def Key.hit (stored k : Key) : PyM Bool :=
  match stored, k with
  | .int a, .int b => .ok (decide (a = b))
  | .uint a, .uint b => .ok (decide (a = b))
  | .bool a, .bool b => .ok (decide (a = b))
  | .str a, .str b => .ok (decide (a = b))
  | .int a, .uint b | .uint a, .int b => if a = b then .error .typeError else .ok false
  | .int a, .bool b | .uint a, .bool b => if a = (if b then 1 else 0) then .error .typeError else .ok false
  | .bool a, .int b | .bool a, .uint b => .ok ((if a then 1 else 0) == b)
  | _, _ => .ok false

/-- `other[k]` / `k in other` on an association list -/
def lookup (k : Key) : List (Key × Val) → PyM (Option Val)
  | [] => .ok none
  | (k', v) :: rest => do
      if (← Key.hit k' k) then .ok (some v) else lookup k rest

/-- `all(k in other for k in self)`: stops at the first key that is missing -/
def allIn (m2 : List (Key × Val)) : List (Key × Val) → PyM Bool
  | [] => .ok true
  | (k, _) :: rest => do
      match (← lookup k m2) with
      | some _ => allIn m2 rest
      | none => .ok false

/-- `keys_s == keys_o` (dict key views): equal sizes and every key of `self` found in `other` -/
def keysEq (m1 m2 : List (Key × Val)) : PyM Bool :=
  if m1.length != m2.length then .ok false else allIn m2 m1

/-- `ListType.__op__(self, other)` / `MapType.__op__(self, other)` when `other` is not of the same
container class (no element is compared). -/
def contForeign (T : CmpTable) (eqS neS : ContSpec) (c : Cls) (op : RelOp) (other : Val) : Dunder :=
  match T c op with
  | .custom =>
      let s := if op == .eq then eqS else neS
      if op != .eq && op != .ne then .error .other
      else if s.noneIsFalse && clsOf other == .null then .ok (some false)
      else if s.foreignRaises then .error .typeError
      else .error .other
  | .raisesTE => .error .typeError
  | .inherit => match op with
      | .eq | .ne => .error .other
      | _ => .ok none                      -- list/dict ordering against a foreign class: NotImplemented
  | _ => .error .other

/-- one dunder call `self.__op__(other)` where no element-wise recursion is involved -/
def flatDunder (S : CmpSpecs) (op : RelOp) (self other : Val) : Dunder :=
  if !(clsOf self).isWrapper || !(clsOf other).isWrapper then .error .other
  else match clsOf self with
    | .list => contForeign S.table S.listEq S.listNe .list op other
    | .map => contForeign S.table S.mapEq S.mapNe .map op other
    | _ => scalarDunder S.table S.tm op self other

/-- Python's dispatch for `a op b` when the operands are not two lists / two maps: left dunder, reflected
right dunder, default (`is` for `==`, `is not` for `!=`, TypeError for orderings). Among the library's
classes no operand class is a proper subclass of the other, so the left operand goes first. -/
def pyRelFlat (S : CmpSpecs) (op : RelOp) (a b : Val) : PyM Bool := do
  match (← flatDunder S op a b) with
  | some r => .ok r
  | none =>
    match (← flatDunder S op.swap b a) with
    | some r => .ok r
    | none => match op with
      | .eq => .ok false
      | .ne => .ok true
      | _ => .error .typeError

/-- the non-recursive frame of a container dunder: size / key-set test, connective, then the (already
computed) reduction and the tail. `A and R` evaluates R only when A is true; `A or R` only when A is false. -/
def contFrame (s : ContSpec) (sizesEqual : Bool) (fold : PyM O) : PyM Bool := do
  let sizeTest := if s.sizeTestEq then sizesEqual else !sizesEqual
  if s.connAnd && !sizeTest then .ok false
  else if !s.connAnd && sizeTest then .ok true
  else do
    let r ← fold
    finish s r

/-- which body a container comparison runs, per the table -/
def contRel (T : CmpTable) (c : Cls) (op : RelOp) (eqBody neBody : PyM Bool) : PyM Bool :=
  match T c op with
  | .custom => match op with
      | .eq => eqBody
      | .ne => neBody
      | _ => .error .other
  | .raisesTE => .error .typeError
  | .inherit => match op with
      | .eq | .ne => .error .other       -- native list/dict equality: not modelled
      | _ => if c == .map then .error .typeError else .error .other   -- dict has no ordering
  | _ => .error .other

mutual
/-- `a op b` evaluated by Python. Two lists / two maps run the element-wise reductions of
`ListType` / `MapType`; everything else is `pyRelFlat`. -/
def pyRel (S : CmpSpecs) (op : RelOp) (a b : Val) : PyM Bool :=
  match a, b with
  | .list xs, .list ys =>
      let same := xs.length == ys.length
      contRel S.table .list op
        (contFrame S.listEq same (listFold S S.listEq (O.ofBool S.listEq.init) xs ys))
        (contFrame S.listNe same (listFold S S.listNe (O.ofBool S.listNe.init) xs ys))
  | .map m1, .map m2 =>
      contRel S.table .map op
        (do let ke ← keysEq m1 m2
            contFrame S.mapEq ke (mapFold S S.mapEq (O.ofBool S.mapEq.init) m1 m2))
        (do if S.mapNe.singleton && m1.length == 1 && m2.length == 1 && (← keysEq m1 m2) then
              mapSingle S S.mapNe m1 m2
            else do
              let ke ← keysEq m1 m2
              contFrame S.mapNe ke (mapFold S S.mapNe (O.ofBool S.mapNe.init) m1 m2))
  | a, b => pyRelFlat S op a b
termination_by structural a
/-- `reduce(logical_and|logical_or, (equal(s, o) for s, o in zip(self, other)), init)` -/
def listFold (S : CmpSpecs) (s : ContSpec) (acc : O) (xs ys : List Val) : PyM O :=
  match xs, ys with
  | x :: xs, y :: ys => do
      let el ← captured s.capturesTE (pyRel S (if s.elemEq then .eq else .ne) x y)
      let acc' ← reducer s.reducerAnd acc el
      listFold S s acc' xs ys
  | _, _ => .ok acc
termination_by structural xs
/-- `reduce(…, (equal(self[k], other[k]) for k in keys_s), init)`; `m1` is `self` -/
def mapFold (S : CmpSpecs) (s : ContSpec) (acc : O) (m1 m2 : List (Key × Val)) : PyM O :=
  match m1 with
  | (k, v) :: rest => do
      let el ← match (← lookup k m2) with
        | some w => captured s.capturesTE (pyRel S (if s.elemEq then .eq else .ne) v w)
        | none => .error .keyError
      let acc' ← reducer s.reducerAnd acc el
      mapFold S s acc' rest m2
  | [] => .ok acc
termination_by structural m1
/-- `MapType.__ne__` singleton special case: `return self[k] != other[k]` -/
def mapSingle (S : CmpSpecs) (s : ContSpec) (m1 m2 : List (Key × Val)) : PyM Bool :=
  match m1 with
  | (k, v) :: _ => do
      match (← lookup k m2) with
      | some w => pyRel S (if s.elemEq then .eq else .ne) v w
      | none => .error .keyError
  | [] => .error .other
termination_by structural m1
end

/-! ### the relations as the theorems name them -/

def veq (a b : Val) : PyM Bool := pyRel cmpSpecs .eq a b
def vne (a b : Val) : PyM Bool := pyRel cmpSpecs .ne a b
def vlt (a b : Val) : PyM Bool := pyRel cmpSpecs .lt a b
def vle (a b : Val) : PyM Bool := pyRel cmpSpecs .le a b
def vgt (a b : Val) : PyM Bool := pyRel cmpSpecs .gt a b
def vge (a b : Val) : PyM Bool := pyRel cmpSpecs .ge a b

/-! ### runner level: `boolean()`, `bool_lt … bool_ne`, the `relation` rule -/

/-- structure of `evaluation.boolean()` as read from the source -/
structure BooleanSpec where
  /-- an operand that is a CELEvalError is returned unchanged -/
  errorsPassThrough : Bool
  /-- the result is `BoolType(bool(result))` -/
  rewraps : Bool
  deriving DecidableEq, Repr
def booleanSpec : BooleanSpec := ⟨true, true⟩

/-- which `operator.*` function each CEL relation reaches through `Evaluator.relation`'s /
`Phase1Transpiler.relation`'s op-name table, `base_functions` and `bool_*`. -/
abbrev RelRoute := RelOp → RelOp
def relRoute : RelRoute := fun op => op

/-- what the caller of `Runner.evaluate` observes for `a op b` -/
inductive RelOut where
  | val (b : Bool) (c : Cls)     -- the truth value and the Python class carrying it
  | err                          -- CELEvalError
  | escapes (c : Exc)            -- another exception escapes `evaluate`
  deriving DecidableEq, Repr

/-- classes the interpreter's `relation` rule converts to an error value -/
def handlersRelation : List Exc := [.typeError]

def relOut (caught : List Exc) (bs : BooleanSpec) (r : PyM Bool) : RelOut :=
  match r with
  | .ok b => .val b (if bs.rewraps then .bool else .pybool)
  | .error c => if c ∈ caught then .err else .escapes c

/-- interpreter: `func(left, right)` under `except TypeError` -/
def relI (S : CmpSpecs) (route : RelRoute) (bs : BooleanSpec) (caught : List Exc) (op : RelOp) (a b : Val) : RelOut :=
  relOut caught bs (pyRel S (route op) a b)
/-- compiled: `bool_xx(left, right)` inside `result()`; TypeError is among the classes `result()` converts
(`Cel.Bridge.Compare.result_catches_TypeError`), and anything `result()` does not catch is turned into
CELEvalError("evaluation error") by `Transpiler.evaluate`'s blanket handler, so the caller sees an error too. -/
def relC (S : CmpSpecs) (route : RelRoute) (bs : BooleanSpec) (op : RelOp) (a b : Val) : RelOut :=
  match pyRel S (route op) a b with
  | .ok r => .val r (if bs.rewraps then .bool else .pybool)
  | .error _ => .err

/-! ### well-formedness, plainness, same-typedness (decidable, used as theorem hypotheses) -/

def Key.sameCls : Key → Key → Bool
  | .int _, .int _ | .uint _, .uint _ | .bool _, .bool _ | .str _, .str _ => true
  | _, _ => false

/-- all keys of an association list are of one key class, and that class is `c` when given -/
def keysOfCls (c : Key) : List (Key × Val) → Bool
  | [] => true
  | (k, _) :: rest => k.sameCls c && keysOfCls c rest

def keysNodup : List (Key × Val) → Bool
  | [] => true
  | (k, _) :: rest => !(rest.any (fun kv => kv.1 == k)) && keysNodup rest

mutual
/-- a value as the evaluator can build it: map keys pairwise distinct and of one key class; only wrapper classes -/
def Val.wf : Val → Bool
  | .list xs => wfList xs
  | .map kvs => (match kvs with | [] => true | (k, _) :: _ => keysOfCls k kvs) && keysNodup kvs && wfMap kvs
  | .nfloat _ | .nstr _ | .nbytes _ | .nlist _ | .ntimedelta _ | .nbool _ | .nint _ | .ndatetime _ _ => false
  | _ => true
def wfList : List Val → Bool
  | [] => true
  | x :: xs => x.wf && wfList xs
def wfMap : List (Key × Val) → Bool
  | [] => true
  | (_, v) :: rest => v.wf && wfMap rest
end

mutual
/-- no NaN anywhere inside -/
def Val.plain : Val → Bool
  | .dbl .nan => false
  | .list xs => plainList xs
  | .map kvs => plainMap kvs
  | _ => true
def plainList : List Val → Bool
  | [] => true
  | x :: xs => x.plain && plainList xs
def plainMap : List (Key × Val) → Bool
  | [] => true
  | (_, v) :: rest => v.plain && plainMap rest
end

/-- assoc-list lookup by syntactic key equality (used only in hypotheses) -/
def find? (k : Key) : List (Key × Val) → Option Val
  | [] => none
  | (k', v) :: rest => if k' = k then some v else find? k rest

mutual
/-- same CEL type, deeply: same class; list elements pairwise (as far as both lists go);
maps: keys of one key class across both maps, values under common keys. -/
def sameType : Val → Val → Bool
  | .int _, .int _ | .uint _, .uint _ | .dbl _, .dbl _ | .bool _, .bool _ => true
  | .str _, .str _ | .bytes _, .bytes _ | .null, .null | .ts _ _, .ts _ _ | .dur _, .dur _ | .type _, .type _ => true
  | .list xs, .list ys => sameTypeList xs ys
  | .map m1, .map m2 =>
      (match m1, m2 with
        | (k, _) :: _, _ => keysOfCls k m1 && keysOfCls k m2
        | [], (k, _) :: _ => keysOfCls k m2
        | [], [] => true) && sameTypeMap m1 m2
  | _, _ => false
def sameTypeList : List Val → List Val → Bool
  | x :: xs, y :: ys => sameType x y && sameTypeList xs ys
  | _, _ => true
def sameTypeMap : List (Key × Val) → List (Key × Val) → Bool
  | (k, v) :: rest, m2 => (match find? k m2 with | some w => sameType v w | none => true) && sameTypeMap rest m2
  | [], _ => true
end

/-! ### the specification the theorems compare the model with -/

/-- the ordered CEL scalars: int, uint, double without NaN, bool, string, bytes, timestamp, duration -/
def Val.ordered : Val → Bool
  | .int _ | .uint _ | .bool _ | .str _ | .bytes _ | .ts _ _ | .dur _ => true
  | .dbl (.num _ _) => true
  | _ => false

/-- two ordered scalars of the same CEL type -/
def sameOrdered : Val → Val → Bool
  | .int _, .int _ | .uint _, .uint _ | .bool _, .bool _ | .str _, .str _ | .bytes _, .bytes _ => true
  | .ts _ _, .ts _ _ | .dur _, .dur _ => true
  | .dbl (.num _ _), .dbl (.num _ _) => true
  | _, _ => false

/-- the mathematical order of each ordered type: integers, IEEE order (via the order key), false < true,
code points / octets lexicographically, instants (the written offset plays no role), microseconds -/
def ocmp : Val → Val → Ordering
  | .int a, .int b => cmpInt a b
  | .uint a, .uint b => cmpInt a b
  | .bool a, .bool b => cmpBool a b
  | .str a, .str b => cmpSeq a b
  | .bytes a, .bytes b => cmpSeq a b
  | .ts a _, .ts b _ => cmpInt a b
  | .dur a, .dur b => cmpInt a b
  | .dbl (.num a _), .dbl (.num b _) => cmpInt a b
  | _, _ => .eq

mutual
/-- point-wise equality: scalars by value (doubles by IEEE `==`, timestamps by instant), lists position-wise
with equal lengths, maps with equal sizes, every key of the left found in the right with an equal value -/
def eqSpec : Val → Val → Bool
  | .int a, .int b => decide (a = b)
  | .uint a, .uint b => decide (a = b)
  | .dbl (.num a _), .dbl (.num b _) => decide (a = b)
  | .bool a, .bool b => decide (a = b)
  | .str a, .str b => decide (a = b)
  | .bytes a, .bytes b => decide (a = b)
  | .null, .null => true
  | .ts a _, .ts b _ => decide (a = b)
  | .dur a, .dur b => decide (a = b)
  | .type a, .type b => decide (a = b)
  | .list xs, .list ys => xs.length == ys.length && eqSpecList xs ys
  | .map m1, .map m2 => m1.length == m2.length && eqSpecMap m1 m2
  | _, _ => false
def eqSpecList : List Val → List Val → Bool
  | x :: xs, y :: ys => eqSpec x y && eqSpecList xs ys
  | _, _ => true
def eqSpecMap : List (Key × Val) → List (Key × Val) → Bool
  | (k, v) :: rest, m2 => (match find? k m2 with | some w => eqSpec v w | none => false) && eqSpecMap rest m2
  | [], _ => true
end

end Cel
