/-
  Cel.Model.NamesPy — a small-step-free (big-step, fuel-bounded) interpreter for the Python subset in which
  the name-resolution methods of evaluation.py are written (property C12).

  `py/verif/translate/gen_c12.py` serialises the *abstract syntax* of
      Referent.__init__ / value (getter, setter), NameContainer.find_name / dict_find_name / resolve_name / get,
      Activation.resolve_variable / __getattr__
  into `Cel.Gen.NamesPy.prog` on every run (a 1:1 dump of the Python AST — no shape matching, no rewriting).
  `Cel.Bridge.Names` runs that program with this interpreter on an exhaustive small scope of containers,
  packages and names and proves (kernel evaluation) that it computes what the hand-written model
  `Cel.Model.Names` computes.  A behaviour-preserving rewrite of those methods (early returns, conditional
  expressions, hoisted locals, merged `except` clauses, a local `def` for a `lambda`, renamed locals, …)
  yields a different AST with the same meaning, so the bridge still holds; a behaviour-changing one does not.

  Anything the interpreter does not understand is `Exc.stuck` — never caught by a Python `except` — so the
  bridge fails (and the check searches for a failing input) rather than guessing.

  Value semantics: objects are values (no heap).  The translator only admits mutation (`x.append(v)`,
  `x.attr = v`) on a local that holds a freshly built object which is not aliased (checked in Python),
  where value and reference semantics agree.  Core Lean only.
-/
import Cel.Model.Names
namespace Cel.NamesPy
open Cel.Names

inductive Expr where
  | name (x : String)
  | glob (x : String)                      -- a module-level name (class, function, module)
  | cnone
  | cbool (b : Bool)
  | cint (n : Int)
  | cstr (s : String)
  | omitted                                -- an absent slice bound
  | attr (e : Expr) (a : String)
  | index (e i : Expr)
  | slice (e lo hi : Expr)
  | call (f : Expr) (args : List Expr) (kw : List (String × Expr))
  | meth (recv : Expr) (m : String) (args : List Expr) (kw : List (String × Expr))
  | list (es : List Expr)
  | tuple (es : List Expr)
  | not (e : Expr)
  | and (a b : Expr)
  | or (a b : Expr)
  | cmp (op : String) (a b : Expr)
  | bin (op : String) (a b : Expr)
  | ite (c a b : Expr)
  | lam (params : List String) (body : Expr)
  | comp (elt : Expr) (var : String) (iter : Expr) (conds : List Expr)
  deriving Repr, Inhabited

inductive Tgt where
  | name (x : String)
  | attr (x : String) (a : String)
  | unpack (pre : List String) (star : String) (post : List String)     -- star = "" : no starred name
  deriving Repr, Inhabited

inductive Stmt where
  | assign (t : Tgt) (e : Expr)
  | expr (e : Expr)
  | append (x : String) (e : Expr)         -- x.append(e) on a fresh local list
  | ifs (c : Expr) (a b : List Stmt)
  | for_ (t : Tgt) (it : Expr) (body : List Stmt)
  | while_ (c : Expr) (body : List Stmt)
  | try_ (body : List Stmt) (handlers : List (List String × String × List Stmt))
  | raise_ (e : Expr)
  | ret (e : Expr)
  | pass
  | cont
  | brk
  | def_ (f : String) (params : List String) (body : List Stmt)
  deriving Repr, Inhabited

/-- Python values -/
inductive PV where
  | none
  | bool (b : Bool)
  | int (n : Int)
  | str (s : String)
  | list (xs : List PV)
  | tuple (xs : List PV)
  | obj (cls : String) (fields : List (String × PV))
  | nc (entries : List (String × PV)) (parent : PV)      -- a NameContainer: dict of Referents + `.parent`
  | cel (v : Val)                                        -- a CEL value bound to a name
  | ann (a : Nat)                                        -- a declared type
  | cls (q : String)
  | lam (params : List String) (body : Expr)
  | fn (params : List String) (body : List Stmt)
  deriving Inhabited

inductive Exc where
  | py (cls : String)
  | stuck (why : String)
  deriving Repr, Inhabited

abbrev M := Except Exc
abbrev Env := List (String × PV)

/-- a function of the program: class, name, kind ("method" | "static" | "getter" | "setter"), parameters,
constant default values, body.  Class names are bare (`celpy.celtypes.MapType` is `MapType`). -/
structure Fn where
  cls : String
  name : String
  kind : String
  params : List String
  defaults : List (String × Expr)
  body : List Stmt
  deriving Inhabited

abbrev Prog := List Fn

inductive Sig where
  | norm
  | ret (v : PV)
  | brk
  | cont
  deriving Inhabited

def stuck {α : Type} (why : String) : M α := .error (.stuck why)
def raisePy {α : Type} (cls : String) : M α := .error (.py cls)

def envGet (env : Env) (x : String) : M PV :=
  match lookup x env with
  | some v => .ok v
  | none => stuck ("unbound local " ++ x)

def envSet (env : Env) (x : String) (v : PV) : Env :=
  match env with
  | [] => [(x, v)]
  | (k, w) :: rest => if k = x then (k, v) :: rest else (k, w) :: envSet rest x v

def lastComp (q : String) : String := q

def Prog.find (p : Prog) (cls name kind : String) : Option Fn :=
  List.find? (fun f => f.cls == cls && f.name == name && f.kind == kind) p

def Prog.findAny (p : Prog) (cls name : String) : Option Fn :=
  List.find? (fun f => f.cls == cls && f.name == name && (f.kind == "method" || f.kind == "static")) p

/-- `IDENT` components of a dotted name (`ident_pat.findall`) -/
def splitDots : List Char → List Char → List String
  | [], cur => if cur.isEmpty then [] else [String.ofList cur.reverse]
  | c :: cs, cur =>
      if c = '.' then (if cur.isEmpty then splitDots cs [] else String.ofList cur.reverse :: splitDots cs [])
      else splitDots cs (c :: cur)

/-- Python truthiness -/
def truthy : PV → Bool
  | .none => false
  | .bool b => b
  | .int n => n != 0
  | .str s => s != ""
  | .list xs => !xs.isEmpty
  | .tuple xs => !xs.isEmpty
  | .obj _ _ => true
  | .nc es _ => !es.isEmpty
  | .cel v => match v with
      | .null => false
      | .int n => n != 0
      | .map kvs => !kvs.isEmpty
      | .list xs => !xs.isEmpty
      | _ => true
  | _ => true

/-- the class names an object is an instance of (last components) -/
def classesOf : PV → List String
  | .none => ["NoneType"]
  | .bool _ => ["bool", "int"]
  | .int _ => ["int"]
  | .str _ => ["str"]
  | .list _ => ["list"]
  | .tuple _ => ["tuple"]
  | .obj c _ => [lastComp c]
  | .nc _ _ => ["NameContainer", "dict"]
  | .cel v => match v with
      | .map _ => ["MapType", "dict"]
      | .list _ => ["ListType", "list"]
      | .int _ => ["IntType", "int"]
      | .null => ["NoneType"]
      | _ => []
  | .ann _ => ["type"]
  | .cls _ => ["type"]
  | _ => []

def isInstance (v : PV) (c : PV) : M Bool :=
  match c with
  | .cls q => .ok ((classesOf v).contains (lastComp q))
  | .tuple cs => .ok (cs.any fun c => match c with
      | .cls q => (classesOf v).contains (lastComp q)
      | _ => false)
  | _ => stuck "isinstance: not a class"

/-- equality on the simple values where Python `==` is structural -/
def simpleEq : PV → PV → Option Bool
  | .none, .none => some true
  | .bool a, .bool b => some (a == b)
  | .int a, .int b => some (a == b)
  | .str a, .str b => some (a == b)
  | .none, .str _ => some false
  | .str _, .none => some false
  | .none, .int _ => some false
  | .int _, .none => some false
  | .list [], .list [] => some true
  | .list (_ :: _), .list [] => some false
  | .list [], .list (_ :: _) => some false
  | _, _ => none

def getField (fs : List (String × PV)) (a : String) : M PV :=
  match lookup a fs with
  | some v => .ok v
  | none => raisePy "AttributeError"

def normIndex (n : Int) (len : Nat) : Int := if n < 0 then n + len else n

def sliceList {α : Type} (xs : List α) (lo hi : PV) : M (List α) :=
  let len := xs.length
  let clamp (n : Int) : Nat := (max 0 (min (normIndex n len) len)).toNat
  match lo, hi with
  | .none, .none => .ok xs
  | .none, .int h => .ok (xs.take (clamp h))
  | .int l, .none => .ok (xs.drop (clamp l))
  | .int l, .int h => .ok ((xs.take (clamp h)).drop (clamp l))
  | _, _ => stuck "slice bounds"

def indexList (xs : List PV) (i : PV) : M PV :=
  match i with
  | .int n =>
      let k := normIndex n xs.length
      if k < 0 then raisePy "IndexError"
      else match xs[k.toNat]? with
        | some v => .ok v
        | none => raisePy "IndexError"
  | _ => stuck "list index"

/-- CEL `null` is Python `None` -/
def celPV : Val → PV
  | .null => .none
  | v => .cel v

def keyOf : PV → Option String
  | .str s => some s
  | _ => none

def getItem (c i : PV) : M PV :=
  match c with
  | .list xs => indexList xs i
  | .tuple xs => indexList xs i
  | .nc es _ => match keyOf i with
      | some k => match lookup k es with
          | some v => .ok v
          | none => raisePy "KeyError"
      | none => stuck "NameContainer key"
  | .cel (.map kvs) => match keyOf i with
      | some k => match lookup k kvs with
          | some v => .ok (celPV v)
          | none => raisePy "KeyError"
      | none => stuck "map key"
  | .cel _ => raisePy "TypeError"
  | .none => raisePy "TypeError"
  | _ => stuck "subscript"

def binOp (op : String) (a b : PV) : M PV :=
  match op, a, b with
  | "+", .list x, .list y => .ok (.list (x ++ y))
  | "+", .tuple x, .tuple y => .ok (.tuple (x ++ y))
  | "+", .str x, .str y => .ok (.str (x ++ y))
  | "+", .int x, .int y => .ok (.int (x + y))
  | "-", .int x, .int y => .ok (.int (x - y))
  | "+", .list _, _ => raisePy "TypeError"
  | "+", .str _, _ => raisePy "TypeError"
  | _, _, _ => stuck ("binary operator " ++ op)

def isNone : PV → Bool
  | .none => true
  | _ => false

def cmpOp (op : String) (a b : PV) : M Bool :=
  match op with
  | "is" => if isNone a || isNone b then .ok (isNone a && isNone b) else stuck "is"
  | "isnot" => if isNone a || isNone b then .ok (!(isNone a && isNone b)) else stuck "is not"
  | "==" => match simpleEq a b with | some r => .ok r | none => stuck "=="
  | "!=" => match simpleEq a b with | some r => .ok (!r) | none => stuck "!="
  | "<" => match a, b with | .int x, .int y => .ok (x < y) | _, _ => stuck "<"
  | "<=" => match a, b with | .int x, .int y => .ok (x ≤ y) | _, _ => stuck "<="
  | ">" => match a, b with | .int x, .int y => .ok (x > y) | _, _ => stuck ">"
  | ">=" => match a, b with | .int x, .int y => .ok (x ≥ y) | _, _ => stuck ">="
  | "in" => match a, b with
      | .str k, .nc es _ => .ok ((lookup k es).isSome)
      | .str k, .cel (.map kvs) => .ok ((lookup k kvs).isSome)
      | .str k, .list xs => .ok (xs.any fun x => match x with | .str s => s == k | _ => false)
      | _, _ => stuck "in"
  | "notin" => match a, b with
      | .str k, .nc es _ => .ok (!(lookup k es).isSome)
      | .str k, .cel (.map kvs) => .ok (!(lookup k kvs).isSome)
      | _, _ => stuck "not in"
  | _ => stuck ("comparison " ++ op)

/-- `self.parent_iter()`: this container, then its parents -/
def parentIter : Nat → PV → List PV
  | 0, _ => []
  | fuel+1, .nc es p => .nc es p :: parentIter fuel p
  | _, _ => []

/-- does the `except` clause with these class names catch an exception of class `cls`? -/
def catches (handler : List String) (cls : String) : Bool :=
  handler.any fun h =>
    let h := lastComp h
    let c := lastComp cls
    h == c || h == "Exception" || h == "BaseException" ||
      (h == "LookupError" && (c == "KeyError" || c == "IndexError"))

def bindTgt (env : Env) (t : Tgt) (v : PV) : M Env :=
  match t with
  | .name x => .ok (envSet env x v)
  | .attr _ _ => stuck "attribute target needs the interpreter"
  | .unpack pre star post =>
      let xs? : Option (List PV) := match v with
        | .list xs => some xs
        | .tuple xs => some xs
        | _ => none
      match xs? with
      | none => stuck "unpack: not a sequence"
      | some xs =>
          let np := pre.length
          let nq := post.length
          if star = "" then
            if xs.length != np + nq then raisePy "ValueError"
            else .ok ((pre ++ post).zip xs |>.foldl (fun e kv => envSet e kv.1 kv.2) env)
          else if xs.length < np + nq then raisePy "ValueError"
          else
            let mid := (xs.drop np).take (xs.length - np - nq)
            let env1 := (pre.zip (xs.take np)).foldl (fun e kv => envSet e kv.1 kv.2) env
            let env2 := envSet env1 star (.list mid)
            .ok ((post.zip (xs.drop (xs.length - nq))).foldl (fun e kv => envSet e kv.1 kv.2) env2)

def constOf : Expr → Option PV
  | .cnone => some .none
  | .cbool b => some (.bool b)
  | .cint n => some (.int n)
  | .cstr s => some (.str s)
  | _ => none

def bindParams (params : List String) (args : List PV) (kw : List (String × PV)) (defaults : List (String × Expr)) : M Env :=
  if args.length > params.length then raisePy "TypeError"
  else
    let env0 : Env := params.zip args
    let rest := params.drop args.length
    rest.foldlM (fun e p =>
      match lookup p kw with
      | some v => .ok (e ++ [(p, v)])
      | none => match (lookup p defaults).bind constOf with
          | some v => .ok (e ++ [(p, v)])
          | none => raisePy "TypeError") env0

def maxBy (keys : List (PV × Int)) : Option PV :=
  match keys with
  | [] => none
  | (v, k) :: rest =>
      some (rest.foldl (fun (acc : PV × Int) (x : PV × Int) => if x.2 > acc.2 then x else acc) (v, k)).1

def asList : PV → Option (List PV)
  | .list xs => some xs
  | .tuple xs => some xs
  | _ => none

mutual
def evalE : Nat → Prog → Env → Expr → M PV
  | 0, _, _, _ => stuck "fuel"
  | fuel+1, P, env, e =>
    match e with
    | .name x => envGet env x
    | .glob x => .ok (.cls x)
    | .cnone => .ok .none
    | .cbool b => .ok (.bool b)
    | .cint n => .ok (.int n)
    | .cstr s => .ok (.str s)
    | .omitted => .ok .none
    | .attr e a => do
        let v ← evalE fuel P env e
        getAttr fuel P v a
    | .index e i => do
        let c ← evalE fuel P env e
        let k ← evalE fuel P env i
        getItem c k
    | .slice e lo hi => do
        let c ← evalE fuel P env e
        let l ← evalE fuel P env lo
        let h ← evalE fuel P env hi
        match c with
        | .list xs => do let r ← sliceList xs l h; pure (.list r)
        | .tuple xs => do let r ← sliceList xs l h; pure (.tuple r)
        | _ => stuck "slice of a non-list"
    | .call f args kw => do
        let vs ← evalEs fuel P env args
        let kws ← evalKw fuel P env kw
        match f with
        | .glob "len" => match vs with
            | [.list xs] => pure (.int xs.length)
            | [.tuple xs] => pure (.int xs.length)
            | [.str s] => pure (.int s.length)
            | [.nc es _] => pure (.int es.length)
            | _ => stuck "len"
        | .glob "cast" => match vs with
            | [_, v] => pure v
            | _ => stuck "cast"
        | .glob "isinstance" => match vs with
            | [v, c] => do let b ← isInstance v c; pure (.bool b)
            | _ => stuck "isinstance"
        | .glob "bool" => match vs with
            | [v] => pure (.bool (truthy v))
            | _ => stuck "bool"
        | .glob "list" => match vs with
            | [] => pure (.list [])
            | [.list xs] => pure (.list xs)
            | [.tuple xs] => pure (.list xs)
            | _ => stuck "list()"
        | .glob "max" => match vs, lookup "key" kws with
            | [xs], some k => match asList xs with
                | none => stuck "max of a non-list"
                | some [] => raisePy "ValueError"
                | some ys => do
                    let ks ← keysOf fuel P env k ys
                    match maxBy (ys.zip ks) with
                    | some v => pure v
                    | none => raisePy "ValueError"
            | _, _ => stuck "max"
        | _ => do
            let fv ← evalE fuel P env f
            callValue fuel P env fv vs kws
    | .meth recv m args kw => do
        let r ← evalE fuel P env recv
        let vs ← evalEs fuel P env args
        let kws ← evalKw fuel P env kw
        callMethod fuel P env r m vs kws
    | .list es => do let vs ← evalEs fuel P env es; pure (.list vs)
    | .tuple es => do let vs ← evalEs fuel P env es; pure (.tuple vs)
    | .not e => do let v ← evalE fuel P env e; pure (.bool (!truthy v))
    | .and a b => do
        let v ← evalE fuel P env a
        if truthy v then evalE fuel P env b else pure v
    | .or a b => do
        let v ← evalE fuel P env a
        if truthy v then pure v else evalE fuel P env b
    | .cmp op a b => do
        let x ← evalE fuel P env a
        let y ← evalE fuel P env b
        let r ← cmpOp op x y
        pure (.bool r)
    | .bin op a b => do
        let x ← evalE fuel P env a
        let y ← evalE fuel P env b
        binOp op x y
    | .ite c a b => do
        let v ← evalE fuel P env c
        if truthy v then evalE fuel P env a else evalE fuel P env b
    | .lam ps body => .ok (.lam ps body)
    | .comp elt x it conds => do
        let c ← evalE fuel P env it
        match asList c with
        | none => stuck "comprehension over a non-list"
        | some xs => do
            let vs ← compLoop fuel P env elt x conds xs
            pure (.list vs)

def evalEs : Nat → Prog → Env → List Expr → M (List PV)
  | 0, _, _, _ => stuck "fuel"
  | _+1, _, _, [] => .ok []
  | fuel+1, P, env, e :: es => do
      let v ← evalE fuel P env e
      let vs ← evalEs fuel P env es
      pure (v :: vs)

def evalKw : Nat → Prog → Env → List (String × Expr) → M (List (String × PV))
  | 0, _, _, _ => stuck "fuel"
  | _+1, _, _, [] => .ok []
  | fuel+1, P, env, (k, e) :: es => do
      let v ← evalE fuel P env e
      let vs ← evalKw fuel P env es
      pure ((k, v) :: vs)

def compLoop : Nat → Prog → Env → Expr → String → List Expr → List PV → M (List PV)
  | 0, _, _, _, _, _, _ => stuck "fuel"
  | _+1, _, _, _, _, _, [] => .ok []
  | fuel+1, P, env, elt, x, conds, v :: vs => do
      let env1 := envSet env x v
      let cs ← evalEs fuel P env1 conds
      let rest ← compLoop fuel P env elt x conds vs
      if cs.all truthy then do
        let r ← evalE fuel P env1 elt
        pure (r :: rest)
      else pure rest

/-- the integer keys `k(x)` of a `max(…, key=k)` -/
def keysOf : Nat → Prog → Env → PV → List PV → M (List Int)
  | 0, _, _, _, _ => stuck "fuel"
  | _+1, _, _, _, [] => .ok []
  | fuel+1, P, env, k, x :: xs => do
      let r ← callValue fuel P env k [x] []
      let rest ← keysOf fuel P env k xs
      match r with
      | .int n => pure (n :: rest)
      | _ => stuck "max key is not an int"

/-- `v.a` -/
def getAttr : Nat → Prog → PV → String → M PV
  | 0, _, _, _ => stuck "fuel"
  | fuel+1, P, v, a =>
    match v with
    | .obj c fs =>
        match P.find c a "getter" with
        | some f => do
            let r ← callFn fuel P f [.obj c fs] []
            pure r.2
        | none => getField fs a
    | .nc _ p =>
        if a = "parent" then .ok p
        else if a = "ident_pat" then .ok (.cls "<ident_pat>")
        else stuck ("NameContainer attribute " ++ a)
    | .cls _ => .ok (.cls a)
    | _ => stuck ("attribute " ++ a)

/-- call of a function value -/
def callValue : Nat → Prog → Env → PV → List PV → List (String × PV) → M PV
  | 0, _, _, _, _, _ => stuck "fuel"
  | fuel+1, P, env, fv, args, kw =>
    match fv with
    | .lam ps body =>
        if ps.length != args.length then raisePy "TypeError"
        else evalE fuel P ((ps.zip args).foldl (fun e kv => envSet e kv.1 kv.2) env) body
    | .fn ps body =>
        if ps.length != args.length then raisePy "TypeError"
        else do
          let r ← execBlock fuel P ((ps.zip args).foldl (fun e kv => envSet e kv.1 kv.2) env) body
          match r.2 with
          | .ret v => pure v
          | _ => pure .none
    | .cls q =>
        -- a constructor
        match P.find q "__init__" "method" with
        | some f => do
            let r ← callFn fuel P f (.obj q [] :: args) kw
            envGet r.1 "self"
        | none =>
            if (lastComp q).endsWith "Error" || lastComp q == "NotFound" || lastComp q == "Exception" then
              .ok (.obj q [("args", .tuple args)])
            else stuck ("constructor " ++ q)
    | _ => stuck "call of a non-function"

/-- `r.m(args)` -/
def callMethod : Nat → Prog → Env → PV → String → List PV → List (String × PV) → M PV
  | 0, _, _, _, _, _, _ => stuck "fuel"
  | fuel+1, P, _env, r, m, args, kw =>
    match r with
    | .cls q =>
        if q = "<ident_pat>" then
          match m, args with
          | "findall", [.str s] => .ok (.list ((splitDots s.toList []).map PV.str))
          | _, _ => stuck "ident_pat method"
        else match P.find q m "static" with
          | some f => do let x ← callFn fuel P f args kw; pure x.2
          | none => callValue fuel P _env (.cls m) args kw          -- a nested class: `NameContainer.NotFound(path)`
    | .nc es p =>
        match P.find "NameContainer" m "method" with
        | some f => do let x ← callFn fuel P f (.nc es p :: args) kw; pure x.2
        | none =>
            match P.find "NameContainer" m "static" with
            | some f => do let x ← callFn fuel P f args kw; pure x.2
            | none =>
              if m = "parent_iter" && args.isEmpty then .ok (.list (parentIter (fuel+1) (.nc es p)))
              else if m = "keys" && args.isEmpty then .ok (.list (es.map fun kv => PV.str kv.1))
              else stuck ("NameContainer method " ++ m)
    | .obj c fs =>
        match P.find c m "method" with
        | some f => do let x ← callFn fuel P f (.obj c fs :: args) kw; pure x.2
        | none => stuck ("method " ++ c ++ "." ++ m)
    | _ => stuck ("method " ++ m)

/-- run a function body; returns the final environment (for `self`) and the returned value -/
def callFn : Nat → Prog → Fn → List PV → List (String × PV) → M (Env × PV)
  | 0, _, _, _, _ => stuck "fuel"
  | fuel+1, P, f, args, kw => do
      let env ← bindParams f.params args kw f.defaults
      let r ← execBlock fuel P env f.body
      match r.2 with
      | .ret v => pure (r.1, v)
      | _ => pure (r.1, .none)

def execBlock : Nat → Prog → Env → List Stmt → M (Env × Sig)
  | 0, _, _, _ => stuck "fuel"
  | _+1, _, env, [] => .ok (env, .norm)
  | fuel+1, P, env, s :: rest => do
      let r ← exec fuel P env s
      match r.2 with
      | .norm => execBlock fuel P r.1 rest
      | _ => pure r

def exec : Nat → Prog → Env → Stmt → M (Env × Sig)
  | 0, _, _, _ => stuck "fuel"
  | fuel+1, P, env, s =>
    match s with
    | .assign t e => do
        let v ← evalE fuel P env e
        match t with
        | .attr x a => do
            let o ← envGet env x
            match o with
            | .obj c fs =>
                match P.find c a "setter" with
                | some f => do
                    let r ← callFn fuel P f [.obj c fs, v] []
                    let self' ← envGet r.1 "self"
                    pure (envSet env x self', .norm)
                | none => pure (envSet env x (.obj c (envSet fs a v)), .norm)
            | _ => stuck "attribute assignment on a non-object"
        | _ => do
            let env' ← bindTgt env t v
            pure (env', .norm)
    | .expr e => do
        let _ ← evalE fuel P env e
        pure (env, .norm)
    | .append x e => do
        let v ← evalE fuel P env e
        let l ← envGet env x
        match l with
        | .list xs => pure (envSet env x (.list (xs ++ [v])), .norm)
        | _ => stuck "append to a non-list"
    | .ifs c a b => do
        let v ← evalE fuel P env c
        if truthy v then execBlock fuel P env a else execBlock fuel P env b
    | .for_ t it body => do
        let c ← evalE fuel P env it
        match asList c with
        | some xs => forLoop fuel P env t xs body
        | none => stuck "for over a non-list"
    | .while_ c body => whileLoop fuel P env c body
    | .try_ body handlers => tryBlock fuel P env body handlers
    | .raise_ e => do
        let v ← evalE fuel P env e
        match v with
        | .obj c _ => raisePy c
        | .cls q => raisePy q
        | _ => stuck "raise of a non-exception"
    | .ret e => do
        let v ← evalE fuel P env e
        pure (env, .ret v)
    | .pass => pure (env, .norm)
    | .cont => pure (env, .cont)
    | .brk => pure (env, .brk)
    | .def_ f ps body => pure (envSet env f (.fn ps body), .norm)

/-- the body of a `try`, statement by statement: a simple statement that raises has had no effect on the
locals, so the handler runs in the environment reached so far.  An exception escaping a loop / nested `try`
inside the body would lose partial effects: that is `stuck`, not guessed. -/
def tryBlock : Nat → Prog → Env → List Stmt → List (List String × String × List Stmt) → M (Env × Sig)
  | 0, _, _, _, _ => stuck "fuel"
  | _+1, _, env, [], _ => .ok (env, .norm)
  | fuel+1, P, env, s :: rest, handlers =>
      match s with
      | .ifs c a b =>
          match evalE fuel P env c with
          | .ok v => tryBlock fuel P env ((if truthy v then a else b) ++ rest) handlers
          | .error (.py cls) => runHandlers fuel P env cls handlers
          | .error e => .error e
      | .for_ _ _ _ | .while_ _ _ | .try_ _ _ =>
          match exec fuel P env s with
          | .ok r => match r.2 with
              | .norm => tryBlock fuel P r.1 rest handlers
              | _ => .ok r
          | .error (.py _) => stuck "exception escaping a compound statement inside try"
          | .error e => .error e
      | _ =>
          match exec fuel P env s with
          | .ok r => match r.2 with
              | .norm => tryBlock fuel P r.1 rest handlers
              | _ => .ok r
          | .error (.py cls) => runHandlers fuel P env cls handlers
          | .error e => .error e

def runHandlers : Nat → Prog → Env → String → List (List String × String × List Stmt) → M (Env × Sig)
  | 0, _, _, _, _ => stuck "fuel"
  | _+1, _, _, cls, [] => raisePy cls
  | fuel+1, P, env, cls, (names, _bound, body) :: rest =>
      if catches names cls then execBlock fuel P env body
      else runHandlers fuel P env cls rest

def forLoop : Nat → Prog → Env → Tgt → List PV → List Stmt → M (Env × Sig)
  | 0, _, _, _, _, _ => stuck "fuel"
  | _+1, _, env, _, [], _ => .ok (env, .norm)
  | fuel+1, P, env, t, v :: vs, body => do
      let env1 ← bindTgt env t v
      let r ← execBlock fuel P env1 body
      match r.2 with
      | .brk => pure (r.1, .norm)
      | .ret w => pure (r.1, .ret w)
      | _ => forLoop fuel P r.1 t vs body

def whileLoop : Nat → Prog → Env → Expr → List Stmt → M (Env × Sig)
  | 0, _, _, _, _ => stuck "fuel"
  | fuel+1, P, env, c, body => do
      let v ← evalE fuel P env c
      if truthy v then do
        let r ← execBlock fuel P env body
        match r.2 with
        | .brk => pure (r.1, .norm)
        | .ret w => pure (r.1, .ret w)
        | _ => whileLoop fuel P r.1 c body
      else pure (env, .norm)
end

/-! ### embedding the model's containers, canonical results -/

mutual
def embedNode : Node → PV
  | .mk a v kids => .obj "Referent"
      [("annotation", match a with | some a => PV.ann a | none => PV.none),
       ("container", match kids with | [] => PV.none | k :: ks => PV.nc (embedKids (k :: ks)) PV.none),
       ("_value", match v with | some v => celPV v | none => PV.none),
       ("_value_set", PV.bool v.isSome)]
def embedKids : NC → List (String × PV)
  | [] => []
  | (k, n) :: rest => (k, embedNode n) :: embedKids rest
end

/-- a parent chain (innermost first) as a NameContainer object with `.parent` links -/
def embedChain : List NC → PV
  | [] => .none
  | c :: rest => .nc (embedKids c) (embedChain rest)

mutual
/-- canonical text of a result (what `Referent.value` / a lookup produced) -/
def canonPV : PV → String
  | .none => "None"
  | .bool b => toString b
  | .int n => toString n
  | .str s => "'" ++ s ++ "'"
  | .cel v => "v:" ++ v.show
  | .ann a => "T" ++ toString a
  | .nc es _ => "NC{" ++ canonEntries es ++ "}"
  | .obj c fs => c ++ "(" ++ canonEntries fs ++ ")"
  | .list xs => "[" ++ canonList xs ++ "]"
  | .tuple xs => "(" ++ canonList xs ++ ")"
  | .cls q => "<" ++ q ++ ">"
  | .lam _ _ => "<lambda>"
  | .fn _ _ => "<def>"
def canonEntries : List (String × PV) → String
  | [] => ""
  | (k, v) :: rest => k ++ "=" ++ canonPV v ++ ";" ++ canonEntries rest
def canonList : List PV → String
  | [] => ""
  | v :: rest => canonPV v ++ "," ++ canonList rest
end

mutual
/-- canonical text of a model container, in the same format as `canonPV (embed…)` of its fields -/
def canonNode : Node → String
  | .mk a v kids =>
      "R(" ++ (match a with | some a => "T" ++ toString a | none => "None") ++ "|" ++
      (match kids with | [] => "None" | k :: ks => "NC{" ++ canonKids (k :: ks) ++ "}") ++ "|" ++
      (match v with | some v => "v:" ++ v.show | none => "-") ++ ")"
def canonKids : NC → String
  | [] => ""
  | (k, n) :: rest => k ++ "=" ++ canonNode n ++ ";" ++ canonKids rest
end

/-- a Referent object in the `canonNode` format (fields by name, whatever their order) -/
def canonReferentWith (canonC : PV → String) (fs : List (String × PV)) : String :=
  "R(" ++ (match lookup "annotation" fs with | some (.ann a) => "T" ++ toString a | _ => "None") ++ "|" ++
  (match lookup "container" fs with | some (.nc es p) => canonC (.nc es p) | _ => "None") ++ "|" ++
  (match lookup "_value_set" fs, lookup "_value" fs with
    | some (.bool true), some (.cel v) => "v:" ++ v.show
    | some (.bool true), some .none => "v:null"
    | some (.bool true), _ => "v:?"
    | _, _ => "-") ++ ")"

/-- canonical text of a NameContainer object whose entries are Referents (bounded depth) -/
def canonNCObj : Nat → PV → String
  | 0, _ => "…"
  | d+1, .nc es _ =>
      "NC{" ++ String.join (es.map fun kv =>
        kv.1 ++ "=" ++ (match kv.2 with
          | .obj _ fs => canonReferentWith (canonNCObj d) fs
          | other => canonPV other) ++ ";") ++ "}"
  | _, v => canonPV v

/-- what a lookup result looks like, `Res` side -/
def canonRes : Res → String
  | .val .null => "None"
  | .val v => "v:" ++ v.show
  | .nc c => "NC{" ++ canonKids c ++ "}"
  | .ann a => "T" ++ toString a
  | .nothing => "None"

/-- … and Python side (the value of `Referent.value`, of `resolve_variable`, of `__getattr__`) -/
def canonResult : PV → String
  | .nc es p => canonNCObj 8 (.nc es p)
  | .cel v => "v:" ++ v.show
  | .ann a => "T" ++ toString a
  | .none => "None"
  | other => "?" ++ canonPV other

def outcome (r : M PV) : String :=
  match r with
  | .ok v => canonResult v
  | .error (.py cls) => "raise " ++ lastComp cls
  | .error (.stuck w) => "STUCK " ++ w

/-- call `qname` (a method: `self` first) of the program -/
def callQ (P : Prog) (cls name : String) (args : List PV) : M PV :=
  match P.findAny cls name with
  | some f => do let r ← callFn 400 P f args []; pure r.2
  | none => stuck ("no function " ++ name)

/-- `obj.value` through the translated property -/
def valueOf (P : Prog) (r : M PV) : M PV :=
  match r with
  | .ok v => getAttr 400 P v "value"
  | .error e => .error e

end Cel.NamesPy
