/-
  C20 — CLI output and exit status reflect the evaluation result.

  Property theorems only.  Subject: `Cel.Cli.main` / `nullInput` / `processJsonDoc` / `ndjson`
  (Cel.Model.Cli; status constants bridged to `__main__.py` in Cel.Bridge.Cli).  The expression is any
  program `prg : Activation δ → Outcome` (evaluation as a function of the bindings — property C05);
  streams are arbitrary lists of input lines: any length, any mixture of documents, documents on which
  the expression errors, and malformed lines.  `Total prg` / `Line.clean` name the property's stated
  fragment (no non-CEL exception escapes evaluation — C04; no integer outside int64 in a document).
-/
import Cel.Lemmas.Cli
import Cel.Bridge.Cli
namespace Cel.Props.C20
open Cel Cel.Cli

/-- "`celpy -n EXPR` prints the JSON serialisation of the value and exits 0" -/
theorem null_input_plain (o : Outcome) :
    (∀ v, o = .bool v → nullInput false o = ⟨[boolText v], .ok 0⟩) ∧
    (∀ t, o = .value t → nullInput false o = ⟨[t], .ok 0⟩) := by
  constructor
  · intro v h; subst h; rfl
  · intro t h; subst h; rfl

/-- "with `-b` the exit status is 0 iff the result is true, 1 iff it is false, and 2 for any other value or an
evaluation error" (for every outcome that is a value or a CEL error; nothing is printed under `-b`). -/
theorem null_input_status (o : Outcome) (h : ∀ e, o ≠ .escape e) :
    ((nullInput true o).status = .ok 0 ↔ o = .bool true) ∧
    ((nullInput true o).status = .ok 1 ↔ o = .bool false) ∧
    ((nullInput true o).status = .ok 2 ↔ (o = .evalError ∨ ∃ t, o = .value t)) ∧
    (nullInput true o).out = [] ∧
    (∃ n, (nullInput true o).status = .ok n ∧ n ≤ 2) := by
  cases o with
  | bool v => cases v <;> simp [nullInput, St.nullTrue, St.nullFalse]
  | value t => simp [nullInput, St.nullNonBool]
  | evalError => simp [nullInput, St.nullEvalError]
  | escape e => exact absurd rfl (h e)

/-- an evaluation error without `-b` is status 2 as well, with nothing on stdout -/
theorem null_input_eval_error (b : Bool) : nullInput b .evalError = ⟨[], .ok 2⟩ := by
  cases b <;> rfl

/-- "a syntax error exits 1": whatever the mode, the options and the input -/
theorem syntax_error_is_1 {δ : Type} (inv : Invocation δ) (ha : inv.argsOk = true) (hc : inv.compiles = false) :
    main inv = ⟨[], .ok 1⟩ := by
  simp [main, ha, hc, St.parseError]

/-- **The NDJSON stream equals the per-document specification**: for every stream (any length), stdout is the
concatenation of what each line prints *on its own* (`docSpec … l` is computed from the `--arg` activation and
the line `l` alone), and the status is the `max`-fold of the per-document statuses. -/
theorem ndjson_spec {δ : Type} (prg : Prog δ) (b : Bool) (var : String) (act₀ : Activation δ) (ls : List (Line δ))
    (ht : Total prg) (hc : ∀ l ∈ ls, l.clean = true) :
    ndjson prg b var act₀ ls =
      ⟨ls.flatMap (fun l => (docSpec prg b act₀ var l).1),
       .ok ((ls.map (fun l => (docSpec prg b act₀ var l).2)).foldl max 0)⟩ :=
  ndjsonLoop_spec prg b var act₀ ht ls act₀ St.ndjsonInit (sameBase_refl act₀ var) hc

/-- "each input line is evaluated independently of the others (the k-th output line depends only on the k-th
document)": in any stream `pre ++ [l] ++ post` the output is the output of `pre`, then what `l` prints on its own,
then the output of `post` — the middle part does not mention `pre` or `post`, the outer parts do not mention `l`. -/
theorem line_independence {δ : Type} (prg : Prog δ) (b : Bool) (var : String) (act₀ : Activation δ)
    (pre post : List (Line δ)) (l : Line δ) (ht : Total prg)
    (hpre : ∀ x ∈ pre, x.clean = true) (hl : l.clean = true) (hpost : ∀ x ∈ post, x.clean = true) :
    (ndjson prg b var act₀ (pre ++ l :: post)).out =
      (ndjson prg b var act₀ pre).out ++ (docSpec prg b act₀ var l).1 ++ (ndjson prg b var act₀ post).out := by
  have hall : ∀ x ∈ pre ++ l :: post, x.clean = true := by
    intro x hx
    simp only [List.mem_append, List.mem_cons] at hx
    rcases hx with hx | hx | hx
    · exact hpre x hx
    · subst hx; exact hl
    · exact hpost x hx
  rw [ndjson_spec prg b var act₀ _ ht hall, ndjson_spec prg b var act₀ _ ht hpre, ndjson_spec prg b var act₀ _ ht hpost]
  simp [List.flatMap_append]

/-- … and a line on its own is exactly `process_json_doc` on the initial activation: running the stream `[l]`. -/
theorem single_line {δ : Type} (prg : Prog δ) (b : Bool) (var : String) (act₀ : Activation δ) (l : Line δ)
    (ht : Total prg) (hl : l.clean = true) :
    ndjson prg b var act₀ [l] = ⟨(docSpec prg b act₀ var l).1, .ok (docSpec prg b act₀ var l).2⟩ := by
  rw [ndjson_spec prg b var act₀ [l] ht (by simpa using hl)]
  simp

/-- "the status is the worst per-document status": it bounds every document's status and is attained
(or is 0 for the empty stream / all-zero statuses). -/
theorem status_is_worst {δ : Type} (prg : Prog δ) (b : Bool) (var : String) (act₀ : Activation δ) (ls : List (Line δ))
    (ht : Total prg) (hc : ∀ l ∈ ls, l.clean = true) :
    ∃ m, (ndjson prg b var act₀ ls).status = .ok m ∧
      (∀ l ∈ ls, (docSpec prg b act₀ var l).2 ≤ m) ∧
      (m = 0 ∨ ∃ l ∈ ls, (docSpec prg b act₀ var l).2 = m) := by
  refine ⟨(ls.map (fun l => (docSpec prg b act₀ var l).2)).foldl max 0, ?_, ?_, ?_⟩
  · rw [ndjson_spec prg b var act₀ ls ht hc]
  · intro l hl
    exact (foldl_max_ge (ls.map (fun l => (docSpec prg b act₀ var l).2)) 0).2 _ (List.mem_map_of_mem hl)
  · rcases foldl_max_mem (ls.map (fun l => (docSpec prg b act₀ var l).2)) 0 with h | h
    · left; exact h
    · right
      obtain ⟨l, hl, he⟩ := List.mem_map.mp h
      exact ⟨l, hl, he⟩

/-- per-document status: 3 for malformed JSON; under `-b` 0 / 1 for true / false; 0 otherwise (also for a document on
which the expression errors, which prints `null`). -/
theorem doc_status {δ : Type} (prg : Prog δ) (b : Bool) (var : String) (act₀ : Activation δ) (d : δ) :
    docSpec prg b act₀ var .malformed = ([], 3) ∧
    (prg (setVar act₀ var d) = .bool true → docSpec prg true act₀ var (.json d) = (["true"], 0)) ∧
    (prg (setVar act₀ var d) = .bool false → docSpec prg true act₀ var (.json d) = (["false"], 1)) ∧
    (∀ v, prg (setVar act₀ var d) = .bool v → docSpec prg false act₀ var (.json d) = ([boolText v], 0)) ∧
    (∀ t, prg (setVar act₀ var d) = .value t → docSpec prg b act₀ var (.json d) = ([t], 0)) ∧
    (prg (setVar act₀ var d) = .evalError → docSpec prg b act₀ var (.json d) = (["null"], 0)) := by
  refine ⟨rfl, ?_, ?_, ?_, ?_, ?_⟩
  · intro h; simp [docSpec, h, boolText]
  · intro h; simp [docSpec, h, boolText]
  · intro v h; simp [docSpec, h]
  · intro t h; simp [docSpec, h]
  · intro h; simp [docSpec, h]

/-- "malformed JSON yields status 3": a stream has status 3 exactly when it contains a malformed line. -/
theorem malformed_is_3 {δ : Type} (prg : Prog δ) (b : Bool) (var : String) (act₀ : Activation δ) (ls : List (Line δ))
    (ht : Total prg) (hc : ∀ l ∈ ls, l.clean = true) :
    (ndjson prg b var act₀ ls).status = .ok 3 ↔ Line.malformed ∈ ls := by
  obtain ⟨m, hm, hge, hmem⟩ := status_is_worst prg b var act₀ ls ht hc
  rw [hm]
  constructor
  · intro h
    have h3 : m = 3 := by simpa using h
    rcases hmem with h0 | ⟨l, hl, he⟩
    · omega
    · rcases docSpec_status_cases prg b act₀ var l with h' | h' | ⟨_, hcl, hnj⟩
      · omega
      · omega
      · cases l with
        | malformed => exact hl
        | escape e => simp [Line.clean] at hcl
        | json d => exact absurd rfl (hnj d)
  · intro h
    have h3 : 3 ≤ m := by simpa [docSpec] using hge _ h
    have hle : m ≤ 3 := by
      rcases hmem with h0 | ⟨l, _, he⟩
      · omega
      · rcases docSpec_status_cases prg b act₀ var l with h' | h' | ⟨h', _, _⟩ <;> omega
    have : m = 3 := by omega
    rw [this]

/-- `--slurp`: the whole input is one document: one `process_json_doc`. -/
theorem slurp_is_one_document {δ : Type} (inv : Invocation δ) (ha : inv.argsOk = true) (hc : inv.compiles = true)
    (hm : inv.mode = .slurp) (ht : Total inv.prg) (hw : inv.whole.clean = true) :
    main inv = ⟨(docSpec inv.prg inv.boolean inv.act inv.var inv.whole).1,
                .ok (docSpec inv.prg inv.boolean inv.act inv.var inv.whole).2⟩ := by
  simp only [main, ha, hc, hm]
  exact (processJsonDoc_spec inv.prg inv.boolean inv.act inv.act inv.var (sameBase_refl _ _) ht inv.whole hw).2

/-- a rejected command line (`--arg` of an unknown type or with a value its type rejects, both `-p` and `-d`,
no expression) is argparse's status 2 before anything is evaluated -/
theorem usage_error_is_2 {δ : Type} (inv : Invocation δ) (ha : inv.argsOk = false) : main inv = ⟨[], .ok 2⟩ := by
  simp [main, ha, St.usage]
theorem arg_type_table (t : String) (raises : Bool) :
    argAccepted ⟨some t, raises⟩ = true ↔ (t ∈ cliArgTypes.map (·.1) ∧ raises = false) := by
  simp [argAccepted, List.any_eq_true]

/-! non-vacuity: a program and a stream meeting the hypotheses, with an erroring document and a malformed line -/
section Example
/-- documents are numbers; the "expression" is `doc > 1` on documents ≤ 10 and errors beyond -/
def exPrg : Prog Nat := fun act =>
  match act.find? (fun kv => kv.1 == "jq") with
  | some (_, d) => if d ≤ 10 then .bool (decide (d > 1)) else .evalError
  | none => .evalError
theorem exPrg_total : Total exPrg := by
  intro a e; unfold exPrg; split <;> (try split) <;> simp
example : ndjson exPrg true "jq" [] [.json 1, .json 5, .malformed, .json 11] = ⟨["false", "true", "null"], .ok 3⟩ := by
  rw [ndjson_spec exPrg true "jq" [] _ exPrg_total (by simp [Line.clean])]
  simp [docSpec, exPrg, setVar, boolText]
example : ndjson exPrg true "jq" [] [.json 5, .json 1, .json 11] = ⟨["true", "false", "null"], .ok 1⟩ := by
  rw [ndjson_spec exPrg true "jq" [] _ exPrg_total (by simp [Line.clean])]
  simp [docSpec, exPrg, setVar, boolText]
end Example

/-! ### from the list of lines to the input TEXT (`for document in sys.stdin`) -/

/-- nothing of the input is lost, added or reordered by the cutting into documents, and no document is empty -/
theorem lines_partition_input (text : List Char) :
    (splitLines text).flatten = text ∧ ∀ l ∈ splitLines text, l ≠ [] :=
  ⟨splitLines_flatten text, splitLines_ne_nil text⟩

/-- **one document per physical line, whatever else the line contains**: a text made of the lines `ls` (any characters except
`'\n'` — U+2028, U+2029, U+0085, form feed, … included), each terminated by `'\n'`, and an optional unterminated last line `t` is
cut into exactly these lines -/
theorem documents_are_physical_lines (ls : List (List Char)) (t : List Char) (h : ∀ l ∈ ls, '\n' ∉ l) (ht : '\n' ∉ t) :
    splitLines (ls.flatMap (· ++ ['\n']) ++ t) = ls.map (· ++ ['\n']) ++ (if t = [] then [] else [t]) :=
  splitLines_lines ls t h ht

/-- "the k-th output line depends only on the k-th document", on the input text: for every decoder, every program and every text
made of `'\n'`-terminated lines, stdout is the concatenation of what each line prints on its own and the status is the worst
per-line status -/
theorem text_line_independence {δ : Type} (prg : Prog δ) (b : Bool) (var : String) (act₀ : Activation δ)
    (decode : List Char → Line δ) (ls : List (List Char)) (ht : Total prg) (h : ∀ l ∈ ls, '\n' ∉ l)
    (hc : ∀ l ∈ ls, (decode (l ++ ['\n'])).clean = true) :
    ndjsonText prg b var act₀ decode (ls.flatMap (· ++ ['\n'])) =
      ⟨ls.flatMap (fun l => (docSpec prg b act₀ var (decode (l ++ ['\n']))).1),
       .ok ((ls.map (fun l => (docSpec prg b act₀ var (decode (l ++ ['\n']))).2)).foldl max 0)⟩ := by
  have hs := splitLines_lines ls [] h (by simp)
  simp only [List.append_nil, if_true] at hs
  unfold ndjsonText
  rw [hs, ndjson_spec prg b var act₀ _ ht (by
    intro l hl
    simp only [List.map_map, List.mem_map, Function.comp] at hl
    obtain ⟨x, hx, rfl⟩ := hl
    exact hc x hx)]
  simp [List.flatMap_map, List.map_map, Function.comp_def]

/-- … in particular the text `pre ⧺ line ⧺ post`: the middle line's output does not mention `pre` or `post` -/
theorem text_line_in_context {δ : Type} (prg : Prog δ) (b : Bool) (var : String) (act₀ : Activation δ)
    (decode : List Char → Line δ) (pre post : List (List Char)) (l : List Char) (ht : Total prg)
    (h : ∀ x ∈ pre ++ l :: post, '\n' ∉ x) (hc : ∀ x ∈ pre ++ l :: post, (decode (x ++ ['\n'])).clean = true) :
    (ndjsonText prg b var act₀ decode ((pre ++ l :: post).flatMap (· ++ ['\n']))).out =
      (ndjsonText prg b var act₀ decode (pre.flatMap (· ++ ['\n']))).out ++
      (docSpec prg b act₀ var (decode (l ++ ['\n']))).1 ++
      (ndjsonText prg b var act₀ decode (post.flatMap (· ++ ['\n']))).out := by
  rw [text_line_independence prg b var act₀ decode _ ht h hc,
      text_line_independence prg b var act₀ decode pre ht (fun x hx => h x (by simp [hx])) (fun x hx => hc x (by simp [hx])),
      text_line_independence prg b var act₀ decode post ht (fun x hx => h x (by simp [hx])) (fun x hx => hc x (by simp [hx]))]
  simp [List.flatMap_append]

/-! non-vacuity: a line containing U+2028 and a form feed is one document; a last line without newline is a document -/
example : splitLines "{\"s\": \"a b\u000cc\"}\n7\n".toList = ["{\"s\": \"a b\u000cc\"}\n".toList, "7\n".toList] := by decide
example : splitLines "1\n\n2".toList = ["1\n".toList, "\n".toList, "2".toList] := by decide

end Cel.Props.C20
