/-
  C19 — Translated value clauses keep their operator, operands and literals.

  Property theorems only.  Subject: Cel.Model.XlateValue (the value-clause half of
  `src/xlate/c7n_to_cel.py` and the CEL side of what it emits: STRING_LIT regex, `celstr`,
  `DurationType` text grammar, operator/function meaning), with the operator table, the value_type
  table, the resource tables and the data of `q` taken from Cel.Gen.XlateTables — regenerated from
  the source on every run — through Cel.Bridge.XlateTables.

  What is NOT proved here, only corresponded (py/verif/props/c19.py): that the emitted text, parsed by
  lark and evaluated by celpy + c7nlib, means what `denoteTemplate`/`Xf.apply` say (the CEL evaluator
  is not modelled on text); `tables_are_cel` beyond delimiter balance (every table entry is parsed by
  the real parser on every run).
-/
import Cel.Lemmas.XlateValue
import Cel.Bridge.XlateTables
namespace Cel.Props.C19
open Cel.XlateValue Cel.Gen Cel.Bridge.XlateTables

/-! ### the operator table -/

/-- "the emitted CEL compares the resource attribute with v using the relation the op names":
for EVERY entry of the regenerated `atomic_op_map` whose key is one of the property's op names, the
template denotes exactly the relation of that op — for all resource values `r` and literals `v`. -/
theorem op_table_correct : ∀ p ∈ XlateTables.atomicOpMap, ∀ o, Op.ofName p.1 = some o →
    ∀ r v, denoteTemplate p.2.toList r v = Spec.rel o r v := by
  intro p hp o ho r v
  have h := List.all_eq_true.1 op_table_check p hp
  simp only [entryOk, ho] at h
  have h' : parseTemplate p.2.toList = some (expectedTmpl o) := by simpa using h
  simp [denoteTemplate, h', expected_sound]

/-- every op name the property lists (eq/equal, ne/not-equal, gt/greater-than, ge/gte, lt/less-than,
le/lte, in, ni/not-in, contains, glob, intersect, difference, present/absent) is in the table. -/
theorem op_table_covers :
    ∀ n ∈ opNames, ∃ p ∈ XlateTables.atomicOpMap, p.1 = n ∧ (Op.ofName n).isSome = true :=
  op_table_complete

/-- the relations are not vacuous: each distinguishes the two sides of its boundary -/
example : Spec.rel .le (.atom (.int 5)) (.atom (.int 5)) = some true ∧
    Spec.rel .lt (.atom (.int 5)) (.atom (.int 5)) = some false ∧
    Spec.rel .le (.atom (.int 6)) (.atom (.int 5)) = some false := by decide
example : Spec.rel .in_ (.atom (.str ['a'])) (.list [.str ['a'], .str ['b']]) = some true ∧
    Spec.rel .contains (.list [.str ['a']]) (.atom (.str ['b'])) = some false := by decide
/-- regression (D23): the template `le` used to have does not denote `le` -/
example : denoteTemplate "{0} < {1}".toList (.atom (.int 5)) (.atom (.int 5)) ≠
    Spec.rel .le (.atom (.int 5)) (.atom (.int 5)) := by decide

/-! ### the glob relation (round 2): what the model's `glob` — the relation both sides of
`op_table_correct` use for `op: glob`, compared with the real `c7nlib.glob` by the `clause` stream — accepts,
for ALL texts. A shortcut for a sub-domain of patterns (prefix / suffix / infix / equality tests) is
right exactly under the hypothesis `p.all isGlobPlain`: no `*`, `?` or `[` inside the stem. -/

/-- the `glob` entry of the regenerated table denotes `glob text pattern` with the resource attribute as
the text and the policy literal as the pattern -/
theorem glob_clause_decision (p : String × String) (hp : p ∈ XlateTables.atomicOpMap) (hn : p.1 = "glob")
    (t pat : Str) :
    denoteTemplate p.2.toList (.atom (.str t)) (.atom (.str pat)) = glob t pat := by
  rw [op_table_correct p hp .glob (by rw [hn]; decide)]
  rfl

/-- a pattern without wildcard characters accepts exactly its own text -/
theorem glob_literal (p t : Str) (hp : p.all isGlobPlain = true) : glob t p = some (decide (t = p)) := by
  simp [glob, parseGlob_plain p hp, globItems_lits]

/-- `*` accepts every text -/
theorem glob_star_all (t : Str) : glob t ['*'] = some true := by
  simp [glob, parseGlob, parseGlobGo, globItems_star_true]

/-- `stem*` accepts exactly the texts that start with the stem -/
theorem glob_prefix (p t : Str) (hp : p.all isGlobPlain = true) :
    glob t (p ++ ['*']) = some (p.isPrefixOf t) := by
  simp [glob, parseGlob_plain_star p hp, globItems_lits_star]

/-- `*stem` accepts exactly the texts that end with the stem -/
theorem glob_suffix (p t : Str) (hp : p.all isGlobPlain = true) :
    glob t ('*' :: p) = some (p.isSuffixOf t) := by
  simp [glob, parseGlob_star_plain p hp, globItems_star_lits]

/-- `*stem*` accepts exactly the texts that contain the stem -/
theorem glob_infix (p t : Str) (hp : p.all isGlobPlain = true) :
    glob t ('*' :: (p ++ ['*'])) = some (isInfix p t) := by
  simp [glob, parseGlob_star_plain_star p hp, globItems_star_lits_star]

/-- a class after a stem: `stem[abc]` accepts `stem ++ [c]` iff `c` is one of the listed characters, and
`stem[!abc]` iff it is not — for every stem without wildcards, every class of plain members and every `c`
(so such a pattern is NOT the prefix / equality test on its own text) -/
theorem glob_stem_class (p cs : Str) (c : Char) (hp : p.all isGlobPlain = true)
    (hcs : cs.all isClassPlain = true) (hne : cs ≠ []) :
    glob (p ++ [c]) (p ++ '[' :: (cs ++ [']'])) = some (cs.contains c) ∧
    glob (p ++ [c]) (p ++ '[' :: '!' :: (cs ++ [']'])) = some (!cs.contains c) := by
  constructor
  · have h := parseGlobGo_plain p hp ('[' :: (cs ++ [']']))
    rw [parseGlobGo_class cs [] hcs hne] at h
    simp only [parseGlobGo, Option.map_some] at h
    simp [glob, parseGlob, h, globItems_lits_append, globItems, set_singles_matches]
  · have h := parseGlobGo_plain p hp ('[' :: '!' :: (cs ++ [']']))
    rw [parseGlobGo_negclass cs [] hcs hne] at h
    simp only [parseGlobGo, Option.map_some] at h
    simp [glob, parseGlob, h, globItems_lits_append, globItems, set_singles_matches]

/-- the same in front of a trailing `*`: `stem[abc]*` accepts `stem ++ c :: u` iff `c` is listed, whatever
follows -/
theorem glob_stem_class_star (p cs u : Str) (c : Char) (hp : p.all isGlobPlain = true)
    (hcs : cs.all isClassPlain = true) (hne : cs ≠ []) :
    glob (p ++ c :: u) (p ++ '[' :: (cs ++ [']', '*'])) = some (cs.contains c) := by
  have h := parseGlobGo_plain p hp ('[' :: (cs ++ [']', '*']))
  have h2 := parseGlobGo_class cs ['*'] hcs hne
  rw [h2] at h
  simp only [parseGlobGo, Option.map_some] at h
  simp [glob, parseGlob, h, globItems_lits_append, globItems, set_singles_matches,
    any_range_succ_of _ _ u.length (Nat.le_refl _)]

/-- hypotheses are satisfiable; the class reading and the plain reading differ (seeded change C19-m6) -/
example : glob (lit "i-5") (lit "i-[0-9]") = some true ∧ glob (lit "i-[0-9]") (lit "i-[0-9]") = some false ∧
    glob (lit "i-7abc") (lit "i-[0-9]*") = some true ∧ glob (lit "node-c") (lit "*-[ab]") = some false ∧
    glob (lit "a[b") (lit "a[b") = some true ∧ glob (lit "x") (lit "[z-a]") = none := by decide
example : (lit "i-").all isGlobPlain = true ∧ (lit "0123").all isClassPlain = true := by decide

/-! ### set-valued relations (`intersect`, `difference`) are about membership (round 3)

The relation `difference` names is Custodian's `bool(set(r).difference(v))`: it asks whether the resource's list has
an entry the policy's list lacks.  Nothing else about the two lists matters — not their lengths, not repeated
entries, not the order.  `difference_longer_nodup` is the exact sub-domain on which a length comparison can stand in
for the set difference (seeded change C19-m9 used it without the `Nodup` hypothesis). -/

/-- the `difference` / `intersect` entries of the regenerated table denote the relation over the resource's list (left)
and the policy's list (right) -/
theorem set_clause_decision (p : String × String) (hp : p ∈ XlateTables.atomicOpMap) (o : Op)
    (hn : (p.1 = "difference" ∧ o = .difference) ∨ (p.1 = "intersect" ∧ o = .intersect)) (xs ys : List Atom) :
    denoteTemplate p.2.toList (.list xs) (.list ys) = Spec.rel o (.list xs) (.list ys) := by
  rcases hn with ⟨h1, h2⟩ | ⟨h1, h2⟩ <;> subst h2 <;> exact op_table_correct p hp _ (by rw [h1]; decide) _ _

/-- the raw set difference test: false exactly when every member of the left list is a member of the right one -/
theorem diff_any_false (xs ys : List Atom) :
    (xs.any (fun a => !ys.contains a)) = false ↔ ∀ a ∈ xs, a ∈ ys := by
  simp [List.any_eq_false]

theorem inter_any_true (xs ys : List Atom) :
    (xs.any (ys.contains ·)) = true ↔ ∃ a ∈ xs, a ∈ ys := by
  simp [List.any_eq_true]

theorem setRel_some {f : List Atom → List Atom → Bool} {r v : Val} {b : Bool} (h : Spec.setRel f r v = some b) :
    ∃ xs ys, r = .list xs ∧ v = .list ys ∧ b = f xs ys := by
  cases r with
  | atom a => simp [Spec.setRel] at h
  | list xs =>
    cases v with
    | atom a => simp [Spec.setRel] at h
    | list ys =>
      refine ⟨xs, ys, rfl, rfl, ?_⟩
      cases xs with
      | nil => simp [Spec.setRel] at h; exact h.symm
      | cons x xs' =>
        cases ys with
        | nil => simp [Spec.setRel] at h; exact h.symm
        | cons y ys' =>
          simp only [Spec.setRel] at h
          split at h
          · exact (Option.some.inj h).symm
          · cases h

/-- `difference` names MEMBERSHIP: whenever the relation has a meaning, the clause matches exactly when some
entry of the resource's list is not an entry of the policy's list — repeats, order and lengths play no part. -/
theorem difference_membership (xs ys : List Atom) (b : Bool)
    (h : Spec.rel .difference (.list xs) (.list ys) = some b) : b = true ↔ ∃ a ∈ xs, a ∉ ys := by
  simp only [Spec.rel] at h
  obtain ⟨xs', ys', h1, h2, h3⟩ := setRel_some h
  cases h1; cases h2; subst h3
  simp [List.any_eq_true]

theorem intersect_membership (xs ys : List Atom) (b : Bool)
    (h : Spec.rel .intersect (.list xs) (.list ys) = some b) : b = true ↔ ∃ a ∈ xs, a ∈ ys := by
  simp only [Spec.rel] at h
  obtain ⟨xs', ys', h1, h2, h3⟩ := setRel_some h
  cases h1; cases h2; subst h3
  simp [List.any_eq_true]

/-- two resource lists with the same members (one may repeat entries, be longer, be reordered) get the same decision -/
theorem difference_same_members (xs xs' ys : List Atom) (b b' : Bool) (hm : ∀ a, a ∈ xs ↔ a ∈ xs')
    (h : Spec.rel .difference (.list xs) (.list ys) = some b)
    (h' : Spec.rel .difference (.list xs') (.list ys) = some b') : b = b' := by
  have e := difference_membership xs ys b h
  have e' := difference_membership xs' ys b' h'
  have : (b = true) ↔ (b' = true) := by
    rw [e, e']
    constructor
    · rintro ⟨a, ha, hn⟩; exact ⟨a, (hm a).1 ha, hn⟩
    · rintro ⟨a, ha, hn⟩; exact ⟨a, (hm a).2 ha, hn⟩
  cases b <;> cases b' <;> simp_all

/-- pigeonhole, with the hypothesis it needs: a list WITHOUT repeated entries whose entries all occur in `ys` is no longer than `ys` -/
theorem nodup_subset_length : ∀ (xs ys : List Atom), xs.Nodup → (∀ a ∈ xs, a ∈ ys) → xs.length ≤ ys.length
  | [], _, _, _ => Nat.zero_le _
  | x :: xs, ys, hn, hs => by
    have hx : x ∈ ys := hs x (List.mem_cons_self ..)
    have hn' := List.nodup_cons.1 hn
    have ih := nodup_subset_length xs (ys.erase x) hn'.2 (fun a ha =>
      (List.mem_erase_of_ne (fun (e : a = x) => hn'.1 (e ▸ ha))).2 (hs a (List.mem_cons_of_mem _ ha)))
    have hl := List.length_erase_of_mem hx
    have hp : 0 < ys.length := List.length_pos_of_mem hx
    simp only [List.length_cons]
    omega

/-- the sub-domain on which "a longer left list must have an entry the right one lacks" is right: lists without repeats -/
theorem difference_longer_nodup (xs ys : List Atom) (b : Bool) (hn : xs.Nodup) (hl : ys.length < xs.length)
    (h : Spec.rel .difference (.list xs) (.list ys) = some b) : b = true := by
  rw [difference_membership xs ys b h]
  apply Classical.byContradiction
  intro hc
  have hs : ∀ a ∈ xs, a ∈ ys := fun a ha => Classical.byContradiction fun hna => hc ⟨a, ha, hna⟩
  have := nodup_subset_length xs ys hn hs
  omega

/-- an empty resource list never matches -/
theorem difference_empty (ys : List Atom) : Spec.rel .difference (.list []) (.list ys) = some false := by
  simp [Spec.rel, Spec.setRel]

/-- and outside that sub-domain it is wrong: a repeated entry makes the list longer without adding a member -/
example : Spec.rel .difference (.list [.str (lit "a"), .str (lit "a")]) (.list [.str (lit "a")]) = some false ∧
    Spec.rel .difference (.list [.str (lit "a"), .str (lit "b"), .str (lit "a")]) (.list [.str (lit "a"), .str (lit "b")]) = some false ∧
    Spec.rel .difference (.list [.str (lit "a"), .str (lit "c")]) (.list [.str (lit "a")]) = some true := by decide

/-- clauses without an op. Full statement: `∀ w r, Spec.word w r = some b → the emitted clause decides b`.
Proved part: `not-null` and `empty` on every attribute value; `present` and `absent` on every value that is
null or truthy. Missing: `present`/`absent` on an attribute that is there but falsy — the translator sends
`present` to the same `present()` (truthiness) as `not-null`, and `absent` to the same `absent()` as `empty`
(pinned by tests/test_c7n_to_cel.py and tests/test_c7nlib.py): known finding `present_is_truthiness`. -/
theorem valueless_decision_partial (w : String) (o : Op) (hw : valuelessOp w = some o)
    (p : String × String) (hp : p ∈ XlateTables.atomicOpMap) (ho : Op.ofName p.1 = some o)
    (r : Val) (hr : (w = "present" ∨ w = "absent") → falsyNonNull r = false) (b : Bool)
    (hs : Spec.word w r = some b) :
    denoteTemplate p.2.toList r (.atom .null) = some b := by
  rw [op_table_correct p hp o ho]
  unfold valuelessOp at hw
  unfold Spec.word at hs
  by_cases h1 : w = "present"
  · subst h1
    have hf := hr (Or.inl rfl)
    simp at hw hs; subst hw
    simp only [Spec.rel]
    cases b <;> cases r with
    | atom a => cases a <;> simp_all [falsyNonNull, truthy, isNull]
    | list xs => simp_all [falsyNonNull, truthy, isNull]
  by_cases h2 : w = "absent"
  · subst h2
    have hf := hr (Or.inr rfl)
    simp at hw hs; subst hw
    simp only [Spec.rel]
    cases b <;> cases r with
    | atom a => cases a <;> simp_all [falsyNonNull, truthy, isNull]
    | list xs => simp_all [falsyNonNull, truthy, isNull]
  by_cases h3 : w = "not-null"
  · subst h3; simp at hw hs; subst hw; simp [Spec.rel, hs]
  by_cases h4 : w = "empty"
  · subst h4; simp at hw hs; subst hw; simp [Spec.rel, ← hs]
  · simp [h1, h2, h3, h4] at hs

/-- the excluded case is a genuine difference: `value: present` on `k: ""` -/
example : Spec.word "present" (.atom (.str [])) = some true ∧
    denoteTemplate "present({0})".toList (.atom (.str [])) (.atom .null) = some false := by decide

/-! ### string literals -/

/-- "every string taken from the policy appears as a CEL literal that evaluates back to exactly that
string": for ALL strings `s`, the text `q(s)` is one STRING_LIT token and `celstr` of it is `s`. -/
theorem q_roundtrip (s : Str) : evalLiteral (qd s) = some s := evalLiteral_qd s

/-- the literal ends where `q` ended it, whatever text follows (quotes and backslashes inside `s`
cannot close it early or swallow the rest) -/
theorem q_lexes (s rest : Str) : lexString (qd s ++ rest) = some (qd s, rest) := lexString_qd s rest

/-- the same for the other quote `q` can be asked to use, and stated on the escape data regenerated
from the source of `q` (`escapes` dict + control-character test): decoding undoes it. -/
theorem q_roundtrip_source (qc : Char) (hq : qc = '"' ∨ qc = '\'') (s : Str) :
    decodeBody (s.flatMap (genEscChar qc)) = some s := by
  have : s.flatMap (genEscChar qc) = qBody qc s := by
    unfold qBody; congr 1; funext c; exact q_bridge qc c
  rw [this]; exact decodeBody_qBody qc hq s

example : qd ['a', '\\', 'b'] = ['"', 'a', '\\', '\\', 'b', '"'] := by decide
example : qd ['a', '\n', '"'] = ['"', 'a', '\\', 'n', '\\', '"', '"'] := by decide
/-- regression (D23): the old rendering `"a\b"` of `a\b` decodes to something else -/
example : evalLiteral ['"', 'a', '\\', 'b', '"'] ≠ some ['a', '\\', 'b'] := by decide

/-- keys and tag names: the text `key_to_cel` emits is built from `q` literals of exactly the parts of
the key — the tag name after `tag:` (dots included), the segments of a dotted path, or the whole key —
each of which evaluates back to that part, and the parts recompose the key. -/
theorem key_literal_roundtrip (ctx k : Str) :
    ((lit "tag:").isPrefixOf k = true →
      keyToCelPlain ctx k = ctx ++ lit "[\"Tags\"].filter(x, x[\"Key\"] == " ++ qd (k.drop 4) ++ lit ")[0][\"Value\"]"
      ∧ evalLiteral (qd (k.drop 4)) = some (k.drop 4) ∧ lit "tag:" ++ k.drop 4 = k) ∧
    ((lit "tag:").isPrefixOf k = false → k.contains '.' = true →
      keyToCelPlain ctx k = (splitOn '.' k).foldl (fun acc n => acc ++ ['['] ++ qd n ++ [']']) ctx
      ∧ (∀ n ∈ splitOn '.' k, evalLiteral (qd n) = some n) ∧ joinWith ['.'] (splitOn '.' k) = k) ∧
    ((lit "tag:").isPrefixOf k = false → k.contains '.' = false →
      keyToCelPlain ctx k = ctx ++ ['['] ++ qd k ++ [']'] ∧ evalLiteral (qd k) = some k) := by
  refine ⟨fun h => ⟨by simp [keyToCelPlain, h], q_roundtrip _, ?_⟩,
          fun h hd => ⟨by simp only [keyToCelPlain, h, hd, Bool.false_eq_true, if_false, if_true], fun n _ => q_roundtrip n, join_splitOn '.' k⟩,
          fun h hd => ⟨by simp only [keyToCelPlain, h, hd, Bool.false_eq_true, if_false], q_roundtrip k⟩⟩
  have hp : lit "tag:" <+: k := List.isPrefixOf_iff_prefix.1 h
  have h4 : (lit "tag:").length = 4 := by decide
  have := List.prefix_iff_eq_append.1 hp
  rw [h4] at this
  exact this

/-! ### durations -/

/-- "second counts become duration literals denoting the same length of time": for ALL `n`
(including 0) the literal `seconds_to_duration(n)` evaluates to a text that `DurationType` reads as
exactly `n` seconds — or rejects, when `n` exceeds the range a CEL duration can hold. -/
theorem seconds_duration (n : Nat) :
    (evalLiteral (secondsToDuration n)).map durOf =
      some (if n ≤ durMaxSeconds then .ok n else .error) := by
  simp [secondsToDuration, evalLiteral_qd, durOf_secondsText]

/-- day counts: `age_to_duration(d)` denotes `d * 86400` seconds -/
theorem age_duration (d : Nat) :
    (evalLiteral (ageToDuration d)).map durOf =
      some (if d * 86400 ≤ durMaxSeconds then .ok (d * 86400) else .error) := by
  simp [ageToDuration, seconds_duration]

/-- the loop's units and the zero case are the ones read from the source -/
theorem duration_data_from_source :
    XlateTables.durationUnits = durationUnits ∧ XlateTables.zeroDuration.toList = secondsText 0 ∧
    XlateTables.secondsPerDay = 86400 := by
  refine ⟨units_bridge, ?_, consts_bridge.2.1⟩
  rw [consts_bridge.1]; decide

example : secondsText 0 = ['0', 's'] ∧ durOf (secondsText 0) = .ok 0 := by decide
example : secondsText 90061 = ['1', 'd', '1', 'h', '1', 'm', '1', 's'] := by decide
/-- regression (D23): the empty text `age: 0` used to produce is not a duration -/
example : durOf [] = .error := by decide

/-! ### value_type transforms and the whole clause -/

/-- for every value type the property names (size, integer, normalize, swap, unique_size, age,
expiration) the regenerated `type_value_map` lambda turns the two holes of the operator template into
Custodian's `process_value_type` operands — for all resource values, policy values and instants. -/
theorem value_type_correct (P : Prims) (now : Int) (n : String) (hn : n ∈ vtNames) (e : TVExpr × TVExpr)
    (he : lookup XlateTables.typeValueMap n = some e) (r v : Val) (p : Val × Val)
    (hs : Spec.operands P now n r v = some p) :
    denoteOperands P now e r v = some p := by
  have hc := List.all_eq_true.1 vt_table_check n hn
  simp only [vtEntryOk, he] at hc
  simp only [vtNames, List.mem_cons, List.mem_nil_iff, or_false] at hn
  rcases hn with h | h | h | h | h | h | h <;> subst h <;> simp only [vtShape] at hc <;>
    simp only [Bool.and_eq_true, beq_iff_eq] at hc <;> obtain ⟨h1, h2⟩ := hc <;>
    simp only [denoteOperands, h1, h2, Xf.apply] <;> simp only [Spec.operands] at hs
  · simp at hs; obtain ⟨a, ha, rfl⟩ := hs; simp [ha]
  · simp at hs; obtain ⟨a, ha, rfl⟩ := hs; simp [ha]
  · simp at hs; obtain ⟨a, ha, rfl⟩ := hs; simp [ha]
  · simp at hs; simp [hs]
  · simp at hs; obtain ⟨a, ha, rfl⟩ := hs; simp [ha]
  · cases hd : Spec.daysOf v with
    | none => simp [hd] at hs
    | some d =>
      cases ht : P.timestamp r with
      | none => simp [hd, ht] at hs
      | some t => simp [hd, ht] at hs; subst hs; simp [ageSeconds_of_days v d hd]
  · cases hd : Spec.daysOf v with
    | none => simp [hd] at hs
    | some d =>
      cases ht : P.timestamp r with
      | none => simp [hd, ht] at hs
      | some t => simp [hd, ht] at hs; subst hs; simp [ageSeconds_of_days v d hd]

theorem value_types_present : ∀ n ∈ vtNames, (lookup XlateTables.typeValueMap n).isSome = true := by decide

/-- "evaluating it on any resource gives the same match decision as applying that relation directly":
op × value_type, every table entry, all operands. `r'`, `v'` are what Custodian compares. -/
theorem value_clause_decision (P : Prims) (now : Int)
    (p : String × String) (hp : p ∈ XlateTables.atomicOpMap) (o : Op) (ho : Op.ofName p.1 = some o)
    (n : String) (hn : n ∈ vtNames) (e : TVExpr × TVExpr) (he : lookup XlateTables.typeValueMap n = some e)
    (r v r' v' : Val) (hs : Spec.operands P now n r v = some (r', v')) :
    (denoteOperands P now e r v).bind (fun a => denoteTemplate p.2.toList a.1 a.2) = Spec.rel o r' v' := by
  rw [value_type_correct P now n hn e he r v (r', v') hs]
  exact op_table_correct p hp o ho r' v'

/-- the text of an ordinary string-valued clause is the op's template with the key and the `q`
literal of the value pasted in (and that literal evaluates back to the value: `q_roundtrip`) -/
theorem value_clause_text (key : Str) (op : String) (tmpl : String) (s : Str)
    (hb : s ≠ lit "true" ∧ s ≠ lit "false")
    (ht : lookup XlateTables.atomicOpMap op = some tmpl) :
    valueToCel XlateTables.atomicOpMap XlateTables.typeValueMap key op (.str s) none
      = .ok (format2 tmpl.toList key (qd s)) := by
  simp [valueToCel, hb.1, hb.2, ht, PV.celText]

/-- with a value type: the two transform texts, rendered from the literal, the key, `now` and the age
duration, are pasted into the op's template — new key into `{0}`, new cel_value into `{1}` -/
theorem value_clause_text_vt (key : Str) (op vt : String) (tmpl : String) (e : TVExpr × TVExpr) (n : Int)
    (hr : (op = "in" ∨ op = "ni" ∨ op = "not-in") → vt = "swap")
    (hs : vt = "swap" → ¬ (op = "glob" ∨ op = "regex" ∨ op = "contains" ∨ op = "difference" ∨ op = "intersect"))
    (ht : lookup XlateTables.atomicOpMap op = some tmpl) (he : lookup XlateTables.typeValueMap vt = some e) :
    valueToCel XlateTables.atomicOpMap XlateTables.typeValueMap key op (.int n) (some vt)
      = .ok (format2 tmpl.toList
          (e.2.render (intDigits n) key (lit "now") (ageToDuration n.toNat))
          (e.1.render (intDigits n) key (lit "now") (ageToDuration n.toNat))) := by
  by_cases hsw : vt = "swap"
  · have h2 := hs hsw
    simp only [not_or] at h2
    subst hsw
    simp [valueToCel, h2.1, h2.2.1, h2.2.2.1, h2.2.2.2.1, h2.2.2.2.2, ht, he, PV.celText]
  · have h3 : ¬ (op = "in" ∨ op = "ni" ∨ op = "not-in") := fun h => hsw (hr h)
    simp only [not_or] at h3
    simp [valueToCel, hsw, h3.1, h3.2.1, h3.2.2, ht, he, PV.celText]

/-! ### list values (round 2) -/

/-- "every string taken from the policy (values …) appears as a CEL literal that evaluates back to exactly
that string", for the elements of a LIST value, which `value_to_cel` writes with Python's `repr` (either
quote; `\xNN`, `\uNNNN`, `\UNNNNNNNN` for whatever `str.isprintable` rejects — `np`, any set of characters).
Full statement: the text `repr(s)` lexes as exactly one STRING_LIT token and `celstr` of it is `s`.
Proved part: `celstr (repr s) = s` for ALL strings and ALL `np` (the quote chosen is one of the two CEL
quotes, and decoding undoes every escape `repr` writes). Missing: the lexing half for the single-quoted
branch of the STRING_LIT regex (compared with the real parser on every emitted list by the `emit` and
`clause` streams). A rendering that writes an astral character as two `\uXXXX` surrogate escapes
(seeded change C19-m5) is not this `pyRepr`: the `emit` correspondence breaks on it. -/
theorem list_literal_decodes_partial (np : List Char) (s : Str) : celstr (pyRepr np s) = some s := by
  have hq : GoodQuote (pyReprQuote s) := by
    unfold pyReprQuote GoodQuote; split <;> simp
  simp only [celstr, pyRepr, List.drop_one, List.tail_cons, dropLast_snoc]
  exact decodeBody_pyReprBody np _ hq s

/-- the text of a list-valued clause: the op's template with the key and the bracketed, comma-separated
`repr` literals of the elements pasted in -/
theorem value_clause_text_list (key : Str) (op : String) (tmpl : String) (np : List Char) (xs : List Str)
    (ht : lookup XlateTables.atomicOpMap op = some tmpl) :
    valueToCel XlateTables.atomicOpMap XlateTables.typeValueMap key op (.strsU np xs) none
      = .ok (format2 tmpl.toList key (['['] ++ joinWith [',', ' '] (xs.map (pyRepr np)) ++ [']'])) := by
  simp [valueToCel, ht, PV.celText]

example : pyRepr [] (lit "it's") = lit "\"it's\"" ∧ pyRepr [] (lit "a\"b'") = lit "'a\"b\\''" ∧
    pyRepr ['\u0085'] ['\u0085', 'é'] = lit "'\\x85é'" ∧
    pyRepr [Char.ofNat 0xE0001] [Char.ofNat 0xE0001] = lit "'\\U000e0001'" := by decide
/-- regression (C19-m5): the two-surrogate spelling of an astral character does not decode to it -/
example : celstr (lit "\"\\ud83d\\ude80\"") ≠ some [Char.ofNat 0x1F680] := by decide

/-! ### resource tables -/

/-- "every resource type listed in the translator's tables yields syntactically valid CEL": every
entry of the six regenerated tables — bare, and inside the smallest clause its rewriter builds around
it — lexes to a token string that the grammar model's parser accepts (`Cel.Grammar.parse ts = some e`;
by `Cel.Props.C06.parse_sound` that is a derivation `Derives expr ts [toTree e]` of cel.lark's `expr`).
The text-level lexer `XlateCel.lexCel` is this property's own model of lark's lexer on these texts
(corresponded on every entry and on perturbed entries); the clauses for other filter shapes are
parsed by the real parser on every run. `glacier` (cross-account) is excluded: known finding
`glacier_pinned`. -/
theorem tables_are_cel (table : String) (t : List (String × Str))
    (ht : (table, t) ∈ [("age", XlateTables.ageAttr), ("security-group", XlateTables.sgAttr),
      ("vpc", XlateTables.vpcAttr), ("kms-key", XlateTables.kmsAttr),
      ("cross-account", XlateTables.crossAccount.filter (fun p => p.1 != "glacier")),
      ("used", XlateTables.used), ("unused", XlateTables.used)]) :
    ∀ p ∈ t, ∀ text ∈ [p.2, XlateCel.wrap table p.2],
      ∃ ts e, XlateCel.lexCel text = some ts ∧ Cel.Grammar.parse ts = some e := by
  have key : XlateCel.tableIsCel table t = true := by
    have h := tables_cel_check
    simp only [List.mem_cons, Prod.mk.injEq, List.mem_nil_iff, or_false] at ht
    rcases ht with ⟨rfl, rfl⟩ | ⟨rfl, rfl⟩ | ⟨rfl, rfl⟩ | ⟨rfl, rfl⟩ | ⟨rfl, rfl⟩ | ⟨rfl, rfl⟩ | ⟨rfl, rfl⟩
    · exact h.1
    · exact h.2.1
    · exact h.2.2.1
    · exact h.2.2.2.1
    · exact h.2.2.2.2.1
    · exact h.2.2.2.2.2.1
    · exact h.2.2.2.2.2.2
  intro p hp text htext
  have hp' := List.all_eq_true.1 key p hp
  simp only [Bool.and_eq_true] at hp'
  have hc : XlateCel.isCel text = true := by
    simp only [List.mem_cons, List.mem_nil_iff, or_false] at htext
    rcases htext with rfl | rfl
    · exact hp'.1
    · exact hp'.2
  unfold XlateCel.isCel at hc
  cases hl : XlateCel.lexCel text with
  | none => simp [hl] at hc
  | some ts =>
    cases hpz : Cel.Grammar.parse ts with
    | none => simp [hl, hpz] at hc
    | some e => exact ⟨ts, e, rfl, hpz⟩

/-- delimiter balance of every entry, independently of the grammar model -/
theorem tables_balanced_all :
    allBalanced XlateTables.ageAttr = true ∧ allBalanced XlateTables.sgAttr = true ∧
    allBalanced XlateTables.vpcAttr = true ∧ allBalanced XlateTables.kmsAttr = true ∧
    allBalanced (XlateTables.crossAccount.filter (fun p => p.1 != "glacier")) = true ∧
    allBalanced XlateTables.used = true := tables_balanced

/-- the excluded entry really is unbalanced and not CEL (the finding is not vacuous) -/
example : (XlateTables.crossAccount.filter (fun p => p.1 == "glacier")).all
    (fun p => !balanced p.2 && !XlateCel.isCel p.2 && !XlateCel.isCel (XlateCel.wrap "cross-account" p.2)) = true := by
  decide +kernel
/-- regression (D23): the entries the tables used to have are rejected -/
example : XlateCel.isCel (lit "resource.SecurityGroups.map(sg, sg..SecurityGroupIdentifier.security_group())") = false ∧
    XlateCel.isCel (lit "resource.BrokerNodeGroupInfo.SecurityGroups[.map(sg, sg.security_group())") = false ∧
    XlateCel.isCel (lit "(resource[\"GroupId\"] in all_scan_groups() && has(resource.VpcId)") = false := by
  decide +kernel

end Cel.Props.C19
