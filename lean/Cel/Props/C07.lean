/-
  C07 — Literals denote the values they spell.

  Property theorems only.  Subject: `Cel.Str.celstr`, `celbytes` (the model of evaluation.py `celstr()`,
  `celbytes()` — prefix/quote slicing, `CEL_ESCAPES_PAT.finditer`, `expand`), `intOfLit`/`uintOfLit`
  (`IntType(text)`, `UintType(text)` as `Evaluator.literal` calls them) and `transpiledInt`/`transpiledUint`
  (the text `Phase1Transpiler.literal` pastes, evaluated by Python's own lexical rules).  The pattern
  source, its DOTALL flag, the `CEL_ESCAPES` table and the lark terminal sources the model was written for
  are re-extracted from /repo on every run and compared in `Cel.Bridge.Str`.

  Specification side: `spelled` / `spelledBytes` (the CEL escape grammar, a recursive-descent reference
  decoder that shares nothing with the regex tokeniser), `encodeLit` / `encodeBytesLit` (reference
  encoders), `decVal` / `hexStrVal` (positional value of a digit string).

  Quantifiers: every theorem below is for ALL bodies / strings / byte strings / digit strings (lists of
  arbitrary length), every quote kind and every letter case of the prefixes.

  Delegated (stated in notes/C07.md): that lark's lexer cuts the token the grammar's terminal regex
  describes (Python `re` backtracking), Python `float()` on FLOAT_LIT text, `eval(repr(x)) == x` for the
  str/bytes value pasted by the transpiler.
-/
import Cel.Lemmas.Str
import Cel.Lemmas.Lex
namespace Cel.Props.C07
open Cel Cel.Str Cel.Lex

/-- "Every CEL string literal form (single, double or triple quoted …, with the escapes …) evaluates to
exactly the spelled sequence of code points": for every cooked style (4 quote kinds) and EVERY body
that is a CEL string body (`spelled body = some s`: every backslash starts one of the listed escapes),
`celstr` of the token returns exactly `s`.  `headOk`: a short literal's body does not start with its
own quote character (which the lexer never produces). -/
theorem celstr_eq_spelled (st : Style) (hraw : st.raw = false) (body s : Text)
    (hq : headOk st.quote body) (h : spelled body = some s) :
    celstr (wrapStr st body) = .ok s := by
  unfold celstr
  rw [celstr_wrap_cooked true st hraw body hq]
  exact tokens_decode_str _ _ _ h

/-- raw string forms (`r'…'`, `R"""…"""`, …): the value is the body, verbatim, for EVERY body -/
theorem celstr_raw (st : Style) (hraw : st.raw = true) (body : Text) (hq : headOk st.quote body) :
    celstr (wrapStr st body) = .ok body :=
  celstr_wrap_raw true st hraw body hq

/-- "every bytes literal [evaluates] to the spelled octets (UTF-8 for unescaped characters)" -/
theorem celbytes_eq_spelled (st : Style) (hraw : st.raw = false) (body : Text) (b : Bytes)
    (hq : headOk st.quote body) (h : spelledBytes body = some b) :
    celbytes (wrapBytes st body) = .ok b := by
  unfold celbytes
  rw [celbytes_wrap_cooked true st hraw body hq]
  obtain ⟨h1, h2⟩ := tokens_decode_bytes _ _ _ h
  unfold tokens
  rw [h1]
  simp [bind, Except.bind, pyBytes, h2]

/-- raw bytes forms: the UTF-8 encoding of the body, for EVERY body -/
theorem celbytes_raw (st : Style) (hraw : st.raw = true) (body : Text) (hq : headOk st.quote body) :
    celbytes (wrapBytes st body) = utf8Encode body :=
  celbytes_wrap_raw true st hraw body hq

/-- "Consequently, encoding any string … as a literal and evaluating it returns the original":
for ALL code point sequences `s` and each of the 4 quote kinds (× prefix letter cases). -/
theorem literal_roundtrip (st : Style) (s : Text) : celstr (encodeLit st s) = .ok s := by
  unfold encodeLit
  exact celstr_eq_spelled _ rfl _ _ (headOk_encodeBody _ _) (spelledFuel_encodeBody _ _ _ (Nat.le_refl _))

/-- same through the raw forms, for every string such a form can hold -/
theorem literal_roundtrip_raw (st : Style) (hraw : st.raw = true) (s : Text) (h : rawEncodable st.quote s = true) :
    celstr (wrapStr st s) = .ok s := by
  apply celstr_raw st hraw
  intro _
  simp only [rawEncodable, Bool.and_eq_true, Bool.not_eq_true'] at h
  cases s with
  | nil => simp
  | cons c cs =>
    have := h.1.1
    simp at this
    simp; exact fun e => this.1 e.symm

/-- "… encoding any … byte string as a literal and evaluating it returns the original": ALL byte strings -/
theorem bytes_roundtrip (st : Style) (b : List UInt8) :
    celbytes (encodeBytesLit st (b.map UInt8.toNat)) = .ok (b.map UInt8.toNat) := by
  unfold encodeBytesLit
  have hb : (b.map UInt8.toNat).all (· < 256) = true := by
    simp only [List.all_map, List.all_eq_true]
    intro x _
    simpa using x.toNat_lt
  exact celbytes_eq_spelled _ rfl _ _ (headOk_encodeBytesBody _ _) (spelledBytesFuel_encode _ _ hb (Nat.le_refl _))


/-! #### D14 as a model-level counterexample: without DOTALL the property fails -/

/-- with the pattern compiled without `re.DOTALL` (the code before fix b53577f) the line feed of
`'''a⏎b'''` is lost: the bridge `Cel.Bridge.escapes_pat_dotall` is what excludes this -/
example : celstrWith false [39, 39, 39, 97, 10, 98, 39, 39, 39] = .ok [97, 98] := by rfl
example : celstrWith true [39, 39, 39, 97, 10, 98, 39, 39, 39] = .ok [97, 10, 98] := by rfl

/-! #### non-vacuity: bodies using every escape form are CEL bodies (`spelled … = some …`) -/

/-- `s\x74\162\u0069\U0000006eg\n` spells "string⏎" (the repo's own test literal) -/
example : spelled [115, 92, 120, 55, 52, 92, 49, 54, 50, 92, 117, 48, 48, 54, 57, 92, 85, 48, 48, 48, 48, 48, 48, 54, 101, 103, 92, 110]
    = some [115, 116, 114, 105, 110, 103, 10] := by decide
/-- `\U0001F431` is one non-BMP code point; `\377` is U+00FF in a string and the octet ff in bytes -/
example : spelled [92, 85, 48, 48, 48, 49, 70, 52, 51, 49, 92, 51, 55, 55] = some [0x1F431, 255] := by decide
example : spelledBytes [233, 92, 51, 55, 55, 92, 120, 70, 102] = some [0xC3, 0xA9, 255, 255] := by decide
/-- not CEL bodies: a lone backslash, `\400`, `\x4`, a surrogate escape, `\U00110000` -/
example : spelled [97, 92] = none ∧ spelled [92, 52, 48, 48] = none ∧ spelled [92, 120, 52] = none ∧
    spelled [92, 117, 100, 56, 48, 48] = none ∧ spelled [92, 85, 48, 48, 49, 49, 48, 48, 48, 48] = none := by decide

/-! #### integer literals -/

/-- "decimal … int … literals [evaluate] to the spelled number, out-of-range integers being evaluation
errors rather than wrapped values": for EVERY decimal digit string (any number of leading zeros, up to
CPython's 4300-digit limit for `int(str)`) with optional sign, `IntType(text)` is the positional value
when it is in int64 and `ValueError` (→ CELEvalError in `Evaluator.literal`) otherwise. -/
theorem int_literal_dec (neg : Bool) (ds : Text) (h1 : ds ≠ []) (h2 : ds.all isDigit = true)
    (h3 : ds.length ≤ maxDigits) :
    intOfLit (signText neg ++ ds) =
      if i64 (signed neg (decVal ds)) then .ok (signed neg (decVal ds)) else .error .valueError := by
  rw [intOfLit_dec neg ds h1 h2 h3, int64_eq]

/-- the same for hexadecimal spellings `-?0x[0-9a-fA-F]+` (either letter case, leading zeros, no length limit) -/
theorem int_literal_hex (neg : Bool) (ds : Text) (h1 : ds ≠ []) (h2 : ds.all isHex = true) :
    intOfLit (signText neg ++ [48, 120] ++ ds) =
      if i64 (signed neg (hexStrVal ds)) then .ok (signed neg (hexStrVal ds)) else .error .valueError := by
  rw [intOfLit_hex neg ds h1 h2, int64_eq]

/-- `u`-suffixed literals (the suffix is cut off by `Evaluator.literal`): decimal -/
theorem uint_literal_dec (ds : Text) (h1 : ds ≠ []) (h2 : ds.all isDigit = true) (h3 : ds.length ≤ maxDigits) :
    uintOfLit ds = if u64 (decVal ds) then .ok (decVal ds : Int) else .error .valueError := by
  rw [uintOfLit_dec ds h1 h2 h3, uint64_eq]

/-- `u`-suffixed literals: hexadecimal -/
theorem uint_literal_hex (ds : Text) (h1 : ds ≠ []) (h2 : ds.all isHex = true) :
    uintOfLit ([48, 120] ++ ds) = if u64 (hexStrVal ds) then .ok (hexStrVal ds : Int) else .error .valueError := by
  rw [uintOfLit_hex ds h1 h2, uint64_eq]

/-- a signed `u` literal `-N u` is an error unless N = 0 (never a wrapped value) -/
theorem uint_literal_neg (ds : Text) (h1 : ds ≠ []) (h2 : ds.all isDigit = true) (h3 : ds.length ≤ maxDigits) :
    uintOfLit (45 :: ds) = if decVal ds = 0 then .ok 0 else .error .valueError := by
  rw [uintOfLit_neg_dec ds h1 h2 h3]
  unfold uint64
  by_cases h : decVal ds = 0
  · simp [h]
  · have : ¬ ((0:Int) ≤ -(decVal ds : Int) ∧ -(decVal ds : Int) < (2:Int)^64) := by omega
    rw [if_neg this, if_neg h]

/-- "all int64 … values in decimal and hex spelling": every int64 value HAS such spellings, and the
interpreter reads each of them back as the value (`int_literal_range` is the `else` branch above). -/
theorem int_literal (z : Int) (h : i64 z) :
    intOfLit (signText (decide (z < 0)) ++ decDigits z.natAbs) = .ok z ∧
    intOfLit (signText (decide (z < 0)) ++ [48, 120] ++ hexDigits z.natAbs) = .ok z := by
  unfold i64 at h
  have hn : z.natAbs < 10 ^ 20 := by omega
  have hn' : z.natAbs < 16 ^ 16 := by omega
  obtain ⟨d1, d2, d3, d4⟩ := decDigits_spec _ hn
  obtain ⟨x1, x2, x3⟩ := hexDigits_spec _ hn'
  have hz : signed (decide (z < 0)) z.natAbs = z := by
    unfold signed; by_cases hneg : z < 0 <;> simp [hneg] <;> omega
  have hi : i64 z := h
  constructor
  · rw [int_literal_dec _ _ d1 d2 d3, d4, hz, if_pos hi]
  · rw [int_literal_hex _ _ x1 x2, x3, hz, if_pos hi]

/-- every uint64 value, decimal and hex -/
theorem uint_literal (n : Nat) (h : u64 n) :
    uintOfLit (decDigits n) = .ok (n : Int) ∧ uintOfLit ([48, 120] ++ hexDigits n) = .ok (n : Int) := by
  have h' := h
  unfold u64 at h
  have hn : n < 10 ^ 20 := by omega
  have hn' : n < 16 ^ 16 := by omega
  obtain ⟨d1, d2, d3, d4⟩ := decDigits_spec _ hn
  obtain ⟨x1, x2, x3⟩ := hexDigits_spec _ hn'
  constructor
  · rw [uint_literal_dec _ d1 d2 d3, d4, if_pos h']
  · rw [uint_literal_hex _ x1 x2, x3, if_pos h']

/-- out-of-range spellings are errors, never wrapped: the first integer above int64 -/
example : intOfLit (decDigits (2 ^ 63)) = .error .valueError := by
  have := decDigits_spec (2 ^ 63) (by decide)
  have e := int_literal_dec false _ this.1 this.2.1 this.2.2.1
  simp only [signText, Bool.false_eq_true, if_false, List.nil_append] at e
  rw [e, this.2.2.2]; rfl

/-! #### both runners: the compiled runner evaluates the same number -/

/-- "both runners", integers: the text pasted by `Phase1Transpiler.literal` (`python_int_text`), read by
Python's source-literal rules, gives the same outcome as the interpreter's `IntType(text)` — for EVERY
decimal spelling (leading zeros included: before fix f4d4775 `pyIntLiteral` was applied to the raw
text and gave `SyntaxError`, see the `example` below) … -/
theorem transpiled_int_dec (neg : Bool) (ds : Text) (h1 : ds ≠ []) (h2 : ds.all isDigit = true)
    (h3 : ds.length ≤ maxDigits) :
    transpiledInt (signText neg ++ ds) = intOfLit (signText neg ++ ds) := by
  obtain ⟨z1, z2, z3, _, z5, z6⟩ := dropZeros_spec ds h2
  apply transpiledInt_eq
  rw [normIntText_dec neg ds h1 h2,
    pyIntLiteral_dec neg _ z1 z2 z3 (Nat.le_trans (z5 h1) h3), z6, intOfLit_dec neg ds h1 h2 h3]
  rfl

/-- … and EVERY hexadecimal spelling -/
theorem transpiled_int_hex (neg : Bool) (ds : Text) (h1 : ds ≠ []) (h2 : ds.all isHex = true) :
    transpiledInt (signText neg ++ [48, 120] ++ ds) = intOfLit (signText neg ++ [48, 120] ++ ds) := by
  apply transpiledInt_eq
  rw [normIntText_hex, pyIntLiteral_hex neg ds h1 h2, intOfLit_hex neg ds h1 h2]
  rfl

theorem transpiled_uint_dec (ds : Text) (h1 : ds ≠ []) (h2 : ds.all isDigit = true) (h3 : ds.length ≤ maxDigits) :
    transpiledUint ds = uintOfLit ds := by
  apply transpiledUint_eq
  rw [pasted_uint_dec ds h1 h2 h3, uintOfLit_dec ds h1 h2 h3]

theorem transpiled_uint_hex (ds : Text) (h1 : ds ≠ []) (h2 : ds.all isHex = true) :
    transpiledUint ([48, 120] ++ ds) = uintOfLit ([48, 120] ++ ds) := by
  apply transpiledUint_eq
  rw [pasted_uint_hex ds h1 h2, uintOfLit_hex ds h1 h2]

/-- why the normalisation is needed: the raw text `007` is not a Python literal -/
example : pyIntLiteral [48, 48, 55] = .error .syntaxError ∧ pyIntLiteral (normIntText [48, 48, 55]) = .ok 7 := by
  constructor <;> rfl

/-- formerly a recorded runner difference: `-0x0u` is an error in the interpreter (`int("-0x0")`) and was
`0u` in the compiled runner; since /repo 50c913c the transpiler converts the token like the interpreter
first, so both runners report the error -/
example : uintOfLit [45, 48, 120, 48] = .error .valueError ∧ transpiledUint [45, 48, 120, 48] = .error .valueError := by
  constructor <;> rfl

/-! #### "UTF-8 for unescaped characters" -/

/-- the octets `utf8Encode` gives (what `celbytes` yields for unescaped characters and raw bodies, and
what `spelledBytes` specifies) are UTF-8: the strict decoder reads every encodable text back, for ALL texts -/
theorem utf8_decode_encode (s : Text) (b : Bytes) (h : utf8Encode s = .ok b) : utf8Decode b = .ok s :=
  utf8_roundtrip s b h

/-- … and exactly the texts without lone surrogates are encodable -/
theorem utf8_encodable (s : Text) (h : s.all isScalar = true) : ∃ b, utf8Encode s = .ok b := by
  induction s with
  | nil => exact ⟨[], rfl⟩
  | cons c cs ih =>
    simp only [List.all_cons, Bool.and_eq_true] at h
    obtain ⟨b, hb⟩ := ih h.2
    have hc : ∃ bc, utf8Cp c = .ok bc := by
      have := h.1
      simp only [isScalar, isCp, Bool.and_eq_true, decide_eq_true_eq, Bool.not_eq_true'] at this
      unfold utf8Cp
      by_cases h1 : c < 0x80
      · exact ⟨[c], by simp [h1]⟩
      · by_cases h2 : c < 0x800
        · exact ⟨[0xC0 + c / 64, 0x80 + c % 64], by simp [h1, h2]⟩
        · by_cases h3 : c < 0x10000
          · exact ⟨[0xE0 + c / 4096, 0x80 + c / 64 % 64, 0x80 + c % 64], by simp [h1, h2, h3, this.2]⟩
          · exact ⟨[0xF0 + c / 262144, 0x80 + c / 4096 % 64, 0x80 + c / 64 % 64, 0x80 + c % 64], by simp [h1, h2, h3, this.1]⟩
    obtain ⟨bc, hbc⟩ := hc
    exact ⟨bc ++ b, by simp [utf8Encode, hbc, hb, bind, Except.bind, pure, Except.pure]⟩

/-! #### any mixture of spellings -/

/-- "with the escapes \\a … \\ooo … evaluates to exactly the spelled sequence of code points", constructively:
for EVERY sequence of pieces, each spelled in any listed form (the character itself, `\\e`, `\\xHH`, `\\uHHHH`,
`\\UHHHHHHHH`, `\\ooo`, with valid digits), the literal evaluates to the list of the pieces' values — so
`spelled` is defined on all such bodies and `celstr_eq_spelled` is not vacuous for any escape form. -/
theorem literal_any_spelling (st : Style) (hraw : st.raw = false) (ps : List Piece) (hv : ∀ p ∈ ps, p.valid)
    (hq : headOk st.quote (renderAll ps)) :
    celstr (wrapStr st (renderAll ps)) = .ok (ps.map Piece.value) :=
  celstr_eq_spelled st hraw _ _ hq (spelled_renderAll ps _ hv (Nat.le_refl _))

/-! #### the lexer step (round 2): the terminal's regular expression cuts the whole spelled literal -/

/-- the lexer step for "decimal … int … literals": Python's `re`, applying the regular expression lark compiles for
INT_LIT (`Cel.Lex.intLit`, regenerated from cel.lark — `Cel.Bridge.lex_terminals`) at the start of the text, matches the WHOLE
spelling, for EVERY digit string with optional sign (so the token handed to `IntType()` is the spelled text, not a prefix). -/
theorem lex_int_dec (neg : Bool) (ds : Text) (h1 : ds ≠ []) (h2 : ds.all isDigit = true) :
    lexLen intLit (signText neg ++ ds) = some (signText neg ++ ds).length := by
  have := run_intLit_dec neg ds [] (fun rest => some ((signText neg ++ ds).length - rest.length)) _ h1 h2 (by simp) rfl
  simpa [lexLen] using this

/-- … and every hexadecimal spelling (`0x` + hex digits of either letter case) -/
theorem lex_int_hex (neg : Bool) (ds : Text) (h1 : ds ≠ []) (h2 : ds.all isHex = true) :
    lexLen intLit (signText neg ++ [48, 120] ++ ds) = some (signText neg ++ [48, 120] ++ ds).length := by
  have := run_intLit_hex neg ds [] (fun rest => some ((signText neg ++ [48, 120] ++ ds).length - rest.length)) _ h1 h2 (by simp) rfl
  simpa [lexLen] using this

/-- UINT_LIT = INT_LIT `[uU]`: every decimal spelling with either suffix letter is matched whole -/
theorem lex_uint_dec (neg : Bool) (ds : Text) (u : Nat) (hu : u = 117 ∨ u = 85) (h1 : ds ≠ []) (h2 : ds.all isDigit = true) :
    lexLen uintLit (signText neg ++ ds ++ [u]) = some (signText neg ++ ds ++ [u]).length := by
  unfold lexLen uintLit
  simp only [seqs, run_seq]
  apply run_intLit_dec neg ds [u] _ _ h1 h2
  · intro x hx
    simp at hx; subst hx
    rcases hu with rfl | rfl <;> decide
  · simp [uU_mem u hu]

/-- … and every hexadecimal `u` spelling -/
theorem lex_uint_hex (neg : Bool) (ds : Text) (u : Nat) (hu : u = 117 ∨ u = 85) (h1 : ds ≠ []) (h2 : ds.all isHex = true) :
    lexLen uintLit (signText neg ++ [48, 120] ++ ds ++ [u]) = some (signText neg ++ [48, 120] ++ ds ++ [u]).length := by
  unfold lexLen uintLit
  simp only [seqs, run_seq]
  apply run_intLit_hex neg ds [u] _ _ h1 h2
  · intro x hx
    simp at hx; subst hx
    rcases hu with rfl | rfl <;> decide
  · simp [uU_mem u hu]

/-- the lexer step of "encoding any string … as a literal and evaluating it returns the original": for ALL strings `s` and
every quote kind, the regular expression of the style's terminal (STRING_LIT for `'…'`/`"…"`, MLSTRING_LIT for the triple-quoted
forms) matches the whole encoded literal — the lazy body loop `(?:…|.)*?` walks through the encoded body without ever
backtracking and stops at the closing delimiter, never at an escaped quote inside. With `literal_roundtrip`:
encode ↦ one token ↦ `celstr` ↦ `s`. -/
theorem lex_string (st : Style) (s : Text) :
    lexLen (strTerminal st.quote) (encodeLit st s) = some (encodeLit st s).length := by
  obtain ⟨q, raw, uR, uB⟩ := st
  unfold lexLen
  cases q
  · have := run_stringLit_sq (encodeBody .sq s) (fun rest => some ((39 :: (encodeBody .sq s ++ [39])).length - rest.length)) _
      (walk_encodeBody itemSQ itemSQ_ok .sq s) rfl
    simpa [strTerminal, encodeLit, wrapStr, Style.rPrefix, Quote.text, Quote.triple, Quote.char] using this
  · have := run_stringLit_dq (encodeBody .dq s) (fun rest => some ((34 :: (encodeBody .dq s ++ [34])).length - rest.length)) _
      (walk_encodeBody itemDQ itemDQ_ok .dq s) rfl
    simpa [strTerminal, encodeLit, wrapStr, Style.rPrefix, Quote.text, Quote.triple, Quote.char] using this
  · have := run_mlstringLit_tsq (encodeBody .tsq s)
      (fun rest => some ((39 :: 39 :: 39 :: (encodeBody .tsq s ++ [39, 39, 39])).length - rest.length)) _
      (walk_encodeBody itemTSQ itemTSQ_ok .tsq s) rfl
    simpa [strTerminal, encodeLit, wrapStr, Style.rPrefix, Quote.text, Quote.triple, Quote.char] using this
  · have := run_mlstringLit_tdq (encodeBody .tdq s)
      (fun rest => some ((34 :: 34 :: 34 :: (encodeBody .tdq s ++ [34, 34, 34])).length - rest.length)) _
      (walk_encodeBody itemTDQ itemTDQ_ok .tdq s) rfl
    simpa [strTerminal, encodeLit, wrapStr, Style.rPrefix, Quote.text, Quote.triple, Quote.char] using this

/-- the same for ALL byte strings: BYTES_LIT (`[bB]` + MLSTRING_LIT, else `[bB]` + STRING_LIT — the triple-quoted alternative is
tried first and fails on a short-quoted literal) matches the whole encoded bytes literal. With `bytes_roundtrip`:
encode ↦ one token ↦ `celbytes` ↦ the octets. -/
theorem lex_bytes (st : Style) (b : List UInt8) :
    lexLen bytesLit (encodeBytesLit st (b.map UInt8.toNat)) = some (encodeBytesLit st (b.map UInt8.toNat)).length := by
  have hb : (b.map UInt8.toNat).all (· < 256) = true := by
    simp only [List.all_map, List.all_eq_true]
    intro x _
    simpa using x.toNat_lt
  generalize b.map UInt8.toNat = bs at hb ⊢
  obtain ⟨q, raw, uR, uB⟩ := st
  have hB : (if uB = true then 66 else 98) = 98 ∨ (if uB = true then 66 else 98) = 66 := by cases uB <;> simp
  unfold lexLen
  cases q
  · have hw := walk_encodeBytesBody itemSQ itemSQ_ok 39 (Or.inr rfl) bs hb
    have hh := headOk_encodeBytesBody .sq bs rfl
    have h1 := fun k => run_mlstringLit_short 39 (Or.inr rfl) (encodeBytesBody bs) k hh
    have h2 := run_stringLit_sq (encodeBytesBody bs)
      (fun rest => some (((if uB = true then 66 else 98) :: 39 :: (encodeBytesBody bs ++ [39])).length - rest.length)) _ hw rfl
    have := run_bytesLit _ hB (39 :: (encodeBytesBody bs ++ [39]))
      (fun rest => some (((if uB = true then 66 else 98) :: 39 :: (encodeBytesBody bs ++ [39])).length - rest.length))
    rw [h1, orElse_none, h2] at this
    simpa [encodeBytesLit, wrapBytes, Style.rPrefix, Style.bPrefix, Quote.text, Quote.triple, Quote.char] using this
  · have hw := walk_encodeBytesBody itemDQ itemDQ_ok 34 (Or.inl rfl) bs hb
    have hh := headOk_encodeBytesBody .dq bs rfl
    have h1 := fun k => run_mlstringLit_short 34 (Or.inl rfl) (encodeBytesBody bs) k hh
    have h2 := run_stringLit_dq (encodeBytesBody bs)
      (fun rest => some (((if uB = true then 66 else 98) :: 34 :: (encodeBytesBody bs ++ [34])).length - rest.length)) _ hw rfl
    have := run_bytesLit _ hB (34 :: (encodeBytesBody bs ++ [34]))
      (fun rest => some (((if uB = true then 66 else 98) :: 34 :: (encodeBytesBody bs ++ [34])).length - rest.length))
    rw [h1, orElse_none, h2] at this
    simpa [encodeBytesLit, wrapBytes, Style.rPrefix, Style.bPrefix, Quote.text, Quote.triple, Quote.char] using this
  · have hw := walk_encodeBytesBody itemTSQ itemTSQ_ok 39 (Or.inr rfl) bs hb
    have h2 := run_mlstringLit_tsq (encodeBytesBody bs)
      (fun rest => some (((if uB = true then 66 else 98) :: 39 :: 39 :: 39 :: (encodeBytesBody bs ++ [39, 39, 39])).length - rest.length)) _ hw rfl
    have := run_bytesLit _ hB (39 :: 39 :: 39 :: (encodeBytesBody bs ++ [39, 39, 39]))
      (fun rest => some (((if uB = true then 66 else 98) :: 39 :: 39 :: 39 :: (encodeBytesBody bs ++ [39, 39, 39])).length - rest.length))
    rw [h2, orElse_some] at this
    simpa [encodeBytesLit, wrapBytes, Style.rPrefix, Style.bPrefix, Quote.text, Quote.triple, Quote.char] using this
  · have hw := walk_encodeBytesBody itemTDQ itemTDQ_ok 34 (Or.inl rfl) bs hb
    have h2 := run_mlstringLit_tdq (encodeBytesBody bs)
      (fun rest => some (((if uB = true then 66 else 98) :: 34 :: 34 :: 34 :: (encodeBytesBody bs ++ [34, 34, 34])).length - rest.length)) _ hw rfl
    have := run_bytesLit _ hB (34 :: 34 :: 34 :: (encodeBytesBody bs ++ [34, 34, 34]))
      (fun rest => some (((if uB = true then 66 else 98) :: 34 :: 34 :: 34 :: (encodeBytesBody bs ++ [34, 34, 34])).length - rest.length))
    rw [h2, orElse_some] at this
    simpa [encodeBytesLit, wrapBytes, Style.rPrefix, Style.bPrefix, Quote.text, Quote.triple, Quote.char] using this

/-- the whole chain for strings, ALL `s`: the terminal cuts the encoded literal as one token and `celstr` of that token is `s` -/
theorem literal_roundtrip_lexed (st : Style) (s : Text) :
    lexLen (strTerminal st.quote) (encodeLit st s) = some (encodeLit st s).length ∧ celstr (encodeLit st s) = .ok s :=
  ⟨lex_string st s, literal_roundtrip st s⟩

/-- the whole chain for ALL byte strings -/
theorem bytes_roundtrip_lexed (st : Style) (b : List UInt8) :
    lexLen bytesLit (encodeBytesLit st (b.map UInt8.toNat)) = some (encodeBytesLit st (b.map UInt8.toNat)).length ∧
    celbytes (encodeBytesLit st (b.map UInt8.toNat)) = .ok (b.map UInt8.toNat) :=
  ⟨lex_bytes st b, bytes_roundtrip st b⟩

/-! non-vacuity / what the search order means (each is `re.match` on the real terminal, corresponded by the driver's `lex` op) -/

/-- `'a\'b'` is one token of 6 characters: the escaped quote does not end it -/
example : lexLen stringLit (ofString "'a\\'b'") = some 6 := by decide
/-- … but `'a\'` alone IS matched (backtracking: `\` as an ordinary character, then the closing quote) — the quirk behind
the `spelled body = some s` hypothesis of `celstr_eq_spelled` -/
example : lexLen stringLit (ofString "'a\\'") = some 4 := by decide
/-- why the encoder escapes quotes inside triple-quoted literals: `'''a''''` is cut after 7 characters, not 8 -/
example : lexLen mlstringLit (ofString "'''a''''") = some 7 := by decide
/-- `\u0041` in a double-quoted literal is consumed by `.` (the grammar's `{4-8}` is not a repetition), still one token -/
example : lexLen stringLit (ofString "\"\\u0041\"") = some 8 := by decide
/-- INT_LIT stops where the spelling stops; `0x` needs a digit; FLOAT_LIT takes the signed exponent -/
example : lexLen intLit (ofString "-0x1Fu") = some 5 ∧ lexLen intLit (ofString "0x") = some 1 ∧
    lexLen uintLit (ofString "007U") = some 4 ∧ lexLen floatLit (ofString "1e+5") = some 4 ∧
    lexLen floatLit (ofString "-.5E-3x") = some 6 ∧ lexLen floatLit (ofString "5") = none := by decide

end Cel.Props.C07
