/-
  C09 — Lists, maps, strings and comprehension macros follow reference semantics.

  Property theorems only.  Subject: Cel.Model.Coll — the macro folds (`mapM`, `filterM`,
  `existsOneM`, `allFold`, `existsFold`), `operator_in` (`vin`/`inLoop`), `operator.getitem`
  (`getitem`), map construction (`buildMap`), `has`/field selection (`select`), the string
  functions, the regex matcher (`searchM`), and the two evaluators `ev .I` (interpreter) and
  `ev .C` (transpiled program) that are corresponded with the implementation on every run.

  Quantifiers: every statement is for ALL lists (any length), ALL body functions `f`/`p`
  (arbitrary `V → PyM V`), ALL index values in `Int`, ALL strings, ALL regular expressions of the
  fragment, ALL sub-expressions and environments — none is bounded.
-/
import Cel.Lemmas.Coll
import Cel.Lemmas.CollRe
namespace Cel.Props.C09
open Cel Cel.Coll

/-! ## `l.map(x, e)` has the size of `l` with element i equal to `e` at `x = l[i]` -/

/-- `map` succeeds with `r` exactly when `r` is the element-wise image of `l` under the body. -/
theorem map_spec (f : V → PyM V) (l r : List V) :
    mapM f l = .ok r ↔ Forall2 (fun x y => f x = .ok y) l r :=
  mapM_ok_iff f l r

/-- the result of `map` has the size of the range … -/
theorem map_size (f : V → PyM V) (l r : List V) (h : mapM f l = .ok r) : r.length = l.length :=
  (forall₂_length ((mapM_ok_iff f l r).mp h)).symm

/-- … and element `i` is the body evaluated at `l[i]` (every position, any length). -/
theorem map_elem (f : V → PyM V) (l r : List V) (h : mapM f l = .ok r) (i : Nat) (x : V)
    (hx : l[i]? = some x) : ∃ y, r[i]? = some y ∧ f x = .ok y :=
  forall₂_get ((mapM_ok_iff f l r).mp h) i x hx

/-- a body that evaluates everywhere gives exactly `l.map g` -/
theorem map_total (f : V → PyM V) (g : V → V) (l : List V) (h : ∀ x, x ∈ l → f x = .ok (g x)) :
    mapM f l = .ok (l.map g) :=
  mapM_total f g l h

/-- a body that fails at some element makes the whole macro fail (never a shorter list) -/
theorem map_error (f : V → PyM V) (pre : List V) (x : V) (post : List V) (e : Exc) (g : V → V)
    (hpre : ∀ y, y ∈ pre → f y = .ok (g y)) (hx : f x = .error e) :
    mapM f (pre ++ x :: post) = .error e :=
  mapM_error f pre x post e g hpre hx

/-! ## `l.filter(x, p)` is the order-preserving subsequence -/

/-- for a boolean predicate `q`, `filter` is `List.filter q` -/
theorem filter_sublist (p : V → PyM V) (q : V → Bool) (l : List V)
    (h : ∀ x, x ∈ l → p x = .ok (.bool (q x))) : filterM p l = .ok (l.filter q) := by
  have := filterM_total p (fun x => .bool (q x)) l h
  simpa [truthy] using this

/-- whatever the predicate returns, the result is a subsequence of `l` in the original order -/
theorem filter_is_sublist (p : V → PyM V) (l r : List V) (h : filterM p l = .ok r) : r.Sublist l :=
  filterM_sublist p l r h

/-! ## `exists_one` is true iff exactly one element satisfies `p` -/

theorem exists_one_count (p : V → PyM V) (q : V → Bool) (l : List V)
    (h : ∀ x, x ∈ l → p x = .ok (.bool (q x))) :
    existsOneM p l = .ok (.bool (l.countP q == 1)) := by
  have := countM_total p (fun x => .bool (q x)) l h
  simp only [truthy] at this
  simp [existsOneM, this, bind, Except.bind]

/-! ## `all` / `exists`: three-valued folds -/

/-- `exists` over element outcomes in {true, false, error}: true if some element is true, else an
error if some element is an error, else false — for every list -/
theorem exists_spec (p : V → PyM V) (b : V → V) (l : List V)
    (h : ∀ x, x ∈ l → p x = .ok (b x) ∧ IsB3 (b x)) :
    existsFold p l (.bool false) = .ok (kor3 (.bool false) (l.map b)) :=
  existsFold_spec p b l _ (Or.inr (Or.inl rfl)) h

theorem all_spec (p : V → PyM V) (b : V → V) (l : List V)
    (h : ∀ x, x ∈ l → p x = .ok (b x) ∧ IsB3 (b x)) :
    allFold p l (.bool true) = .ok (kand3 (.bool true) (l.map b)) :=
  allFold_spec p b l _ (Or.inl rfl) h

/-- for a total boolean predicate the folds are `List.any` / `List.all` -/
theorem exists_bool (p : V → PyM V) (q : V → Bool) (l : List V)
    (h : ∀ x, x ∈ l → p x = .ok (.bool (q x))) :
    existsFold p l (.bool false) = .ok (.bool (l.any q)) := by
  simpa using existsFold_bool p q l false h

theorem all_bool (p : V → PyM V) (q : V → Bool) (l : List V)
    (h : ∀ x, x ∈ l → p x = .ok (.bool (q x))) :
    allFold p l (.bool true) = .ok (.bool (l.all q)) := by
  simpa using allFold_bool p q l true h

/-! ## `x in l` iff `l.exists(y, y == x)` -/

/-- `operator_in` over a list computes exactly the three-valued `exists` fold of the element
comparisons `y == x` (a comparison that raises `TypeError` counts as an error element) — for
every item and every list, typed or not -/
theorem in_iff_exists (x : V) (l : List V) (hx : x.isErr = false) :
    vin x (.list l) = existsFold (fun y => .ok (eq3 y x)) l (.bool false) := by
  rw [existsFold_spec (fun y => .ok (eq3 y x)) (fun y => eq3 y x) l _ (Or.inr (Or.inl rfl))
    (fun y _ => ⟨rfl, eq3_isB3 y x⟩)]
  simp only [vin, hx, Bool.false_eq_true, ↓reduceIte]
  simp [V.isErr, iterOf, bind, Except.bind, inLoop_spec x l _ (Or.inl rfl)]

/-- on a well-typed list (every comparison defined) membership is plain existence -/
theorem in_bool (x : V) (l : List V) (q : V → Bool) (hx : x.isErr = false)
    (h : ∀ y, y ∈ l → veq y x = .ok (q y)) : vin x (.list l) = .ok (.bool (l.any q)) := by
  rw [in_iff_exists x l hx]
  exact exists_bool _ q l (fun y hy => by simp [eq3, h y hy])

/-! ## strings -/

/-- `(s + t).startsWith(s)` -/
theorem startsWith_concat (s t : List Nat) :
    (do let c ← arith .add (.str s) (.str t); strFn .startsWith c (.str s)) = .ok (.bool true) := by
  simp [arith, strFn, bind, Except.bind, List.isPrefixOf_iff_prefix]

/-- `(s + t).endsWith(t)` -/
theorem endsWith_concat (s t : List Nat) :
    (do let c ← arith .add (.str s) (.str t); strFn .endsWith c (.str t)) = .ok (.bool true) := by
  simp [arith, strFn, bind, Except.bind, List.isSuffixOf_iff_suffix]

/-- `contains` is the substring relation -/
theorem contains_iff (s t : List Nat) :
    strFn .contains (.str s) (.str t) = .ok (.bool true) ↔ t <:+: s := by
  simp [strFn, isInfix_iff]

theorem contains_concat (a b c : List Nat) :
    strFn .contains (.str (a ++ b ++ c)) (.str b) = .ok (.bool true) :=
  (contains_iff _ _).mpr ⟨a, c, rfl⟩

/-- `size` of a string is its number of code points; it is additive over `+` -/
theorem size_codepoints (cs : List Nat) : sizeFn (.str cs) = .ok (.int cs.length) := rfl

theorem size_concat (s t : List Nat) :
    (do let c ← arith .add (.str s) (.str t); sizeFn c) = .ok (.int (s.length + t.length)) := by
  simp [arith, sizeFn, bind, Except.bind]

theorem list_concat_size (a b : List V) :
    (do let c ← arith .add (.list a) (.list b); sizeFn c) = .ok (.int (a.length + b.length)) := by
  simp [arith, sizeFn, bind, Except.bind]

/-! ## out-of-range or negative list indexes are errors, never values -/

/-- every index in `Int` outside `0 … size-1` raises `IndexError` … -/
theorem index_error (l : List V) (i : Int) (h : i < 0 ∨ (l.length : Int) ≤ i) :
    getitem (.list l) (.int i) = .error .indexError := by
  simp only [getitem, listAt, pyListGetitem]
  split
  · rfl
  · rename_i hneg
    have hlen : l.length ≤ i.toNat := by omega
    simp [List.getElem?_eq_none hlen]

/-- … and every index inside gives that element -/
theorem index_ok (l : List V) (i : Nat) (x : V) (h : l[i]? = some x) :
    getitem (.list l) (.int i) = .ok x := by
  have : ¬ ((i : Int) < 0) := by omega
  simp [getitem, listAt, pyListGetitem, h, this]

/-- without the guard of `ListType.__getitem__` Python's own indexing would return a value for a
negative index (defect D16, fixed): the guard is what the theorem rests on -/
example : pyListGetitem [.int 1] (-1) = .ok (.int 1) := by simp [pyListGetitem]

/-- … in both runners the expression is an evaluation error, whatever the sub-expressions are -/
theorem index_error_run (r : Runner) (env : Env) (a i : E) (l : List V) (n : Int)
    (ha : ev r env a = .ok (.list l)) (hi : ev r env i = .ok (.int n))
    (h : n < 0 ∨ (l.length : Int) ≤ n) : obs (ev r env (.index a i)) = "err" := by
  simp only [ev, ha, hi, bind, Except.bind, index_error l n h]
  cases r <;> simp [handled, catching, indexHandlers, obs]

/-! ## missing map keys are errors -/

theorem missing_key_error (kvs : List (V × V)) (k : V) (hk : validKey k = true)
    (h : lookup k kvs = .ok none) : getitem (.map kvs) k = .error .keyError := by
  simp [getitem, hk, h, bind, Except.bind]

theorem present_key (kvs : List (V × V)) (k v : V) (hk : validKey k = true)
    (h : lookup k kvs = .ok (some v)) : getitem (.map kvs) k = .ok v := by
  simp [getitem, hk, h, bind, Except.bind]

theorem missing_key_run (r : Runner) (env : Env) (a i : E) (kvs : List (V × V)) (k : V)
    (ha : ev r env a = .ok (.map kvs)) (hi : ev r env i = .ok k) (hk : validKey k = true)
    (h : lookup k kvs = .ok none) : obs (ev r env (.index a i)) = "err" := by
  simp only [ev, ha, hi, bind, Except.bind, missing_key_error kvs k hk h]
  cases r <;> simp [handled, catching, indexHandlers, obs]

/-- field selection `m.f` of a missing field is an error in both runners -/
theorem missing_field_run (r : Runner) (env : Env) (a : E) (f : List Nat) (kvs : List (V × V))
    (ha : ev r env a = .ok (.map kvs)) (h : lookup (.str f) kvs = .ok none) :
    obs (ev r env (.sel a f)) = "err" := by
  simp only [ev, ha, bind, Except.bind]
  cases r <;> simp [select, handled, catching, h, bind, Except.bind, obs]

/-- `has(m.f)` on a map tells whether the key `f` is present (interpreter: a `BoolType`;
transpiled: the native bool of the template) -/
theorem has_iff_key (env : Env) (a : E) (f : List Nat) (kvs : List (V × V)) (o : Option V)
    (ha : ∀ r, ev r env a = .ok (.map kvs)) (h : lookup (.str f) kvs = .ok o)
    (hv : ∀ v, o = some v → v.isErr = false) :
    ev .I env (.has a f) = .ok (.bool o.isSome) ∧ ev .C env (.has a f) = .ok (.pybool o.isSome) := by
  cases o with
  | none =>
    simp [ev, ha, select, handled, catching, result, resultCaught, h, bind, Except.bind, V.isErr]
  | some v =>
    have := hv v rfl
    simp [ev, ha, select, handled, catching, result, h, bind, Except.bind, this]

/-! ## duplicate map keys are errors -/

/-- construction succeeds on entries whose keys are valid and fresh, keeping the order … -/
theorem map_construct_ok (ps : List (V × V)) (h : FreshKeys [] ps) :
    buildMap (flat ps) [] = .ok ps := by
  simpa using buildMap_fresh ps [] h

/-- … and a key already present (after any well-formed prefix, whatever follows) is `ValueError` -/
theorem dup_key_error (ps : List (V × V)) (k v w : V) (rest : List (V × V))
    (h : FreshKeys [] ps) (hk : validKey k = true) (hl : lookup k ps = .ok (some w)) :
    buildMap (flat (ps ++ (k, v) :: rest)) [] = .error .valueError :=
  buildMap_dup ps [] k v w rest h hk (by simpa using hl)

/-- … which both runners report as an evaluation error for every map literal whose evaluated
entries contain the duplicate -/
theorem dup_key_run (r : Runner) (env : Env) (es : List E) (ps : List (V × V)) (k v w : V)
    (rest : List (V × V)) (hes : evs r env es = .ok (flat (ps ++ (k, v) :: rest)))
    (hne : (flat (ps ++ (k, v) :: rest)).any V.isErr = false)
    (h : FreshKeys [] ps) (hk : validKey k = true) (hl : lookup k ps = .ok (some w)) :
    obs (ev r env (.mapLit es)) = "err" := by
  simp only [ev, hes, bind, Except.bind]
  cases r <;> simp [hne, dup_key_error ps k v w rest h hk hl, catching, obs, Functor.map, Except.map]

/-! ## invalid regular expressions are errors; the matcher is correct -/

theorem bad_regex_error (s : List Nat) : matchesFn (.str s) .bad = .ok .err := rfl

theorem bad_regex_run (r : Runner) (env : Env) (a : E) (s : List Nat)
    (ha : ev r env a = .ok (.str s)) : obs (ev r env (.matches a .bad)) = "err" := by
  simp only [ev, ha, bind, Except.bind]
  cases r <;> simp [callFn, matchesFn, catching, V.isErr, obs]

/-- the matcher decides the declarative matching relation: `searchM r s` (the model of
`re2.search(r, s) is not None`) holds iff some slice `s[i..j)` matches `r` — for every regular
expression of the fragment (literal, `.`, class, `*`, `+`, `?`, `|`, concatenation, grouping,
`^`, `$`) and every string -/
theorem matcher_correct (r : Re) (s : List Nat) :
    searchM r s = true ↔ ∃ i j, i ≤ s.length ∧ Matches s r i j :=
  searchM_iff r s

/-- the set of end positions is exactly the set of matches from a start position -/
theorem matcher_ends (s : List Nat) (r : Re) (i j : Nat) : j ∈ ends s r i ↔ Matches s r i j :=
  ends_iff s r i j

/-! ## the macros inside the evaluators (both runners) -/

/-- `c.map(x, body)`: if the range is a list and the body evaluates to a (non-error) value at
every element, both runners return the list of those values — same size, element i = body at l[i] -/
theorem map_run (r : Runner) (env : Env) (c body : E) (x : Nat) (l : List V) (g : V → V)
    (hc : ev r env c = .ok (.list l))
    (hb : ∀ v, v ∈ l → ev r ((x, v) :: env) body = .ok (g v) ∧ (g v).isErr = false) :
    ev r env (.macro .map c x body) = .ok (.list (l.map g)) := by
  simp only [ev, hc, bind, Except.bind]
  cases r with
  | I =>
    have : mapM (fun v => raiseIfErr (ev .I ((x, v) :: env) body)) l = .ok (l.map g) := by
      apply mapM_total
      intro v hv
      obtain ⟨h1, h2⟩ := hb v hv
      rw [h1]
      cases hg : g v <;> simp_all [raiseIfErr, V.isErr]
    simp [macroM, V.isErr, iterOf, bind, Except.bind, this, catching, Functor.map, Except.map]
  | C =>
    have : mapM (fun v => ev .C ((x, v) :: env) body) l = .ok (l.map g) :=
      mapM_total _ g l (fun v hv => (hb v hv).1)
    simp [macroM, iterOf, bind, Except.bind, this, Functor.map, Except.map]

/-- `c.filter(x, p)` with a boolean body is the order-preserving subsequence, in both runners -/
theorem filter_run (r : Runner) (env : Env) (c body : E) (x : Nat) (l : List V) (q : V → Bool)
    (hc : ev r env c = .ok (.list l))
    (hb : ∀ v, v ∈ l → ev r ((x, v) :: env) body = .ok (.bool (q v))) :
    ev r env (.macro .filter c x body) = .ok (.list (l.filter q)) := by
  simp only [ev, hc, bind, Except.bind]
  cases r with
  | I =>
    have : filterM (fun v => raiseIfErr (ev .I ((x, v) :: env) body)) l = .ok (l.filter q) :=
      filter_sublist _ q l (fun v hv => by rw [hb v hv]; rfl)
    simp [macroM, V.isErr, iterOf, bind, Except.bind, this, catching, Functor.map, Except.map]
  | C =>
    have : filterM (fun v => ev .C ((x, v) :: env) body) l = .ok (l.filter q) :=
      filter_sublist _ q l hb
    simp [macroM, iterOf, bind, Except.bind, this, Functor.map, Except.map]

/-- `c.exists_one(x, p)` with a boolean body: exactly one element satisfies `p`, in both runners -/
theorem exists_one_run (r : Runner) (env : Env) (c body : E) (x : Nat) (l : List V) (q : V → Bool)
    (hc : ev r env c = .ok (.list l))
    (hb : ∀ v, v ∈ l → ev r ((x, v) :: env) body = .ok (.bool (q v))) :
    ev r env (.macro .existsOne c x body) = .ok (.bool (l.countP q == 1)) := by
  simp only [ev, hc, bind, Except.bind]
  cases r with
  | I =>
    have : existsOneM (fun v => raiseIfErr (ev .I ((x, v) :: env) body)) l = .ok (.bool (l.countP q == 1)) :=
      exists_one_count _ q l (fun v hv => by rw [hb v hv]; rfl)
    simp [macroM, V.isErr, iterOf, bind, Except.bind, this, catching]
  | C =>
    have : existsOneM (fun v => ev .C ((x, v) :: env) body) l = .ok (.bool (l.countP q == 1)) :=
      exists_one_count _ q l hb
    simp [macroM, iterOf, bind, Except.bind, this]

/-- `c.exists(x, p)` / `c.all(x, p)` with a boolean body are `any` / `all`, in both runners -/
theorem exists_run (r : Runner) (env : Env) (c body : E) (x : Nat) (l : List V) (q : V → Bool)
    (hc : ev r env c = .ok (.list l))
    (hb : ∀ v, v ∈ l → ev r ((x, v) :: env) body = .ok (.bool (q v))) :
    ev r env (.macro .exists_ c x body) = .ok (.bool (l.any q)) := by
  simp only [ev, hc, bind, Except.bind]
  cases r with
  | I =>
    have : existsFold (fun v => ssBody (ev .I ((x, v) :: env) body)) l (.bool false) = .ok (.bool (l.any q)) :=
      exists_bool _ q l (fun v hv => by rw [hb v hv]; rfl)
    simp [macroM, V.isErr, iterOf, bind, Except.bind, this]
  | C =>
    have : existsFold (fun v => result (ev .C ((x, v) :: env) body)) l (.bool false) = .ok (.bool (l.any q)) :=
      exists_bool _ q l (fun v hv => by rw [hb v hv]; rfl)
    simp [macroM, iterOf, bind, Except.bind, this, boolTypeOf]

theorem all_run (r : Runner) (env : Env) (c body : E) (x : Nat) (l : List V) (q : V → Bool)
    (hc : ev r env c = .ok (.list l))
    (hb : ∀ v, v ∈ l → ev r ((x, v) :: env) body = .ok (.bool (q v))) :
    ev r env (.macro .all c x body) = .ok (.bool (l.all q)) := by
  simp only [ev, hc, bind, Except.bind]
  cases r with
  | I =>
    have : allFold (fun v => ssBody (ev .I ((x, v) :: env) body)) l (.bool true) = .ok (.bool (l.all q)) :=
      all_bool _ q l (fun v hv => by rw [hb v hv]; rfl)
    simp [macroM, V.isErr, iterOf, bind, Except.bind, this]
  | C =>
    have : allFold (fun v => result (ev .C ((x, v) :: env) body)) l (.bool true) = .ok (.bool (l.all q)) :=
      all_bool _ q l (fun v hv => by rw [hb v hv]; rfl)
    simp [macroM, iterOf, bind, Except.bind, this, boolTypeOf]

/-- a body that fails at some element makes `map` an evaluation error in both runners — the
interpreter for an error value or a raised error, the transpiled program for a raise -/
theorem map_error_run (r : Runner) (env : Env) (c body : E) (x : Nat) (pre post : List V) (w : V)
    (g : V → V) (e : Exc)
    (hc : ev r env c = .ok (.list (pre ++ w :: post)))
    (hpre : ∀ v, v ∈ pre → ev r ((x, v) :: env) body = .ok (g v) ∧ (g v).isErr = false)
    (hw : ev r ((x, w) :: env) body = .error e ∨ (r = .I ∧ ev r ((x, w) :: env) body = .ok .err)) :
    obs (ev r env (.macro .map c x body)) = "err" := by
  simp only [ev, hc, bind, Except.bind]
  cases r with
  | I =>
    have hpre' : ∀ v, v ∈ pre → raiseIfErr (ev .I ((x, v) :: env) body) = .ok (g v) := by
      intro v hv
      obtain ⟨h1, h2⟩ := hpre v hv
      rw [h1]; cases hg : g v <;> simp_all [raiseIfErr, V.isErr]
    have : ∃ e', mapM (fun v => raiseIfErr (ev .I ((x, v) :: env) body)) (pre ++ w :: post) = .error e' := by
      rcases hw with hw | ⟨_, hw⟩
      · exact ⟨e, mapM_error _ pre w post e g hpre' (by rw [hw]; rfl)⟩
      · exact ⟨.celEval, mapM_error _ pre w post .celEval g hpre' (by rw [hw]; rfl)⟩
    obtain ⟨e', he'⟩ := this
    simp only [macroM, V.isErr, iterOf, bind, Except.bind, he', Functor.map, Except.map]
    simp only [Bool.false_eq_true, ↓reduceIte, catching]
    split <;> rfl
  | C =>
    rcases hw with hw | ⟨hr, _⟩
    · have := mapM_error (fun v => ev .C ((x, v) :: env) body) pre w post e g (fun v hv => (hpre v hv).1) hw
      simp [macroM, iterOf, bind, Except.bind, this, Functor.map, Except.map, obs]
    · cases hr

/-! ## round 2 — a present key bound to `null` is present -/

/-- field selection `m.f` of a present field gives the stored value WHATEVER it is (`null` included:
`None` is a value, not a marker for "absent"), in both runners -/
theorem present_field_run (r : Runner) (env : Env) (a : E) (f : List Nat) (kvs : List (V × V)) (v : V)
    (ha : ev r env a = .ok (.map kvs)) (h : lookup (.str f) kvs = .ok (some v)) :
    ev r env (.sel a f) = .ok v := by
  simp only [ev, ha, bind, Except.bind]
  cases r <;> simp [select, handled, catching, h, bind, Except.bind]

/-- a key bound to `null`: `m.f` is `null` (not an error) and `has(m.f)` is true, in both runners -/
theorem null_field_present (env : Env) (a : E) (f : List Nat) (kvs : List (V × V))
    (ha : ∀ r, ev r env a = .ok (.map kvs)) (h : lookup (.str f) kvs = .ok (some .null)) :
    (∀ r, obs (ev r env (.sel a f)) = "n") ∧
    ev .I env (.has a f) = .ok (.bool true) ∧ ev .C env (.has a f) = .ok (.pybool true) := by
  refine ⟨fun r => ?_, ?_⟩
  · rw [present_field_run r env a f kvs .null (ha r) h]; rfl
  · simpa using has_iff_key env a f kvs (some .null) ha h (fun v hv => by cases hv; rfl)

/-- the same through `m["f"]` -/
theorem null_index_present (r : Runner) (env : Env) (a i : E) (kvs : List (V × V)) (k : V)
    (ha : ev r env a = .ok (.map kvs)) (hi : ev r env i = .ok k) (hk : validKey k = true)
    (h : lookup k kvs = .ok (some .null)) : obs (ev r env (.index a i)) = "n" := by
  simp only [ev, ha, hi, bind, Except.bind, present_key kvs k .null hk h]
  cases r <;> simp [handled, catching, obs, V.show]

/-! ## round 2 — one name bound at two levels: the innermost binding wins -/

/-- a name means its innermost binding, whatever the enclosing scopes (an outer macro, the evaluation
context) bind it to -/
theorem var_innermost (r : Runner) (env : Env) (x : Nat) (v : V) :
    ev r ((x, v) :: env) (.var x) = .ok v := by
  simp [ev, Env.find]

/-- a binding of another name hides nothing -/
theorem var_outer (r : Runner) (env : Env) (x y : Nat) (v : V) (h : x ≠ y) :
    ev r ((y, v) :: env) (.var x) = ev r env (.var x) := by
  simp [ev, Env.find, h]

/-- `l.map(x, x)` is `l`, whatever `x` is bound to outside the macro -/
theorem map_shadow_run (r : Runner) (env : Env) (c : E) (x : Nat) (l : List V)
    (hc : ev r env c = .ok (.list l)) (hne : ∀ v, v ∈ l → v.isErr = false) :
    ev r env (.macro .map c x (.var x)) = .ok (.list l) := by
  have := map_run r env c (.var x) x l id hc (fun v hv => ⟨var_innermost r env x v, hne v hv⟩)
  simpa using this

/-- a nested macro that reuses the name: `l.map(x, m.map(x, x))` is `m` for every element of `l`
(the inner `x` ranges over `m`; the outer element is hidden, not substituted) -/
theorem nested_shadow_run (r : Runner) (env : Env) (c cm : E) (x : Nat) (l m : List V)
    (hc : ev r env c = .ok (.list l)) (hm : ∀ v, v ∈ l → ev r ((x, v) :: env) cm = .ok (.list m))
    (hne : ∀ w, w ∈ m → w.isErr = false) :
    ev r env (.macro .map c x (.macro .map cm x (.var x))) = .ok (.list (l.map fun _ => .list m)) :=
  map_run r env c _ x l (fun _ => .list m) hc
    (fun v hv => ⟨map_shadow_run r ((x, v) :: env) cm x m (hm v hv) hne, rfl⟩)

/-! ## round 2 — membership is decided by equality alone (no identity shortcut) -/

/-- `x in [x]` is `x == x`: a value that is not equal to itself (a double NaN) is not in the list that
holds it -/
theorem in_singleton_self (x : V) (hx : x.isErr = false) : vin x (.list [x]) = .ok (eq3 x x) := by
  rw [in_iff_exists x [x] hx]
  have h3 := eq3_isB3 x x
  rcases h3 with h | h | h <;> simp [existsFold, h, vor, catching, bind, Except.bind]

/-- a value equal to no element is in no list — even one that contains that very value -/
theorem in_irreflexive (x : V) (l : List V) (hx : x.isErr = false)
    (h : ∀ y, y ∈ l → veq y x = .ok false) : vin x (.list l) = .ok (.bool false) := by
  have hany : l.any (fun _ => false) = false := by induction l <;> simp_all
  rw [in_bool x l (fun _ => false) hx h, hany]

/-- IEEE equality on doubles is what `in` consults (the kernel does not compute `Float`; that a NaN
satisfies the hypothesis is checked by the driver correspondence) -/
theorem in_double_self (f : Float) (h : (f == f) = false) :
    vin (.dbl f) (.list [.dbl f]) = .ok (.bool false) := by
  have := in_singleton_self (.dbl f) rfl
  simpa [eq3, veq, h] using this

/-! ## round 3 — selection paths; strings are sequences of code points -/

/-- `has(a.f₁.f₂)`: the field looked for is the LAST one, in the value of the whole operand chain `a.f₁` — whether
`f₁` or `f₂` are keys of the outer map `a` plays no role (both runners, any operand expression `a`) -/
theorem has_path_last (env : Env) (a : E) (f₁ f₂ : List Nat) (kvs₀ kvs₁ : List (V × V)) (o : Option V)
    (ha : ∀ r, ev r env a = .ok (.map kvs₀)) (h₁ : lookup (.str f₁) kvs₀ = .ok (some (.map kvs₁)))
    (h₂ : lookup (.str f₂) kvs₁ = .ok o) (hv : ∀ v, o = some v → v.isErr = false) :
    ev .I env (.has (.sel a f₁) f₂) = .ok (.bool o.isSome) ∧
    ev .C env (.has (.sel a f₁) f₂) = .ok (.pybool o.isSome) :=
  has_iff_key env (.sel a f₁) f₂ kvs₁ o
    (fun r => present_field_run r env a f₁ kvs₀ (.map kvs₁) (ha r) h₁) h₂ hv

/-- … in particular a last field that is absent from `a.f₁` gives `false` even when the outer map has it -/
theorem has_path_absent (env : Env) (a : E) (f₁ f₂ : List Nat) (kvs₀ kvs₁ : List (V × V))
    (ha : ∀ r, ev r env a = .ok (.map kvs₀)) (h₁ : lookup (.str f₁) kvs₀ = .ok (some (.map kvs₁)))
    (h₂ : lookup (.str f₂) kvs₁ = .ok none) :
    ev .I env (.has (.sel a f₁) f₂) = .ok (.bool false) ∧
    ev .C env (.has (.sel a f₁) f₂) = .ok (.pybool false) := by
  simpa using has_path_last env a f₁ f₂ kvs₀ kvs₁ none ha h₁ h₂ (fun v hv => by cases hv)

/-- two strings are equal exactly when their code point sequences are (no normalisation, no folding) -/
theorem str_eq_codepoints (s t : List Nat) : veq (.str s) (.str t) = .ok true ↔ s = t := by
  simp [veq]

/-- `s + t` is the concatenation of the code point sequences: nothing happens at the seam -/
theorem str_concat_codepoints (s t : List Nat) : arith .add (.str s) (.str t) = .ok (.str (s ++ t)) := by
  simp [arith]

/-! ## non-vacuity: the hypotheses above are satisfiable, and the error cases do occur -/

example : run .I (.index (.listLit [.lit (.int 1)]) (.lit (.int (-1)))) = "err" := by decide
example : run .C (.index (.listLit [.lit (.int 1)]) (.lit (.int (-1)))) = "err" := by decide
example : run .I (.index (.listLit [.lit (.int 1), .lit (.int 2)]) (.lit (.int 1))) = "i2" := by decide
example : run .C (.mapLit [.lit (.int 1), .lit (.int 2), .lit (.int 1), .lit (.int 3)]) = "err" := by decide
example : run .I (.macro .map (.listLit [.lit (.int 1), .lit (.int 2)]) 0 (.bin .mul (.var 0) (.lit (.int 2))))
    = "L[i2,i4]" := by decide
example : FreshKeys [] [(.int 1, .int 2), (.int 3, .int 4)] := by simp [FreshKeys, validKey, lookup, keyEq, bind, Except.bind]
example : searchM (.cat (.chr 97) (.star (.chr 98))) [99, 97, 98, 98] = true := by decide
example : searchM (.cat .bol (.chr 98)) [97, 98] = false := by decide
example : vin (.int 1) (.list [.int 2, .int 3]) = .ok (.bool false) :=
  in_irreflexive _ _ rfl (by intro y hy; simp at hy; rcases hy with rfl | rfl <;> rfl)
example : run .C (.sel (.mapLit [.lit (.str [97]), .lit .null]) [97]) = "n" := by decide
example : run .C (.has (.mapLit [.lit (.str [97]), .lit .null]) [97]) = "bT" := by decide
example : runWith .I [(1, .lit (.int 100))]
    (.macro .map (.listLit [.lit (.int 1), .lit (.int 2)]) 1 (.bin .add (.var 1) (.lit (.int 1)))) = "L[i2,i3]" := by decide
example : run .I (.macro .map (.listLit [.lit (.int 1), .lit (.int 2)]) 1
    (.macro .map (.listLit [.lit (.int 10), .lit (.int 20)]) 1 (.var 1))) = "L[L[i10,i20],L[i10,i20]]" := by decide
example : run .I (.has (.sel (.mapLit [.lit (.str [97]), .mapLit [.lit (.str [98]), .lit (.int 1)]]) [97]) [99]) = "bF" := by decide
example : run .I (.has (.sel (.mapLit [.lit (.str [97]), .mapLit [.lit (.str [98]), .lit (.int 1)]]) [97]) [98]) = "bT" := by decide
example : run .I (.size (.bin .add (.lit (.str [101])) (.lit (.str [769])))) = "i2" := by decide
example : run .C (.bin .eq (.lit (.str [101, 769])) (.lit (.str [233]))) = "bF" := by decide

end Cel.Props.C09
