/-
  C16 — Concurrent evaluations in separate environments do not interfere.

  Property theorems only.  Subject: the thread machine of Cel.Model.RuntimeThreads — every thread evaluates its
  own program (its transpiled statement list with late-bound global names, or an interpreted program) with its
  own bindings; `Sched = List Tid` is an arbitrary interleaving of atomic steps.  The theorems are for EVERY
  schedule (any length, any order, unfair ones included) and ANY number of threads (`Tid = Nat`, `threads : Tid → …`),
  by induction over the schedule with a locality (frame) argument; the policy is the one the translator reads
  from `Transpiler.evaluate` (`Cel.Gen.RuntimeNs.namespacePolicy`, bridged in Cel.Bridge.RuntimeNs).
-/
import Cel.Lemmas.RuntimeThreads
import Cel.Bridge.RuntimeNs
namespace Cel.Props.C16
open Cel Cel.Runtime

/-- **Non-interference, per-call namespace.**  Under the per-call policy, for every machine state (any number of
threads, any programs, any runner classes), every schedule `s` and every thread `t`: the state of `t` after `s` is
the state of its evaluation run ALONE for as many steps as `s` gives it. -/
theorem noninterference_perCall (m : MState) (s : Sched) (t : Tid) :
    (runSched .perCall m s).threads t = runAlone (m.threads t) (s.count t) :=
  runSched_local .perCall t (fun m _ => stepThread_self_perCall t m) s m (Or.inl rfl)

/-- **Non-interference, interpreted runner** — under either namespace policy, whatever the other threads run. -/
theorem noninterference_interpreted (pol : NamespacePolicy) (m : MState) (s : Sched) (t : Tid) (h : m.kinds t = .I) :
    (runSched pol m s).threads t = runAlone (m.threads t) (s.count t) :=
  runSched_local pol t (fun m hm => by
    cases hm with
    | inl hp => subst hp; exact stepThread_self_perCall t m
    | inr hk => exact stepThread_self_interpreted pol t m hk) s m (Or.inr h)

/-- In terms of results: if the evaluation alone returns `v` within `n` steps, then under every schedule that gives
thread `t` at least `n` steps (every *complete* schedule), thread `t` returns `v`. -/
theorem noninterference_result (m : MState) (s : Sched) (t : Tid) (n : Nat) (v : CV)
    (halone : (runAlone (m.threads t) n).out = some v) (hcomplete : n ≤ s.count t) :
    obsOf .perCall m s t = some v := by
  unfold obsOf
  rw [noninterference_perCall, runAlone_stable _ n _ (by rw [halone]; rfl) hcomplete, halone]

theorem noninterference_result_interpreted (pol : NamespacePolicy) (m : MState) (s : Sched) (t : Tid) (n : Nat) (v : CV)
    (hk : m.kinds t = .I) (halone : (runAlone (m.threads t) n).out = some v) (hcomplete : n ≤ s.count t) :
    obsOf pol m s t = some v := by
  unfold obsOf
  rw [noninterference_interpreted pol m s t hk, runAlone_stable _ n _ (by rw [halone]; rfl) hcomplete, halone]

/-- **The property for the current source**: the namespace policy regenerated from `Transpiler.evaluate` is the
per-call one, hence every thread — compiled or interpreted — returns what it returns alone, under every
interleaving. -/
theorem noninterference (h : Cel.Gen.RuntimeNs.namespacePolicy = .perCall) (m : MState) (s : Sched) (t : Tid) (n : Nat) (v : CV)
    (halone : (runAlone (m.threads t) n).out = some v) (hcomplete : n ≤ s.count t) :
    obsOf Cel.Gen.RuntimeNs.namespacePolicy m s t = some v := by
  rw [h]; exact noninterference_result m s t n v halone hcomplete

theorem noninterference_current (m : MState) (s : Sched) (t : Tid) (n : Nat) (v : CV)
    (halone : (runAlone (m.threads t) n).out = some v) (hcomplete : n ≤ s.count t) :
    obsOf Cel.Gen.RuntimeNs.namespacePolicy m s t = some v :=
  noninterference Cel.Bridge.RuntimeNs.namespace_is_perCall m s t n v halone hcomplete

/-- **What the driver computes is covered by the theorem.**  The hold schedules the check replays on the real code
(driver query `H`, py/verif/props/c16_worker.py: every thread runs to its call of `gate`, then the threads are released in any
order `release`, for any fuel and any number of threads) are schedules: under the per-call policy every thread ends in a
state of its evaluation alone. -/
theorem hold_schedule_noninterference (fuel n : Nat) (m : MState) (release : List Tid) (t : Tid) :
    ∃ k, (runHold .perCall fuel n m release).threads t = runAlone (m.threads t) k := by
  obtain ⟨s, hs⟩ := runHold_is_schedule .perCall fuel n m release
  exact ⟨s.count t, by rw [hs]; exact noninterference_perCall m s t⟩

/-- the same for the segmented (bounded-preemption) schedules of the explorer (driver query `E`) -/
theorem segmented_schedule_noninterference (fuel n : Nat) (m : MState) (segs : List (Tid × Nat)) (t : Tid) :
    ∃ k, (runSegments .perCall fuel n m segs).threads t = runAlone (m.threads t) k := by
  obtain ⟨s, hs⟩ := runSegments_is_schedule .perCall fuel n m segs
  exact ⟨s.count t, by rw [hs]; exact noninterference_perCall m s t⟩

/-- … and for an interpreted thread under either policy, whatever the other threads are -/
theorem hold_schedule_noninterference_interpreted (pol : NamespacePolicy) (fuel n : Nat) (m : MState) (release : List Tid) (t : Tid)
    (h : m.kinds t = .I) :
    ∃ k, (runHold pol fuel n m release).threads t = runAlone (m.threads t) k := by
  obtain ⟨s, hs⟩ := runHold_is_schedule pol fuel n m release
  exact ⟨s.count t, by rw [hs]; exact noninterference_interpreted pol m s t h⟩

/-- a thread's steps never change another thread's state, under either policy (the interference of the shared
policy goes through the shared namespace only) -/
theorem other_threads_untouched (pol : NamespacePolicy) (t t' : Tid) (m : MState) (h : t' ≠ t) :
    (stepThread pol t m).threads t' = m.threads t' := stepThread_other pol t t' m h

/-! ## the defect this property found (D4), as a computation in the model -/

/-- thread A: `gate(true) && x == 1` with x = 1, as transpiled -/
def progA : List Stmt := [
  .defn "ex_2_l" (.host "gate" (.lit (.bool true))),
  .defn "ex_2_r" (.bin "eq" (.var "x") (.lit (.int 1))),
  .defn "ex_2" (.land (.resultN "ex_2_l") (.resultN "ex_2_r")),
  .celN "ex_2"]
/-- thread B: `false && y == 2` with y = 2 -/
def progB : List Stmt := [
  .defn "ex_2_l" (.lit (.bool false)),
  .defn "ex_2_r" (.bin "eq" (.var "y") (.lit (.int 2))),
  .defn "ex_2" (.land (.resultN "ex_2_l") (.resultN "ex_2_r")),
  .celN "ex_2"]
def witness : MState :=
  { threads := fun i => if i = 0 then { todo := progA, mine := [("x", .int 1)] } else { todo := progB, mine := [("y", .int 2)] },
    kinds := fun _ => .C }
/-- A runs until it is inside its host function `gate` (12 steps), B runs to the end, A resumes -/
def witnessSched : Sched := List.replicate 12 0 ++ List.replicate 30 1 ++ List.replicate 30 0

/-- alone, A returns `true` and B returns `false` (the hypotheses of `noninterference_result` are satisfiable) -/
example : (runAlone (witness.threads 0) 27).out = some (.bool true) ∧ (runAlone (witness.threads 1) 27).out = some (.bool false) := by
  decide +kernel
/-- under the per-call policy the witness schedule is harmless -/
example : obsOf .perCall witness witnessSched 0 = some (.bool true) ∧ obsOf .perCall witness witnessSched 1 = some (.bool false) := by
  decide +kernel

/-- **D4**: with the namespace shared between calls (before commit 11485c1) thread A returns the error
"no such member 'y'" under the witness schedule although it returns `true` alone — so the hypothesis
`namespacePolicy = .perCall` is necessary. -/
theorem shared_namespace_interferes :
    ∃ (m : MState) (s : Sched) (t : Tid) (n : Nat) (v : CV), (runAlone (m.threads t) n).out = some v ∧ n ≤ s.count t ∧
      obsOf .shared m s t ≠ some v :=
  ⟨witness, witnessSched, 0, 27, .bool true, by decide +kernel, by decide +kernel, by decide +kernel⟩

/-- the concrete wrong answer of the witness -/
theorem shared_namespace_witness : obsOf .shared witness witnessSched 0 = some (.err "key:y") := by decide +kernel

/-- other schedules make A run with B's activation (`base_activation` overwritten) or pick up B's result -/
example : obsOf .shared witness (List.replicate 1 0 ++ List.replicate 30 1 ++ List.replicate 30 0) 0 = some (.err "key:x") := by decide +kernel
example : obsOf .shared witness (List.replicate 26 0 ++ List.replicate 30 1 ++ List.replicate 30 0) 0 = some (.bool false) := by decide +kernel

/-- the hold schedule "A runs to its `gate`, B runs to its end, A is released" on the D4 witness: harmless under the per-call
policy (the conclusion of `hold_schedule_noninterference` with the solo results), the D4 error under the shared one — so the
restriction of `hold_schedule_noninterference` to `.perCall` is necessary for compiled threads -/
example : ((runHold .perCall 100 2 witness [0]).threads 0).out = some (.bool true) ∧
          ((runHold .perCall 100 2 witness [0]).threads 1).out = some (.bool false) := by decide +kernel
example : ((runHold .shared 100 2 witness [0]).threads 0).out = some (.err "key:y") := by decide +kernel

end Cel.Props.C16
