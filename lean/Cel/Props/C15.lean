/-
  C15 — JSON documents convert to CEL values and back without loss.

  Property theorems only.  Subject: `Cel.JsonM.jsonToCel` (adapter.json_to_cel, converting by walking the
  isinstance ladder in source order — bridged to the ladder regenerated from adapter.py in `Cel.Bridge.Json`),
  `Cel.JsonM.encode` (CELJSONEncoder.encode/to_python/default composed with json's own ladder), `navCel`
  (Evaluator.member_dot / member_index on MapType / ListType), `b64encode`.
  All statements are for every document (any depth, any size), every path, every byte string.
  Float and string *text* is `json`'s (trusted): floats are opaque bit patterns, `encode` yields the
  document the emitted text denotes.
-/
import Cel.Lemmas.Json
import Cel.Bridge.Json
namespace Cel.Props.C15
open Cel Cel.JsonM

/-- the CEL type each JSON kind must map to -/
def celClassOf : PCls → PCls
  | .noneType => .noneType | .bool => .boolType | .int => .intType | .float => .doubleType
  | .str => .stringType | .list => .listType | .dict => .mapType | c => c

/-- **Conversion = specification**: for every document whose integers fit int64 (objects being Python dicts,
i.e. keys pairwise distinct), `json_to_cel` returns the kind-directed value `celOf j` — null ↦ None, bool ↦ BoolType,
int ↦ IntType, float ↦ DoubleType, str ↦ StringType, array ↦ ListType of converted items, object ↦ MapType with
StringType keys and converted values, at every depth. -/
theorem json_to_cel_spec (j : Json) (hi : j.intsInI64 = true) (hu : j.keysUnique = true) :
    jsonToCel j = .ok (celOf j) := jsonToCel_celOf j hi hu

/-- "maps null, booleans, integers, floats, strings, arrays and objects to the corresponding CEL types" -/
theorem kinds_map_to_types (j : Json) (hi : j.intsInI64 = true) (hu : j.keysUnique = true) :
    ∃ v, jsonToCel j = .ok v ∧ v.cls = celClassOf j.cls := by
  refine ⟨celOf j, jsonToCel_celOf j hi hu, ?_⟩
  cases j <;> simp [celOf, PV.cls, Json.cls, celClassOf]

/-- … and so do the items of an array and the members of an object (so the claim holds at every depth):
the converted items are exactly the conversions of the items. -/
theorem kinds_of_children (xs : List Json) (kvs : List (String × Json)) :
    celOf (.arr xs) = .clist (xs.map celOf) ∧
    celOf (.obj kvs) = .cmap (kvs.map (fun kv => (.cstr kv.1, celOf kv.2))) := by
  constructor
  · simp only [celOf]; congr 1
    induction xs with
    | nil => simp [celOfL]
    | cons x xs ih => simp [celOfL, ih]
  · simp only [celOf]; congr 1
    induction kvs with
    | nil => simp [celOfK]
    | cons kv kvs ih => obtain ⟨k, x⟩ := kv; simp [celOfK, ih]

/-- "booleans never become integers": a JSON boolean converts to `BoolType`, never to `IntType`, and the
encoder writes it back as a JSON boolean (`to_python` makes it a native `bool` before `json` sees an `int`). -/
theorem bool_never_int (b : Bool) :
    jsonToCel (.bool b) = .ok (.cbool b) ∧ (∀ z, jsonToCel (.bool b) ≠ .ok (.cint z)) ∧
    encode (.cbool b) = .ok (.bool b) := by
  refine ⟨by simp [jsonToCel, dispatch_json_bool, convScalar], ?_, ?_⟩
  · intro z; simp [jsonToCel, dispatch_json_bool, convScalar]
  · simp [encode, toPython, dispatch_topy_bool, jsonEnc]

/-- why the order of the ladder matters: with `int` tested first a boolean would become `IntType(1)`,
and without `to_python` a `BoolType` would be printed as the integer `1`. -/
example : dispatch [([PCls.int], Ctor.intType), ([PCls.bool], Ctor.boolType)] PCls.bool = some Ctor.intType := by decide
example : convScalar (some .intType) (.bool true) = .ok (.cint 1) := by simp [convScalar, intTypeOf]
example : jsonEnc (.cbool true) = .ok (.int 1) := rfl

/-- **Round trip**: "serialising the result with the library's JSON encoder yields a document equal to the
original" — for every document (structural induction: any depth, any size). -/
theorem json_roundtrip (j : Json) (hi : j.intsInI64 = true) (hu : j.keysUnique = true) :
    (jsonToCel j >>= encode) = .ok j := by
  rw [jsonToCel_celOf j hi hu]
  show encode (celOf j) = .ok j
  unfold encode
  rw [toPython_celOf j hu, jsonEnc_pyOf j]

/-- the int64 hypothesis is exactly the domain: a document with an integer outside int64 — at any depth — is a
ValueError (never a wrapped or clamped value). -/
theorem int_out_of_range (j : Json) (h : j.intsInI64 = false) : jsonToCel j = .error .valueError :=
  jsonToCel_out_of_range j h

/-- **Navigation commutes with conversion**: every valid path (`.f`, `["k"]`, `[i]` steps, any length) evaluated
by the evaluator on the converted document reaches exactly the conversion of the element the same path reaches in
the JSON document. -/
theorem navigation_commutes_celOf : (p : List Step) → (j j' : Json) → j.lookup p = some j' →
    navCel (celOf j) p = .ok (celOf j')
  | [], j, j', h => by
      cases j <;> simp_all [Json.lookup, navCel]
  | s :: p, j, j', h => by
      cases j with
      | obj kvs =>
          cases s with
          | field k =>
              simp only [Json.lookup] at h
              cases hf : assocFind k kvs with
              | none => simp [hf] at h
              | some x =>
                  simp only [hf] at h
                  have ih := navigation_commutes_celOf p x j' h
                  simp [navCel, stepCel, memberDot, celOf, PV.cls, isInst, PCls.mro, getitem, validKeyType,
                    validKeyClasses, dictFind_celOfK_pstr, hf, bind, Except.bind, ih]
          | key k =>
              simp only [Json.lookup] at h
              cases hf : assocFind k kvs with
              | none => simp [hf] at h
              | some x =>
                  simp only [hf] at h
                  have ih := navigation_commutes_celOf p x j' h
                  simp [navCel, stepCel, memberIndex, celOf, PV.cls, isInst, PCls.mro, getitem, validKeyType,
                    validKeyClasses, dictFind_celOfK_cstr, hf, bind, Except.bind, ih]
          | idx i => simp [Json.lookup] at h
      | arr xs =>
          cases s with
          | idx i =>
              simp only [Json.lookup] at h
              cases hf : xs[i]? with
              | none => simp [hf] at h
              | some x =>
                  simp only [hf] at h
                  have ih := navigation_commutes_celOf p x j' h
                  have hlt : i < xs.length := by
                    rcases Nat.lt_or_ge i xs.length with hl | hl
                    · exact hl
                    · simp [List.getElem?_eq_none hl] at hf
                  have hlen := celOfL_length xs
                  have hget := celOfL_getElem? xs i
                  simp only [navCel, stepCel, memberIndex, celOf, getitem, bind, Except.bind]
                  have hc : (0:Int) ≤ (i:Int) ∧ (i:Int) < ((celOfL xs).length : Int) := by omega
                  rw [if_pos hc]
                  simp [hget, hf, ih]
          | field k => simp [Json.lookup] at h
          | key k => simp [Json.lookup] at h
      | null => simp [Json.lookup] at h
      | bool b => simp [Json.lookup] at h
      | int z => simp [Json.lookup] at h
      | float f => simp [Json.lookup] at h
      | str s' => simp [Json.lookup] at h

theorem navigation_commutes (j j' : Json) (p : List Step) (hi : j.intsInI64 = true) (hu : j.keysUnique = true)
    (h : j.lookup p = some j') :
    ∃ v, jsonToCel j = .ok v ∧ navCel v p = .ok (celOf j') :=
  ⟨celOf j, jsonToCel_celOf j hi hu, navigation_commutes_celOf p j j' h⟩

/-- "reaches *exactly* the element": a path that does not exist in the JSON document (missing key, index past the
end, a step into a scalar or of the wrong kind) is an evaluation error in CEL — never some other element. -/
theorem navigation_invalid (j : Json) (p : List Step) (hi : j.intsInI64 = true) (hu : j.keysUnique = true)
    (h : j.lookup p = none) :
    ∃ v, jsonToCel j = .ok v ∧ navCel v p = .error .celEval :=
  ⟨celOf j, jsonToCel_celOf j hi hu, navigation_invalid_celOf p j h⟩

/-- non-vacuity of the navigation theorem: a three-step path through object, object, array -/
example : (Json.obj [("a", .obj [("b c", .arr [.int 1, .float 0, .null])])]).lookup [.field "a", .key "b c", .idx 2]
    = some .null := by simp [Json.lookup, assocFind]
example : (Json.obj [("a", .obj [("b c", .arr [.int 1, .float 0, .null])])]).intsInI64 = true ∧
    (Json.obj [("a", .obj [("b c", .arr [.int 1, .float 0, .null])])]).keysUnique = true := by decide

/-- **base64** (`BytesType` values): decoding the encoding gives the bytes back — every byte string. -/
theorem b64_roundtrip (bs : List UInt8) : b64decode (b64encode bs) = some bs := JsonM.b64_roundtrip bs
/-- RFC 4648 shape: 4 characters per started 3-byte group, drawn from the alphabet or the pad `=`. -/
theorem b64_shape (bs : List UInt8) :
    (b64encode bs).length = 4 * ((bs.length + 2) / 3) ∧ ∀ ch ∈ b64encode bs, ch ∈ b64Alphabet ∨ ch = '=' :=
  ⟨b64_length bs, b64_chars bs⟩
example : String.ofList (b64encode [77, 97, 110]) = "TWFu" ∧ String.ofList (b64encode [77, 97]) = "TWE=" ∧
    String.ofList (b64encode [77]) = "TQ==" := by decide

/-- "timestamps, durations and bytes encode as RFC 3339 text, seconds text and base64": the encoder emits a JSON
string holding `tsStr` / `durStr` / `b64encode` of the value. -/
theorem special_encodings (t : TS) (us : Int) (bs : List UInt8) :
    encode (.cts t) = .ok (.str (String.ofList (tsStr t))) ∧
    encode (.cdur us) = .ok (.str (String.ofList (durStr us))) ∧
    encode (.cbytes bs) = .ok (.str (String.ofList (b64encode bs))) := by
  refine ⟨?_, ?_, ?_⟩ <;> rfl

/-- **The encoder on every CEL value** (not only on converted documents): for any value built from `None` and the celtypes
wrappers — lists and maps nested to any depth, maps keyed by the valid key types string / bool / int / uint, every map a
well-formed dict (`PV.celWF`) — `CELJSONEncoder` succeeds and writes the kind-directed document `jsonOfCel v`: a boolean is
`true`/`false` wherever it sits (top level, list item, member value, map key — never `1`/`0`), ints and uints are numbers,
timestamps / durations / bytes are their RFC 3339 / seconds / base64 text at any depth, keys are written as JSON strings. -/
theorem encode_spec (v : PV) (h : v.celWF = true) : encode v = .ok (jsonOfCel v) := jsonEnc_toPython v h

/-- instances of `encode_spec` that name the positions explicitly: a boolean that is a direct list item, a boolean under a
boolean key inside a list, a negative fractional duration inside a map inside a list -/
theorem bool_in_any_position (b : Bool) (us : Int) :
    encode (.clist [.cbool b]) = .ok (.arr [.bool b]) ∧
    encode (.clist [.cmap [(.cbool b, .cbool b)]]) = .ok (.arr [.obj [(if b then "true" else "false", .bool b)]]) ∧
    encode (.clist [.cmap [(.cstr "d", .cdur us)]]) = .ok (.arr [.obj [("d", .str (String.ofList (durStr us)))]]) := by
  refine ⟨?_, ?_, ?_⟩
  · rw [encode_spec _ (by simp [PV.celWF, celWFL])]; simp [jsonOfCel, jsonOfCelL]
  · rw [encode_spec _ (by simp [PV.celWF, celWFL, celWFK, PV.isCelKey, pairKeysDistinct])]
    simp [jsonOfCel, jsonOfCelL, jsonOfCelK, celKeyName]
  · rw [encode_spec _ (by simp [PV.celWF, celWFL, celWFK, PV.isCelKey, pairKeysDistinct])]
    simp [jsonOfCel, jsonOfCelL, jsonOfCelK, celKeyName]

/-- non-vacuity of `encode_spec`: a well-formed value with all four key types, a nested list and the three special types;
and the hypothesis is needed — `True` and `1` are the same dict key, such a "map" is not a dict -/
example : (PV.cmap [(.cstr "a", .clist [.cbool true, .cts ⟨2009, 2, 13, 23, 31, 30, 0, 0⟩]), (.cbool false, .cbytes [77]),
    (.cint 7, .cdur (-1500000)), (.cuint 8, .none)]).celWF = true := by decide
example : (PV.cmap [(.cbool true, .none), (.cint 1, .none)]).celWF = false := by decide
/-- without `to_python`'s recursion into list items the same value would be written `[1]` -/
example : jsonEnc (.clist [.cbool true]) = .ok (.arr [.int 1]) := rfl

example : String.ofList (tsStr ⟨2009, 2, 13, 23, 31, 30, 123456, 0⟩) = "2009-02-13T23:31:30Z" := by decide
example : String.ofList (tsStr ⟨2009, 2, 13, 23, 31, 30, 0, -330⟩) = "2009-02-13T23:31:30-05:30" := by decide

/-- "durations … encode as … seconds text": the number written is the duration **truncated toward zero to whole seconds** —
exactly, for every duration shorter than 2^34 s (≈ 544 years), positive or negative, with any microsecond part. The code goes
through the float `timedelta.total_seconds()`; the theorem is about the exact binary64 model of that quotient
(`Cel.Time.totalSeconds`, round-to-nearest-even), and says the rounding never reaches the next whole second in this range
(spacing of doubles below 2^34 is ≤ 2^-19 s < 2 µs, and a microsecond part is at least 1 µs away from the next second). -/
theorem duration_seconds_truncate (us : Int) (h : us.natAbs < 2 ^ 34 * 1000000) :
    durSeconds us = Int.tdiv us 1000000 ∧
    durStr us = (toString (Int.tdiv us 1000000)).toList ++ ['s'] := by
  have e : durSeconds us = Int.tdiv us 1000000 := totalSeconds_trunc_small us h
  exact ⟨e, by unfold durStr; rw [e]⟩

/-- the sign-symmetric reading of the same fact: `-d` prints the negated number, and a non-negative duration prints ⌊µs/10^6⌋
(so −1.5 s is `-1s`, never `-2s`: truncation, not floor). -/
theorem duration_seconds_sign (us : Int) (h : us.natAbs < 2 ^ 34 * 1000000) :
    durSeconds (-us) = -durSeconds us ∧ (0 ≤ us → durSeconds us = us / 1000000) := by
  have h' : (-us).natAbs < 2 ^ 34 * 1000000 := by rw [Int.natAbs_neg]; exact h
  rw [(duration_seconds_truncate us h).1, (duration_seconds_truncate (-us) h').1]
  exact ⟨Int.neg_tdiv _ _, fun hn => Int.tdiv_eq_ediv_of_nonneg hn⟩

/-- whole seconds are written exactly over the full CEL duration range (and far beyond: |s| < 2^53) -/
theorem duration_whole_seconds (s : Int) (h : s.natAbs < 2 ^ 53) : durSeconds (s * 1000000) = s := by
  unfold durSeconds Cel.Time.totalSeconds
  exact JsonM.rnd_exact_million s h

/-- the bound 2^34 s of `duration_seconds_truncate` is sharp: one microsecond below 2^34 + 1 s the float quotient IS the next
whole second (a documented limit of `int(total_seconds())`, modelled exactly and compared with the code on every run). -/
theorem duration_seconds_sharp :
    durSeconds (2 ^ 34 * 1000000 + 999999) = 2 ^ 34 + 1 ∧ Int.tdiv (2 ^ 34 * 1000000 + 999999) 1000000 = 2 ^ 34 := by
  decide

example : String.ofList (durStr (-1999999)) = "-1s" ∧ String.ofList (durStr 90000000) = "90s" ∧
    String.ofList (durStr (-500000)) = "0s" ∧ String.ofList (durStr (-3600001000)) = "-3600s" := by decide
example : ((-1500000 : Int)).natAbs < 2 ^ 34 * 1000000 := by decide

end Cel.Props.C15
