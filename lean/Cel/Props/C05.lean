/-
  C05 — Evaluation is a function of expression and bindings, independent of history.

  Property theorems only.  Subject: the API state machine `Cel.Runtime.step` over worlds with an explicit
  heap of NameContainer objects (Cel.Model.Runtime), for the sharing policies that the translator reads
  from the current source (`Cel.Gen.Runtime.config`, bridged in Cel.Bridge.Runtime): `Referent.clone`
  clones its nested container, one lark parser per tree class, `exec` in a per-call namespace.
  All statements quantify over EVERY finite history of operations (`List Op`, any length, any mix of
  environments, runner classes, programs, bindings) — by induction over the history with the invariant
  `Inv`; nothing is bounded.
-/
import Cel.Lemmas.Runtime
import Cel.Lemmas.RuntimeLimit
import Cel.Bridge.Runtime
namespace Cel.Props.C05
open Cel Cel.Runtime

/-- The invariant holds in the initial state (a fresh process). -/
theorem inv_init : Inv World.init := Cel.Runtime.inv_init

/-- Every API operation preserves the invariant: every compiled program's construction-time activation, as
reachable in the heap, is still (up to object identity) the activation built from its declarations; every
environment parses with a parser of its own runner's tree class. -/
theorem inv_step (cfg : Config) (hc : cfg.clone = .deep) (hp : cfg.parser = .perClass) (w : World) (h : Inv w) (op : Op) :
    Inv (step cfg w op).1 := Cel.Runtime.inv_step cfg hc hp w h op

/-- … hence it holds after ANY history (induction over the operation sequence). -/
theorem inv_run (cfg : Config) (hc : cfg.clone = .deep) (hp : cfg.parser = .perClass) :
    ∀ (ops : List Op) (w : World), Inv w → Inv (run cfg w ops)
  | [], _, h => h
  | op :: ops, w, h => inv_run cfg hc hp ops _ (Cel.Runtime.inv_step cfg hc hp w h op)

/-- No operation writes an object that existed before it, and programs are never removed or replaced
(frame property; this is what fails for the shallow `Referent.clone`, see `d3_shallow_clone_leaks`). -/
theorem step_frame (cfg : Config) (hc : cfg.clone = .deep) (hp : cfg.parser = .perClass) (w : World) (h : Inv w) (op : Op)
    (i : Id) (nc : NC) (hg : w.heap.get i = some nc) : (step cfg w op).1.heap.get i = some nc := by
  have := (inv_step_grows cfg hc hp w h op).2.1 i (h.bnd i nc hg)
  rw [this, hg]

theorem progs_mono_step (cfg : Config) (hc : cfg.clone = .deep) (hp : cfg.parser = .perClass) (w : World) (h : Inv w) (op : Op)
    (i : Nat) (p : Prog) (hi : w.progs[i]? = some p) : (step cfg w op).1.progs[i]? = some p := by
  obtain ⟨l, hl⟩ := (inv_step_grows cfg hc hp w h op).2.2.2
  rw [hl, List.getElem?_append_left]
  · exact hi
  · cases hlt : decide (i < w.progs.length) with
    | true => exact of_decide_eq_true hlt
    | false =>
      have : w.progs.length ≤ i := Nat.le_of_not_lt (of_decide_eq_false hlt)
      rw [List.getElem?_eq_none this] at hi
      cases hi

theorem progs_mono_run (cfg : Config) (hc : cfg.clone = .deep) (hp : cfg.parser = .perClass) :
    ∀ (ops : List Op) (w : World), Inv w → ∀ (i : Nat) (p : Prog), w.progs[i]? = some p → (run cfg w ops).progs[i]? = some p
  | [], _, _, _, _, hi => hi
  | op :: ops, w, h, i, p, hi =>
    progs_mono_run cfg hc hp ops _ (Cel.Runtime.inv_step cfg hc hp w h op) i p (progs_mono_step cfg hc hp w h op i p hi)

/-- the fresh-world evaluation observes the reference evaluation -/
theorem ideal_eq (cfg : Config) (hc : cfg.clone = .deep) (hp : cfg.parser = .perClass) (p : Prog) (b : Bindings)
    (hok : p.kind = .C → ∃ y, newActivation {} p.decls = .ok y) :
    ideal cfg p b = evalFrom cfg p.kind {} p.decls p.pkg p.expr b := by
  unfold ideal
  cases hk : p.kind with
  | I =>
    have hI : Inv (run cfg World.init [.mkEnv .I p.decls p.pkg, .compile 0 (some p.expr), .program 0 0]) :=
      inv_run cfg hc hp _ _ Cel.Runtime.inv_init
    have hprog : (run cfg World.init [.mkEnv .I p.decls p.pkg, .compile 0 (some p.expr), .program 0 0]).progs[0]?
        = some ⟨.I, p.decls, p.pkg, p.expr, (0, [])⟩ := by
      simp [run, step, hp, World.init]
    show (step cfg (run cfg World.init [.mkEnv .I p.decls p.pkg, .compile 0 (some p.expr), .program 0 0]) (.evaluate 0 b)).2 = _
    rw [evaluate_obs cfg hc _ hI 0 _ hprog b]
  | C =>
    obtain ⟨⟨h0, root⟩, hy⟩ := hok hk
    have hI : Inv (run cfg World.init [.mkEnv .C p.decls p.pkg, .compile 0 (some p.expr), .program 0 0]) :=
      inv_run cfg hc hp _ _ Cel.Runtime.inv_init
    have hprog : (run cfg World.init [.mkEnv .C p.decls p.pkg, .compile 0 (some p.expr), .program 0 0]).progs[0]?
        = some ⟨.C, p.decls, p.pkg, p.expr, root⟩ := by
      simp [run, step, hp, World.init, hy]
    show (step cfg (run cfg World.init [.mkEnv .C p.decls p.pkg, .compile 0 (some p.expr), .program 0 0]) (.evaluate 0 b)).2 = _
    rw [evaluate_obs cfg hc _ hI 0 _ hprog b]

/-- **History independence.**  After ANY history `ops` from a fresh process, evaluating ANY program `p` of the
resulting state with ANY bindings `b` observes exactly what the same evaluation observes alone in a fresh
world built from `p`'s runner class, declarations, package and expression (`ideal`).  Earlier evaluations
of the same program with other bindings, other environments, runner classes and programs have no influence. -/
theorem history_independent (cfg : Config) (hc : cfg.clone = .deep) (hp : cfg.parser = .perClass)
    (ops : List Op) (i : Nat) (p : Prog) (hi : (run cfg World.init ops).progs[i]? = some p) (b : Bindings) :
    (step cfg (run cfg World.init ops) (.evaluate i b)).2 = ideal cfg p b := by
  have hI := inv_run cfg hc hp ops _ Cel.Runtime.inv_init
  rw [evaluate_obs cfg hc _ hI i p hi b, ideal_eq cfg hc hp p b]
  intro hk
  obtain ⟨_, h0, hy, _⟩ := hI.progs p (List.mem_of_getElem? hi) hk
  exact ⟨_, hy⟩

/-- The same, for the policies of the CURRENT source (regenerated `Cel.Gen.Runtime.config`; whichever namespace
`exec` receives — sequential evaluation does not depend on it). -/
theorem history_independent_current (ns : NamespacePolicy) (ops : List Op) (i : Nat) (p : Prog)
    (hi : (run (Cel.Gen.Runtime.config ns) World.init ops).progs[i]? = some p) (b : Bindings) :
    (step (Cel.Gen.Runtime.config ns) (run (Cel.Gen.Runtime.config ns) World.init ops) (.evaluate i b)).2
      = ideal (Cel.Gen.Runtime.config ns) p b :=
  history_independent _ (Cel.Bridge.Runtime.config_policies ns).1 (Cel.Bridge.Runtime.config_policies ns).2 ops i p hi b

/-- **Re-evaluation is stable.**  A program evaluated with bindings `b` at one point of a history and again with
the same `b` after ANY further operations (`more`) observes the same. -/
theorem reevaluation_stable (cfg : Config) (hc : cfg.clone = .deep) (hp : cfg.parser = .perClass)
    (ops more : List Op) (i : Nat) (p : Prog) (hi : (run cfg World.init ops).progs[i]? = some p) (b : Bindings) :
    (step cfg (run cfg (run cfg World.init ops) more) (.evaluate i b)).2
      = (step cfg (run cfg World.init ops) (.evaluate i b)).2 := by
  have hI := inv_run cfg hc hp ops _ Cel.Runtime.inv_init
  have hi' := progs_mono_run cfg hc hp more _ hI i p hi
  have hI' := inv_run cfg hc hp more _ hI
  rw [evaluate_obs cfg hc _ hI' i p hi' b, evaluate_obs cfg hc _ hI i p hi b]

/-- in particular, evaluating twice in a row gives the same observation -/
theorem evaluate_twice (cfg : Config) (hc : cfg.clone = .deep) (hp : cfg.parser = .perClass)
    (ops : List Op) (i : Nat) (p : Prog) (hi : (run cfg World.init ops).progs[i]? = some p) (b b' : Bindings) :
    (step cfg (step cfg (run cfg World.init ops) (.evaluate i b')).1 (.evaluate i b)).2
      = (step cfg (run cfg World.init ops) (.evaluate i b)).2 :=
  reevaluation_stable cfg hc hp ops [.evaluate i b'] i p hi b

/-- **Bindings unchanged** (the part that is a statement about the model): an `evaluate` writes no object that
existed before the call — the per-call activation is built from fresh objects only; the values bound by the
caller are stored by reference and never assigned to.  (The caller's `dict` itself is passed to the model by
value, so "the dict is unchanged" cannot be stated here; it is checked on the implementation by the C05
oracle for every evaluate of every generated history.)

    full statement:  ∀ history, ∀ evaluate(p, b) in it, the mapping object `b` is equal, item by item and
                     object by object, before and after the call. -/
theorem bindings_unchanged_partial (cfg : Config) (hc : cfg.clone = .deep) (hp : cfg.parser = .perClass)
    (ops : List Op) (i : Nat) (b : Bindings) (id : Id) (nc : NC)
    (hg : (run cfg World.init ops).heap.get id = some nc) :
    (step cfg (run cfg World.init ops) (.evaluate i b)).1.heap.get id = some nc :=
  step_frame cfg hc hp _ (inv_run cfg hc hp ops _ Cel.Runtime.inv_init) _ id nc hg

/-- Parser adequacy: after any history, an environment builds a program from a tree it compiled itself without
the tree-class failure (`AttributeError: 'Tree' object has no attribute 'checked_exception'`, D2): the only way
`program` can fail is an invalid declared name (`ValueError` from `load_annotations`). -/
theorem compiled_program_constructible (cfg : Config) (hc : cfg.clone = .deep) (hp : cfg.parser = .perClass)
    (ops : List Op) (env : Nat) (e : Env) (x : Expr) (he : (run cfg World.init ops).envs[env]? = some e) :
    let w := run cfg World.init ops
    let w1 := (step cfg w (.compile env (some x))).1
    (step cfg w1 (.program env w.asts.length)).2 =
      match e.kind, newActivation w.heap e.decls with
      | .C, .error err => .exc err
      | _, _ => .done := by
  intro w w1
  have hI := inv_run cfg hc hp ops _ Cel.Runtime.inv_init
  have hpar : e.parser = e.kind := hI.envs e (List.mem_of_getElem? he)
  have hw1 : w1 = { w with asts := w.asts ++ [⟨e.kind, x⟩] } := by
    show (step cfg w (.compile env (some x))).1 = _
    simp [step, show w.envs[env]? = some e from he, hp, hpar]
  rw [hw1]
  simp only [step, show w.envs[env]? = some e from he, List.getElem?_append_right (Nat.le_refl _), Nat.sub_self,
    List.getElem?_cons_zero]
  cases hk : e.kind with
  | I => simp
  | C =>
    simp only
    cases newActivation w.heap e.decls with
    | error x => simp [setupExc]
    | ok y => simp

/-! ## the process-wide recursion limit (interpreter state outside the heap)

Which nesting depths of an expression can be built and evaluated at all is decided by Python's recursion limit, which
`Environment.__init__` sets.  It is part of "which other environments … were created earlier in the process". -/

/-- Under the unconditional policy the limit is `n` after ANY history that creates an environment, whatever it was before. -/
theorem limit_after_any_history (n l : Nat) (ops : List Op) (h : hasEnvOp ops = true) : limitRun (.always n) l ops = n :=
  limitRun_always_env n ops l h

/-- **The recursion limit at every evaluation is history independent.**  After ANY history from a fresh process
(initial limit `l`), when ANY program `p` of the resulting state is evaluated the limit is what it is when the same
evaluation is performed alone in a fresh process (initial limit `l'`, `aloneOps p` = the operations `ideal` performs):
earlier environments of either runner class, programs and evaluations have no influence. -/
theorem limit_history_independent (cfg : Config) (n l l' : Nat) (ops : List Op) (i : Nat) (p : Prog)
    (hi : (run cfg World.init ops).progs[i]? = some p) :
    limitRun (.always n) l ops = limitRun (.always n) l' (aloneOps p) := by
  rw [limitRun_always_env n ops l (prog_needs_env cfg ops i p hi)]
  rfl

/-- … for the policy of the CURRENT source (`Environment.__init__` as it is now). -/
theorem limit_history_independent_current (cfg : Config) (l l' : Nat) (ops : List Op) (i : Nat) (p : Prog)
    (hi : (run cfg World.init ops).progs[i]? = some p) :
    limitRun Cel.Gen.Runtime.limitPolicy l ops = limitRun Cel.Gen.Runtime.limitPolicy l' (aloneOps p) := by
  obtain ⟨n, hn⟩ := Cel.Bridge.Runtime.limit_is_unconditional
  rw [hn]
  exact limit_history_independent cfg n l l' ops i p hi

/-- Counterexample (why the policy must be unconditional): if only interpreted environments raise the limit, a compiled
program is built under limit 1000 alone and under 2500 after an unrelated interpreted environment was created. -/
theorem limit_conditional_depends_on_history :
    limitRun (.onlyKind .I 2500) 1000 (aloneOps ⟨.C, [], none, .lit 1, (0, [])⟩) = 1000 ∧
    limitRun (.onlyKind .I 2500) 1000 (.mkEnv .I [] none :: aloneOps ⟨.C, [], none, .lit 1, (0, [])⟩) = 2500 := by decide

/-! ## non-vacuity and the two defects this property found (regressions) -/

/-- D3 witness history: compiled program over `a.b + x`, evaluated with `a.b` bound, then without -/
def d3History : List Op :=
  [.mkEnv .C [("a.b", "IntType"), ("x", "IntType")] none,
   .compile 0 (some (.add (.dot (.ident "a") "b") (.ident "x"))), .program 0 0,
   .evaluate 0 [("a.b", .int 1), ("x", .int 10)], .evaluate 0 [("x", .int 10)]]

/-- with the fixed `Referent.clone` the second evaluation is an error, as it is alone -/
example : trace Config.fixed World.init d3History = [.done, .done, .done, .value "int:11", .err] := by decide
/-- **D3**: with the shallow `Referent.clone` (before commit 6d594df) the binding of `a.b` leaks into the next
evaluation — history independence fails, so the hypothesis `cfg.clone = .deep` is necessary -/
theorem d3_shallow_clone_leaks :
    trace ⟨.shallow, .perClass, .perCall, true⟩ World.init d3History = [.done, .done, .done, .value "int:11", .value "int:11"] ∧
    ideal ⟨.shallow, .perClass, .perCall, true⟩ ⟨.C, [("a.b", "IntType"), ("x", "IntType")], none,
        .add (.dot (.ident "a") "b") (.ident "x"), (0, [])⟩ [("x", .int 10)] = .err := by decide

/-- D2 witness history: an interpreted environment first, then a compiled one -/
def d2History : List Op :=
  [.mkEnv .I [] none, .mkEnv .C [] none, .compile 1 (some (.lit 5)), .program 1 0, .evaluate 0 []]

example : trace Config.fixed World.init d2History = [.done, .done, .done, .done, .value "int:5"] := by decide
/-- **D2**: with the process-wide parser singleton (before commit e31ff08) the compiled program cannot be built -/
theorem d2_parser_singleton_poisons :
    trace ⟨.deep, .singleton, .perCall, true⟩ World.init d2History = [.done, .done, .done, .exc .attributeError, .noSuch] := by
  decide

/-- the hypotheses of `history_independent` are satisfiable with interesting content: a history with two
environments of different runner classes, a dotted and packaged declaration, a program evaluated three times
with overlapping bindings -/
example :
    let ops : List Op := [.mkEnv .I [("p.a", "IntType")] (some "p"), .mkEnv .C [("p.a", "IntType"), ("a.b", "IntType")] (some "p"),
      .compile 1 (some (.add (.ident "a") (.dot (.ident "a") "b"))), .program 1 0,
      .evaluate 0 [("p.a", .int 1), ("a.b", .int 2)], .evaluate 0 [("a.b", .int 2)], .evaluate 0 []]
    (run Config.fixed World.init ops).progs[0]?.isSome = true ∧
      trace Config.fixed World.init ops = [.done, .done, .done, .done, .err, .err, .err] := by decide

/-- the hypothesis of `limit_history_independent` is satisfiable, and the limit trace of a mixed history is constant -/
example : (run Config.fixed World.init d2History).progs[0]?.isSome = true ∧
    limitTrace (.always 2500) 1000 d2History = [2500, 2500, 2500, 2500, 2500] := by decide

end Cel.Props.C05
