import Cel.Model.Runtime
import Cel.Bridge.Runtime
namespace Cel.Props.C05
open Cel Cel.Runtime
/-- placeholder while the correspondence is brought up -/
theorem placeholder : Config.fixed.clone = .deep := rfl
end Cel.Props.C05
