/-
  C18 — Policy translation preserves the filter's boolean structure.

  Model (Cel.Model.Xlate): `logicalConnector` mirrors `C7N_Rewriter.logical_connector` /
  `operands` / `top_level_logic` on token strings; a primitive clause is the token string of an
  ARBITRARY well-formed CEL expression (so "whatever CEL text the individual clauses translate to"
  is covered, including clauses with `&&`, `||`, `!`, `?:` at their top level). "Parses" and the
  precedence the emitted text is subject to are those of C06's grammar (`Derives` over the
  productions regenerated from cel.lark); lark's lexer and LALR uniqueness are trusted as in C06.
  The evaluator is any function `ev` that respects `&& || !` and parentheses (`BoolHom`), e.g. the
  concrete `evalBool ρ`; a truth assignment to the clauses is `ev` restricted to them.
-/
import Cel.Lemmas.Xlate
import Cel.Lemmas.XlateText
namespace Cel.Props.C18
open Cel Cel.Grammar Cel.Xlate

/-- the scanner of `top_level_logic` decides exactly "has `&&`, `||` or `?:` outside brackets",
for every CEL expression -/
theorem top_level_logic_exact (e : PExpr) : topLevelLogic (render e) = tops e :=
  topLevelLogic_render e

/-- a clause left unparenthesised by `operands` binds at least as tightly as a relation -/
theorem ungrouped_is_tight (e : PExpr) (h : topLevelLogic (render e) = false) : 3 ≤ level e :=
  tops_false_level e (by rw [← topLevelLogic_render]; exact h)

/-! ### the scanner at the level it works on: characters

`top_level_logic` scans TEXT. `scanText` (Cel.Model.XlateText) is that loop on characters: it skips
single- and triple-quoted literals itself (a backslash escapes the next character), counts brackets,
and stops at `?`, `&&`, `||` at depth 0. The theorems below say that on the spelled-out token string
it computes what the token-level scanner computes, so `top_level_logic_exact` holds for the text. -/

/-- on the blank-separated spelling of ANY token string whose tokens have the text their terminal can
match (`lexOK`: fixed text for brackets and `? && ||`; a closed string literal for the literal kinds;
no quotes, brackets, `? & |` elsewhere), at any starting depth, the character scanner agrees with the
token scanner. Induction over all token strings; string literals by induction over their body. -/
theorem scanner_text_eq_tokens (ts : List Tok) (d : Int) (h : ∀ t ∈ ts, lexOK t = true) :
    scanText d (textOf ts) = scanTop d ts :=
  scanText_textOf ts d h

/-- "whatever CEL text the individual clauses translate to": for every CEL expression, the scanner run on
the clause's TEXT answers exactly "has `&&`, `||` or `?:` outside brackets (and string literals)" -/
theorem top_level_logic_text_exact (e : PExpr) (h : ∀ t ∈ render e, lexOK t = true) :
    topLevelLogicText (textOf (render e)) = tops e := by
  unfold topLevelLogicText
  rw [scanText_textOf _ 0 h]
  exact topLevelLogic_render e

/-- blanks outside literals do not matter to the scanner (the real text has them where the rewriters put them) -/
theorem scanner_skips_blanks (d : Int) (n : Nat) (s : List Char) :
    scanText d (List.replicate n ' ' ++ s) = scanText d s :=
  scanText_plains d _ s (by simp [plainChar, isQuote, isOpenC, isCloseC])

/-- a string literal is skipped whole, whatever it contains: a literal's text `q body q` whose first unescaped
`q` is its end (`litBody`) leaves the scanner at the text after it, at the same depth -/
theorem scanner_skips_literal (d : Int) (cs rest : List Char) (h : strTokOK cs = true)
    (hs : rest = [] ∨ ∃ r, rest = ' ' :: r) :
    scanText d (cs ++ rest) = scanText d rest :=
  scanText_strTok d rest hs cs h

/-- every anonymous token (operators, brackets, `in`, `.`, `,`, `:`) has an admissible text -/
theorem anon_tokens_lexOK (k : TK) (h : k.named = false) : lexOK (.a k) = true := by
  cases k <;> first | decide | (simp [TK.named] at h)

section text_witnesses
/-- hypotheses are satisfiable: `"a\"&&"`, `'''it's (?'''`, `r"\d||"`, `b'x'`, an identifier, a number -/
example : lexOK ⟨.STRING_LIT, "\"a\\\"&&\""⟩ = true ∧ lexOK ⟨.MLSTRING_LIT, "'''it's (?'''"⟩ = true ∧
    lexOK ⟨.STRING_LIT, "r\"\\d||\""⟩ = true ∧ lexOK ⟨.BYTES_LIT, "b'x'"⟩ = true ∧
    lexOK ⟨.IDENT, "resource"⟩ = true ∧ lexOK ⟨.FLOAT_LIT, "1.5e-3"⟩ = true := by decide
/-- … and exclude what no terminal matches: an "identifier" `a&&b`, an unclosed literal, a literal with an
unescaped quote inside -/
example : lexOK ⟨.IDENT, "a&&b"⟩ = false ∧ lexOK ⟨.STRING_LIT, "\"abc"⟩ = false ∧
    lexOK ⟨.STRING_LIT, "\"a\"b\""⟩ = false := by decide
/-- the text `"(" == ")(" || x` has `||` at depth 0 although the brackets inside the literals do not balance;
`[c, '&& || ? :' == ')'].exists(x, x)` has none -/
example : topLevelLogicText "\"(\" == \")(\" || x".toList = true ∧
    topLevelLogicText "[c, '&& || ? :' == ')'].exists(x, x)".toList = false ∧
    topLevelLogicText "'it\\'s' == '' ? a : b".toList = true ∧
    topLevelLogicText "\"\"\"a \" && \"\"\" == s".toList = false := by
  simp [topLevelLogicText, scanText, skipLit, quoteOf, isQuote, isOpenC, isCloseC, List.isPrefixOf]
end text_witnesses

/-- **The emitted text parses** (sentence 1): for every filter tree whose connectives have at least
one child, over arbitrary well-formed clauses, at any nesting level, the emitted token string is a
sentence of the CEL grammar, and its tree is that of `exprOf`. -/
theorem emit_parses_at (lvl : Nat) (f : Filter) (hn : nonEmpty f = true) (hw : clausesWF f = true) :
    ∃ e, exprOf lvl f = some e ∧ Derives (.n .expr) (logicalConnector lvl f) [toTree e] := by
  obtain ⟨e, h1, h2, h3, _⟩ := good f hn hw lvl
  exact ⟨e, h1, h2 ▸ Cel.Grammar.at_of_core e 0 (Nat.zero_le _) (render_core e h3)⟩

theorem emit_parses (f : Filter) (hn : nonEmpty f = true) (hw : clausesWF f = true) :
    ∃ e, exprOf 0 f = some e ∧ Derives (.n .expr) (emit f) [toTree e] :=
  emit_parses_at 0 f hn hw

/-- **… and evaluates to what the Custodian combinators give** (sentence 2): the expression the
emitted text denotes is well-formed, renders to exactly the emitted tokens, and under every
evaluation respecting `&& || !` and parentheses its value is `c7nDenote` (list/and = all, or = any,
not = not all) of the clause values. Induction over all filter trees: any depth, any fan-out ≥ 1,
any clause expressions. -/
theorem emit_preserves (f : Filter) (hn : nonEmpty f = true) (hw : clausesWF f = true)
    (ev : PExpr → Bool) (H : BoolHom ev) :
    ∃ e, exprOf 0 f = some e ∧ render e = emit f ∧ WF e ∧ ev e = c7nDenote ev f := by
  obtain ⟨e, h1, h2, h3, h4⟩ := good f hn hw 0
  exact ⟨e, h1, h2, h3, h4 ev H⟩

/-- the same for the concrete evaluator and every truth assignment `ρ` -/
theorem emit_preserves_evalBool (f : Filter) (hn : nonEmpty f = true) (hw : clausesWF f = true)
    (ρ : String → Bool) :
    ∃ e, exprOf 0 f = some e ∧ render e = emit f ∧ WF e ∧
      evalBool ρ e = c7nDenote (evalBool ρ) f :=
  emit_preserves f hn hw _ (evalBool_hom ρ)

/-! ### non-vacuity, and the regression witnesses of D22 (fixed by 71012e7) -/
section witnesses
private def a := PExpr.ident "a"
private def b := PExpr.ident "b"
private def c := PExpr.ident "c"
private def sched := PExpr.cond (.ident "t") (.lit .bool "false") (.paren (.ident "s"))
private def F (xs : List Filter) : Filters := xs.foldr .cons .nil
/-- `[a, {or: [b, c]}]` -/
private def f1 : Filter := .list (F [.prim a, .or (F [.prim b, .prim c])])
private def onsched := PExpr.cond (.ident "t") (.paren (.ident "s")) (.lit .bool "false")
/-- `[a, offhour-like ?: clause]` -/
private def f2 : Filter := .list (F [.prim a, .prim sched])
/-- `[onhour-like ?: clause, a]` -/
private def f3 : Filter := .list (F [.prim onsched, .prim a])
private def ρ1 : String → Bool := fun s => s == "c"
private def ρ2 : String → Bool := fun s => s == "s"
private def ρ3 : String → Bool := fun s => s == "s" || s == "t"

example : nonEmpty f1 = true ∧ clausesWF f1 = true ∧ nonEmpty f2 = true ∧ clausesWF f2 = true ∧ clausesWF f3 = true := by decide
/-- today: `a && (b || c)` -/
example : emit f1 = [⟨.IDENT, "a"⟩, .a .ANDAND, .a .LPAR, ⟨.IDENT, "b"⟩, .a .OROR, ⟨.IDENT, "c"⟩, .a .RPAR] := by decide
example : (parse (emit f1)).map (evalBool ρ1) = some false ∧ c7nDenote (evalBool ρ1) f1 = false := by decide
/-- before the fix the text was `a && b || c`, which CEL groups as `(a && b) || c`: with a = b = false,
c = true the translation said true where Custodian says false -/
theorem old_translation_wrong_nested_or :
    logicalConnectorOld 0 f1 = [⟨.IDENT, "a"⟩, .a .ANDAND, ⟨.IDENT, "b"⟩, .a .OROR, ⟨.IDENT, "c"⟩] ∧
    (parse (logicalConnectorOld 0 f1)).map (evalBool ρ1) = some true ∧
    c7nDenote (evalBool ρ1) f1 = false := by decide
/-- before the fix a `?:` clause captured its neighbours: `[a, offhour]` gave `a && t ? false : (s)`,
which CEL groups as `(a && t) ? false : (s)` (a false, s true: translation true, Custodian false);
`[onhour, a]` gave `t ? (s) : false && a`, which drops `a` when `t` holds -/
theorem old_translation_wrong_ternary_clause :
    (parse (logicalConnectorOld 0 f2)).map (evalBool ρ2) = some true ∧
    (parse (emit f2)).map (evalBool ρ2) = some false ∧
    c7nDenote (evalBool ρ2) f2 = false ∧
    (parse (logicalConnectorOld 0 f3)).map (evalBool ρ3) = some true ∧
    (parse (emit f3)).map (evalBool ρ3) = some false ∧
    c7nDenote (evalBool ρ3) f3 = false := by decide
/-- an empty connective emits the empty text, which is not CEL (outside the property: fan-out ≥ 1) -/
example : emit (.or .nil) = [] ∧ parse (emit (.or .nil)) = none := by decide
end witnesses

end Cel.Props.C18
