/-
  C08 — Equality and ordering are coherent within each CEL type.

  Property theorems only.  Subject: `Cel.veq/vne/vlt/vle/vgt/vge` = `pyRel cmpSpecs op`, the model of
  `a OP b` as cel-python composes it (Cel.Model.Value: `type_matched`, inherited native comparisons, CPython's
  NotImplemented/reflected dispatch, the `ListType`/`MapType` reductions with TypeError capture), and the
  runner level `relI` / `relC` (`boolean()`, the `relation` rule, `result()`).  `cmpSpecs` — which class
  defines which comparison dunder and the structure of the container reductions — is proved equal to the
  tables regenerated from celtypes.py in `Cel.Bridge.Compare`.

  All statements are for every value of the stated shape: every `Int`, every code-point list, every list /
  map of any length and nesting depth.  Hypotheses: `sameType a b` (deep same-typedness), `Val.wf`
  (map keys pairwise distinct and of one key class — what a `MapType` built by the evaluator satisfies),
  `Val.plain` (no NaN inside), `sameOrdered a b` (two values of one ordered type, NaN excluded).
-/
import Cel.Lemmas.Value
namespace Cel.Props.C08
open Cel

/-! ### `==` / `!=` against the point-wise specification -/

/-- On same-typed values `==` never errs and computes exactly the point-wise equality `eqSpec`
(scalars by value, doubles by IEEE `==`, strings by code points, timestamps by instant, lists
position-wise with equal lengths, maps with equal key sets and equal values). -/
theorem eq_is_spec (a b : Val) (h : sameType a b = true) : veq a b = .ok (eqSpec a b) :=
  (rel_spec a b h).1

/-- "`!=` is its negation": on same-typed values `a != b` is the negation of `a == b`. -/
theorem ne_is_not_eq (a b : Val) (h : sameType a b = true) :
    vne a b = (veq a b).map (fun r => !r) := by
  rw [show vne a b = _ from (rel_spec a b h).2, eq_is_spec a b h]; rfl

/-- "`==` is reflexive" — for every well-formed value without NaN inside, any nesting. -/
theorem eq_refl (v : Val) (hw : v.wf = true) (hp : v.plain = true) : veq v v = .ok true := by
  have h := refl_spec v hw
  rw [eq_is_spec v v h.1, h.2 hp]

/-- reflexivity really needs `plain`: NaN is not equal to itself, also inside a list. -/
example : veq (.dbl .nan) (.dbl .nan) = .ok false := rfl
example : veq (.list [.dbl .nan]) (.list [.dbl .nan]) = .ok false := rfl
/-- non-vacuity of the hypotheses: a nested value with a map inside is well-formed, plain and self-typed -/
example : (Val.list [.map [(.str [97], .list [.int 1, .dbl (.num 0 true)]), (.str [98], .list [])], .map []]).wf = true := by decide
example : (Val.list [.map [(.str [97], .list [.int 1, .dbl (.num 0 true)]), (.str [98], .list [])], .map []]).plain = true := by decide

/-- "`==` is symmetric" — for same-typed well-formed values (both directions of same-typedness: maps
are matched by the keys of the left operand). -/
theorem eq_symm (a b : Val) (hab : sameType a b = true) (hba : sameType b a = true)
    (ha : a.wf = true) (hb : b.wf = true) : veq a b = veq b a := by
  rw [eq_is_spec a b hab, eq_is_spec b a hba, eqSpec_symm a b ha hb]

/-- `!=` is symmetric as well. -/
theorem ne_symm (a b : Val) (hab : sameType a b = true) (hba : sameType b a = true)
    (ha : a.wf = true) (hb : b.wf = true) : vne a b = vne b a := by
  rw [ne_is_not_eq a b hab, ne_is_not_eq b a hba, eq_symm a b hab hba ha hb]

/-! ### ordered types: int, uint, double (no NaN), bool, string, bytes, timestamp, duration -/

/-- Every relation on two values of one ordered type is the corresponding relation of the mathematical
order `ocmp` (integers; IEEE order; false < true; code points / octets lexicographically; instants; µs). -/
theorem rel_is_order (op : RelOp) (a b : Val) (h : sameOrdered a b = true) :
    pyRel cmpSpecs op a b = .ok (op.holds (ocmp a b)) := pyRel_ordered op a b h

/-- `<` is irreflexive. -/
theorem lt_irrefl (a : Val) (h : sameOrdered a a = true) (ho : a.ordered = true) : vlt a a = .ok false := by
  rw [show vlt a a = _ from pyRel_ordered .lt a a h, ocmp_refl a ho]; rfl

/-- `<` is transitive. -/
theorem lt_trans (a b c : Val) (hab : sameOrdered a b = true) (hbc : sameOrdered b c = true)
    (h1 : vlt a b = .ok true) (h2 : vlt b c = .ok true) : vlt a c = .ok true := by
  have hac := sameOrdered_trans a b c hab hbc
  rw [show vlt a b = _ from pyRel_ordered .lt a b hab] at h1
  rw [show vlt b c = _ from pyRel_ordered .lt b c hbc] at h2
  rw [show vlt a c = _ from pyRel_ordered .lt a c hac]
  have l1 : ocmp a b = .lt := by cases h : ocmp a b <;> simp_all [RelOp.holds]
  have l2 : ocmp b c = .lt := by cases h : ocmp b c <;> simp_all [RelOp.holds]
  rw [ocmp_trans a b c hab hbc l1 l2]; rfl

/-- "exactly one of `<`, `==`, `>` holds" (trichotomy; with irreflexivity and transitivity: a strict total order). -/
theorem trichotomy (a b : Val) (h : sameOrdered a b = true) :
    (vlt a b = .ok true ∧ veq a b = .ok false ∧ vgt a b = .ok false) ∨
    (vlt a b = .ok false ∧ veq a b = .ok true ∧ vgt a b = .ok false) ∨
    (vlt a b = .ok false ∧ veq a b = .ok false ∧ vgt a b = .ok true) := by
  rw [show vlt a b = _ from pyRel_ordered .lt a b h, show veq a b = _ from pyRel_ordered .eq a b h,
    show vgt a b = _ from pyRel_ordered .gt a b h]
  cases ocmp a b <;> simp [RelOp.holds]

/-- "`a < b` iff `b > a`" (as equal outcomes). -/
theorem lt_gt (a b : Val) (h : sameOrdered a b = true) : vlt a b = vgt b a := by
  rw [show vlt a b = _ from pyRel_ordered .lt a b h,
    show vgt b a = _ from pyRel_ordered .gt b a (sameOrdered_symm a b h), ocmp_swap a b h, holds_lt_gt]

/-- `a <= b` iff `b >= a`. -/
theorem le_ge (a b : Val) (h : sameOrdered a b = true) : vle a b = vge b a := by
  rw [show vle a b = _ from pyRel_ordered .le a b h,
    show vge b a = _ from pyRel_ordered .ge b a (sameOrdered_symm a b h), ocmp_swap a b h]
  cases ocmp a b <;> rfl

/-- "`a <= b` iff `a < b || a == b`": the three outcomes are values and `<=` is the disjunction. -/
theorem le_def (a b : Val) (h : sameOrdered a b = true) :
    ∃ l e, vlt a b = .ok l ∧ veq a b = .ok e ∧ vle a b = .ok (l || e) :=
  ⟨_, _, pyRel_ordered .lt a b h, pyRel_ordered .eq a b h, by
    rw [show vle a b = _ from pyRel_ordered .le a b h, holds_le]⟩

/-- `a >= b` iff `a > b || a == b`. -/
theorem ge_def (a b : Val) (h : sameOrdered a b = true) :
    ∃ g e, vgt a b = .ok g ∧ veq a b = .ok e ∧ vge a b = .ok (g || e) :=
  ⟨_, _, pyRel_ordered .gt a b h, pyRel_ordered .eq a b h, by
    rw [show vge a b = _ from pyRel_ordered .ge a b h, holds_ge]⟩

/-- on an ordered type `==` is exactly "neither `<` nor `>`", and agrees with the point-wise `eqSpec` -/
theorem eq_iff_order_eq (a b : Val) (h : sameOrdered a b = true) :
    veq a b = .ok true ↔ ocmp a b = .eq := by
  rw [show veq a b = _ from pyRel_ordered .eq a b h]
  cases ocmp a b <;> simp [RelOp.holds]

/-- "strings compare by code point": `<` on strings is the lexicographic order of the code-point lists
(so a non-BMP character sorts after every BMP character). -/
theorem string_by_code_point (s t : List Nat) : vlt (.str s) (.str t) = .ok (cmpSeq s t == .lt) := by
  rw [show vlt (.str s) (.str t) = _ from pyRel_ordered .lt _ _ rfl]
  simp only [ocmp]; cases cmpSeq s t <;> rfl
example : vlt (.str [0xFFFF]) (.str [0x10000]) = .ok true := rfl

/-- "timestamps [compare] by instant regardless of the zone they were written in": every relation between
two timestamps is independent of the offsets, and equal instants are equal. -/
theorem ts_zone_irrelevant (op : RelOp) (i j o₁ o₂ o₁' o₂' : Int) :
    pyRel cmpSpecs op (.ts i o₁) (.ts j o₂) = pyRel cmpSpecs op (.ts i o₁') (.ts j o₂') := by
  rw [pyRel_ordered op _ _ rfl, pyRel_ordered op _ _ rfl]; rfl
theorem ts_same_instant_equal (i o₁ o₂ : Int) : veq (.ts i o₁) (.ts i o₂) = .ok true := by
  rw [show veq (.ts i o₁) (.ts i o₂) = _ from pyRel_ordered .eq _ _ rfl]
  simp [ocmp, cmpInt_refl, RelOp.holds]

/-- negative zero: `-0.0 == 0.0`, and neither is less than the other (order key 0 for both). -/
theorem neg_zero_eq_zero : veq (.dbl (.num 0 true)) (.dbl (.num 0 false)) = .ok true ∧
    vlt (.dbl (.num 0 true)) (.dbl (.num 0 false)) = .ok false := ⟨rfl, rfl⟩

/-! ### containers -/

/-- "Lists are equal exactly when they have equal elements position-wise" — any length, any nesting:
for same-typed lists `==` is true iff the lengths agree and `==` is true at every position. -/
theorem list_eq_pointwise (xs ys : List Val) (h : sameType (.list xs) (.list ys) = true) :
    veq (.list xs) (.list ys) = .ok true ↔
      xs.length = ys.length ∧ ∀ i (h1 : i < xs.length) (h2 : i < ys.length), veq xs[i] ys[i] = .ok true := by
  rw [eq_is_spec _ _ h]
  simp only [sameType] at h
  simp only [eqSpec, Except.ok.injEq, Bool.and_eq_true, beq_iff_eq]
  have key : ∀ (xs ys : List Val), sameTypeList xs ys = true →
      (eqSpecList xs ys = true ↔ ∀ i (h1 : i < xs.length) (h2 : i < ys.length), veq xs[i] ys[i] = .ok true) := by
    intro xs
    induction xs with
    | nil => intro ys _; simp [eqSpecList]
    | cons x xs ih =>
      intro ys hs
      cases ys with
      | nil => simp [eqSpecList]
      | cons y ys =>
        simp only [sameTypeList, Bool.and_eq_true] at hs
        simp only [eqSpecList, Bool.and_eq_true, ih ys hs.2]
        constructor
        · rintro ⟨h0, hr⟩ i h1 h2
          cases i with
          | zero => simpa [eq_is_spec x y hs.1] using h0
          | succ i =>
            simp only [List.getElem_cons_succ]
            exact hr i (by simpa using h1) (by simpa using h2)
        · intro hall
          refine ⟨?_, fun i h1 h2 => ?_⟩
          · have := hall 0 (by simp) (by simp)
            simpa [eq_is_spec x y hs.1] using this
          · have := hall (i + 1) (by simpa using h1) (by simpa using h2)
            simp only [List.getElem_cons_succ] at this
            exact this
  rw [key xs ys h]

/-- and otherwise (same-typed lists) `==` is false — never an error. -/
theorem list_eq_total (xs ys : List Val) (h : sameType (.list xs) (.list ys) = true) :
    ∃ r, veq (.list xs) (.list ys) = .ok r := ⟨_, eq_is_spec _ _ h⟩

/-- "maps [are equal] when they have equal key sets with equal values": for same-typed maps `==` is true iff
the sizes agree and every entry `(k, v)` of the left map has a partner `(k, w)` in the right map with
`v == w` true.  (With pairwise distinct keys — `Val.wf` — equal sizes plus left-in-right is equality of
the key sets; see `map_eq_symm`.) -/
theorem map_eq_pointwise (m1 m2 : List (Key × Val)) (h : sameType (.map m1) (.map m2) = true) :
    veq (.map m1) (.map m2) = .ok true ↔
      m1.length = m2.length ∧ ∀ kv ∈ m1, ∃ w, find? kv.1 m2 = some w ∧ veq kv.2 w = .ok true := by
  rw [eq_is_spec _ _ h]
  have hsm := sameTypeMap_of_sameType m1 m2 h
  simp only [eqSpec, Except.ok.injEq, Bool.and_eq_true, beq_iff_eq, eqSpecMap_iff]
  have sub : ∀ (m1 : List (Key × Val)), sameTypeMap m1 m2 = true → ∀ kv ∈ m1, ∀ w, find? kv.1 m2 = some w →
      sameType kv.2 w = true := by
    intro m1
    induction m1 with
    | nil => intro _ kv hkv; cases hkv
    | cons kv0 rest ih =>
      obtain ⟨k0, v0⟩ := kv0
      intro hs kv hkv w hw
      simp only [sameTypeMap, Bool.and_eq_true] at hs
      rcases List.mem_cons.mp hkv with hkv | hkv
      · subst hkv; simp only [hw] at hs; exact hs.1
      · exact ih hs.2 kv hkv w hw
  constructor
  · rintro ⟨hl, hall⟩
    refine ⟨hl, fun kv hkv => ?_⟩
    obtain ⟨w, hw, he⟩ := hall kv hkv
    exact ⟨w, hw, by rw [eq_is_spec _ _ (sub m1 hsm kv hkv w hw), he]⟩
  · rintro ⟨hl, hall⟩
    refine ⟨hl, fun kv hkv => ?_⟩
    obtain ⟨w, hw, he⟩ := hall kv hkv
    refine ⟨w, hw, ?_⟩
    rw [eq_is_spec _ _ (sub m1 hsm kv hkv w hw)] at he
    simpa using he

/-- insertion order of a map does not matter and the criterion is symmetric: instance of `eq_symm` -/
theorem map_eq_symm (m1 m2 : List (Key × Val)) (h12 : sameType (.map m1) (.map m2) = true)
    (h21 : sameType (.map m2) (.map m1) = true) (w1 : (Val.map m1).wf = true) (w2 : (Val.map m2).wf = true) :
    veq (.map m1) (.map m2) = veq (.map m2) (.map m1) := eq_symm _ _ h12 h21 w1 w2
example : veq (.map [(.int 1, .str [97]), (.int 2, .str [98])]) (.map [(.int 2, .str [98]), (.int 1, .str [97])]) = .ok true := rfl

/-- ordering of lists is an error, as the class bodies say (`raise TypeError`), in both runners -/
theorem list_order_is_error (xs ys : List Val) (op : RelOp) (h : op ≠ .eq ∧ op ≠ .ne) :
    pyRel cmpSpecs op (.list xs) (.list ys) = .error .typeError := by
  cases op <;> simp_all <;> rfl

/-! ### round 2: `==` is an equivalence relation; `<=` is a total preorder whose symmetric part is `==`;
equal values are interchangeable in every comparison -/

/-- "`==` is … transitive" (with `eq_refl`, `eq_symm`: an equivalence relation on the values of one CEL type) — any
nesting depth, any sizes: if `a == b` and `b == c` are true then `a == c` is true.  That `a` and `c` are of one type
is not assumed: it follows from `a == b` (`sameType_of_eqSpec`). -/
theorem eq_trans (a b c : Val) (hab : sameType a b = true) (hbc : sameType b c = true)
    (h1 : veq a b = .ok true) (h2 : veq b c = .ok true) : veq a c = .ok true := by
  rw [eq_is_spec a b hab] at h1
  rw [eq_is_spec b c hbc] at h2
  have e1 : eqSpec a b = true := by simpa using h1
  have e2 : eqSpec b c = true := by simpa using h2
  rw [eq_is_spec a c (sameType_of_eqSpec a b c e1 hbc), eqSpec_trans a b c e1 e2]
/-- equal values are of the same types: `a == b` true and `b`, `c` same-typed make `a`, `c` same-typed -/
theorem eq_preserves_type (a b c : Val) (hab : sameType a b = true) (hbc : sameType b c = true)
    (h1 : veq a b = .ok true) : sameType a c = true := by
  rw [eq_is_spec a b hab] at h1
  exact sameType_of_eqSpec a b c (by simpa using h1) hbc
example : veq (.list [.dbl (.num 0 true)]) (.list [.dbl (.num 0 false)]) = .ok true := rfl

/-- `<` is asymmetric. -/
theorem lt_asymm (a b : Val) (h : sameOrdered a b = true) (h1 : vlt a b = .ok true) : vlt b a = .ok false := by
  rw [show vlt a b = _ from pyRel_ordered .lt a b h] at h1
  rw [show vlt b a = _ from pyRel_ordered .lt b a (sameOrdered_symm a b h), ocmp_swap a b h]
  cases ho : ocmp a b <;> simp_all [RelOp.holds, Ordering.swap]

/-- `<=` is transitive. -/
theorem le_trans (a b c : Val) (hab : sameOrdered a b = true) (hbc : sameOrdered b c = true)
    (h1 : vle a b = .ok true) (h2 : vle b c = .ok true) : vle a c = .ok true := by
  have hac := sameOrdered_trans a b c hab hbc
  rw [show vle a b = _ from pyRel_ordered .le a b hab] at h1
  rw [show vle b c = _ from pyRel_ordered .le b c hbc] at h2
  rw [show vle a c = _ from pyRel_ordered .le a c hac]
  have l1 : ocmp a b ≠ .gt := by cases ho : ocmp a b <;> simp_all [RelOp.holds]
  have l2 : ocmp b c ≠ .gt := by cases ho : ocmp b c <;> simp_all [RelOp.holds]
  have l3 := ocmp_le_trans a b c hab hbc l1 l2
  cases ho : ocmp a c <;> simp_all [RelOp.holds]

/-- `<=` is antisymmetric up to `==`: `a <= b` and `b <= a` force `a == b`. -/
theorem le_antisymm (a b : Val) (h : sameOrdered a b = true)
    (h1 : vle a b = .ok true) (h2 : vle b a = .ok true) : veq a b = .ok true := by
  rw [show vle a b = _ from pyRel_ordered .le a b h] at h1
  rw [show vle b a = _ from pyRel_ordered .le b a (sameOrdered_symm a b h), ocmp_swap a b h] at h2
  rw [show veq a b = _ from pyRel_ordered .eq a b h]
  cases ho : ocmp a b <;> simp_all [RelOp.holds, Ordering.swap]

/-- `<=` is total: any two values of an ordered type are comparable. -/
theorem le_total (a b : Val) (h : sameOrdered a b = true) : vle a b = .ok true ∨ vle b a = .ok true := by
  rw [show vle a b = _ from pyRel_ordered .le a b h,
    show vle b a = _ from pyRel_ordered .le b a (sameOrdered_symm a b h), ocmp_swap a b h]
  cases ocmp a b <;> simp [RelOp.holds, Ordering.swap]

/-- `!=` is exactly "`<` or `>`" on an ordered type. -/
theorem ne_iff_lt_or_gt (a b : Val) (h : sameOrdered a b = true) :
    vne a b = .ok true ↔ (vlt a b = .ok true ∨ vgt a b = .ok true) := by
  rw [show vne a b = _ from pyRel_ordered .ne a b h, show vlt a b = _ from pyRel_ordered .lt a b h,
    show vgt a b = _ from pyRel_ordered .gt a b h]
  cases ocmp a b <;> simp [RelOp.holds]

/-- Equality is coherent with the order: values that are `==` cannot be told apart by ANY of the six relations, on either
side (what a normalising / tolerant `==` next to a raw `<` breaks). -/
theorem eq_congr_left (op : RelOp) (a b c : Val) (hab : sameOrdered a b = true) (hbc : sameOrdered b c = true)
    (he : veq a b = .ok true) : pyRel cmpSpecs op a c = pyRel cmpSpecs op b c := by
  rw [show veq a b = _ from pyRel_ordered .eq a b hab] at he
  have e : ocmp a b = .eq := by cases ho : ocmp a b <;> simp_all [RelOp.holds]
  rw [pyRel_ordered op a c (sameOrdered_trans a b c hab hbc), pyRel_ordered op b c hbc, ocmp_congr_left a b c hab hbc e]
theorem eq_congr_right (op : RelOp) (a b c : Val) (hab : sameOrdered a b = true) (hbc : sameOrdered b c = true)
    (he : veq b c = .ok true) : pyRel cmpSpecs op a c = pyRel cmpSpecs op a b := by
  rw [show veq b c = _ from pyRel_ordered .eq b c hbc] at he
  have e : ocmp b c = .eq := by cases ho : ocmp b c <;> simp_all [RelOp.holds]
  rw [pyRel_ordered op a c (sameOrdered_trans a b c hab hbc), pyRel_ordered op a b hab, ocmp_congr_right a b c hab hbc e]

/-- "strings compare by code point", the `==` half: two strings are equal exactly when their code-point lists are (no
normalisation form, no case folding), and likewise bytes by octets. -/
theorem string_eq_by_code_point (s t : List Nat) : veq (.str s) (.str t) = .ok (decide (s = t)) := eq_is_spec _ _ rfl
theorem bytes_eq_by_octet (s t : List Nat) : veq (.bytes s) (.bytes t) = .ok (decide (s = t)) := eq_is_spec _ _ rfl
/-- U+00E9 and U+0065 U+0301 are canonically equivalent Unicode, and different CEL strings: `!=`, and ordered by code point -/
example : veq (.str [0xE9]) (.str [0x65, 0x301]) = .ok false ∧ vgt (.str [0xE9]) (.str [0x65, 0x301]) = .ok true := ⟨rfl, rfl⟩

/-- `!=` on same-typed lists: true exactly when the lengths differ or `!=` is true at some common position. -/
theorem list_ne_pointwise (xs ys : List Val) (h : sameType (.list xs) (.list ys) = true) :
    vne (.list xs) (.list ys) = .ok true ↔
      xs.length ≠ ys.length ∨ ∃ i, ∃ (h1 : i < xs.length) (h2 : i < ys.length), vne xs[i] ys[i] = .ok true := by
  have hne := ne_is_not_eq _ _ h
  have hp := list_eq_pointwise xs ys h
  rw [eq_is_spec _ _ h] at hne hp
  have hst : ∀ i (h1 : i < xs.length) (h2 : i < ys.length), sameType xs[i] ys[i] = true := by
    simp only [sameType] at h
    clear hne hp
    induction xs generalizing ys with
    | nil => intro i h1; simp at h1
    | cons x xs ih =>
      cases ys with
      | nil => intro i _ h2; simp at h2
      | cons y ys =>
        simp only [sameTypeList, Bool.and_eq_true] at h
        intro i h1 h2
        cases i with
        | zero => exact h.1
        | succ i => simpa using ih ys h.2 i (by simpa using h1) (by simpa using h2)
  have elem : ∀ i (h1 : i < xs.length) (h2 : i < ys.length),
      (vne xs[i] ys[i] = .ok true ↔ ¬ veq xs[i] ys[i] = .ok true) := by
    intro i h1 h2
    rw [ne_is_not_eq _ _ (hst i h1 h2), eq_is_spec _ _ (hst i h1 h2)]
    cases eqSpec xs[i] ys[i] <;> simp [Except.map]
  rw [hne]
  have : (Except.map (fun r => !r) (Except.ok (eqSpec (Val.list xs) (Val.list ys)) : PyM Bool) = .ok true) ↔
      ¬ ((Except.ok (eqSpec (Val.list xs) (Val.list ys)) : PyM Bool) = .ok true) := by
    cases eqSpec (Val.list xs) (Val.list ys) <;> simp [Except.map]
  rw [this, hp]
  constructor
  · intro hn
    by_cases hl : xs.length = ys.length
    · right
      have : ¬ ∀ i (h1 : i < xs.length) (h2 : i < ys.length), veq xs[i] ys[i] = .ok true := fun hall => hn ⟨hl, hall⟩
      simp only [Classical.not_forall] at this
      obtain ⟨i, h1, h2, hv⟩ := this
      exact ⟨i, h1, h2, (elem i h1 h2).mpr hv⟩
    · exact Or.inl hl
  · rintro (hl | ⟨i, h1, h2, hv⟩) ⟨hl', hall⟩
    · exact hl hl'
    · exact (elem i h1 h2).mp hv (hall i h1 h2)

/-! ### both runners -/

/-- What the caller sees: on same-typed values both runners hand back the `BoolType` carrying `eqSpec`
for `==` and its negation for `!=`. -/
theorem runners_eq (a b : Val) (h : sameType a b = true) :
    relI cmpSpecs relRoute booleanSpec handlersRelation .eq a b = .val (eqSpec a b) .bool ∧
    relC cmpSpecs relRoute booleanSpec .eq a b = .val (eqSpec a b) .bool ∧
    relI cmpSpecs relRoute booleanSpec handlersRelation .ne a b = .val (!eqSpec a b) .bool ∧
    relC cmpSpecs relRoute booleanSpec .ne a b = .val (!eqSpec a b) .bool := by
  have h1 := (rel_spec a b h).1
  have h2 := (rel_spec a b h).2
  simp [relI, relC, relRoute, relOut, h1, h2, booleanSpec]

/-- … and the `BoolType` carrying the order relation on ordered types. -/
theorem runners_order (op : RelOp) (a b : Val) (h : sameOrdered a b = true) :
    relI cmpSpecs relRoute booleanSpec handlersRelation op a b = .val (op.holds (ocmp a b)) .bool ∧
    relC cmpSpecs relRoute booleanSpec op a b = .val (op.holds (ocmp a b)) .bool := by
  simp [relI, relC, relRoute, relOut, pyRel_ordered op a b h, booleanSpec]

end Cel.Props.C08
