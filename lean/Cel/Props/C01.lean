/-
  C01 — Numeric operators are exact: int64/uint64 overflow-checked, double IEEE-754
  for division by zero.

  Property theorems only.  Subject: `Cel.IntOps.*`, `Cel.UintOps.*` — proved equal
  (Cel.Bridge.Num) to the definitions regenerated from celtypes.py on every run —
  for EVERY pair of integers (no range hypothesis is even needed for + - * neg;
  division and remainder need only what the statement says).
  `Int.tdiv` / `Int.tmod` are Lean's T-rounding division: quotient truncated toward
  zero, remainder with the sign of the dividend — the property's specification.
-/
import Cel.Lemmas.Num
import Cel.Bridge.Num
import Cel.Model.Num2
import Cel.Bridge.NumD
namespace Cel.Props.C01
open Cel

/-- exact result when it fits, `ValueError("overflow")` otherwise — never a wrapped value -/
def checked (z : Int) : PyM Int := if i64 z then .ok z else .error .valueError
def uchecked (z : Int) : PyM Int := if u64 z then .ok z else .error .valueError

/-! #### int64 -/
theorem int_add_exact (a b : Int) : IntOps.add a b = checked (a + b) := int64_twice _
theorem int_sub_exact (a b : Int) : IntOps.sub a b = checked (a - b) := int64_twice _
theorem int_mul_exact (a b : Int) : IntOps.mul a b = checked (a * b) := int64_twice _
theorem int_neg_exact (a : Int) : IntOps.neg a = checked (-a) := int64_twice _

/-- division truncates toward zero; zero divisor is ZeroDivisionError; MIN / -1 is an overflow error -/
theorem int_div_exact (a b : Int) :
    IntOps.truediv a b = if b = 0 then .error .zeroDiv else checked (a.tdiv b) := by
  unfold IntOps.truediv pyFloorDiv IntOps.wrap
  by_cases hb : b = 0
  · subst hb; simp [pyAbs]; rfl
  · have : pyAbs b ≠ 0 := fun h => hb ((pyAbs_eq_zero b).mp h)
    rw [if_neg this, if_neg hb]
    show (int64 (pySign a * pySign b * Int.fdiv (pyAbs a) (pyAbs b)) >>= int64) = _
    rw [sign_abs_fdiv, int64_twice]; rfl

/-- remainder takes the sign of the dividend; never an overflow -/
theorem int_mod_exact (a b : Int) (hb : i64 b) :
    IntOps.mod a b = if b = 0 then .error .zeroDiv else .ok (a.tmod b) := by
  unfold IntOps.mod pyMod IntOps.wrap
  by_cases hb0 : b = 0
  · subst hb0; simp [pyAbs]; rfl
  · have : pyAbs b ≠ 0 := fun h => hb0 ((pyAbs_eq_zero b).mp h)
    rw [if_neg this, if_neg hb0]
    show (int64 (pySign a * Int.fmod (pyAbs a) (pyAbs b)) >>= int64) = _
    rw [sign_abs_fmod, int64_twice, if_pos (tmod_i64 a b hb hb0)]

/-- the quotient of two int64 values overflows exactly for MIN / -1 -/
theorem int_div_overflow_iff (a b : Int) (ha : i64 a) (hb : b ≠ 0) :
    ¬ i64 (a.tdiv b) ↔ (a = -(2:Int)^63 ∧ b = -1) := by
  constructor
  · intro h
    by_cases hb1 : b = -1
    · subst hb1; simp [Int.tdiv_neg] at h; unfold i64 at *; omega
    · exfalso; apply h
      have habs : (a.tdiv b).natAbs ≤ a.natAbs := by
        rw [Int.natAbs_tdiv]; exact Nat.div_le_self _ _
      by_cases hb2 : b = 1
      · subst hb2; simpa using ha
      · have h2 : 2 ≤ b.natAbs := by omega
        have : (a.tdiv b).natAbs ≤ a.natAbs / 2 := by
          rw [Int.natAbs_tdiv]; exact Nat.div_le_div_left h2 (by omega)
        unfold i64 at *; omega
  · rintro ⟨rfl, rfl⟩; decide

/-- An arithmetic result is never wrapped, saturated or out of range. -/
theorem int_never_wraps (a b r : Int) :
    (IntOps.add a b = .ok r → i64 r ∧ r = a + b) ∧
    (IntOps.sub a b = .ok r → i64 r ∧ r = a - b) ∧
    (IntOps.mul a b = .ok r → i64 r ∧ r = a * b) ∧
    (IntOps.neg a = .ok r → i64 r ∧ r = -a) ∧
    (IntOps.truediv a b = .ok r → i64 r ∧ r = a.tdiv b ∧ b ≠ 0) := by
  refine ⟨?_, ?_, ?_, ?_, ?_⟩
  · rw [int_add_exact]; unfold checked; split <;> intro h <;> simp_all <;> (subst h; assumption)
  · rw [int_sub_exact]; unfold checked; split <;> intro h <;> simp_all <;> (subst h; assumption)
  · rw [int_mul_exact]; unfold checked; split <;> intro h <;> simp_all <;> (subst h; assumption)
  · rw [int_neg_exact]; unfold checked; split <;> intro h <;> simp_all <;> (subst h; assumption)
  · rw [int_div_exact]; unfold checked
    by_cases hb : b = 0
    · simp [hb]
    · rw [if_neg hb]; split <;> intro h <;> simp_all <;> (subst h; assumption)

/-- The reflected dunders (native Python left operand) compute the same function. -/
theorem int_reflected_eq_direct (a b : Int) :
    IntOps.radd b a = IntOps.add a b ∧ IntOps.rsub b a = IntOps.sub a b ∧
    IntOps.rmul b a = IntOps.mul a b ∧ IntOps.rtruediv b a = IntOps.truediv a b ∧
    IntOps.rmod b a = IntOps.mod a b := by
  refine ⟨rfl, rfl, rfl, ?_, rfl⟩
  unfold IntOps.rtruediv IntOps.truediv
  rw [Int.mul_comm (pySign b) (pySign a)]

/-! #### uint64 -/
theorem uint_add_exact (a b : Int) : UintOps.add a b = uchecked (a + b) := uint64_twice _
theorem uint_sub_exact (a b : Int) : UintOps.sub a b = uchecked (a - b) := uint64_twice _
theorem uint_mul_exact (a b : Int) : UintOps.mul a b = uchecked (a * b) := uint64_twice _
/-- negating a uint is an error -/
theorem uint_neg_error (a : Int) : UintOps.neg a = .error .typeError := rfl

theorem uint_div_exact (a b : Int) (ha : u64 a) (hb : u64 b) :
    UintOps.truediv a b = if b = 0 then .error .zeroDiv else .ok (a.tdiv b) := by
  unfold UintOps.truediv pyFloorDiv UintOps.wrap
  by_cases hb0 : b = 0
  · simp [hb0]; rfl
  · rw [if_neg hb0, if_neg hb0]
    show (uint64 (Int.fdiv a b) >>= uint64) = _
    unfold u64 at ha hb
    rw [Int.fdiv_eq_tdiv_of_nonneg ha.1 hb.1, uint64_twice]
    have h1 : a.tdiv b = a / b := Int.tdiv_eq_ediv_of_nonneg ha.1
    have h2 : 0 ≤ a / b := Int.ediv_nonneg ha.1 hb.1
    have h3 : a / b ≤ a := Int.ediv_le_self b ha.1
    rw [if_pos]; unfold u64; omega

theorem uint_mod_exact (a b : Int) (ha : u64 a) (hb : u64 b) :
    UintOps.mod a b = if b = 0 then .error .zeroDiv else .ok (a.tmod b) := by
  unfold UintOps.mod pyMod UintOps.wrap
  by_cases hb0 : b = 0
  · simp [hb0]; rfl
  · rw [if_neg hb0, if_neg hb0]
    show (uint64 (Int.fmod a b) >>= uint64) = _
    unfold u64 at ha hb
    rw [Int.fmod_eq_emod_of_nonneg _ hb.1, uint64_twice, Int.tmod_eq_emod_of_nonneg ha.1]
    have h1 : 0 ≤ a % b := Int.emod_nonneg a hb0
    have h2 : a % b < b := Int.emod_lt_of_pos a (by omega)
    rw [if_pos]; unfold u64; omega

theorem uint_reflected_eq_direct (a b : Int) :
    UintOps.radd b a = UintOps.add a b ∧ UintOps.rsub b a = UintOps.sub a b ∧
    UintOps.rmul b a = UintOps.mul a b ∧ UintOps.rtruediv b a = UintOps.truediv a b ∧
    UintOps.rmod b a = UintOps.mod a b := ⟨rfl, rfl, rfl, rfl, rfl⟩

/-! #### through the runners: every Python exception the dunders can raise is one the
interpreter's rule and the compiled runner's `result()` turn into an evaluation error
(handler lists regenerated from evaluation.py). -/
theorem checked_error {z : Int} {c : Exc} (h : checked z = .error c) : c = .valueError := by
  unfold checked at h; split at h <;> simp_all
theorem int_errors_become_eval_errors (a b : Int) (hb : i64 b) (c : Exc) :
    (IntOps.add a b = .error c → c ∈ Gen.handlers_addition ∧ c ∈ Gen.resultCaughtNum) ∧
    (IntOps.sub a b = .error c → c ∈ Gen.handlers_addition ∧ c ∈ Gen.resultCaughtNum) ∧
    (IntOps.mul a b = .error c → c ∈ Gen.handlers_multiplication ∧ c ∈ Gen.resultCaughtNum) ∧
    (IntOps.truediv a b = .error c → c ∈ Gen.handlers_multiplication ∧ c ∈ Gen.resultCaughtNum) ∧
    (IntOps.mod a b = .error c → c ∈ Gen.handlers_multiplication ∧ c ∈ Gen.resultCaughtNum) ∧
    (IntOps.neg a = .error c → c ∈ Gen.handlers_unary ∧ c ∈ Gen.resultCaughtNum) := by
  refine ⟨?_, ?_, ?_, ?_, ?_, ?_⟩
  · rw [int_add_exact]; intro h; rw [checked_error h]; decide
  · rw [int_sub_exact]; intro h; rw [checked_error h]; decide
  · rw [int_mul_exact]; intro h; rw [checked_error h]; decide
  · rw [int_div_exact]; split
    · intro h; cases h; decide
    · intro h; rw [checked_error h]; decide
  · rw [int_mod_exact a b hb]; split
    · intro h; cases h; decide
    · intro h; cases h
  · rw [int_neg_exact]; intro h; rw [checked_error h]; decide

/-- what the caller observes is a value or an evaluation error, never an escaping exception -/
theorem int_ops_observed (a b : Int) (hb : i64 b) :
    (∀ c, observe Gen.handlers_multiplication (IntOps.truediv a b) ≠ .escapes c) ∧
    (∀ c, observe Gen.resultCaughtNum (IntOps.truediv a b) ≠ .escapes c) := by
  have h := (int_errors_become_eval_errors a b hb)
  constructor <;> intro c <;> unfold observe <;> split
  · simp
  · rename_i c' hc; have := ((h c').2.2.2.1 hc).1; simp [this]
  · simp
  · rename_i c' hc; have := ((h c').2.2.2.1 hc).2; simp [this]

/-! #### doubles: division by a zero of either sign is the IEEE-754 result
(class level; every other double operation is delegated to the host's binary64 arithmetic,
which is in the trusted base and compared bit-for-bit by the correspondence check). -/
theorem dbl_div_zero_ieee (x : DCls) (s : Sign) :
    dblTrueDiv x (.zero s) = .cls (ieeeDivZero x s) ∧ dblRTrueDiv (.zero s) x = .cls (ieeeDivZero x s) := by
  cases x <;> exact ⟨rfl, rfl⟩
/-- in particular: signed infinities and NaN -/
theorem dbl_div_zero_cases :
    dblTrueDiv (.fin .neg) (.zero .pos) = .cls (.inf .neg) ∧
    dblTrueDiv (.fin .pos) (.zero .neg) = .cls (.inf .neg) ∧
    dblTrueDiv (.zero .pos) (.zero .pos) = .cls .nan ∧
    dblTrueDiv (.fin .pos) (.zero .pos) = .cls (.inf .pos) := ⟨rfl, rfl, rfl, rfl⟩

/-! non-vacuity: concrete boundary instances -/
example : IntOps.add (2^63 - 1) 1 = .error .valueError := by
  rw [int_add_exact]; unfold checked; rw [if_neg]; unfold i64; omega
example : IntOps.truediv (-(2^63)) (-1) = .error .valueError := by
  rw [int_div_exact]; unfold checked; simp [i64, Int.tdiv_neg]
example : IntOps.truediv (-7) 2 = .ok (-3) ∧ IntOps.mod (-7) 2 = .ok (-1) := by
  rw [int_div_exact, int_mod_exact _ _ (by unfold i64; omega)]; unfold checked; simp [i64]
example : UintOps.sub 0 1 = .error .valueError := by
  rw [uint_sub_exact]; unfold uchecked; simp [u64]

end Cel.Props.C01

namespace Cel.Props.C01
open Cel

/-! #### every arithmetic expression tree: no intermediate result is ever wrapped -/

def ochecked (z : Int) : Option Int := if i64 z then some z else none
/-- exact mathematics with a range check at every node (the property's specification) -/
def exactOp : AOp → Int → Int → Option Int
  | .add, x, y => ochecked (x + y)
  | .sub, x, y => ochecked (x - y)
  | .mul, x, y => ochecked (x * y)
  | .div, x, y => if y = 0 then none else ochecked (x.tdiv y)
  | .mod, x, y => if y = 0 then none else some (x.tmod y)
def specA : AExpr → Option Int
  | .lit z => some z
  | .neg a => (specA a).bind fun x => ochecked (-x)
  | .bin op a b => (specA a).bind fun x => (specA b).bind fun y => exactOp op x y
def leavesI64 : AExpr → Prop
  | .lit z => i64 z
  | .neg a => leavesI64 a
  | .bin _ a b => leavesI64 a ∧ leavesI64 b

theorem checked_toOption (z : Int) : (checked z).toOption = ochecked z := by
  unfold checked ochecked; split <;> rfl
theorem ochecked_i64 {z r : Int} (h : ochecked z = some r) : i64 r := by
  unfold ochecked at h; split at h <;> simp_all

theorem bin_spec (op : AOp) (x y : Int) (hy : i64 y) :
    (IntOps.bin op x y).toOption = exactOp op x y := by
  cases op <;> simp only [IntOps.bin, exactOp]
  · rw [int_add_exact, checked_toOption]
  · rw [int_sub_exact, checked_toOption]
  · rw [int_mul_exact, checked_toOption]
  · rw [int_div_exact]; split
    · rfl
    · rw [checked_toOption]
  · rw [int_mod_exact x y hy]; split <;> rfl

theorem exactOp_i64 (op : AOp) (x y r : Int) (hy : i64 y) (h : exactOp op x y = some r) : i64 r := by
  cases op <;> simp only [exactOp] at h
  · exact ochecked_i64 h
  · exact ochecked_i64 h
  · exact ochecked_i64 h
  · split at h
    · simp at h
    · exact ochecked_i64 h
  · split at h
    · simp at h
    · rename_i hy0; simp at h; subst h; exact tmod_i64 x y hy hy0

theorem toOption_some {r : PyM Int} {x : Int} (h : r.toOption = some x) : r = .ok x := by
  cases r <;> simp_all [Except.toOption]
theorem toOption_none {r : PyM Int} (h : r.toOption = none) : ∃ c, r = .error c := by
  cases r <;> simp_all [Except.toOption]

/-- **Every arithmetic expression over int64 leaves** evaluates to the exact result if every
intermediate result fits int64 and to an error otherwise — for all trees, any depth. -/
theorem evalA_spec : (e : AExpr) → leavesI64 e →
    (evalA e).toOption = specA e ∧ (∀ r, specA e = some r → i64 r)
  | .lit z, h => ⟨rfl, fun r hr => by simp [specA] at hr; subst hr; exact h⟩
  | .neg a, h => by
      have ih := evalA_spec a h
      simp only [evalA, specA]
      cases hs : specA a with
      | none =>
        obtain ⟨c, hc⟩ := toOption_none (ih.1.trans hs)
        rw [hc]; exact ⟨rfl, fun r hr => by simp at hr⟩
      | some x =>
        rw [toOption_some (ih.1.trans hs)]
        show (IntOps.neg x).toOption = ochecked (-x) ∧ _
        rw [int_neg_exact]
        exact ⟨checked_toOption _, fun r hr => ochecked_i64 hr⟩
  | .bin op a b, h => by
      have iha := evalA_spec a h.1
      have ihb := evalA_spec b h.2
      simp only [evalA, specA]
      cases hsa : specA a with
      | none =>
        obtain ⟨c, hc⟩ := toOption_none (iha.1.trans hsa)
        rw [hc]; exact ⟨rfl, fun r hr => by simp at hr⟩
      | some x =>
        rw [toOption_some (iha.1.trans hsa)]
        cases hsb : specA b with
        | none =>
          obtain ⟨c, hc⟩ := toOption_none (ihb.1.trans hsb)
          rw [hc]; exact ⟨rfl, fun r hr => by simp at hr⟩
        | some y =>
          rw [toOption_some (ihb.1.trans hsb)]
          have hy64 : i64 y := ihb.2 y hsb
          exact ⟨bin_spec op _ _ hy64, fun r hr => exactOp_i64 op _ _ r hy64 hr⟩

/-- non-vacuity: `- - MIN` is an error at the inner node, not MIN -/
example : specA (.neg (.neg (.lit (-(2^63))))) = none := by
  simp [specA, ochecked, i64]

end Cel.Props.C01

namespace Cel.Props.C01
open Cel

/-! #### round 2: uint64 expression trees -/
def uochecked (z : Int) : Option Int := if u64 z then some z else none
/-- exact mathematics on naturals with a range check at every node -/
def exactUOp : AOp → Int → Int → Option Int
  | .add, x, y => uochecked (x + y)
  | .sub, x, y => uochecked (x - y)
  | .mul, x, y => uochecked (x * y)
  | .div, x, y => if y = 0 then none else some (x.tdiv y)
  | .mod, x, y => if y = 0 then none else some (x.tmod y)
def specU : AExpr → Option Int
  | .lit z => some z
  | .neg _ => none
  | .bin op a b => (specU a).bind fun x => (specU b).bind fun y => exactUOp op x y
def leavesU64 : AExpr → Prop
  | .lit z => u64 z
  | .neg a => leavesU64 a
  | .bin _ a b => leavesU64 a ∧ leavesU64 b

theorem uchecked_toOption (z : Int) : (uchecked z).toOption = uochecked z := by
  unfold uchecked uochecked; split <;> rfl
theorem uochecked_u64 {z r : Int} (h : uochecked z = some r) : u64 r := by
  unfold uochecked at h; split at h <;> simp_all

theorem ubin_spec (op : AOp) (x y : Int) (hx : u64 x) (hy : u64 y) :
    (UintOps.bin op x y).toOption = exactUOp op x y := by
  cases op <;> simp only [UintOps.bin, exactUOp]
  · rw [uint_add_exact, uchecked_toOption]
  · rw [uint_sub_exact, uchecked_toOption]
  · rw [uint_mul_exact, uchecked_toOption]
  · rw [uint_div_exact x y hx hy]; split <;> rfl
  · rw [uint_mod_exact x y hx hy]; split <;> rfl

theorem exactUOp_u64 (op : AOp) (x y r : Int) (hx : u64 x) (hy : u64 y) (h : exactUOp op x y = some r) : u64 r := by
  cases op <;> simp only [exactUOp] at h
  · exact uochecked_u64 h
  · exact uochecked_u64 h
  · exact uochecked_u64 h
  · split at h
    · simp at h
    · rename_i hy0; simp at h; subst h
      unfold u64 at *
      have h1 : x.tdiv y = x / y := Int.tdiv_eq_ediv_of_nonneg hx.1
      have h2 : 0 ≤ x / y := Int.ediv_nonneg hx.1 hy.1
      have h3 : x / y ≤ x := Int.ediv_le_self y hx.1
      omega
  · split at h
    · simp at h
    · rename_i hy0; simp at h; subst h
      unfold u64 at *
      rw [Int.tmod_eq_emod_of_nonneg hx.1]
      have h1 : 0 ≤ x % y := Int.emod_nonneg x hy0
      have h2 : x % y < y := Int.emod_lt_of_pos x (by omega)
      omega

/-- **Every arithmetic expression over uint64 leaves** evaluates to the exact result if every intermediate
result fits [0, 2^64) and to an error otherwise (unary minus: always an error) — all trees, any depth. -/
theorem evalU_spec : (e : AExpr) → leavesU64 e →
    (evalU e).toOption = specU e ∧ (∀ r, specU e = some r → u64 r)
  | .lit z, h => ⟨rfl, fun r hr => by simp [specU] at hr; subst hr; exact h⟩
  | .neg a, _ => by
      simp only [evalU, specU]
      refine ⟨?_, fun r hr => by simp at hr⟩
      cases evalU a <;> rfl
  | .bin op a b, h => by
      have iha := evalU_spec a h.1
      have ihb := evalU_spec b h.2
      simp only [evalU, specU]
      cases hsa : specU a with
      | none =>
        obtain ⟨c, hc⟩ := toOption_none (iha.1.trans hsa)
        rw [hc]; exact ⟨rfl, fun r hr => by simp at hr⟩
      | some x =>
        rw [toOption_some (iha.1.trans hsa)]
        cases hsb : specU b with
        | none =>
          obtain ⟨c, hc⟩ := toOption_none (ihb.1.trans hsb)
          rw [hc]; exact ⟨rfl, fun r hr => by simp at hr⟩
        | some y =>
          rw [toOption_some (ihb.1.trans hsb)]
          have hx64 : u64 x := iha.2 x hsa
          have hy64 : u64 y := ihb.2 y hsb
          exact ⟨ubin_spec op _ _ hx64 hy64, fun r hr => exactUOp_u64 op _ _ r hx64 hy64 hr⟩

/-- non-vacuity: `0u - 1u` inside a product is an error, `(2^64-1) / 3` is exact -/
example : specU (.bin .mul (.bin .sub (.lit 0) (.lit 1)) (.lit 0)) = none := by
  simp [specU, exactUOp, uochecked, u64]
example : specU (.bin .div (.lit (2^64 - 1)) (.lit 3)) = some 6148914691236517205 := by
  simp [specU, exactUOp]

/-- a uint result is never wrapped (no modular arithmetic): `0u - 1u` is not 2^64-1 -/
theorem uint_never_wraps (a b r : Int) (ha : u64 a) (hb : u64 b) :
    (UintOps.add a b = .ok r → u64 r ∧ r = a + b) ∧
    (UintOps.sub a b = .ok r → u64 r ∧ r = a - b) ∧
    (UintOps.mul a b = .ok r → u64 r ∧ r = a * b) ∧
    (UintOps.truediv a b = .ok r → u64 r ∧ r = a.tdiv b ∧ b ≠ 0) ∧
    (UintOps.mod a b = .ok r → u64 r ∧ r = a.tmod b ∧ b ≠ 0) := by
  refine ⟨?_, ?_, ?_, ?_, ?_⟩
  · rw [uint_add_exact]; unfold uchecked; split <;> intro h <;> simp_all <;> (subst h; assumption)
  · rw [uint_sub_exact]; unfold uchecked; split <;> intro h <;> simp_all <;> (subst h; assumption)
  · rw [uint_mul_exact]; unfold uchecked; split <;> intro h <;> simp_all <;> (subst h; assumption)
  · rw [uint_div_exact a b ha hb]
    by_cases hb0 : b = 0
    · simp [hb0]
    · rw [if_neg hb0]; intro h; cases h
      exact ⟨exactUOp_u64 .div a b _ ha hb (by simp [exactUOp, hb0]), rfl, hb0⟩
  · rw [uint_mod_exact a b ha hb]
    by_cases hb0 : b = 0
    · simp [hb0]
    · rw [if_neg hb0]; intro h; cases h
      exact ⟨exactUOp_u64 .mod a b _ ha hb (by simp [exactUOp, hb0]), rfl, hb0⟩

/-- the remainder clause missing from `int_never_wraps` -/
theorem int_mod_never_wraps (a b r : Int) (hb : i64 b) :
    IntOps.mod a b = .ok r → i64 r ∧ r = a.tmod b ∧ b ≠ 0 := by
  rw [int_mod_exact a b hb]
  by_cases hb0 : b = 0
  · simp [hb0]
  · rw [if_neg hb0]; intro h; cases h; exact ⟨tmod_i64 a b hb hb0, rfl, hb0⟩

/-- every exception class a UintType dunder can raise is turned into an evaluation error by the
interpreter's rule and by `result()` (handler lists regenerated from evaluation.py) -/
theorem uchecked_error {z : Int} {c : Exc} (h : uchecked z = .error c) : c = .valueError := by
  unfold uchecked at h; split at h <;> simp_all
theorem uint_errors_become_eval_errors (a b : Int) (ha : u64 a) (hb : u64 b) (c : Exc) :
    (UintOps.add a b = .error c → c ∈ Gen.handlers_addition ∧ c ∈ Gen.resultCaughtNum) ∧
    (UintOps.sub a b = .error c → c ∈ Gen.handlers_addition ∧ c ∈ Gen.resultCaughtNum) ∧
    (UintOps.mul a b = .error c → c ∈ Gen.handlers_multiplication ∧ c ∈ Gen.resultCaughtNum) ∧
    (UintOps.truediv a b = .error c → c ∈ Gen.handlers_multiplication ∧ c ∈ Gen.resultCaughtNum) ∧
    (UintOps.mod a b = .error c → c ∈ Gen.handlers_multiplication ∧ c ∈ Gen.resultCaughtNum) ∧
    (UintOps.neg a = .error c → c ∈ Gen.handlers_unary ∧ c ∈ Gen.resultCaughtNum) := by
  refine ⟨?_, ?_, ?_, ?_, ?_, ?_⟩
  · rw [uint_add_exact]; intro h; rw [uchecked_error h]; decide
  · rw [uint_sub_exact]; intro h; rw [uchecked_error h]; decide
  · rw [uint_mul_exact]; intro h; rw [uchecked_error h]; decide
  · rw [uint_div_exact a b ha hb]; split
    · intro h; cases h; decide
    · intro h; cases h
  · rw [uint_mod_exact a b ha hb]; split
    · intro h; cases h; decide
    · intro h; cases h
  · intro h; cases h; decide


/-! #### round 2: doubles — every DoubleType operator IS the host's binary64 operation on the same operands
(no re-rounding, clamping, sign change or operand swap), for EVERY host float structure `H` (nothing about
IEEE-754 is assumed of it: the host's arithmetic itself stays in the trusted base and is compared bit-for-bit
by the correspondence run), and division tests the divisor against zero first. -/
section Doubles
variable {F : Type} (H : HostFloat F)

theorem dbl_ops_are_host_ops (x y : F) :
    DoubleOps.neg H x = H.neg x ∧
    DoubleOps.add H x y = H.add x y ∧ DoubleOps.sub H x y = H.sub x y ∧ DoubleOps.mul H x y = H.mul x y ∧
    DoubleOps.radd H y x = H.add x y ∧ DoubleOps.rsub H y x = H.sub x y ∧ DoubleOps.rmul H y x = H.mul x y :=
  ⟨rfl, rfl, rfl, rfl, rfl, rfl, rfl⟩

/-- `x / y` as the property states it: the IEEE zero-divisor rule when `y` is a zero of either sign
(`H.divZero`, whose class-level content is `dbl_div_zero_ieee`), the host's division otherwise -/
def ieeeDiv (x y : F) : F := if H.isZero y then H.divZero x y else H.div x y

theorem dbl_div_spec (x y : F) :
    DoubleOps.truediv H x y = ieeeDiv H x y ∧ DoubleOps.rtruediv H y x = ieeeDiv H x y := ⟨rfl, rfl⟩

/-- the host's division is never reached with a zero divisor (Python would raise ZeroDivisionError there) -/
theorem dbl_div_guarded (x y : F) (h : H.isZero y = true) :
    DoubleOps.truediv H x y = H.divZero x y ∧ DoubleOps.rtruediv H y x = H.divZero x y := by
  simp [DoubleOps.truediv, DoubleOps.rtruediv, DoubleOps.wrap, h]

/-- the same statements about the definitions REGENERATED from celtypes.py (through `Cel.Bridge.NumD`) -/
theorem dbl_source_ops_are_host_ops (x y : F) :
    Gen.DoubleType.neg H x = H.neg x ∧
    Gen.DoubleType.add H x y = H.add x y ∧ Gen.DoubleType.sub H x y = H.sub x y ∧
    Gen.DoubleType.mul H x y = H.mul x y ∧ Gen.DoubleType.truediv H x y = ieeeDiv H x y ∧
    Gen.DoubleType.radd H y x = H.add x y ∧ Gen.DoubleType.rsub H y x = H.sub x y ∧
    Gen.DoubleType.rmul H y x = H.mul x y ∧ Gen.DoubleType.rtruediv H y x = ieeeDiv H x y := by
  rw [Bridge.dbl_neg, Bridge.dbl_add, Bridge.dbl_sub, Bridge.dbl_mul, Bridge.dbl_truediv, Bridge.dbl_radd,
    Bridge.dbl_rsub, Bridge.dbl_rmul, Bridge.dbl_rtruediv]
  exact ⟨rfl, rfl, rfl, rfl, rfl, rfl, rfl, rfl, rfl⟩

/-- IEEE evaluation of a double expression: host operations at every node, the zero rule at every division -/
def specD : DExpr F → F
  | .lit x => x
  | .neg a => H.neg (specD a)
  | .bin .add a b => H.add (specD a) (specD b)
  | .bin .sub a b => H.sub (specD a) (specD b)
  | .bin .mul a b => H.mul (specD a) (specD b)
  | .bin .div a b => ieeeDiv H (specD a) (specD b)

/-- **every double expression tree**: both runners compute exactly the host/IEEE value, at any depth;
in particular no intermediate result (a negative zero, an infinity, a NaN) is altered on the way -/
theorem evalD_spec : (e : DExpr F) → evalD H e = specD H e
  | .lit _ => rfl
  | .neg a => by simp only [evalD, specD, evalD_spec a]; rfl
  | .bin op a b => by
      cases op <;> simp only [evalD, specD, evalD_spec a, evalD_spec b] <;> rfl
end Doubles

/-- non-vacuity on a concrete (toy) host with a signed zero, where `1 / -(0)` must be `-inf`
(encoding: 0 = +0, 1 = -0, 2 = +inf, 3 = -inf, 4 = one) -/
def toyHost : HostFloat Nat where
  neg := fun x => if x = 0 then 1 else if x = 1 then 0 else x
  add := fun x y => x + y
  sub := fun x y => x - y
  mul := fun x y => x * y
  div := fun x y => x / y
  isZero := fun x => decide (x ≤ 1)
  divZero := fun _ z => if z = 1 then 3 else 2
example : evalD toyHost (.bin .div (.lit 4) (.neg (.lit 0))) = 3 := by decide
example : evalD toyHost (.bin .div (.lit 4) (.lit 0)) = 2 := by decide

end Cel.Props.C01
