/-
  C02 — Logical operators absorb errors commutatively; conditionals are lazy.

  Property theorems only.  Subject: `Cel.land/lor/lnot/lcond` (bridged to the
  definitions regenerated from celtypes.py in `Cel.Bridge.Logic`), the
  interpreter `evI` and the transpiled-program denotation `evC` on the logical
  fragment (Cel.Model.Logic).  All statements are for every operand / every
  list / every expression tree — no size bound.
-/
import Cel.Lemmas.Logic
import Cel.Bridge.Logic
namespace Cel.Props.C02
open Cel

/-- `&&` on {true,false,error}: false if either is false, true if both true, error otherwise. -/
theorem and_table (x y : O) (hx : x.is3 = true) (hy : y.is3 = true) :
    catchTE (land x y) = .ok (if x = .f ∨ y = .f then .f else if x = .t ∧ y = .t then .t else .e) :=
  land3 x y hx hy

/-- `||` is the dual. -/
theorem or_table (x y : O) (hx : x.is3 = true) (hy : y.is3 = true) :
    catchTE (lor x y) = .ok (if x = .t ∨ y = .t then .t else if x = .f ∧ y = .f then .f else .e) :=
  lor3 x y hx hy

/-- Swapping the operands never changes the outcome — for every operand class, also non-booleans. -/
theorem and_comm (x y : O) : land x y = land y x := by cases x <;> cases y <;> rfl
theorem or_comm (x y : O) : lor x y = lor y x := by cases x <;> cases y <;> rfl

/-- De Morgan duality through `!` on the three-valued domain. -/
theorem or_dual (x y : O) (hx : x.is3 = true) (hy : y.is3 = true) :
    kor x y = knot (kand (knot x) (knot y)) := by
  cases x <;> cases y <;> simp_all [O.is3] <;> rfl

/-- A false operand decides `&&` whatever the other operand is (error or non-boolean included). -/
theorem and_decided_by_false (y : O) : land .f y = .ok .f ∧ land y .f = .ok .f := by
  cases y <;> exact ⟨rfl, rfl⟩
/-- A true operand decides `||`. -/
theorem or_decided_by_true (y : O) : lor .t y = .ok .t ∧ lor y .t = .ok .t := by
  cases y <;> exact ⟨rfl, rfl⟩

/-- Two non-boolean operands are an error (TypeError, which every runner turns into an evaluation error). -/
theorem and_two_nonbool (x y : O) (hx : x.isBool = false) (hy : y.isBool = false) :
    land x y = .error .typeError ∧ catchTE (land x y) = .ok .e := by
  cases x <;> cases y <;> simp_all [O.isBool] <;> exact ⟨rfl, rfl⟩
theorem or_two_nonbool (x y : O) (hx : x.isBool = false) (hy : y.isBool = false) :
    lor x y = .error .typeError ∧ catchTE (lor x y) = .ok .e := by
  cases x <;> cases y <;> simp_all [O.isBool] <;> exact ⟨rfl, rfl⟩

/-- `!` maps an error to an error, and negates booleans. -/
theorem not_table : lnot .e = .ok .e ∧ lnot .t = .ok .f ∧ lnot .f = .ok .t := ⟨rfl, rfl, rfl⟩

/-- `c ? x : y` with a boolean condition is exactly the selected branch (interpreter) — the
other branch is not even evaluated, whatever it is (`y` is arbitrary, it may be an escaping exception). -/
theorem cond_lazy_true (c x y : LExpr) (hc : evI c = .ok .t) :
    evI (.cond c x y) = evI x := by
  simp [evI, hc, O.truthy]
  cases evI x <;> simp [bind, Except.bind, lcond, catchTE, O.isBool]
theorem cond_lazy_false (c x y : LExpr) (hc : evI c = .ok .f) :
    evI (.cond c x y) = evI y := by
  simp [evI, hc, O.truthy]
  cases evI y <;> simp [bind, Except.bind, lcond, catchTE, O.isBool]
/-- an error or non-boolean condition is an error -/
theorem cond_bad_condition (c x y : LExpr) (v : O) (hc : evI c = .ok v) (hv : v.isBool = false)
    (hx : ∃ a, evI x = .ok a) (hy : ∃ a, evI y = .ok a) :
    evI (.cond c x y) = .ok .e := by
  obtain ⟨a, ha⟩ := hx; obtain ⟨b, hb⟩ := hy
  cases v <;> simp_all [evI, O.truthy, O.isBool, bind, Except.bind, lcond, catchTE]

/-- `all` over any list of outcomes in {true,false,error} (interpreter fold). -/
theorem all_spec (l : List O) (h : ∀ x ∈ l, x.is3 = true) : allI l = .ok (kall l) := by
  unfold allI; rw [allI_fold l .t rfl h, kand_t _ (kall_is3 l)]
theorem exists_spec (l : List O) (h : ∀ x ∈ l, x.is3 = true) : existsI l = .ok (kexists l) := by
  unfold existsI; rw [existsI_fold l .f rfl h, kor_f _ (kexists_is3 l)]

mutual
/-- **Interpreter = Kleene specification** for every nesting of `&& || ! ?: all exists`
over leaves in {true,false,error}: any depth, any list length. -/
theorem evI_kleene : (e : LExpr) → b3 e = true → evI e = .ok (kleene e)
  | .lit o, _ => rfl
  | .and a b, h => by
      simp [b3] at h
      simp [evI, kleene, evI_kleene a h.1, evI_kleene b h.2, bind, Except.bind,
        land3 _ _ (kleene_is3 a h.1) (kleene_is3 b h.2)]
  | .or a b, h => by
      simp [b3] at h
      simp [evI, kleene, evI_kleene a h.1, evI_kleene b h.2, bind, Except.bind,
        lor3 _ _ (kleene_is3 a h.1) (kleene_is3 b h.2)]
  | .not a, h => by
      simp [b3] at h
      simp [evI, kleene, evI_kleene a h, bind, Except.bind, lnot3 _ (kleene_is3 a h)]
  | .cond c x y, h => by
      simp [b3] at h
      have hc := kleene_is3 c h.1.1
      simp only [evI, kleene, evI_kleene c h.1.1, evI_kleene x h.1.2, evI_kleene y h.2, bind, Except.bind]
      cases hk : kleene c <;> simp_all [O.is3, O.truthy, lcond, catchTE, kcond, O.isBool]
  | .all xs, h => by
      simp [b3] at h
      simp only [evI, kleene, evIs_kleene xs h, bind, Except.bind]
      exact all_spec _ (kleenes_is3 xs h)
  | .exists_ xs, h => by
      simp [b3] at h
      simp only [evI, kleene, evIs_kleene xs h, bind, Except.bind]
      exact exists_spec _ (kleenes_is3 xs h)
theorem evIs_kleene : (xs : List LExpr) → b3s xs = true → evIs xs = .ok (kleenes xs)
  | [], _ => rfl
  | x :: xs, h => by
      simp [b3s] at h
      simp [evIs, kleenes, evI_kleene x h.1, evIs_kleene xs h.2, bind, Except.bind]
end

/-- Invariant of the compiled denotation: either the value, or a raised (caught) exception where the
specification says error. -/
def CInv (e : LExpr) : Prop :=
  evC e = .ok (kleene e) ∨ (evC e = .error .typeError ∧ kleene e = .e)

theorem result_of_CInv {e : LExpr} (h : CInv e) : result (evC e) = .ok (kleene e) := by
  rcases h with h | ⟨h, hk⟩
  · rw [h]; rfl
  · rw [h, hk]; rfl

theorem landC (x y : O) (hx : x.is3 = true) (hy : y.is3 = true) :
    land x y = .ok (kand x y) ∨ (land x y = .error .typeError ∧ kand x y = .e) := by
  cases x <;> cases y <;> simp_all [O.is3] <;> first | (left; rfl) | (right; exact ⟨rfl, rfl⟩)
theorem lorC (x y : O) (hx : x.is3 = true) (hy : y.is3 = true) :
    lor x y = .ok (kor x y) ∨ (lor x y = .error .typeError ∧ kor x y = .e) := by
  cases x <;> cases y <;> simp_all [O.is3] <;> first | (left; rfl) | (right; exact ⟨rfl, rfl⟩)

mutual
theorem evC_inv : (e : LExpr) → b3 e = true → CInv e
  | .lit o, h => by
      cases o <;> simp_all [b3, O.is3, CInv, evC, kleene]
  | .and a b, h => by
      simp [b3] at h
      have ha := result_of_CInv (evC_inv a h.1); have hb := result_of_CInv (evC_inv b h.2)
      simp only [CInv, evC, kleene, ha, hb, bind, Except.bind]
      exact landC _ _ (kleene_is3 a h.1) (kleene_is3 b h.2)
  | .or a b, h => by
      simp [b3] at h
      have ha := result_of_CInv (evC_inv a h.1); have hb := result_of_CInv (evC_inv b h.2)
      simp only [CInv, evC, kleene, ha, hb, bind, Except.bind]
      exact lorC _ _ (kleene_is3 a h.1) (kleene_is3 b h.2)
  | .not a, h => by
      simp [b3] at h
      have h3 := kleene_is3 a h
      rcases evC_inv a h with ha | ⟨ha, hk⟩
      · simp only [CInv, evC, kleene, ha, bind, Except.bind]
        cases hk : kleene a <;> simp_all [O.is3, lnot, knot, O.isBool, O.ofBool, O.toBool]
      · simp [CInv, evC, kleene, ha, hk, bind, Except.bind, knot]
  | .cond c x y, h => by
      simp [b3] at h
      have hc := result_of_CInv (evC_inv c h.1.1)
      have hx := result_of_CInv (evC_inv x h.1.2)
      have hy := result_of_CInv (evC_inv y h.2)
      have h3 := kleene_is3 c h.1.1
      simp only [CInv, evC, kleene, hc, hx, hy, bind, Except.bind]
      cases hk : kleene c <;> simp_all [O.is3, lcond, kcond, O.isBool]
  | .all xs, h => by
      simp [b3] at h
      have h3 := kleenes_is3 xs h
      simp only [CInv, evC, kleene, evCs_kleene xs h, bind, Except.bind, allC]
      rw [allI_fold _ .t rfl h3, kand_t _ (kall_is3 _)]
      have := kall_is3 (kleenes xs)
      cases hk : kall (kleenes xs) <;> simp_all [O.is3, boolTypeOf]
  | .exists_ xs, h => by
      simp [b3] at h
      have h3 := kleenes_is3 xs h
      simp only [CInv, evC, kleene, evCs_kleene xs h, bind, Except.bind, existsC]
      rw [existsI_fold _ .f rfl h3, kor_f _ (kexists_is3 _)]
      have := kexists_is3 (kleenes xs)
      cases hk : kexists (kleenes xs) <;> simp_all [O.is3, boolTypeOf]
theorem evCs_kleene : (xs : List LExpr) → b3s xs = true → evCs xs = .ok (kleenes xs)
  | [], _ => rfl
  | x :: xs, h => by
      simp [b3s] at h
      simp [evCs, kleenes, result_of_CInv (evC_inv x h.1), evCs_kleene xs h.2, bind, Except.bind]
end

/-- **Both runners = Kleene specification**, hence equal to each other, on every logical expression
over {true,false,error} leaves. -/
theorem nesting (e : LExpr) (h : b3 e = true) :
    runI e = .ok (kleene e) ∧ runC e = .ok (kleene e) :=
  ⟨evI_kleene e h, result_of_CInv (evC_inv e h)⟩

/-- Non-vacuity: a nested expression with errors in absorbed positions meets the hypothesis. -/
example : b3 (.and (.or (.lit .e) (.lit .t)) (.all [.lit .t, .cond (.lit .f) (.lit .e) (.lit .t)])) = true := by
  decide
example : kleene (.and (.or (.lit .e) (.lit .t)) (.all [.lit .t, .cond (.lit .f) (.lit .e) (.lit .t)])) = .t := by
  decide

/-! ## Round 2 — every tree over ALL five operand classes (true, false, error, truthy / falsy non-boolean)

`nesting` above needs every leaf in {true,false,error}.  The statement of C02 also speaks about non-boolean
operands ("a false operand of `&&` decides … even when the other operand is … a non-boolean value, while two
non-boolean operands are an error", "a … non-boolean `c` is an error").  `Cel.spec : LExpr → Option O`
(Model/Logic.lean) is that reading as a partial function — `none` where the statement is silent — and is the
function the check's independent oracle computes (compared with it on every run).  -/

/-- **No exception escapes**: on every nesting of `&& || ! ?: all exists` over arbitrary leaves (errors,
non-booleans) both runners hand back a value or an evaluation error, never a raw Python exception. -/
theorem no_escape (e : LExpr) : (∃ v, runI e = .ok v) ∧ (∃ v, runC e = .ok v) :=
  ⟨⟨vI e, evI_eq_vI e⟩, ⟨vC e, result_of_CInv5 (evC_inv5 e)⟩⟩

/-- **Both runners meet the property's reading wherever it says anything** — every tree, any depth, any list
length, non-boolean leaves included. -/
theorem spec_sound (e : LExpr) (o : O) (h : spec e = some o) : runI e = .ok o ∧ runC e = .ok o := by
  have hI := spec_agrees_I e
  have hC := spec_agrees_C e
  rw [h] at hI hC
  refine ⟨?_, ?_⟩
  · show evI e = _
    rw [evI_eq_vI e, agrees_some hI]
  · show result (evC e) = _
    rw [result_of_CInv5 (evC_inv5 e), agrees_some hC]

/-- hence the two runners agree with each other wherever the property speaks -/
theorem runners_agree (e : LExpr) (o : O) (h : spec e = some o) : runI e = runC e := by
  rw [(spec_sound e o h).1, (spec_sound e o h).2]

/-- On three-valued trees the reading is total and is the Kleene specification: `spec_sound` generalises `nesting`. -/
theorem spec_of_b3 (e : LExpr) (h : b3 e = true) : spec e = some (kleene e) := by
  obtain ⟨o, ho⟩ := defd3_some (spec_defd3 e h)
  have h1 := (spec_sound e o ho).1
  have h2 := evI_kleene e h
  have : o = kleene e := by
    have h3 : (Except.ok o : PyM O) = .ok (kleene e) := by rw [← h1]; exact h2
    injection h3
  rw [ho, this]

/-- A false operand decides `&&` at ANY depth: whatever tree the other operand is (error, non-boolean,
something the statement is silent about), both runners give false.  Dually for `||`. -/
theorem and_decided_nested (a b : LExpr) (h : spec a = some .f ∨ spec b = some .f) :
    runI (.and a b) = .ok .f ∧ runC (.and a b) = .ok .f := by
  apply spec_sound
  simp only [spec]
  rcases h with h | h <;> simp [specBin, h]
theorem or_decided_nested (a b : LExpr) (h : spec a = some .t ∨ spec b = some .t) :
    runI (.or a b) = .ok .t ∧ runC (.or a b) = .ok .t := by
  apply spec_sound
  simp only [spec]
  rcases h with h | h <;> simp [specBin, h]

/-- Two non-boolean operands are an error — as a statement about the runners, on operand TREES. -/
theorem and_two_nonbool_nested (a b : LExpr) (x y : O) (ha : spec a = some x) (hb : spec b = some y)
    (hx : x.nb = true) (hy : y.nb = true) : runI (.and a b) = .ok .e ∧ runC (.and a b) = .ok .e := by
  apply spec_sound
  cases x <;> cases y <;> simp_all [spec, specBin, O.nb]
theorem or_two_nonbool_nested (a b : LExpr) (x y : O) (ha : spec a = some x) (hb : spec b = some y)
    (hx : x.nb = true) (hy : y.nb = true) : runI (.or a b) = .ok .e ∧ runC (.or a b) = .ok .e := by
  apply spec_sound
  cases x <;> cases y <;> simp_all [spec, specBin, O.nb]

/-- `c ? x : y` is exactly the selected branch in both runners, whatever the other branch is; an error or a
non-boolean condition is an error whatever the branches are. -/
theorem cond_selected (c x y : LExpr) (o : O) :
    (spec c = some .t → spec x = some o → runI (.cond c x y) = .ok o ∧ runC (.cond c x y) = .ok o) ∧
    (spec c = some .f → spec y = some o → runI (.cond c x y) = .ok o ∧ runC (.cond c x y) = .ok o) := by
  constructor <;> intro hc hb <;> apply spec_sound <;> simp [spec, specCond, hc, hb]
theorem cond_bad_condition_nested (c x y : LExpr) (v : O) (hc : spec c = some v) (hv : v.isBool = false) :
    runI (.cond c x y) = .ok .e ∧ runC (.cond c x y) = .ok .e := by
  apply spec_sound
  cases v <;> simp_all [spec, specCond, O.isBool]

/-- One false element decides `all` (one true element decides `exists`) whatever the other elements are. -/
theorem all_decided (xs : List LExpr) (h : some .f ∈ specs xs) :
    runI (.all xs) = .ok .f ∧ runC (.all xs) = .ok .f := by
  apply spec_sound
  simp only [spec]
  exact foldl_specBin_dec_and _ _ (Or.inr h)
theorem exists_decided (xs : List LExpr) (h : some .t ∈ specs xs) :
    runI (.exists_ xs) = .ok .t ∧ runC (.exists_ xs) = .ok .t := by
  apply spec_sound
  simp only [spec]
  exact foldl_specBin_dec_or _ _ (Or.inr h)

/-- Non-vacuity: `1 || 2 || true` (two non-booleans, then the deciding operand of an unparenthesised chain),
`(1 && 2) ? x : y`, a list with a non-boolean and an error before the deciding element. -/
example : spec (.or (.or (.lit .vt) (.lit .vt)) (.lit .t)) = some .t := by decide
example : spec (.cond (.and (.lit .vt) (.lit .vf)) (.lit .t) (.lit .f)) = some .e := by decide
example : spec (.all [.lit .vt, .lit .e, .lit .f]) = some .f := by decide
example : spec (.and (.lit .vt) (.lit .t)) = none := by decide

end Cel.Props.C02
