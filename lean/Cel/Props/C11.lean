/-
  C11 — Timestamp and duration arithmetic and calendar accessors are exact.

  Property theorems only.  Subject: `Cel.Time.*` (lean/Cel/Model/Time.lean), the model of
  `TimestampType` / `DurationType` of celtypes.py; its constants, regexes, scale table and
  accessor expressions are regenerated from the source into `Cel.Gen.Time` and compared by
  `Cel.Bridge.Time`; `datetime` is swept against the model's calendar on every run.

  Quantifiers: every theorem is for ALL instants (`Int` µs), ALL durations, ALL day numbers
  (`Nat`, not only years 1..9999), ALL offsets, ALL digit strings — no bound.
-/
import Cel.Lemmas.Time
namespace Cel.Props.C11
open Cel Cel.Time

/-- the representable local clock range: 0001-01-01T00:00:00 … 9999-12-31T23:59:59.999999 -/
def inRange (l : Int) : Prop := 0 ≤ l ∧ l ≤ maxLoc
/-- durations within ±315,576,000,000 s -/
def durInRange (d : Int) : Prop := -315576000000000000 ≤ d ∧ d ≤ 315576000000000000

instance (l : Int) : Decidable (inRange l) := by unfold inRange; exact inferInstance
instance (d : Int) : Decidable (durInRange d) := by unfold durInRange; exact inferInstance

theorem locOk_iff (l : Int) : locOk l = true ↔ inRange l := by simp [locOk, inRange]
theorem durRangeOk_iff (d : Int) : durRangeOk d = true ↔ durInRange d := by
  unfold durRangeOk durInRange minSeconds maxSeconds
  rw [Bool.and_eq_true, decide_eq_true_iff, decide_eq_true_iff]
  omega

/-! #### arithmetic -/

/-- `(t + d) - d == t` whenever `t + d` is representable -/
theorem add_sub_cancel (t : Ts) (d : Int) (ht : inRange t.loc) (h : inRange (t.loc + d)) :
    (tsAdd t d >>= fun r => tsSubDur r d) = .ok t := by
  have h1 : locOk (t.loc + d) = true := (locOk_iff _).mpr h
  have h2 : locOk t.loc = true := (locOk_iff _).mpr ht
  have e : t.loc + d - d = t.loc := by omega
  simp only [tsAdd, tsSubDur, h1, if_true, bind, Except.bind, e, h2]

/-- `(t + d) - t == d` whenever `t + d` is representable (d a DurationType value) -/
theorem add_sub_ts (t : Ts) (d : Int) (hd : durInRange d) (h : inRange (t.loc + d)) :
    (tsAdd t d >>= fun r => tsSubTs r t) = .ok d := by
  have h1 : locOk (t.loc + d) = true := (locOk_iff _).mpr h
  have h2 : durRangeOk d = true := (durRangeOk_iff _).mpr hd
  have e : t.loc + d - t.off - (t.loc - t.off) = d := by omega
  simp [tsAdd, tsSubTs, Ts.utc, durWrap, h1, e, h2, bind, Except.bind]

/-- `t1 - t2` is the signed elapsed time between the two instants (UTC clocks), for every pair
of representable timestamps whatever their offsets (|offset| < 24 h as `datetime.timezone` insists) -/
theorem sub_ts_elapsed (a b : Ts) (ha : inRange a.loc) (hb : inRange b.loc)
    (hoa : -86400000000 < a.off ∧ a.off < 86400000000) (hob : -86400000000 < b.off ∧ b.off < 86400000000) :
    tsSubTs a b = .ok ((a.loc - a.off) - (b.loc - b.off)) := by
  have : durRangeOk (a.loc - a.off - (b.loc - b.off)) = true := by
    rw [durRangeOk_iff]; unfold durInRange
    unfold inRange maxLoc maxDays usPerDay at ha hb
    omega
  simp [tsSubTs, durWrap, this, Ts.utc]

/-- results outside the representable range are errors (`OverflowError`), which both runners
present as evaluation errors; never a wrapped or clamped timestamp -/
theorem out_of_range_error (t : Ts) (d : Int) (h : ¬ inRange (t.loc + d)) :
    tsAdd t d = .error .overflow ∧ Exc.overflow ∈ additionHandlers := by
  have h1 : locOk (t.loc + d) = false := by
    cases hh : locOk (t.loc + d)
    · rfl
    · exact absurd ((locOk_iff _).mp hh) h
  simp [tsAdd, h1, additionHandlers]

theorem sub_out_of_range_error (t : Ts) (d : Int) (h : ¬ inRange (t.loc - d)) :
    tsSubDur t d = .error .overflow := by
  have h1 : locOk (t.loc - d) = false := by
    cases hh : locOk (t.loc - d)
    · rfl
    · exact absurd ((locOk_iff _).mp hh) h
  simp [tsSubDur, h1]

/-- in range: the exact sum, same offset -/
theorem add_exact (t : Ts) (d : Int) (h : inRange (t.loc + d)) : tsAdd t d = .ok ⟨t.loc + d, t.off⟩ := by
  simp [tsAdd, (locOk_iff _).mpr h]

/-- duration + duration: exact, or `ValueError` (an evaluation error) outside ±315,576,000,000 s -/
theorem dur_add_exact (a b : Int) :
    durAdd a b = if durInRange (a + b) then .ok (a + b) else .error .valueError := by
  unfold durAdd durWrap
  by_cases h : durInRange (a + b)
  · rw [if_pos h, if_pos ((durRangeOk_iff _).mpr h)]
  · have : ¬ durRangeOk (a + b) = true := fun hh => h ((durRangeOk_iff _).mp hh)
    rw [if_neg h, if_neg this]

theorem dur_sub_exact (a b : Int) :
    durSub a b = if durInRange (a - b) then .ok (a - b) else .error .valueError := by
  unfold durSub durWrap
  by_cases h : durInRange (a - b)
  · rw [if_pos h, if_pos ((durRangeOk_iff _).mpr h)]
  · have : ¬ durRangeOk (a - b) = true := fun hh => h ((durRangeOk_iff _).mp hh)
    rw [if_neg h, if_neg this]

theorem valueError_is_evaluation_error : Exc.valueError ∈ additionHandlers := by simp [additionHandlers]

/-- "representable" means exactly: the civil year of the local clock is between 1 and 9999 -/
theorem in_range_iff_years (l : Int) (h : 0 ≤ l) :
    inRange l ↔ 1 ≤ (civilOfLoc l).year ∧ (civilOfLoc l).year ≤ 9999 := by
  have hv := (civilOfLoc_spec l h).1
  unfold inRange
  rw [locOk_iff_year l h]
  exact ⟨fun hh => ⟨hv.1, hh.2⟩, fun hh => ⟨h, hh.2⟩⟩

/-! #### the calendar -/

/-- every day number (not only those of years 1..9999) maps to a valid civil date whose day
number is the one we started from -/
theorem civil_roundtrip (n : Nat) :
    daysOfCivil (civilOfDays n).1 (civilOfDays n).2.1 (civilOfDays n).2.2 = n ∧
    validDate (civilOfDays n).1 (civilOfDays n).2.1 (civilOfDays n).2.2 :=
  ⟨(civil_days n).2, (civil_days n).1⟩

/-- and every valid civil date is recovered from its day number: the two maps are mutually
inverse bijections between day numbers and valid dates -/
theorem civil_roundtrip_inv (y m d : Nat) (h : validDate y m d) :
    civilOfDays (daysOfCivil y m d) = (y, m, d) := days_civil y m d h

/-- consecutive years are 365 or 366 days apart, 366 exactly in Gregorian leap years -/
theorem year_length (y : Nat) (hy : 1 ≤ y) :
    daysOfCivil (y + 1) 1 1 = daysOfCivil y 1 1 + (if y % 4 = 0 ∧ (y % 100 ≠ 0 ∨ y % 400 = 0) then 366 else 365) := by
  have e : ∀ z, daysOfCivil z 1 1 = daysBeforeYear z := by
    intro z; unfold daysOfCivil daysBeforeMonth; simp [dbmTable, nbeq, nblt]
  rw [e, e, dby_succ y hy]
  by_cases hl : isLeap y = true
  · rw [if_pos ((isLeap_iff y).mp hl)]; simp [hl]
  · rw [if_neg (fun hh => hl ((isLeap_iff y).mpr hh))]; simp [hl]

/-- an instant decomposes into valid civil fields and is recomposed from them exactly -/
theorem instant_fields_roundtrip (l : Int) (h : 0 ≤ l) :
    validDate (civilOfLoc l).year (civilOfLoc l).month (civilOfLoc l).day ∧
    (civilOfLoc l).hour < 24 ∧ (civilOfLoc l).minute < 60 ∧ (civilOfLoc l).second < 60 ∧
    (civilOfLoc l).micro < 1000000 ∧
    locOfCivil (civilOfLoc l).year (civilOfLoc l).month (civilOfLoc l).day (civilOfLoc l).hour
      (civilOfLoc l).minute (civilOfLoc l).second (civilOfLoc l).micro = l := civilOfLoc_spec l h

/-- the civil fields of an instant are unique -/
theorem fields_unique (l : Int) (y m d hh mm ss us : Nat) (hv : validDate y m d)
    (h1 : hh < 24) (h2 : mm < 60) (h3 : ss < 60) (h4 : us < 1000000)
    (e : locOfCivil y m d hh mm ss us = l) :
    (civilOfLoc l).year = y ∧ (civilOfLoc l).month = m ∧ (civilOfLoc l).day = d ∧
    (civilOfLoc l).hour = hh ∧ (civilOfLoc l).minute = mm ∧ (civilOfLoc l).second = ss ∧
    (civilOfLoc l).micro = us := locOfCivil_unique l y m d hh mm ss us hv h1 h2 h3 h4 e

/-! #### accessors -/

/-- getDayOfWeek (`isoweekday() % 7`) counts days since Sunday: it advances by one modulo 7 every
day, and is 0 on 1970-01-04, a Sunday -/
theorem dow_sunday0 (c : Civil) :
    accField .getDayOfWeek c = ((c.dayIndex + 1) % 7 : Nat) ∧
    ((daysOfCivil 1970 1 4 + 1) % 7 = 0) := ⟨dow_eq c, by decide⟩

theorem dow_step (n : Nat) : (n + 1 + 1) % 7 = ((n + 1) % 7 + 1) % 7 := by omega

/-- getDayOfYear (`toordinal() - jan1.toordinal()`) is the 0-based day of the year: days of the
preceding months plus day-of-month minus one; 0 on January 1st; at most 365 -/
theorem doy_zero_based (l : Int) (h : 0 ≤ l) :
    accField .getDayOfYear (civilOfLoc l) =
      ((daysBeforeMonth (civilOfLoc l).year (civilOfLoc l).month + (civilOfLoc l).day - 1 : Nat) : Int) ∧
    0 ≤ accField .getDayOfYear (civilOfLoc l) ∧ accField .getDayOfYear (civilOfLoc l) ≤ 365 := by
  have e := doy_eq l
  obtain ⟨hv, _⟩ := civilOfLoc_spec l h
  obtain ⟨hy, hm1, hm12, hd1, hd⟩ := hv
  rw [daysInMonth_eq] at hd
  have f := (month_facts (isLeap (civilOfLoc l).year) (civilOfLoc l).month (by omega) hm1).1
  rw [daysBeforeMonth_eq] at e
  refine ⟨by rw [daysBeforeMonth_eq]; exact e, by rw [e]; omega, ?_⟩
  rw [e]; unfold yearLen at f; split at f <;> omega

theorem doy_jan1 (y : Nat) : daysBeforeMonth y 1 + 1 - 1 = 0 := by
  unfold daysBeforeMonth; simp [dbmTable, nbeq, nblt]

/-- getMonth is 0-based, getDate 1-based, getDayOfMonth 0-based, getFullYear the year;
getHours/Minutes/Seconds the clock fields; getMilliseconds the millisecond of the second -/
theorem field_accessors (c : Civil) :
    accField .getMonth c = (c.month : Int) - 1 ∧ accField .getDate c = c.day ∧
    accField .getDayOfMonth c = (c.day : Int) - 1 ∧ accField .getFullYear c = c.year ∧
    accField .getHours c = c.hour ∧ accField .getMinutes c = c.minute ∧
    accField .getSeconds c = c.second ∧ accField .getMilliseconds c = (c.micro / 1000 : Nat) :=
  ⟨rfl, rfl, rfl, rfl, rfl, rfl, rfl, rfl⟩

/-- with a zone whose offset is `off`, every accessor is the civil field of the instant shifted
by `off` — for EVERY offset (in particular all of −14:00 … +14:00) for which the UTC clock and the
shifted clock are representable -/
theorem accessor_offset (a : Acc) (t : Ts) (off : Int) (h1 : inRange t.utc) (h2 : inRange (t.utc + off)) :
    tsAccessor a t off = .ok (accField a (civilOfLoc (t.utc + off))) := by
  simp [tsAccessor, astimezone, (locOk_iff _).mpr h1, (locOk_iff _).mpr h2, bind, Except.bind, pure, Except.pure]

/-- otherwise it is an `OverflowError` (never a wrong field) -/
theorem accessor_out_of_range (a : Acc) (t : Ts) (off : Int) (h : ¬ (inRange t.utc ∧ inRange (t.utc + off))) :
    tsAccessor a t off = .error .overflow := by
  unfold tsAccessor astimezone
  by_cases h1 : locOk t.utc = true
  · have : locOk (t.utc + off) = false := by
      cases hh : locOk (t.utc + off)
      · rfl
      · exact absurd ⟨(locOk_iff _).mp h1, (locOk_iff _).mp hh⟩ h
    simp [h1, this, bind, Except.bind]
  · simp [h1, bind, Except.bind]

inductive Sgn | none | plus | minus
def Sgn.text : Sgn → List Nat
  | .none => [] | .plus => [43] | .minus => [45]
def Sgn.val : Sgn → Int
  | .minus => -1 | _ => 1
/-- `±HH:MM` -/
def offsetText (s : Sgn) (hh mm : Nat) : List Nat :=
  s.text ++ [48 + hh / 10, 48 + hh % 10, 58, 48 + mm / 10, 48 + mm % 10]

/-- `tz_offset_parse("±HH:MM")` is ±(HH·60+MM) minutes, for all two-digit HH, MM below 24 h -/
theorem tz_offset_parse_spec (s : Sgn) (hh mm : Nat) (h1 : hh < 100) (h2 : mm < 100) :
    tzOffsetParse (offsetText s hh mm) =
      if hh * 60 + mm < 1440 then .ok (s.val * ((hh * 60 + mm : Nat) : Int) * 60000000) else .error .valueError := by
  have d1 : isDigit (48 + hh / 10) = true := by rw [isDigit_iff]; omega
  have d2 : isDigit (48 + hh % 10) = true := by rw [isDigit_iff]; omega
  have d3 : isDigit (48 + mm / 10) = true := by rw [isDigit_iff]; omega
  have d4 : isDigit (48 + mm % 10) = true := by rw [isDigit_iff]; omega
  have l10 : ¬ (48 + mm % 10 = 10) := by omega
  have e1 : (48 + hh / 10 - 48) * 10 + (48 + hh % 10 - 48) = hh := by omega
  have e2 : (48 + mm / 10 - 48) * 10 + (48 + mm % 10 - 48) = mm := by omega
  have n43 : ¬ (48 + hh / 10 = 43) := by omega
  have n45 : ¬ (48 + hh / 10 = 45) := by omega
  have f1 : hh / 10 * 10 + hh % 10 = hh := by omega
  have f2 : mm / 10 * 10 + mm % 10 = mm := by omega
  have g1 : (hh : Int) / 10 * 10 + (hh : Int) % 10 = hh := by omega
  have g2 : (mm : Int) / 10 * 10 + (mm : Int) % 10 = mm := by omega
  cases s <;> simp [offsetText, Sgn.text, Sgn.val, tzOffsetParse, d1, d2, d3, d4, l10, n43, n45] <;>
    rw [f1, f2, g1, g2]

/-- so `ts.getX("±HH:MM")` is the civil field of the instant shifted by that offset -/
theorem accessor_fixed_offset (a : Acc) (t : Ts) (s : Sgn) (hh mm : Nat) (h1 : hh < 100) (h2 : mm < 100)
    (h3 : hh * 60 + mm < 1440) :
    tsAccessorFixed a t (offsetText s hh mm) =
      tsAccessor a t (s.val * ((hh * 60 + mm : Nat) : Int) * 60000000) := by
  have hne : (offsetText s hh mm).isEmpty = false := by cases s <;> simp [offsetText, Sgn.text]
  unfold tsAccessorFixed
  rw [hne, tz_offset_parse_spec s hh mm h1 h2, if_pos h3]
  rfl

/-! #### duration text -/

/-- the exact sum of the components, as a fraction of a second -/
def itemValue (it : Item) : Q :=
  ⟨digitsVal (it.ip ++ it.fp.getD []) * it.u.scale.1, 10 ^ (it.fp.getD []).length * it.u.scale.2⟩
def itemsValue : List Item → Q
  | [] => ⟨0, 1⟩
  | it :: r => (itemValue it).add (itemsValue r)

theorem itemsSeconds_eq (items : List Item) (h : ∀ it ∈ items, it.wf) :
    itemsSeconds items = .ok (itemsValue items) := by
  induction items with
  | nil => rfl
  | cons it r ih =>
    have hw := h it (by simp)
    have hne : (it.ip.isEmpty && (it.fp.getD []).isEmpty) = false := by
      rcases hw.2.2 with h1 | h1
      · cases hip : it.ip <;> simp_all
      · cases hfp : it.fp.getD [] <;> simp_all
    have hr := ih (fun it' hm => h it' (by simp [hm]))
    simp [itemsSeconds, itemSeconds, fractionOfDecimal, hne, hr, itemsValue, itemValue, bind, Except.bind, pure, Except.pure]

/-- `duration(text)` for ANY text `[+-]? (digits [. digits] unit)+` (units ns us ms s m h d, at
least one digit per number): the result is the exact sum of the components, rounded half-even to
a whole microsecond, with the sign applied; or `ValueError` exactly when the exact sum exceeds
315,576,000,000 s. No float is involved. -/
theorem duration_denotes (s : Sgn) (items : List Item) (hne : items ≠ []) (h : ∀ it ∈ items, it.wf) :
    durParse (s.text ++ renderItems items) =
      if (itemsValue items).num ≤ 315576000000 * (itemsValue items).den then
        .ok (s.val * ((rne ((itemsValue items).num * 1000000) (itemsValue items).den : Nat) : Int))
      else .error .valueError := by
  have hstart := renderItems_head items h
  have hnil : renderItems items ≠ [] := by
    intro e
    have := renderItems_isEmpty items h
    rw [e] at this
    cases items <;> simp_all
  -- no trailing newline: every character is a digit, a dot, a unit letter or the sign
  have hmem : ∀ c ∈ renderItems items, c ≠ 10 := by
    intro c hc
    induction items with
    | nil => simp [renderItems] at hc
    | cons it r ih =>
      simp only [renderItems, renderItem, List.mem_append] at hc
      have hw := h it (by simp)
      rcases hc with (hc | hc | hc) | hc
      · have := hw.1 c hc; rw [isDigit_iff] at this; omega
      · cases hfp : it.fp with
        | none => simp [hfp, fracText] at hc
        | some f =>
          simp [hfp, fracText] at hc
          rcases hc with hc | hc
          · omega
          · have := hw.2.1 c (by simp [hfp, hc]); rw [isDigit_iff] at this; omega
      · cases hu : it.u <;> simp [hu, unitText] at hc <;> omega
      · cases r with
        | nil => simp [renderItems] at hc
        | cons it2 r2 =>
          exact ih (by simp) (fun it' hm => h it' (by simp [hm])) (renderItems_head _ (fun it' hm => h it' (by simp [hm])))
            (by intro e; have := renderItems_isEmpty (it2 :: r2) (fun it' hm => h it' (by simp [hm])); rw [e] at this; simp at this) hc
  have hlast : (s.text ++ renderItems items).getLast? ≠ some 10 := by
    intro e
    have hm := List.mem_of_getLast? e
    rw [List.mem_append] at hm
    rcases hm with hm | hm
    · cases s <;> simp [Sgn.text] at hm
    · exact hmem 10 hm rfl
  -- the head of the items is not a sign character
  obtain ⟨c0, r0, hc0⟩ : ∃ c r, renderItems items = c :: r := by
    cases hr : renderItems items with
    | nil => exact absurd hr hnil
    | cons c r => exact ⟨c, r, rfl⟩
  have hc0' : c0 ≠ 43 ∧ c0 ≠ 45 := by
    rcases hstart c0 (by rw [hc0]; rfl) with hd | hd
    · rw [isDigit_iff] at hd; omega
    · omega
  have hparse := parseItems_render items h hne ((renderItems items).length + 1) (by
    have : items.length ≤ (renderItems items).length := by
      clear hstart hnil hmem hlast hc0 hne
      induction items with
      | nil => simp
      | cons it r ih =>
        have hu : 1 ≤ (unitText it.u).length := by cases it.u <;> simp [unitText]
        have := ih (fun it' hm => h it' (by simp [hm]))
        simp only [renderItems, renderItem, List.length_append, List.length_cons]
        omega
    omega)
  have hsv : (if s.val = -1 then (-1 : Int) else 1) = s.val := by cases s <;> simp [Sgn.val]
  unfold durParse
  simp only [if_neg hlast]
  cases s with
  | none =>
    simp only [Sgn.text, List.nil_append, Sgn.val, hc0] at hparse ⊢
    have e1 : ¬ ((c0 :: r0).head? = some 43 ∨ (c0 :: r0).head? = some 45) := by simp [hc0'.1, hc0'.2]
    have e2 : decide ((c0 :: r0).head? = some 45) = false := by simp [hc0'.2]
    simp only [if_neg e1, e2, hparse, itemsSeconds_eq items h]
    simp
  | plus =>
    simp only [Sgn.text, List.cons_append, List.nil_append, Sgn.val]
    simp [hparse, itemsSeconds_eq items h]
  | minus =>
    simp only [Sgn.text, List.cons_append, List.nil_append, Sgn.val]
    simp [hparse, itemsSeconds_eq items h]

/-- `duration("XhYmZs")` denotes X·3600 + Y·60 + Z seconds — for ALL naturals X, Y, Z -/
theorem duration_hms (s : Sgn) (X Y Z : Nat) :
    durParse (s.text ++ (natText X ++ [104] ++ (natText Y ++ [109]) ++ (natText Z ++ [115]))) =
      if X * 3600 + Y * 60 + Z ≤ 315576000000 then
        .ok (s.val * (((X * 3600 + Y * 60 + Z) * 1000000 : Nat) : Int))
      else .error .valueError := by
  let items : List Item := [⟨natText X, none, .h⟩, ⟨natText Y, none, .m⟩, ⟨natText Z, none, .s⟩]
  have hw : ∀ it ∈ items, it.wf := by
    intro it hm
    simp only [items, List.mem_cons, List.mem_nil_iff, or_false] at hm
    rcases hm with e | e | e <;> subst e <;>
      exact ⟨natText_digits _, by simp, Or.inl (natText_ne_nil _)⟩
  have hr : renderItems items = natText X ++ [104] ++ (natText Y ++ [109]) ++ (natText Z ++ [115]) := by
    simp [items, renderItems, renderItem, fracText, unitText]
  have := duration_denotes s items (by simp [items]) hw
  rw [hr] at this
  rw [this]
  have e1 : (itemsValue items).num = X * 3600 + Y * 60 + Z := by
    simp [items, itemsValue, itemValue, Q.add, DUnit.scale, digitsVal_natText]; omega
  have e2 : (itemsValue items).den = 1 := by
    simp [items, itemsValue, itemValue, Q.add, DUnit.scale]
  rw [e1, e2]
  have e3 : rne ((X * 3600 + Y * 60 + Z) * 1000000) 1 = (X * 3600 + Y * 60 + Z) * 1000000 := by
    simp [rne, Nat.mod_one]
  simp [e3]

/-- one component with a fraction and any unit: the exact decimal value times the unit, rounded
half-even to µs (e.g. `"1.5ms"` ↦ 1500 µs, `"2.5us"` ↦ 2 µs, `"1500ns"` ↦ 2 µs) -/
theorem duration_fraction (s : Sgn) (ip fp : List Nat) (u : DUnit) (h1 : ∀ c ∈ ip, isDigit c = true)
    (h2 : ∀ c ∈ fp, isDigit c = true) (h3 : ip ≠ [] ∨ fp ≠ []) :
    durParse (s.text ++ (ip ++ (46 :: fp ++ unitText u))) =
      if digitsVal (ip ++ fp) * u.scale.1 ≤ 315576000000 * (10 ^ fp.length * u.scale.2) then
        .ok (s.val * ((rne (digitsVal (ip ++ fp) * u.scale.1 * 1000000) (10 ^ fp.length * u.scale.2) : Nat) : Int))
      else .error .valueError := by
  have hw : ∀ it ∈ [(⟨ip, some fp, u⟩ : Item)], it.wf := by
    intro it hm; simp at hm; subst hm; exact ⟨h1, by simpa using h2, by simpa using h3⟩
  have := duration_denotes s [⟨ip, some fp, u⟩] (by simp) hw
  simp only [renderItems, renderItem, fracText, List.append_nil] at this
  rw [this]
  simp [itemsValue, itemValue, Q.add]

set_option maxRecDepth 10000 in
example : durParse [49, 46, 53, 109, 115] = .ok 1500 := by rfl   -- "1.5ms"
set_option maxRecDepth 10000 in
example : durParse [50, 46, 53, 117, 115] = .ok 2 := by rfl      -- "2.5us": half-even
set_option maxRecDepth 10000 in
example : durParse [43, 49, 109, 50, 115] = .ok 62000000 := by rfl  -- "+1m2s"
example : ∃ it : Item, it.wf := ⟨⟨[49], none, .s⟩, by decide, by decide, by decide⟩
example : inRange 0 ∧ inRange maxLoc ∧ ¬ inRange (maxLoc + 1) := by decide
example : tsAdd ⟨maxLoc, 0⟩ 1 = .error .overflow := by rfl

/-! #### round 2: the instant alone decides; civil fields end to end; half-even; `H:MM`; `µs` -/

/-- an accessor looks at the INSTANT only: two timestamps that denote the same instant (same UTC clock) with
different own offsets (`2020-12-31T23:30:00-05:30` and `2021-01-01T05:00:00Z`) give the same field, with or
without a zone argument — no fast path may read the timestamp's own wall-clock fields -/
theorem accessor_instant_only (a : Acc) (t1 t2 : Ts) (off : Int) (h : t1.utc = t2.utc) :
    tsAccessor a t1 off = tsAccessor a t2 off := by
  unfold tsAccessor astimezone; rw [h]

/-- without a zone argument the field is the UTC field, whatever the timestamp's own offset -/
theorem accessor_no_zone_utc (a : Acc) (t : Ts) (h : inRange t.utc) :
    tsAccessorFixed a t [] = .ok (accField a (civilOfLoc t.utc)) := by
  have := accessor_offset a t 0 h (by simpa using h)
  simp only [Int.add_zero] at this
  simp [tsAccessorFixed, this, bind, Except.bind, pure, Except.pure]

/-- the accessors return the civil-calendar fields: if the instant, seen at offset `off`, is the civil
date-time y-m-d hh:mm:ss.us, then getFullYear = y, getMonth = m − 1, getDate = d, getDayOfMonth = d − 1,
getDayOfYear = days of the preceding months + d − 1, getDayOfWeek = days since a Sunday mod 7, getHours = hh,
getMinutes = mm, getSeconds = ss, getMilliseconds = ⌊us / 1000⌋ — for every valid civil date-time -/
theorem accessors_return_civil_fields (t : Ts) (off : Int) (y m d hh mm ss us : Nat) (hv : validDate y m d)
    (h1 : hh < 24) (h2 : mm < 60) (h3 : ss < 60) (h4 : us < 1000000)
    (e : locOfCivil y m d hh mm ss us = t.utc + off) (hu : inRange t.utc) (hl : inRange (t.utc + off)) :
    tsAccessor .getFullYear t off = .ok (y : Int) ∧
    tsAccessor .getMonth t off = .ok ((m : Int) - 1) ∧
    tsAccessor .getDate t off = .ok (d : Int) ∧
    tsAccessor .getDayOfMonth t off = .ok ((d : Int) - 1) ∧
    tsAccessor .getDayOfYear t off = .ok ((daysBeforeMonth y m + d - 1 : Nat) : Int) ∧
    tsAccessor .getDayOfWeek t off = .ok (((daysOfCivil y m d + 1) % 7 : Nat) : Int) ∧
    tsAccessor .getHours t off = .ok (hh : Int) ∧
    tsAccessor .getMinutes t off = .ok (mm : Int) ∧
    tsAccessor .getSeconds t off = .ok (ss : Int) ∧
    tsAccessor .getMilliseconds t off = .ok ((us / 1000 : Nat) : Int) := by
  obtain ⟨ey, em, ed, eh, emi, es, eu⟩ := locOfCivil_unique (t.utc + off) y m d hh mm ss us hv h1 h2 h3 h4 e
  have hidx : (civilOfLoc (t.utc + off)).dayIndex = daysOfCivil y m d := by
    have := (civil_days (civilOfLoc (t.utc + off)).dayIndex).2
    have ey' : (civilOfDays (civilOfLoc (t.utc + off)).dayIndex).1 = y := ey
    have em' : (civilOfDays (civilOfLoc (t.utc + off)).dayIndex).2.1 = m := em
    have ed' : (civilOfDays (civilOfLoc (t.utc + off)).dayIndex).2.2 = d := ed
    rw [ey', em', ed'] at this
    exact this.symm
  have hdoy := doy_eq (t.utc + off)
  rw [ey, em, ed] at hdoy
  have hdow := dow_eq (civilOfLoc (t.utc + off))
  rw [hidx] at hdow
  refine ⟨?_, ?_, ?_, ?_, ?_, ?_, ?_, ?_, ?_, ?_⟩ <;> rw [accessor_offset _ t off hu hl]
  · simp [accField, ey]
  · simp [accField, em]
  · simp [accField, ed]
  · simp [accField, ed]
  · rw [hdoy]
  · rw [hdow]
  · simp [accField, eh]
  · simp [accField, emi]
  · simp [accField, es]
  · simp [accField, eu]

/-- "rounded half-even to a whole microsecond" means what it says: `rne n d` is an integer nearest to `n / d`
(within half a unit), and on an exact tie it is the even neighbour -/
theorem rne_nearest (n d : Nat) (hd : 0 < d) :
    2 * (rne n d * d) ≤ 2 * n + d ∧ 2 * n ≤ 2 * (rne n d * d) + d ∧ (2 * (n % d) = d → rne n d % 2 = 0) := by
  have hdm : d * (n / d) + n % d = n := Nat.div_add_mod n d
  have hlt : n % d < d := Nat.mod_lt n hd
  have e1 : (n / d + 1) * d = d * (n / d) + d := by rw [Nat.add_mul, Nat.mul_comm]; simp
  have e0 : n / d * d = d * (n / d) := Nat.mul_comm _ _
  unfold rne
  split
  · refine ⟨by rw [e0]; omega, by rw [e0]; omega, by intro h; omega⟩
  · split
    · refine ⟨by rw [e1]; omega, by rw [e1]; omega, by intro h; omega⟩
    · split
      · refine ⟨by rw [e0]; omega, by rw [e0]; omega, by intro _; assumption⟩
      · refine ⟨by rw [e1]; omega, by rw [e1]; omega, by intro _; omega⟩

/-- `tz_offset_parse("±H:MM")` (one-digit hour) is ±(H·60+MM) minutes -/
def offsetText1 (s : Sgn) (h mm : Nat) : List Nat :=
  s.text ++ [48 + h, 58, 48 + mm / 10, 48 + mm % 10]

theorem tz_offset_parse_spec1 (s : Sgn) (h mm : Nat) (h1 : h < 10) (h2 : mm < 100) :
    tzOffsetParse (offsetText1 s h mm) = .ok (s.val * ((h * 60 + mm : Nat) : Int) * 60000000) := by
  have d1 : isDigit (48 + h) = true := by rw [isDigit_iff]; omega
  have d3 : isDigit (48 + mm / 10) = true := by rw [isDigit_iff]; omega
  have d4 : isDigit (48 + mm % 10) = true := by rw [isDigit_iff]; omega
  have l10 : ¬ (48 + mm % 10 = 10) := by omega
  have e2 : (48 + mm / 10 - 48) * 10 + (48 + mm % 10 - 48) = mm := by omega
  have n43 : ¬ (48 + h = 43) := by omega
  have n45 : ¬ (48 + h = 45) := by omega
  have f2 : mm / 10 * 10 + mm % 10 = mm := by omega
  have g2 : (mm : Int) / 10 * 10 + (mm : Int) % 10 = mm := by omega
  have lt : h * 60 + mm < 1440 := by omega
  cases s <;> simp [offsetText1, Sgn.text, Sgn.val, tzOffsetParse, d1, d3, d4, l10, n43, n45] <;>
    simp [f2, g2, lt]

example : rne 5 2 = 2 ∧ rne 7 2 = 4 ∧ rne 1 3 = 0 ∧ rne 2 3 = 1 := by decide
example : tzOffsetParse [53, 58, 51, 48] = .ok 19800000000 := by rfl   -- "5:30"


/-- `duration(text)` does not distinguish the two spellings of the microsecond unit, for EVERY text
(valid or not): `"1.5µs2h"` and `"1.5us2h"` denote the same duration or fail alike -/
theorem duration_micro_sign (text : List Nat) : durParse (text.map deMicro) = durParse text := by
  have hlast : (text.map deMicro).getLast? = some 10 ↔ text.getLast? = some 10 := by
    rw [List.getLast?_map]
    cases text.getLast? with
    | none => simp
    | some c => simp only [Option.map_some, Option.some.injEq]; unfold deMicro; split <;> omega
  have hbody : (if (text.map deMicro).getLast? = some 10 then (text.map deMicro).dropLast else text.map deMicro) =
      (if text.getLast? = some 10 then text.dropLast else text).map deMicro := by
    by_cases h : text.getLast? = some 10
    · rw [if_pos h, if_pos (hlast.mpr h), List.map_dropLast]
    · rw [if_neg h, if_neg (fun hh => h (hlast.mp hh))]
  unfold durParse
  simp only [hbody]
  generalize (if text.getLast? = some 10 then text.dropLast else text) = body
  rcases body with _ | ⟨c, r⟩
  · rfl
  · have d45 : deMicro c = 45 ↔ c = 45 := by unfold deMicro; split <;> omega
    have d43 : deMicro c = 43 ↔ c = 43 := by unfold deMicro; split <;> omega
    simp only [List.map_cons, List.head?_cons, Option.some.injEq, d45, d43, List.tail_cons]
    by_cases h : c = 43 ∨ c = 45
    · simp only [if_pos h, List.length_map, parseItems_deMicro]
    · simp only [if_neg h]
      have : deMicro c :: List.map deMicro r = List.map deMicro (c :: r) := rfl
      rw [this, List.length_map, parseItems_deMicro]

set_option maxRecDepth 10000 in
example : durParse [49, 46, 53, 181, 115] = .ok 2 ∧ durParse [49, 46, 53, 117, 115] = .ok 2 := ⟨by rfl, by rfl⟩  -- "1.5µs"

end Cel.Props.C11
