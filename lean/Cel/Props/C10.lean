/-
  C10 — Type conversions round-trip and range-check.

  Property theorems only.  Subject: `Cel.Conv.*` (lean/Cel/Model/Conv.lean) and the text
  functions of `Cel.Time`, the model of the celtypes constructors reached through
  `int() uint() double() string() bytes() timestamp() duration()`; the dispatch ladders,
  `__str__` formats and constants are regenerated from celtypes.py into `Cel.Gen.Conv` and
  compared by `Cel.Bridge.Conv`.

  Quantifiers: ALL integers in the int64 / uint64 range, ALL lists of Unicode scalar values,
  ALL octet lists, ALL whole-second instants of years 1..9999 with ALL whole-minute offsets,
  ALL whole-second durations in range, ALL finite doubles (as exact dyadic values).
  `double(string(d)) == d` is NOT proved: it rests on CPython's shortest-repr printing and
  correctly rounded `float()` (trusted, corresponded) — partial.
-/
import Cel.Lemmas.Conv
import Cel.Props.C11
namespace Cel.Props.C10
open Cel Cel.Conv Cel.Time

/-! #### int / uint ↔ string -/

/-- `int(string(i)) == i` for every int64 -/
theorem int_string_roundtrip (i : Int) (h : i64 i) : intOfText (stringOfInt i) = .ok i := by
  obtain ⟨n1, n2⟩ := no_hex_prefix (intText i) (intText_chars i)
  unfold intOfText stringOfInt
  rw [if_neg n1, if_neg n2, pyInt_intText]
  show int64 i = .ok i
  unfold int64; unfold i64 at h; rw [if_pos h]

/-- `uint(string(u)) == u` for every uint64 -/
theorem uint_string_roundtrip (u : Int) (h : u64 u) : uintOfText (stringOfUint u) = .ok u := by
  obtain ⟨n1, _⟩ := no_hex_prefix (intText u) (intText_chars u)
  unfold uintOfText stringOfUint
  rw [if_neg n1, pyInt_intText]
  show uint64 u = .ok u
  unfold uint64; unfold u64 at h; rw [if_pos h]

/-- the other direction: the decimal text of an integer is what `string(int(text))` prints -/
theorem string_int_roundtrip (i : Int) (h : i64 i) :
    (intOfText (intText i) >>= fun v => pure (stringOfInt v)) = .ok (intText i) := by
  have := int_string_roundtrip i h
  unfold stringOfInt at this
  rw [this]; rfl

/-- a conversion to int never yields a value outside int64 (never wrapped, never clamped) -/
theorem int64_bind_range {x : PyM Int} {r : Int} (h : (x >>= int64) = .ok r) : i64 r := by
  cases x with
  | error e => simp [bind, Except.bind] at h
  | ok v =>
    simp only [bind, Except.bind] at h
    unfold int64 at h
    split at h
    · rename_i hr; injection h with h; subst h; exact hr
    · cases h
theorem uint64_bind_range {x : PyM Int} {r : Int} (h : (x >>= uint64) = .ok r) : u64 r := by
  cases x with
  | error e => simp [bind, Except.bind] at h
  | ok v =>
    simp only [bind, Except.bind] at h
    unfold uint64 at h
    split at h
    · rename_i hr; injection h with h; subst h; exact hr
    · cases h

/-! #### int / uint of other numbers: exact or error -/

/-- uint → int: the same number when it fits int64, `ValueError` (evaluation error) above -/
theorem int_of_uint (u : Int) : intOfUint u = if i64 u then .ok u else .error .valueError := by
  unfold intOfUint int64 i64; rfl
/-- int → uint: the same number when non-negative (and below 2^64), an error for negatives -/
theorem uint_of_int (i : Int) : uintOfInt i = if u64 i then .ok i else .error .valueError := by
  unfold uintOfInt uint64 u64; rfl
theorem uint_of_negative (i : Int) (h : i < 0) : uintOfInt i = .error .valueError := by
  rw [uint_of_int, if_neg]; unfold u64; omega
theorem int_of_big_uint (u : Int) (h : (2:Int)^63 ≤ u) : intOfUint u = .error .valueError := by
  rw [int_of_uint, if_neg]; unfold i64; omega

/-- `int(double)` truncates the exact value of the double toward zero, or fails: for every
finite double (as its exact dyadic value) -/
theorem int_of_double_trunc (v : Dy) :
    intOfDouble (.fin v) = if i64 v.trunc then .ok v.trunc else .error .valueError := by
  unfold intOfDouble pyTrunc int64 i64; rfl
theorem uint_of_double_trunc (v : Dy) :
    uintOfDouble (.fin v) = if u64 v.trunc then .ok v.trunc else .error .valueError := by
  unfold uintOfDouble pyTrunc uint64 u64; rfl

/-- what "truncate toward zero" means for `v = num / 2^k`: the integer part, with the sign of `v` -/
theorem trunc_toward_zero_nonneg (v : Dy) (h : 0 ≤ v.num) :
    0 ≤ v.trunc ∧ v.trunc * ((2 ^ v.k : Nat) : Int) ≤ v.num ∧ v.num < (v.trunc + 1) * ((2 ^ v.k : Nat) : Int) := by
  have hp : (0 : Int) < ((2 ^ v.k : Nat) : Int) := by
    have : 0 < 2 ^ v.k := Nat.pow_pos (by decide)
    omega
  unfold Dy.trunc
  rw [Int.tdiv_eq_ediv_of_nonneg h]
  refine ⟨Int.ediv_nonneg h (by omega), Int.ediv_mul_le _ (by omega), Int.lt_ediv_add_one_mul_self _ hp⟩
theorem trunc_neg (v : Dy) : v.neg.trunc = - v.trunc := by
  unfold Dy.trunc Dy.neg; simp [Int.neg_tdiv]

/-- NaN and the infinities are errors; doubles at or beyond ±2^63 are errors, never clamped -/
theorem int_of_nonfinite : intOfDouble .nan = .error .valueError ∧ ∀ s, intOfDouble (.inf s) = .error .overflow :=
  ⟨rfl, fun _ => rfl⟩
theorem int_of_double_out_of_range (v : Dy) (h : ¬ i64 v.trunc) : intOfDouble (.fin v) = .error .valueError := by
  rw [int_of_double_trunc, if_neg h]
theorem int_of_double_ok (d : Dbl) (r : Int) (h : intOfDouble d = .ok r) : ∃ v, d = .fin v ∧ r = v.trunc ∧ i64 r := by
  cases d with
  | nan => cases h
  | inf s => cases h
  | fin v =>
    refine ⟨v, rfl, ?_⟩
    rw [int_of_double_trunc] at h
    split at h
    · rename_i hr; injection h with h; subst h; exact ⟨rfl, hr⟩
    · cases h

/-- text conversions never wrap either -/
theorem int_of_text_range (s : Text) (r : Int) (h : intOfText s = .ok r) : i64 r := by
  unfold intOfText at h
  split at h
  · exact int64_bind_range h
  · split at h
    · cases hp : pyInt 16 (List.drop 3 s) with
      | error e => simp [hp, bind, Except.bind] at h
      | ok v =>
        simp only [hp, bind, Except.bind] at h
        exact int64_bind_range (x := .ok (-v)) h
    · exact int64_bind_range h
theorem uint_of_text_range (s : Text) (r : Int) (h : uintOfText s = .ok r) : u64 r := by
  unfold uintOfText at h
  split at h <;> exact uint64_bind_range h

/-- unparsable text is an error: any character that is not a letter, a digit, a sign or an underscore
inside the (blank-stripped) text makes Python's `int(text, base)` — hence `int()` / `uint()` of the
text — raise `ValueError`; e.g. `"1.0"`, `"1e3"` (base 10: also letters), `"4 2"`, `"1,000"` -/
theorem bad_int_text_is_error (base : Nat) (s : Text) (c : Nat) (hc : c ∈ strip s) (hv : digitVal c = none)
    (h43 : c ≠ 43) (h45 : c ≠ 45) (h95 : c ≠ 95) : pyInt base s = .error .valueError :=
  pyInt_bad_char base s c hc hv h43 h45 h95

example : intOfText [49, 46, 48] = .error .valueError := by rfl     -- "1.0"
example : intOfText [52, 32, 50] = .error .valueError := by rfl     -- "4 2"
example : uintOfText [45, 49] = .error .valueError := by rfl        -- "-1"

/-! #### string ↔ bytes -/

/-- `string(bytes(s)) == s` for every string of Unicode scalar values (every CEL string) -/
theorem string_bytes_roundtrip (s : Text) (h : ∀ c ∈ s, isScalar c = true) :
    (bytesOfString s >>= stringOfBytes) = .ok s := by
  obtain ⟨b, hb1, hb2⟩ := utf8_roundtrip s h
  unfold bytesOfString stringOfBytes
  rw [hb1]; exact hb2

/-- `string(b)` succeeds only on well-formed UTF-8: whatever it returns re-encodes to exactly `b`
(so overlong forms, surrogates, values above U+10FFFF, truncated or stray bytes are errors, and
nothing is replaced or dropped); hence `bytes(string(b)) == b` whenever `string(b)` is a value -/
theorem bad_utf8_is_error (b : Bytes) (s : Text) (h : stringOfBytes b = .ok s) :
    bytesOfString s = .ok b ∧ ∀ c ∈ s, isScalar c = true := decode_genuine b s h

theorem string_of_bytes_error_class (b : Bytes) : ∀ e, stringOfBytes b = .error e → e = .valueError := by
  unfold stringOfBytes
  induction b using utf8Decode.induct
  all_goals (intro e h; unfold utf8Decode at h; simp only [*, if_true, if_false, reduceCtorEq] at h)
  all_goals (try (split at h <;> simp only [*, if_true, if_false, reduceCtorEq] at h))
  all_goals (first | (injection h with h; exact h.symm) | (rename_i ih; exact ih e (by assumption)) | skip)

example : stringOfBytes [0xC0, 0x80] = .error .valueError := by rfl      -- overlong NUL
example : stringOfBytes [0xED, 0xA0, 0x80] = .error .valueError := by rfl -- surrogate
example : stringOfBytes [0xF4, 0x90, 0x80, 0x80] = .error .valueError := by rfl -- > U+10FFFF
example : stringOfBytes [0xE2, 0x82] = .error .valueError := by rfl      -- truncated

/-- round 3: `string()` of bytes is injective — no two byte strings are read as the same text.  What a decoder that
treats some octets as something other than content breaks (a signature-aware codec maps `EF BB BF 69` and `69` to
the same text; so do a stripping, a NUL-cutting or a normalising one). -/
theorem string_of_bytes_injective (b₁ b₂ : Bytes) (s : Text)
    (h₁ : stringOfBytes b₁ = .ok s) (h₂ : stringOfBytes b₂ = .ok s) : b₁ = b₂ := by
  have e₁ := (bad_utf8_is_error b₁ s h₁).1
  have e₂ := (bad_utf8_is_error b₂ s h₂).1
  rw [e₁] at e₂
  injection e₂

/-- the octets `EF BB BF` are the character U+FEFF wherever they stand, the first position included: text that
begins with U+FEFF keeps it through `string(bytes(s))` (instance of `string_bytes_roundtrip`) -/
theorem string_bytes_keeps_leading_feff (s : Text) (h : ∀ c ∈ s, isScalar c = true) :
    (bytesOfString (0xFEFF :: s) >>= stringOfBytes) = .ok (0xFEFF :: s) :=
  string_bytes_roundtrip (0xFEFF :: s) (by
    intro c hc
    cases hc with
    | head => rfl
    | tail _ hc => exact h c hc)

example : stringOfBytes [0xEF, 0xBB, 0xBF] = .ok [0xFEFF] := by rfl                   -- a signature alone is one character
example : stringOfBytes [0xEF, 0xBB, 0xBF, 0x69, 0x64] = .ok [0xFEFF, 0x69, 0x64] := by rfl
example : stringOfBytes [0x61, 0x00, 0x0D, 0x0A, 0x20] = .ok [0x61, 0, 13, 10, 32] := by rfl   -- NUL, CR LF, trailing blank kept
example : stringOfBytes [0x65, 0xCC, 0x81] = .ok [0x65, 0x301] := by rfl              -- not composed to U+00E9

/-! #### timestamp ↔ string -/

/-- `timestamp(string(t)) == t` for every whole-second timestamp in years 0001..9999, with any
whole-minute offset (what `timestamp()` can produce) — same local clock, same offset -/
theorem ts_string_roundtrip (t : Ts) (hr : C11.inRange t.loc) (hs : t.loc % 1000000 = 0)
    (hm : t.off % 60000000 = 0) (ho : -86400000000 < t.off ∧ t.off < 86400000000) :
    tsOfText (stringOfTs t) = some (.ok t) :=
  tsOfText_stringOfTs t hr.1 hr.2 hs hm ho

/-! #### duration ↔ string -/

/-- `duration(string(d)) == d` for every whole-second duration within ±315,576,000,000 s -/
theorem dur_string_roundtrip (s : Int) (h : -315576000000 ≤ s ∧ s ≤ 315576000000) :
    durOfText (stringOfDur (s * 1000000)) = .ok (s * 1000000) := by
  have hw : (totalSeconds (s * 1000000)).trunc = s := totalSeconds_whole s (by omega)
  unfold durOfText stringOfDur durStr
  rw [hw]
  have hitem : ∀ it ∈ [(⟨natText s.natAbs, none, .s⟩ : Item)], it.wf := by
    intro it hm; simp at hm; subst hm
    exact ⟨natText_digits _, by simp, Or.inl (natText_ne_nil _)⟩
  have hval : C11.itemsValue [(⟨natText s.natAbs, none, .s⟩ : Item)] = ⟨s.natAbs * 1 + 0 * (1 * 1), 1 * 1 * 1⟩ := by
    simp [C11.itemsValue, C11.itemValue, Q.add, DUnit.scale, digitsVal_natText]
  have hrne : rne ((s.natAbs * 1 + 0 * (1 * 1)) * 1000000) (1 * 1 * 1) = s.natAbs * 1000000 := by
    simp [rne, Nat.mod_one]
  unfold intText
  split
  · have := C11.duration_denotes .minus [⟨natText s.natAbs, none, .s⟩] (by simp) hitem
    simp only [C11.Sgn.text, renderItems, renderItem, fracText, unitText, List.append_nil, List.nil_append,
      List.cons_append] at this
    rw [show (45 :: natText s.natAbs ++ [115]) = 45 :: (natText s.natAbs ++ [115]) from rfl, this, hval, hrne]
    simp only [C11.Sgn.val]
    rw [if_pos (by omega)]
    congr 1; omega
  · have := C11.duration_denotes .none [⟨natText s.natAbs, none, .s⟩] (by simp) hitem
    simp only [C11.Sgn.text, renderItems, renderItem, fracText, unitText, List.append_nil, List.nil_append] at this
    rw [this, hval, hrne]
    simp only [C11.Sgn.val]
    rw [if_pos (by omega)]
    congr 1; omega

/-- and `string(d)` of a whole-second duration is its decimal number of seconds followed by `s` -/
theorem string_of_dur (s : Int) (h : s.natAbs < 2 ^ 53) : stringOfDur (s * 1000000) = intText s ++ [115] := by
  unfold stringOfDur durStr; rw [totalSeconds_whole s h]

/-- `duration(int)` range check: exact -/
theorem dur_of_int (n : Int) :
    durOfInt n = if -315576000000 ≤ n ∧ n ≤ 315576000000 then .ok (n * 1000000) else .error .valueError := by
  unfold durOfInt minSeconds maxSeconds; rfl

/-! #### round 2: compositions between the numeric types, the uint side of `double`, sign of duration text -/

/-- `int(double(i)) == i` for every integer a double holds exactly (|i| < 2^53): `float(int)` is
correctly rounded, hence exact there, and `int(double)` truncates an integer to itself -/
theorem int_double_roundtrip (i : Int) (h : i.natAbs < 2 ^ 53) : intOfDouble (.fin (doubleOfInt i)) = .ok i := by
  have e : (doubleOfInt i).trunc = i := by
    have := rnd_exact i 1 (by decide) h
    simpa [doubleOfInt] using this
  unfold intOfDouble pyTrunc
  simp only [bind, Except.bind, e]
  unfold int64
  rw [if_pos]
  have : (2:Int)^53 ≤ (2:Int)^63 := by decide
  omega
/-- `uint(double(u)) == u` for every non-negative integer below 2^53 -/
theorem uint_double_roundtrip (u : Int) (h0 : 0 ≤ u) (h : u.natAbs < 2 ^ 53) : uintOfDouble (.fin (doubleOfInt u)) = .ok u := by
  have e : (doubleOfInt u).trunc = u := by
    have := rnd_exact u 1 (by decide) h
    simpa [doubleOfInt] using this
  unfold uintOfDouble pyTrunc
  simp only [bind, Except.bind, e]
  unfold uint64
  rw [if_pos]
  omega

/-- `int(uint(i))`, for EVERY int64: `i` itself when non-negative, an error (raised by `uint`) otherwise -/
theorem int_uint_roundtrip (i : Int) (h : i64 i) :
    (uintOfInt i >>= intOfUint) = if 0 ≤ i then .ok i else .error .valueError := by
  unfold i64 at h
  unfold uintOfInt intOfUint uint64 int64
  by_cases h0 : 0 ≤ i
  · rw [if_pos (by omega), if_pos h0]; simp only [bind, Except.bind]; rw [if_pos (by omega)]
  · rw [if_neg (by omega), if_neg h0]; rfl
/-- `uint(int(u))`, for EVERY uint64: `u` itself when it fits int64, an error (raised by `int`) above -/
theorem uint_int_roundtrip (u : Int) (h : u64 u) :
    (intOfUint u >>= uintOfInt) = if u < (2:Int)^63 then .ok u else .error .valueError := by
  unfold u64 at h
  unfold uintOfInt intOfUint uint64 int64
  by_cases h0 : u < (2:Int)^63
  · rw [if_pos (by omega), if_pos h0]; simp only [bind, Except.bind]; rw [if_pos (by omega)]
  · rw [if_neg (by omega), if_neg h0]; rfl

/-- `uint(double)`: NaN and the infinities are errors; a value is always the exact truncation of a
finite double and lies in the uint64 range — negative doubles ≤ −1 and doubles ≥ 2^64 never wrap -/
theorem uint_of_nonfinite : uintOfDouble .nan = .error .valueError ∧ ∀ s, uintOfDouble (.inf s) = .error .overflow :=
  ⟨rfl, fun _ => rfl⟩
theorem uint_of_double_out_of_range (v : Dy) (h : ¬ u64 v.trunc) : uintOfDouble (.fin v) = .error .valueError := by
  rw [uint_of_double_trunc, if_neg h]
theorem uint_of_double_ok (d : Dbl) (r : Int) (h : uintOfDouble d = .ok r) : ∃ v, d = .fin v ∧ r = v.trunc ∧ u64 r := by
  cases d with
  | nan => cases h
  | inf s => cases h
  | fin v =>
    refine ⟨v, rfl, ?_⟩
    rw [uint_of_double_trunc] at h
    split at h
    · rename_i hr; injection h with h; subst h; exact ⟨rfl, hr⟩
    · cases h

/-- `bool(string(b)) == b` (`string(true)` is Python's `"True"`, which `bool()` accepts) -/
theorem bool_string_roundtrip (b : Bool) : boolOfText (stringOfBool b) = .ok b := by
  cases b <;> rfl

/-- the sign of a duration text only negates the value: for ANY text `(digits [. digits] unit)+`,
`duration("-" + text)` is the negated `duration(text)` and fails exactly when that fails — what a
parse memo keyed by the sign-less text would break (seeded change C10-m6) -/
theorem dur_text_sign (items : List Item) (hne : items ≠ []) (h : ∀ it ∈ items, it.wf) :
    durOfText (45 :: renderItems items) = (durOfText (renderItems items)).map (fun v => -v) := by
  have hm := C11.duration_denotes .minus items hne h
  have hp := C11.duration_denotes .none items hne h
  simp only [C11.Sgn.text, List.nil_append, List.cons_append] at hm hp
  unfold durOfText
  rw [hm, hp]
  split <;> simp [C11.Sgn.val, Except.map]

example : int_double_roundtrip 9007199254740991 (by decide) = int_double_roundtrip 9007199254740991 (by decide) := rfl
example : intOfDouble (.fin (doubleOfInt (2^53 + 1))) = .ok (2^53) := by rfl     -- beyond 2^53 the round trip is lossy
example : (uintOfInt (-1) >>= intOfUint) = .error .valueError := by rfl
example : (intOfUint (2^63) >>= uintOfInt) = .error .valueError := by rfl
/-- the hypotheses of `dur_text_sign` are satisfiable: `90s`, `1h30m` -/
example : ∃ items : List Item, items ≠ [] ∧ (∀ it ∈ items, it.wf) ∧ renderItems items = [57, 48, 115] :=
  ⟨[⟨[57, 48], none, .s⟩], by simp, by
    intro it hm; simp at hm; subst hm
    exact ⟨by intro c hc; simp at hc; rcases hc with rfl | rfl <;> decide, by simp, Or.inl (by simp)⟩,
   by simp [renderItems, renderItem, fracText, unitText]⟩

/-- every exception class these conversions raise for bad input is one `function_eval` turns into an
evaluation error (and the compiled runner wraps everything) -/
theorem error_classes_are_evaluation_errors : Exc.valueError ∈ functionEvalHandlers ∧ Exc.typeError ∈ functionEvalHandlers := by
  simp [functionEvalHandlers]

example : i64 (-(2:Int)^63) ∧ i64 ((2:Int)^63 - 1) ∧ ¬ i64 ((2:Int)^63) := by decide
example : intOfDouble (Dbl.ofBits 4890909195324358656) = .error .valueError := by rfl  -- 2^63 as a double
example : ∃ t : Ts, C11.inRange t.loc ∧ t.loc % 1000000 = 0 ∧ t.off % 60000000 = 0 := ⟨⟨0, 0⟩, by decide, by decide, by decide⟩

end Cel.Props.C10
