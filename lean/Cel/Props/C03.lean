/-
  C03 — compiled and interpreted runners produce the same outcome (property theorems only).
-/
import Cel.Model.PrimD
namespace Cel.Props.C03
open Cel

theorem placeholder_vor_comm (x y : Val) (hx : x.isBool = true) (hy : y.isBool = true) : vor x y = vor y x := by
  cases x <;> cases y <;> simp_all [Val.isBool, vor, Val.truthy, Bool.or_comm]

end Cel.Props.C03
