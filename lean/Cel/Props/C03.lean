/-
  C03 — compiled and interpreted runners produce the same outcome.

  Property theorems only.  Subject: `Cel.evalI` (Cel.Model.EvalI: the interpreter, one clause per `Evaluator` rule
  with that rule's `except` handlers) and `Cel.evalC` (Cel.Model.EvalC: the denotation of the Python text the
  transpiler emits; exceptions are raised and become values only in `result()`), both over the same abstract
  primitive semantics `S : Sem` (`operator.*`, `celtypes`, `base_functions`).  The handler sets, `result()`'s classes,
  the places where the templates put `result()`, the macro helpers and `base_functions` are bridged to the text of
  evaluation.py in `Cel.Bridge.Eval`.

  Main statement (`evalC_eq_evalI`): for EVERY expression tree `e`, every error-free environment and every primitive
  semantics obeying `PrimLaws`, if the interpreter returns (does not let a Python exception escape — that is C04's
  subject) then both runners observe the same outcome: the same value, or an evaluation error in both — provided `e`
  lies outside three syntactically decidable zones in which the unchanged code does diverge (`Expr.safe`):
    * D7  an error *value* (`||`, `&&`, `?:`, `in`, `matches`, unbound function) flowing into a consumer of the
          transpiled program that does not inspect it (list/map element, argument of a non-strict function, body of
          map/filter/exists_one),
    * D6  `has()` (the transpiled `has` returns a Python `bool`),
    * D62 `all`/`exists` with a body that is not syntactically boolean (the transpiled helper coerces with BoolType).
  For each zone an `example` below exhibits a concrete divergence of the two models (replayed on the implementation
  by the corpus, `corpus/C03/witnesses.json`).
-/
import Cel.Lemmas.Eval
import Cel.Lemmas.PrimD
namespace Cel.Props.C03
open Cel

mutual
/-- **Core induction.** Whenever the interpreter returns (a value or an error value) on a `Safe` expression in an
error-free environment, the denotation of the transpiled program yields the same value, or — for an error value —
raises a class `result()` converts; and interpreter values never contain error objects. Structural induction over ALL
expressions (any depth, any list length), mutual with the list version. -/
theorem agree (S : Sem) (P : PrimLaws S) : (e : Expr) → (env : Env) → (v : Val) →
    e.safe S = true → env.clean = true → evalI S e env = .ok v → Agree v (evalC S e env) ∧ Top v
  | .lit w, env, v, hs, he, h => by
      simp [evalI] at h; subst h
      exact ⟨Or.inl rfl, Or.inr (by simpa [Expr.safe] using hs)⟩
  | .badlit, env, v, hs, he, h => by
      simp [evalI, catchH, HI.literal] at h; subst h
      exact ⟨agree_err_of rfl caught_valueError, Or.inl rfl⟩
  | .ident x, env, v, hs, he, h => by
      simp only [evalI] at h
      simp only [evalC]
      cases hl : env.lookup x with
      | some w =>
        rw [hl] at h
        simp only at h ⊢
        cases h
        exact ⟨Or.inl rfl, Or.inr (lookup_clean he hl)⟩
      | none =>
        rw [hl] at h
        simp only at h ⊢
        cases hf : S.isFun x with
        | true => simp [hf] at h ⊢; subst h; exact ⟨Or.inl rfl, Or.inr rfl⟩
        | false => simp [hf] at h ⊢; subst h; exact ⟨agree_err_of rfl caught_keyError, Or.inl rfl⟩
  | .un op a, env, v, hs, he, h => by
      simp only [Expr.safe] at hs
      simp only [evalI] at h
      obtain ⟨x, hx, h2⟩ := (bind_eq_ok _ _ _).1 h
      have ih := agree S P a env x hs he hx
      simp only [evalC]
      exact un_step P (by rfl) ih.1 ih.2 h2
  | .bin op a b, env, v, hs, he, h => by
      simp only [Expr.safe, Bool.and_eq_true] at hs
      simp only [evalI] at h
      obtain ⟨x, hx, h2⟩ := (bind_eq_ok _ _ _).1 h
      obtain ⟨y, hy, h3⟩ := (bind_eq_ok _ _ _).1 h2
      have iha := agree S P a env x hs.1 he hx
      have ihb := agree S P b env y hs.2 he hy
      simp only [evalC]
      exact bin_step P (by rfl) iha.1 ihb.1 iha.2 ihb.2 h3
  | .idx a b, env, v, hs, he, h => by
      simp only [Expr.safe, Bool.and_eq_true] at hs
      simp only [evalI] at h
      obtain ⟨x, hx, h2⟩ := (bind_eq_ok _ _ _).1 h
      obtain ⟨y, hy, h3⟩ := (bind_eq_ok _ _ _).1 h2
      have iha := agree S P a env x hs.1 he hx
      have ihb := agree S P b env y hs.2 he hy
      simp only [evalC]
      exact bin_step P (by rfl) iha.1 ihb.1 iha.2 ihb.2 h3
  | .sel a f, env, v, hs, he, h => by
      simp only [Expr.safe] at hs
      simp only [evalI] at h
      obtain ⟨x, hx, h2⟩ := (bind_eq_ok _ _ _).1 h
      cases h2
      have ih := agree S P a env x hs he hx
      simp only [evalC]
      rcases ih.1 with h3 | ⟨rfl, c, hc, hcc⟩
      · rw [h3]; exact select_agree f ih.2
      · rw [hc]; exact ⟨agree_err_of rfl hcc, Or.inl rfl⟩
  | .or a b, env, v, hs, he, h => by
      simp only [Expr.safe, Bool.and_eq_true] at hs
      simp only [evalI] at h
      obtain ⟨x, hx, h2⟩ := (bind_eq_ok _ _ _).1 h
      obtain ⟨y, hy, h3⟩ := (bind_eq_ok _ _ _).1 h2
      have iha := agree S P a env x hs.1 he hx
      have ihb := agree S P b env y hs.2 he hy
      simp only [evalC, resultC_of_agree iha.1, resultC_of_agree ihb.1]
      exact logical_step (f := vor) (fun _ _ _ => vor_error) (fun _ _ _ => vor_top) iha.2 ihb.2 h3
  | .and a b, env, v, hs, he, h => by
      simp only [Expr.safe, Bool.and_eq_true] at hs
      simp only [evalI] at h
      obtain ⟨x, hx, h2⟩ := (bind_eq_ok _ _ _).1 h
      obtain ⟨y, hy, h3⟩ := (bind_eq_ok _ _ _).1 h2
      have iha := agree S P a env x hs.1 he hx
      have ihb := agree S P b env y hs.2 he hy
      simp only [evalC, resultC_of_agree iha.1, resultC_of_agree ihb.1]
      exact logical_step (f := vand) (fun _ _ _ => vand_error) (fun _ _ _ => vand_top) iha.2 ihb.2 h3
  | .cond c x y, env, v, hs, he, h => by
      simp only [Expr.safe, Bool.and_eq_true] at hs
      simp only [evalI] at h
      obtain ⟨cv, hcv, h2⟩ := (bind_eq_ok _ _ _).1 h
      have ihc := agree S P c env cv hs.1.1 he hcv
      obtain ⟨l', hl'⟩ := resultC_total (evalC_caught S P x env)
      obtain ⟨r', hr'⟩ := resultC_total (evalC_caught S P y env)
      simp only [evalC, resultC_of_agree ihc.1]
      split at h2
      · rename_i htr
        obtain ⟨l, hl, h3⟩ := (bind_eq_ok _ _ _).1 h2
        have ihx := agree S P x env l hs.1.2 he hl
        rw [resultC_of_agree ihx.1, hr']
        simp only [bind, Except.bind]
        rcases catchH_ok_cases h3 with h4 | ⟨h4, d, h5⟩
        · unfold vcond at h4 ⊢
          split at h4
          · cases h4
          · rename_i hb
            simp only [htr, if_true] at h4 ⊢
            simp only [hb, if_false]
            cases h4
            exact ⟨Or.inl rfl, ihx.2⟩
        · subst h4
          unfold vcond at h5 ⊢
          split at h5
          · rename_i hb
            simp only [hb, if_true]
            exact ⟨agree_err_of rfl caught_typeError, Or.inl rfl⟩
          · cases h5
      · rename_i htr
        obtain ⟨r, hr, h3⟩ := (bind_eq_ok _ _ _).1 h2
        have ihy := agree S P y env r hs.2 he hr
        rw [hl', resultC_of_agree ihy.1]
        simp only [bind, Except.bind]
        rcases catchH_ok_cases h3 with h4 | ⟨h4, d, h5⟩
        · unfold vcond at h4 ⊢
          split at h4
          · cases h4
          · rename_i hb
            simp only [htr] at h4 ⊢
            simp only [hb, if_false]
            cases h4
            exact ⟨Or.inl rfl, ihy.2⟩
        · subst h4
          unfold vcond at h5 ⊢
          split at h5
          · rename_i hb
            simp only [hb, if_true]
            exact ⟨agree_err_of rfl caught_typeError, Or.inl rfl⟩
          · cases h5
  | .list xs, env, v, hs, he, h => by
      simp only [Expr.safe, Bool.and_eq_true] at hs
      simp only [evalI] at h
      obtain ⟨vs, hvs, h2⟩ := (bind_eq_ok _ _ _).1 h
      have ih := agreeL S P xs env vs hs.2 he hvs
      simp only [evalC]
      cases hf : firstErr vs with
      | true =>
        simp [hf] at h2; subst h2
        rcases ih.1 with h3 | ⟨_, c, hc, hcc⟩
        · have := firstErr_of_cleanL (evalCs_clean S P xs env vs hs.1 he h3)
          rw [hf] at this; cases this
        · rw [hc]; exact ⟨agree_err_of rfl hcc, Or.inl rfl⟩
      | false =>
        simp [hf] at h2; subst h2
        rcases ih.1 with h3 | ⟨h3, _⟩
        · rw [h3]
          exact ⟨Or.inl rfl, Or.inr (by simpa [Val.clean] using topL_clean ih.2 hf)⟩
        · rw [hf] at h3; cases h3
  | .map xs, env, v, hs, he, h => by
      simp only [Expr.safe, Bool.and_eq_true] at hs
      simp only [evalI] at h
      obtain ⟨vs, hvs, h2⟩ := (bind_eq_ok _ _ _).1 h
      have ih := agreeL S P xs env vs hs.2 he hvs
      simp only [evalC]
      cases hf : firstErr vs with
      | true =>
        simp [hf] at h2; subst h2
        rcases ih.1 with h3 | ⟨_, c, hc, hcc⟩
        · have := firstErr_of_cleanL (evalCs_clean S P xs env vs hs.1 he h3)
          rw [hf] at this; cases this
        · rw [hc]; exact ⟨agree_err_of rfl hcc, Or.inl rfl⟩
      | false =>
        simp [hf] at h2
        rcases ih.1 with h3 | ⟨h3, _⟩
        · rw [h3]
          exact prim_same P (Or.inr (topL_clean ih.2 hf)) ih.2 h2
        · rw [hf] at h3; cases h3
  | .call f xs, env, v, hs, he, h => by
      simp only [Expr.safe, Bool.and_eq_true, Bool.or_eq_true] at hs
      simp only [evalI] at h
      obtain ⟨vs, hvs, h2⟩ := (bind_eq_ok _ _ _).1 h
      have ih := agreeL S P xs env vs hs.2 he hvs
      simp only [evalC]
      cases hfun : S.isFun f with
      | false =>
        simp [hfun] at h2 ⊢; subst h2
        rcases ih.1 with h3 | ⟨_, c, hc, hcc⟩
        · rw [h3]; exact ⟨Or.inl rfl, Or.inl rfl⟩
        · rw [hc]; exact ⟨agree_err_of rfl hcc, Or.inl rfl⟩
      | true =>
        simp only [hfun, Bool.not_true, Bool.false_eq_true, if_false] at h2 ⊢
        cases hf : firstErr vs with
        | true =>
          simp [hf] at h2; subst h2
          rcases ih.1 with h3 | ⟨_, c, hc, hcc⟩
          · rw [h3]
            rcases hs.1 with hst | hn
            · simp only [bind, Except.bind]
              cases hp : S.prim (.fn f) vs with
              | ok w =>
                have := P.strict (.fn f) vs w (by simpa [strictOp] using hst) hf hp
                subst this; exact ⟨Or.inl rfl, Or.inl rfl⟩
              | error c => exact ⟨agree_err_of rfl (P.caught _ _ _ hp), Or.inl rfl⟩
            · have := firstErr_of_cleanL (evalCs_clean S P xs env vs hn he h3)
              rw [hf] at this; cases this
          · rw [hc]; exact ⟨agree_err_of rfl hcc, Or.inl rfl⟩
        | false =>
          simp [hf] at h2
          rcases ih.1 with h3 | ⟨h3, _⟩
          · rw [h3]
            exact prim_same P (Or.inr (topL_clean ih.2 hf)) ih.2 h2
          · rw [hf] at h3; cases h3
  | .mcall a f xs, env, v, hs, he, h => by
      simp only [Expr.safe, Bool.and_eq_true, Bool.or_eq_true] at hs
      simp only [evalI] at h
      obtain ⟨o, ho, h2⟩ := (bind_eq_ok _ _ _).1 h
      obtain ⟨vs, hvs, h3⟩ := (bind_eq_ok _ _ _).1 h2
      have iha := agree S P a env o hs.1.2 he ho
      have ihs := agreeL S P xs env vs hs.2 he hvs
      -- the transpiled call evaluates receiver and arguments like a list `a :: xs`
      have hAL : AgreeL (o :: vs) (evalCs S (a :: xs) env) := by
        simp only [evalCs]; exact agreeL_cons iha.1 ihs.1
      have hTL : TopL (o :: vs) := ⟨iha.2, ihs.2⟩
      have hC : evalC S (.mcall a f xs) env =
          (evalCs S (a :: xs) env >>= fun ws => if !S.isFun f then .ok .err else S.prim (.fn f) ws) := by
        simp only [evalC, evalCs]
        cases evalC S a env with
        | error c => rfl
        | ok o' =>
          cases evalCs S xs env with
          | error c => rfl
          | ok vs' => rfl
      rw [hC]
      have hfe : firstErr (o :: vs) = (o.isErr || firstErr vs) := rfl
      cases hfun : S.isFun f with
      | false =>
        simp [hfun] at h3 ⊢; subst h3
        rcases hAL with h4 | ⟨_, c, hc, hcc⟩
        · rw [h4]; exact ⟨Or.inl rfl, Or.inl rfl⟩
        · rw [hc]; exact ⟨agree_err_of rfl hcc, Or.inl rfl⟩
      | true =>
        simp only [hfun, Bool.not_true, Bool.false_eq_true, if_false] at h3 ⊢
        cases hf : firstErr (o :: vs) with
        | true =>
          have hv : v = .err := by
            rw [hfe] at hf
            cases hoe : o.isErr with
            | true => simp [hoe] at h3; exact h3.symm
            | false =>
              simp [hoe] at hf
              simp [hoe, hf] at h3; exact h3.symm
          subst hv
          rcases hAL with h4 | ⟨_, c, hc, hcc⟩
          · rw [h4]
            rcases hs.1.1 with hst | hn
            · simp only [bind, Except.bind]
              cases hp : S.prim (.fn f) (o :: vs) with
              | ok w =>
                have := P.strict (.fn f) (o :: vs) w (by simpa [strictOp] using hst) hf hp
                subst this; exact ⟨Or.inl rfl, Or.inl rfl⟩
              | error c => exact ⟨agree_err_of rfl (P.caught _ _ _ hp), Or.inl rfl⟩
            · have hn' : Expr.noErrValL S (a :: xs) = true := by
                simp only [Expr.noErrValL, Bool.and_eq_true]; simpa using hn
              have := firstErr_of_cleanL (evalCs_clean S P (a :: xs) env (o :: vs) hn' he h4)
              rw [hf] at this; cases this
          · rw [hc]; exact ⟨agree_err_of rfl hcc, Or.inl rfl⟩
        | false =>
          rw [hfe] at hf
          simp only [Bool.or_eq_false_iff] at hf
          simp [hf.1, hf.2] at h3
          have hf' : firstErr (o :: vs) = false := by rw [hfe]; simp [hf.1, hf.2]
          rcases hAL with h4 | ⟨h4, _⟩
          · rw [h4]
            exact prim_same P (Or.inr (topL_clean hTL hf')) hTL h3
          · rw [hf'] at h4; cases h4
  | .macro k a x body, env, v, hs, he, h => by
      simp only [Expr.safe, Bool.and_eq_true] at hs
      simp only [evalI] at h
      obtain ⟨recv, hrecv, h2⟩ := (bind_eq_ok _ _ _).1 h
      have iha := agree S P a env recv hs.1.1 he hrecv
      simp only [evalC]
      cases hre : recv.isErr with
      | true =>
        simp [hre] at h2; subst h2
        have := isErr_eq hre; subst this
        rcases iha.1 with h3 | ⟨_, c, hc, hcc⟩
        · rw [h3]
          simp only [bind, Except.bind]
          cases hi : S.iter .err with
          | ok elems => exact absurd hi (P.iterErr elems)
          | error c =>
            rw [P.iterError _ _ hi]
            exact ⟨agree_err_of rfl caught_typeError, Or.inl rfl⟩
        · rw [hc]; exact ⟨agree_err_of rfl hcc, Or.inl rfl⟩
      | false =>
        simp only [hre, Bool.false_eq_true, if_false] at h2
        have hrc : recv.clean = true := top_clean iha.2 hre
        have hCa : evalC S a env = .ok recv := by
          rcases iha.1 with h3 | ⟨h3, _⟩
          · exact h3
          · subst h3; simp [Val.isErr] at hre
        rw [hCa]
        simp only [ok_bind]
        cases hi : S.iter recv with
        | error c =>
          rw [hi] at h2
          have := P.iterError _ _ hi; subst this
          simp at h2; subst h2
          simp only [error_bind]
          exact ⟨agree_err_of rfl caught_typeError, Or.inl rfl⟩
        | ok elems =>
          rw [hi] at h2
          simp only at h2
          simp only [ok_bind]
          have hec := P.iterClean _ _ hrc hi
          have H : ∀ u, u.clean = true → ∀ w, evalI S body (env.bind x u) = .ok w →
              Agree w (evalC S body (env.bind x u)) ∧ Top w :=
            fun u hu w hw => agree S P body (env.bind x u) w hs.1.2 (bind_clean he hu) hw
          have HE : ∀ u c, evalI S body (env.bind x u) = .error c → Caught c :=
            fun u c => evalI_caught S P body (env.bind x u) c
          cases k with
          | map =>
            have hbn : body.noErrVal S = true := by simpa using hs.2
            have HN : ∀ u w, u.clean = true → evalC S body (env.bind x u) = .ok w → w.clean = true :=
              fun u w hu hw => evalC_clean S P body (env.bind x u) w hbn (bind_clean he hu) hw
            have pb := plain_bodies (fI := fun u => evalI S body (env.bind x u)) (fC := fun u => evalC S body (env.bind x u)) H HN HE hec
            have := plain_macro_step (k := fun rs => Val.list rs) pb.1 pb.2 h2
            refine ⟨this.1, ?_⟩
            rcases this.2 with h3 | ⟨rs, hrs, h3⟩
            · exact Or.inl h3
            · subst h3; exact Or.inr (by simpa [Val.clean] using hrs)
          | filter =>
            have hbn : body.noErrVal S = true := by simpa using hs.2
            have HN : ∀ u w, u.clean = true → evalC S body (env.bind x u) = .ok w → w.clean = true :=
              fun u w hu hw => evalC_clean S P body (env.bind x u) w hbn (bind_clean he hu) hw
            have pb := plain_bodies (fI := fun u => evalI S body (env.bind x u)) (fC := fun u => evalC S body (env.bind x u)) H HN HE hec
            simp only [filterMV_eq] at h2 ⊢
            have h2' : catchH HI.macroBody
                (mapMV (fun u => raiseIfErr (evalI S body (env.bind x u))) elems >>= fun rs => .ok (Val.list (selBy rs elems))) = .ok v := by
              rw [← h2]; congr 1
              cases mapMV (fun u => raiseIfErr (evalI S body (env.bind x u))) elems <;> rfl
            have := plain_macro_step (k := fun rs => Val.list (selBy rs elems)) pb.1 pb.2 h2'
            have hC : (mapMV (fun u => evalC S body (env.bind x u)) elems >>= fun rs => (.ok (Val.list (selBy rs elems)) : PyM Val)) =
                ((mapMV (fun u => evalC S body (env.bind x u)) elems >>= fun rs => (.ok (selBy rs elems) : PyM (List Val))) >>= fun rs => .ok (Val.list rs)) := by
              cases mapMV (fun u => evalC S body (env.bind x u)) elems <;> rfl
            rw [← hC]
            refine ⟨this.1, ?_⟩
            rcases this.2 with h3 | ⟨rs, _, h3⟩
            · exact Or.inl h3
            · subst h3; exact Or.inr (by simpa [Val.clean] using selBy_clean (rs := rs) hec)
          | existsOne =>
            have hbn : body.noErrVal S = true := by simpa using hs.2
            have HN : ∀ u w, u.clean = true → evalC S body (env.bind x u) = .ok w → w.clean = true :=
              fun u w hu hw => evalC_clean S P body (env.bind x u) w hbn (bind_clean he hu) hw
            have pb := plain_bodies (fI := fun u => evalI S body (env.bind x u)) (fC := fun u => evalC S body (env.bind x u)) H HN HE hec
            simp only [countMV_eq] at h2 ⊢
            have h2' : catchH HI.macroBody
                (mapMV (fun u => raiseIfErr (evalI S body (env.bind x u))) elems >>= fun rs => .ok (Val.bool (countBy rs == 1))) = .ok v := by
              rw [← h2]; congr 1
              cases mapMV (fun u => raiseIfErr (evalI S body (env.bind x u))) elems <;> rfl
            have := plain_macro_step (k := fun rs => Val.bool (countBy rs == 1)) pb.1 pb.2 h2'
            have hC : (mapMV (fun u => evalC S body (env.bind x u)) elems >>= fun rs => (.ok (Val.bool (countBy rs == 1)) : PyM Val)) =
                ((mapMV (fun u => evalC S body (env.bind x u)) elems >>= fun rs => (.ok (countBy rs) : PyM Nat)) >>= fun n => .ok (Val.bool (n == 1))) := by
              cases mapMV (fun u => evalC S body (env.bind x u)) elems <;> rfl
            rw [← hC]
            refine ⟨this.1, ?_⟩
            rcases this.2 with h3 | ⟨rs, _, h3⟩
            · exact Or.inl h3
            · subst h3; exact Or.inr rfl
          | all =>
            have hbb : body.boolish = true := by simpa using hs.2
            obtain ⟨rs, hrs, h3⟩ := (bind_eq_ok _ _ _).1 h2
            have hC := ss_bodies (fI := fun u => evalI S body (env.bind x u)) (fC := fun u => evalC S body (env.bind x u)) H HE hec rs hrs
            have hB : ∀ r ∈ rs, ValB r := mapMV_forall (Q := ValB) (fun u r hr => by
              rcases ssBody_ok hr with h5 | ⟨h5, _⟩
              · exact boolish_val S P body (env.bind x u) r hbb h5
              · subst h5; exact valB_err) hrs
            have hR := foldAnd_valB (valB_bool true) hB h3
            simp only [hC, ok_bind, h3]
            exact fold_step P hR
          | exists_ =>
            have hbb : body.boolish = true := by simpa using hs.2
            obtain ⟨rs, hrs, h3⟩ := (bind_eq_ok _ _ _).1 h2
            have hC := ss_bodies (fI := fun u => evalI S body (env.bind x u)) (fC := fun u => evalC S body (env.bind x u)) H HE hec rs hrs
            have hB : ∀ r ∈ rs, ValB r := mapMV_forall (Q := ValB) (fun u r hr => by
              rcases ssBody_ok hr with h5 | ⟨h5, _⟩
              · exact boolish_val S P body (env.bind x u) r hbb h5
              · subst h5; exact valB_err) hrs
            have hR := foldOr_valB (valB_bool false) hB h3
            simp only [hC, ok_bind, h3]
            exact fold_step P hR
  | .has a, env, v, hs, he, h => by simp [Expr.safe] at hs
  | .dyn a, env, v, hs, he, h => by
      simp only [Expr.safe] at hs
      simp only [evalI] at h
      simp only [evalC]
      exact agree S P a env v hs he h
theorem agreeL (S : Sem) (P : PrimLaws S) : (xs : List Expr) → (env : Env) → (vs : List Val) →
    Expr.safeL S xs = true → env.clean = true → evalIs S xs env = .ok vs → AgreeL vs (evalCs S xs env) ∧ TopL vs
  | [], env, vs, hs, he, h => by
      simp [evalIs] at h; subst h
      exact ⟨Or.inl rfl, trivial⟩
  | x :: xs, env, vs, hs, he, h => by
      simp only [Expr.safeL, Bool.and_eq_true] at hs
      simp only [evalIs] at h
      obtain ⟨v, hv, h2⟩ := (bind_eq_ok _ _ _).1 h
      obtain ⟨vs', hvs, h3⟩ := (bind_eq_ok _ _ _).1 h2
      cases h3
      have ih1 := agree S P x env v hs.1 he hv
      have ih2 := agreeL S P xs env vs' hs.2 he hvs
      simp only [evalCs]
      exact ⟨agreeL_cons ih1.1 ih2.1, ih1.2, ih2.2⟩
end


/-- observable outcome of a returned interpreter value vs. an agreeing compiled denotation -/
theorem obs_of_agree {S : Sem} {e : Expr} {env : Env} {v : Val} (hI : evalI S e env = .ok v)
    (hA : Agree v (evalC S e env)) : obs (runC S e env) = obs (runI S e env) := by
  have hr := resultC_of_agree hA
  unfold runC runI
  rw [hr, hI]
  cases v <;> rfl

/-- **C03, main theorem.** For every expression, every error-free activation and every primitive semantics obeying
`PrimLaws`: if the interpreter returns, the compiled runner observes the same outcome (equal value, or an
evaluation error in both) — under the decidable side condition `Expr.safe`. -/
theorem evalC_eq_evalI (S : Sem) (P : PrimLaws S) (e : Expr) (env : Env) (hs : e.safe S = true)
    (he : env.clean = true) (v : Val) (hI : evalI S e env = .ok v) :
    obs (runC S e env) = obs (runI S e env) :=
  obs_of_agree hI (agree S P e env v hs he hI).1

/-- The compiled runner turns every outcome into a value or a `CELEvalError` (`Transpiler.evaluate`'s blanket
handler) … -/
theorem runC_only_celEval (S : Sem) (e : Expr) (env : Env) (c : Exc) (h : runC S e env = .error c) : c = .celEval := by
  unfold runC at h
  split at h <;> cases h <;> rfl

/-- … and, given the primitive laws, it never even reaches that blanket handler: the transpiled program raises only
classes `result()` converts, for ALL expressions (no side condition). This is why an unselected `?:` branch or an
absorbed `||` operand cannot make the compiled runner fail (D8 was a violation of `PrimLaws.caught`). -/
theorem compiled_raises_only_caught (S : Sem) (P : PrimLaws S) (e : Expr) (env : Env) (c : Exc)
    (h : evalC S e env = .error c) : Caught c :=
  evalC_caught S P e env c h

/-- Program result of the compiled runner is total: a value or an error value, never an escaping exception. -/
theorem compiled_result_total (S : Sem) (P : PrimLaws S) (e : Expr) (env : Env) : ∃ w, resultC (evalC S e env) = .ok w :=
  resultC_total (evalC_caught S P e env)

/-- If the interpreter lets an exception escape (C04's defect zone), its class is one `result()` converts, never a
`CELEvalError` raised by a macro sub-evaluator (those are caught at the macro since the D5 fix). -/
theorem interp_escapes_only_caught (S : Sem) (P : PrimLaws S) (e : Expr) (env : Env) (c : Exc)
    (h : evalI S e env = .error c) : Caught c :=
  evalI_caught S P e env c h

/-- **Absorption corollary.** An error the interpreter lets `||` absorb is absorbed by the compiled runner too. -/
theorem or_absorbs (S : Sem) (P : PrimLaws S) (a b : Expr) (env : Env) (hs : (Expr.or a b).safe S = true)
    (he : env.clean = true) (h : evalI S (.or a b) env = .ok (.bool true)) :
    obs (runC S (.or a b) env) = .value (.bool true) := by
  rw [evalC_eq_evalI S P _ env hs he _ h]
  unfold runI; rw [h]; rfl
theorem and_absorbs (S : Sem) (P : PrimLaws S) (a b : Expr) (env : Env) (hs : (Expr.and a b).safe S = true)
    (he : env.clean = true) (h : evalI S (.and a b) env = .ok (.bool false)) :
    obs (runC S (.and a b) env) = .value (.bool false) := by
  rw [evalC_eq_evalI S P _ env hs he _ h]
  unfold runI; rw [h]; rfl
/-- `?:` is lazy in the interpreter and strict-under-`result()` in the transpiled code; they agree whatever the
unselected branch does. -/
theorem cond_absorbs (S : Sem) (P : PrimLaws S) (c x y : Expr) (env : Env) (hs : (Expr.cond c x y).safe S = true)
    (he : env.clean = true) (v : Val) (h : evalI S (.cond c x y) env = .ok v) :
    obs (runC S (.cond c x y) env) = obs (runI S (.cond c x y) env) :=
  evalC_eq_evalI S P _ env hs he v h

/-- a syntactically boolean expression is boolean-valued (used for the bodies of `all`/`exists`) -/
theorem boolish_is_boolean (S : Sem) (P : PrimLaws S) (e : Expr) (env : Env) (w : Val) (hb : e.boolish = true)
    (h : evalI S e env = .ok w) : w = .err ∨ w.isBool = true :=
  boolish_val S P e env w hb h

/-! ### the excluded zones do diverge (concrete witnesses on the driver's primitive semantics) -/

/-- `1/0 > 0 || false` — an expression whose compiled value is an error *object* -/
def errOr : Expr := .or (.bin .gt (.bin .div (.lit (.int 1)) (.lit (.int 0))) (.lit (.int 0))) (.lit (.bool false))

/-- D7: `[1/0 > 0 || false]` — interpreter: error; compiled: a list holding the error object. Not `safe`. -/
example : (Expr.list [errOr]).safe PrimD.sem = false := by decide
example : obs (runI PrimD.sem (.list [errOr]) []) = .error := by rfl
example : obs (runC PrimD.sem (.list [errOr]) []) = .value (.list [.err]) := by rfl
/-- D7: `[1].map(x, 1/0 > 0 || false)`, `[1].filter(x, …)` keeps the element, `[1].exists_one(x, …)` counts it -/
example : (Expr.macro .map (.list [.lit (.int 1)]) "x" errOr).safe PrimD.sem = false := by decide
example : obs (runI PrimD.sem (.macro .map (.list [.lit (.int 1)]) "x" errOr) []) = .error := by rfl
example : obs (runC PrimD.sem (.macro .map (.list [.lit (.int 1)]) "x" errOr) []) = .value (.list [.err]) := by rfl
example : obs (runC PrimD.sem (.macro .filter (.list [.lit (.int 1)]) "x" errOr) []) = .value (.list [.int 1]) := by rfl
example : obs (runI PrimD.sem (.macro .filter (.list [.lit (.int 1)]) "x" errOr) []) = .error := by rfl
example : obs (runC PrimD.sem (.macro .existsOne (.list [.lit (.int 1)]) "x" errOr) []) = .value (.bool true) := by rfl
example : obs (runI PrimD.sem (.macro .existsOne (.list [.lit (.int 1)]) "x" errOr) []) = .error := by rfl
/-- D6: `has([].a)` — BoolType in the interpreter, a Python bool in the transpiled program -/
example : (Expr.has (.sel (.list []) "a")).safe PrimD.sem = false := by decide
example : obs (runI PrimD.sem (.has (.sel (.list []) "a")) []) = .value (.bool false) := by rfl
example : obs (runC PrimD.sem (.has (.sel (.list []) "a")) []) = .value (.pybool false) := by rfl
/-- D62: `[1].all(x, 5)` — the raw fold in the interpreter, `BoolType(5)` in the transpiled helper -/
example : (Expr.macro .all (.list [.lit (.int 1)]) "x" (.lit (.int 5))).safe PrimD.sem = false := by decide
example : obs (runI PrimD.sem (.macro .all (.list [.lit (.int 1)]) "x" (.lit (.int 5))) []) = .value (.int 5) := by rfl
example : obs (runC PrimD.sem (.macro .all (.list [.lit (.int 1)]) "x" (.lit (.int 5))) []) = .value (.bool true) := by rfl

/-! ### non-vacuity: the hypotheses are satisfiable, the side conditions hold for ordinary expressions -/

/-- `PrimLaws` holds for the driver's concrete primitives (int64 arithmetic with overflow errors, comparisons with
their TypeError quirks, `in`, indexing, concatenation, size), totalised by reading "not modelled" as TypeError. -/
theorem primLaws_satisfiable : PrimLaws PrimD.semT := PrimD.primLaws_semT

/-- the main theorem instantiated: on the concrete semantics both runners agree on every `safe` expression the
interpreter returns on -/
theorem evalC_eq_evalI_concrete (e : Expr) (env : Env) (hs : e.safe PrimD.semT = true) (he : env.clean = true)
    (v : Val) (hI : evalI PrimD.semT e env = .ok v) :
    obs (runC PrimD.semT e env) = obs (runI PrimD.semT e env) :=
  evalC_eq_evalI PrimD.semT PrimD.primLaws_semT e env hs he v hI


/-- `true || [1, 2].map(x, x / 0)[0] > 0` (the D5 witness) is `safe`, and both runners give `true` -/
def d5 : Expr := .or (.lit (.bool true))
  (.bin .gt (.idx (.macro .map (.list [.lit (.int 1), .lit (.int 2)]) "x" (.bin .div (.ident "x") (.lit (.int 0)))) (.lit (.int 0))) (.lit (.int 0)))
example : d5.safe PrimD.sem = true := by decide
example : obs (runI PrimD.sem d5 []) = .value (.bool true) := by rfl
example : obs (runC PrimD.sem d5 []) = .value (.bool true) := by rfl
/-- `[1, 2, 0].all(x, 6 / x > 1 || x == 0) ? size([1]) : 1 / 0` -/
def ex2 : Expr := .cond
  (.macro .all (.list [.lit (.int 1), .lit (.int 2), .lit (.int 0)]) "x"
    (.or (.bin .gt (.bin .div (.lit (.int 6)) (.ident "x")) (.lit (.int 1))) (.bin .eq (.ident "x") (.lit (.int 0)))))
  (.call "size" [.cond (.lit (.bool true)) (.list [.lit (.int 1)]) (.list [])])
  (.bin .div (.lit (.int 1)) (.lit (.int 0)))
example : ex2.safe PrimD.sem = true := by decide
example : obs (runI PrimD.sem ex2 []) = .value (.int 1) := by rfl
example : obs (runC PrimD.sem ex2 []) = .value (.int 1) := by rfl

example : d5.safe PrimD.semT = true := by decide
example : obs (runC PrimD.semT d5 []) = obs (runI PrimD.semT d5 []) :=
  evalC_eq_evalI_concrete d5 [] (by decide) rfl (.bool true) (by rfl)

/-! ## Traversal (round 2): the macro helpers have no early exit

`macro_map`, `macro_filter`, `macro_exists_one` (and the interpreter's `map`/`filter`/`exists_one` branches) run the
body on EVERY element, in order.  An element whose body fails makes the whole macro fail — wherever it stands, and
however many elements before it already "settled" the answer (two matches of `exists_one`, …).  Seeded change C03-m5
(stop after the second match) broke exactly this; the statements are over all sources, prefixes and suffixes. -/

/-- the fold of `macro_map` stops at — and reports — the first failing element, whatever precedes and follows it -/
theorem mapMV_first_error (f : Val → PyM Val) (v : Val) (post : List Val) (c : Exc) (hv : f v = .error c) :
    ∀ pre : List Val, (∀ u ∈ pre, ∃ w, f u = .ok w) → mapMV f (pre ++ v :: post) = .error c
  | [], _ => by simp only [List.nil_append, mapMV, hv]; rfl
  | u :: pre, h => by
      obtain ⟨w, hw⟩ := h u (List.mem_cons_self ..)
      have ih := mapMV_first_error f v post c hv pre (fun u' hu' => h u' (List.mem_cons_of_mem _ hu'))
      simp only [List.cons_append, mapMV, hw, ih]; rfl

/-- the same for the fold of `macro_filter` -/
theorem filterMV_first_error (f : Val → PyM Val) (v : Val) (post : List Val) (c : Exc) (hv : f v = .error c) :
    ∀ pre : List Val, (∀ u ∈ pre, ∃ w, f u = .ok w) → filterMV f (pre ++ v :: post) = .error c
  | [], _ => by simp only [List.nil_append, filterMV, hv]; rfl
  | u :: pre, h => by
      obtain ⟨w, hw⟩ := h u (List.mem_cons_self ..)
      have ih := filterMV_first_error f v post c hv pre (fun u' hu' => h u' (List.mem_cons_of_mem _ hu'))
      simp only [List.cons_append, filterMV, hw, ih]; rfl

/-- the same for the count of `macro_exists_one`: NO number of earlier matches makes the count stop -/
theorem countMV_first_error (f : Val → PyM Val) (v : Val) (post : List Val) (c : Exc) (hv : f v = .error c) :
    ∀ pre : List Val, (∀ u ∈ pre, ∃ w, f u = .ok w) → countMV f (pre ++ v :: post) = .error c
  | [], _ => by simp only [List.nil_append, countMV, hv]; rfl
  | u :: pre, h => by
      obtain ⟨w, hw⟩ := h u (List.mem_cons_self ..)
      have ih := countMV_first_error f v post c hv pre (fun u' hu' => h u' (List.mem_cons_of_mem _ hu'))
      simp only [List.cons_append, countMV, hw, ih]; rfl

/-- **Compiled runner, `exists_one`.** If the body raises on an element of the source and evaluates on all elements
before it, the transpiled `macro_exists_one` call raises that exception — for every source, whatever the outcomes
(matches or not) on the earlier elements and whatever follows. -/
theorem existsOne_fails_on_late_error_C (S : Sem) (a : Expr) (x : String) (body : Expr) (env : Env) (recv : Val)
    (pre post : List Val) (v : Val) (c : Exc)
    (hr : evalC S a env = .ok recv) (hi : S.iter recv = .ok (pre ++ v :: post))
    (hpre : ∀ u ∈ pre, ∃ w, evalC S body (env.bind x u) = .ok w)
    (hv : evalC S body (env.bind x v) = .error c) :
    evalC S (.macro .existsOne a x body) env = .error c := by
  have := countMV_first_error (fun v => evalC S body (env.bind x v)) v post c hv pre hpre
  simp only [evalC, hr, bind, Except.bind, hi, this]

/-- … and `map`, `filter` likewise -/
theorem map_fails_on_late_error_C (S : Sem) (a : Expr) (x : String) (body : Expr) (env : Env) (recv : Val)
    (pre post : List Val) (v : Val) (c : Exc)
    (hr : evalC S a env = .ok recv) (hi : S.iter recv = .ok (pre ++ v :: post))
    (hpre : ∀ u ∈ pre, ∃ w, evalC S body (env.bind x u) = .ok w)
    (hv : evalC S body (env.bind x v) = .error c) :
    evalC S (.macro .map a x body) env = .error c := by
  have := mapMV_first_error (fun v => evalC S body (env.bind x v)) v post c hv pre hpre
  simp only [evalC, hr, bind, Except.bind, hi, this]

theorem filter_fails_on_late_error_C (S : Sem) (a : Expr) (x : String) (body : Expr) (env : Env) (recv : Val)
    (pre post : List Val) (v : Val) (c : Exc)
    (hr : evalC S a env = .ok recv) (hi : S.iter recv = .ok (pre ++ v :: post))
    (hpre : ∀ u ∈ pre, ∃ w, evalC S body (env.bind x u) = .ok w)
    (hv : evalC S body (env.bind x v) = .error c) :
    evalC S (.macro .filter a x body) env = .error c := by
  have := filterMV_first_error (fun v => evalC S body (env.bind x v)) v post c hv pre hpre
  simp only [evalC, hr, bind, Except.bind, hi, this]

/-- **Interpreter, `exists_one`/`map`/`filter`.** If the body yields an error value on an element and error-free
values on all elements before it, the macro's value is the error (the sub-evaluator raises it, the branch's
`except CELEvalError` returns it) — again wherever the element stands. -/
theorem macro_fails_on_late_error_I (S : Sem) (k : MacroK) (hk : k = .existsOne ∨ k = .map ∨ k = .filter)
    (a : Expr) (x : String) (body : Expr) (env : Env) (recv : Val)
    (pre post : List Val) (v : Val)
    (hr : evalI S a env = .ok recv) (hne : recv.isErr = false) (hi : S.iter recv = .ok (pre ++ v :: post))
    (hpre : ∀ u ∈ pre, ∃ w, evalI S body (env.bind x u) = .ok w ∧ w.isErr = false)
    (hv : evalI S body (env.bind x v) = .ok .err) :
    evalI S (.macro k a x body) env = .ok .err := by
  have hv' : (fun v => raiseIfErr (evalI S body (env.bind x v))) v = .error .celEval := by simp only [hv, raiseIfErr]
  have hpre' : ∀ u ∈ pre, ∃ w, (fun v => raiseIfErr (evalI S body (env.bind x v))) u = .ok w := by
    intro u hu
    obtain ⟨w, hw, hne⟩ := hpre u hu
    refine ⟨w, ?_⟩
    cases w <;> simp_all [raiseIfErr, Val.isErr]
  rcases hk with rfl | rfl | rfl
  · have := countMV_first_error _ v post .celEval hv' pre hpre'
    simp only [evalI, hr, bind, Except.bind, hne, hi, this]; rfl
  · have := mapMV_first_error _ v post .celEval hv' pre hpre'
    simp only [evalI, hr, bind, Except.bind, hne, hi, this]; rfl
  · have := filterMV_first_error _ v post .celEval hv' pre hpre'
    simp only [evalI, hr, bind, Except.bind, hne, hi, this]; rfl

/-- **Both runners, observable form.** `exists_one` over a source with a failing element (a class `result()`
converts in the compiled runner; an error value in the interpreter) is an evaluation error in BOTH runners, whatever
the other elements do: the compiled runner may not answer `false` "because two matches were already seen". -/
theorem existsOne_late_error_both (S : Sem) (a : Expr) (x : String) (body : Expr) (env : Env) (recv : Val)
    (pre post : List Val) (v : Val) (c : Exc)
    (hrC : evalC S a env = .ok recv) (hrI : evalI S a env = .ok recv) (hne : recv.isErr = false)
    (hi : S.iter recv = .ok (pre ++ v :: post))
    (hpreC : ∀ u ∈ pre, ∃ w, evalC S body (env.bind x u) = .ok w)
    (hpreI : ∀ u ∈ pre, ∃ w, evalI S body (env.bind x u) = .ok w ∧ w.isErr = false)
    (hvC : evalC S body (env.bind x v) = .error c) (hvI : evalI S body (env.bind x v) = .ok .err) :
    obs (runC S (.macro .existsOne a x body) env) = .error ∧ obs (runI S (.macro .existsOne a x body) env) = .error := by
  have hC := existsOne_fails_on_late_error_C S a x body env recv pre post v c hrC hi hpreC hvC
  have hI := macro_fails_on_late_error_I S .existsOne (Or.inl rfl) a x body env recv pre post v hrI hne hi hpreI hvI
  constructor
  · simp only [runC, hC, resultC]
    cases h : resultCaughtC.contains c <;> simp [obs]
  · simp only [runI, hI, raiseIfErr, obs]

/-- `[1, 1, 0].exists_one(x, 1 / x > 0)` — the witness of seeded change C03-m5: two matches, then a failing element -/
def lateErr : Expr := .macro .existsOne (.list [.lit (.int 1), .lit (.int 1), .lit (.int 0)]) "x"
  (.bin .gt (.bin .div (.lit (.int 1)) (.ident "x")) (.lit (.int 0)))
example : lateErr.safe PrimD.sem = true := by decide
example : obs (runI PrimD.sem lateErr []) = .error := by rfl
example : obs (runC PrimD.sem lateErr []) = .error := by rfl
/-- the hypotheses of `existsOne_late_error_both` are satisfiable: this very witness, `pre = [1, 1]`, `v = 0` -/
example : obs (runC PrimD.sem lateErr []) = .error ∧ obs (runI PrimD.sem lateErr []) = .error :=
  existsOne_late_error_both PrimD.sem _ "x" _ [] (.list [.int 1, .int 1, .int 0]) [.int 1, .int 1] [] (.int 0) .zeroDiv
    (by rfl) (by rfl) (by rfl) (by rfl)
    (by intro u hu; simp only [List.mem_cons, List.not_mem_nil, or_false, or_self] at hu; subst hu; exact ⟨.bool true, by rfl⟩)
    (by intro u hu; simp only [List.mem_cons, List.not_mem_nil, or_false, or_self] at hu; subst hu; exact ⟨.bool true, by rfl, by rfl⟩)
    (by rfl) (by rfl)

end Cel.Props.C03
