/-
  C04 — evaluation ends in a value or a CEL error, never another exception.

  Theorems over the interpreter skeleton `Cel.Total.evalI` (all expression trees, all activations, all
  primitive behaviours that satisfy the side condition), the runner wrappers and the parser wrapper.
  The side condition `Safe` ("whatever a primitive raises at a site is caught by the handlers around that
  site") is discharged in `Cel.Bridge.Total` from the tables regenerated from the source on every run:
  `Safe` ⇐ `PrimSpec` (the primitives raise only what the measured table lists — the trusted pool→all-values
  step) + `Covered` (`decide +kernel` over `Gen.Measured.table` and `Gen.Handlers.handlers`).
-/
import Cel.Lemmas.Total
namespace Cel.Props.C04
open Cel.Total

variable {V N : Type}

/-- `raises r key`: the exception classes the measured table lists for a site and an operand key. -/
abbrev Raises := Rule → List String → List Cls

/-- **rule_covered** (abstract form; the instance over the regenerated tables is
    `Cel.Bridge.Total.rule_covered`): every class the table lists for a site is caught — up to Python's
    subclass closure — by the `except` clauses around that site. -/
def Covered (H : Hier) (hs : Rule → List Cls) (raises : Raises) : Prop :=
  ∀ r key c, c ∈ raises r key → caught H (hs r) c = true

/-- "prim raises only what the table says": `key` projects a primitive application to the operand key the
    table is indexed by (label and operand kinds). This is the trusted pool→all-values step. -/
structure PrimSpec (raises : Raises) (key : Rule → String → List V → List String) (keyT : Rule → V → List String)
    (P : Prims V N) : Prop where
  prim : ∀ r env lbl args c, P.prim r env lbl args = .error c → c ∈ raises r (key r lbl args)
  truth : ∀ r v c, P.truth r v = .error c → c ∈ raises r (keyT r v)
  iter : ∀ r v c, P.iterable v = true → P.iter r v = .error c → c ∈ raises r (keyT r v)

/-- coverage of the table + the primitives obey the table ⇒ the side condition of the totality theorems -/
theorem safe_of_spec_covered {H : Hier} {hs : Rule → List Cls} {raises : Raises}
    {key : Rule → String → List V → List String} {keyT : Rule → V → List String} {P : Prims V N}
    (hc : Covered H hs raises) (hp : PrimSpec raises key keyT P) : Safe H hs P where
  prim := fun r env lbl args c h => hc r _ c (hp.prim r env lbl args c h)
  truth := fun r v c h => hc r _ c (hp.truth r v c h)
  iter := fun r v c hi h => hc r _ c (hp.iter r v c hi h)

section
variable (H : Hier) (hs : Rule → List Cls) (P : Prims V N) (A : Cls → Prop)

mutual
/-- Generic form of the totality theorems, by structural induction over ALL expression trees: whatever
    escapes `evalI` is a class allowed by `A`; `CELEvalError` itself must be allowed when the expression
    contains a `reduce` macro (its body errors are raised), and be caught by the `try` around map / filter /
    exists_one bodies otherwise. -/
theorem evalI_esc (S : Safe H hs P) (hmap : caught H (hs .macroIter) celEval = true ∨ A celEval) :
    (e : Expr) → (e.hasReduce = false ∨ A celEval) → ∀ env : N, Esc H A [] (evalI H hs P env e)
  | .lit k t, _, env => by unfold evalI; exact S.catchPrim H _ _ _ _
  | .ident n, _, env => by unfold evalI; exact S.catchPrim H _ _ _ _
  | .dotIdent n, _, env => by unfold evalI; exact S.catchPrim H _ _ _ _
  | .dotCall n args, hr, env => by
      unfold evalI
      have hr' : hasReduceL args = false ∨ A celEval := by simpa [Expr.hasReduce] using hr
      refine Esc.bind H (evalList_esc S hmap args hr' env) (fun vs => Esc.bind H ?_ (fun _ => S.catchPrim H _ _ _ _))
      by_cases he : args.isEmpty = true
      · simp [he]; exact Esc.pure H _
      · simp [he]; exact esc_exprlistOf H S env vs
  | .paren e, hr, env => by
      unfold evalI
      exact evalI_esc S hmap e (by simpa [Expr.hasReduce] using hr) env
  | .cond c a b, hr, env => by
      unfold evalI
      have hc : c.hasReduce = false ∨ A celEval := by
        rcases hr with h | h
        · simp [Expr.hasReduce] at h; exact Or.inl h.1.1
        · exact Or.inr h
      have ha : a.hasReduce = false ∨ A celEval := by
        rcases hr with h | h
        · simp [Expr.hasReduce] at h; exact Or.inl h.1.2
        · exact Or.inr h
      have hb : b.hasReduce = false ∨ A celEval := by
        rcases hr with h | h
        · simp [Expr.hasReduce] at h; exact Or.inl h.2
        · exact Or.inr h
      refine Esc.bind H (evalI_esc S hmap c hc env) (fun cv => Esc.catch H P ?_)
      refine Esc.bind H (S.escTruth H _ _) (fun t => ?_)
      cases t
      · simp
        exact Esc.bind H (Esc.weaken H (evalI_esc S hmap b hb env)) (fun r => S.escPrim H _ _ _ _)
      · simp
        exact Esc.bind H (Esc.weaken H (evalI_esc S hmap a ha env)) (fun l => S.escPrim H _ _ _ _)
  | .lor a b, hr, env => by
      unfold evalI
      have ha : a.hasReduce = false ∨ A celEval := by
        rcases hr with h | h
        · simp [Expr.hasReduce] at h; exact Or.inl h.1
        · exact Or.inr h
      have hb : b.hasReduce = false ∨ A celEval := by
        rcases hr with h | h
        · simp [Expr.hasReduce] at h; exact Or.inl h.2
        · exact Or.inr h
      exact Esc.bind H (evalI_esc S hmap a ha env) (fun l => Esc.bind H (evalI_esc S hmap b hb env)
        (fun r => S.catchPrim H _ _ _ _))
  | .land a b, hr, env => by
      unfold evalI
      have ha : a.hasReduce = false ∨ A celEval := by
        rcases hr with h | h
        · simp [Expr.hasReduce] at h; exact Or.inl h.1
        · exact Or.inr h
      have hb : b.hasReduce = false ∨ A celEval := by
        rcases hr with h | h
        · simp [Expr.hasReduce] at h; exact Or.inl h.2
        · exact Or.inr h
      exact Esc.bind H (evalI_esc S hmap a ha env) (fun l => Esc.bind H (evalI_esc S hmap b hb env)
        (fun r => S.catchPrim H _ _ _ _))
  | .rel op a b, hr, env => by
      unfold evalI
      have ha : a.hasReduce = false ∨ A celEval := by
        rcases hr with h | h
        · simp [Expr.hasReduce] at h; exact Or.inl h.1
        · exact Or.inr h
      have hb : b.hasReduce = false ∨ A celEval := by
        rcases hr with h | h
        · simp [Expr.hasReduce] at h; exact Or.inl h.2
        · exact Or.inr h
      exact Esc.bind H (evalI_esc S hmap a ha env) (fun l => Esc.bind H (evalI_esc S hmap b hb env)
        (fun r => S.catchPrim H _ _ _ _))
  | .add op a b, hr, env => by
      unfold evalI
      have ha : a.hasReduce = false ∨ A celEval := by
        rcases hr with h | h
        · simp [Expr.hasReduce] at h; exact Or.inl h.1
        · exact Or.inr h
      have hb : b.hasReduce = false ∨ A celEval := by
        rcases hr with h | h
        · simp [Expr.hasReduce] at h; exact Or.inl h.2
        · exact Or.inr h
      exact Esc.bind H (evalI_esc S hmap a ha env) (fun l => Esc.bind H (evalI_esc S hmap b hb env)
        (fun r => S.catchPrim H _ _ _ _))
  | .mul op a b, hr, env => by
      unfold evalI
      have ha : a.hasReduce = false ∨ A celEval := by
        rcases hr with h | h
        · simp [Expr.hasReduce] at h; exact Or.inl h.1
        · exact Or.inr h
      have hb : b.hasReduce = false ∨ A celEval := by
        rcases hr with h | h
        · simp [Expr.hasReduce] at h; exact Or.inl h.2
        · exact Or.inr h
      exact Esc.bind H (evalI_esc S hmap a ha env) (fun l => Esc.bind H (evalI_esc S hmap b hb env)
        (fun r => S.catchPrim H _ _ _ _))
  | .un op a, hr, env => by
      unfold evalI
      exact Esc.bind H (evalI_esc S hmap a (by simpa [Expr.hasReduce] using hr) env) (fun r => S.catchPrim H _ _ _ _)
  | .dot e f, hr, env => by
      unfold evalI
      refine Esc.bind H (evalI_esc S hmap e (by simpa [Expr.hasReduce] using hr) env) (fun mv => ?_)
      by_cases he : P.isErr mv = true
      · simp [he]; exact Esc.pure H _
      · simp [he]
        cases P.dotBranch mv f
        · exact S.catchPrim H _ _ _ _
        · exact S.catchPrim H _ _ _ _
        · exact S.catchPrim H _ _ _ _
        · exact Esc.pure H _
  | .index e i, hr, env => by
      unfold evalI
      have ha : e.hasReduce = false ∨ A celEval := by
        rcases hr with h | h
        · simp [Expr.hasReduce] at h; exact Or.inl h.1
        · exact Or.inr h
      have hb : i.hasReduce = false ∨ A celEval := by
        rcases hr with h | h
        · simp [Expr.hasReduce] at h; exact Or.inl h.2
        · exact Or.inr h
      exact Esc.bind H (evalI_esc S hmap e ha env) (fun l => Esc.bind H (evalI_esc S hmap i hb env)
        (fun r => S.catchPrim H _ _ _ _))
  | .call f args, hr, env => by
      unfold evalI
      have hr' : hasReduceL args = false ∨ A celEval := by simpa [Expr.hasReduce] using hr
      refine Esc.bind H (evalList_esc S hmap args hr' env) (fun vs => ?_)
      split
      · cases vs <;> exact Esc.pure H _
      · split
        · cases vs <;> exact Esc.pure H _
        · exact esc_functionEval H S env f vs
  | .mcall e f args, hr, env => by
      unfold evalI
      have ha : e.hasReduce = false ∨ A celEval := by
        rcases hr with h | h
        · simp [Expr.hasReduce] at h; exact Or.inl h.1
        · exact Or.inr h
      have hb : hasReduceL args = false ∨ A celEval := by
        rcases hr with h | h
        · simp [Expr.hasReduce] at h; exact Or.inl h.2
        · exact Or.inr h
      refine Esc.bind H (evalI_esc S hmap e ha env) (fun mv => Esc.bind H (evalList_esc S hmap args hb env) (fun vs => ?_))
      by_cases he : args.isEmpty = true
      · simp [he]; exact esc_methodEval H S env f mv none []
      · simp [he]
        exact Esc.bind H (esc_exprlistOf H S env vs) (fun lv => esc_methodEval H S env f mv _ vs)
  | .macro1 e m x body, hr, env => by
      unfold evalI
      have ha : e.hasReduce = false ∨ A celEval := by
        rcases hr with h | h
        · simp [Expr.hasReduce] at h; exact Or.inl h.1
        · exact Or.inr h
      have hb : body.hasReduce = false ∨ A celEval := by
        rcases hr with h | h
        · simp [Expr.hasReduce] at h; exact Or.inl h.2
        · exact Or.inr h
      have hbody : ∀ env' : N, Esc H A [] (evalI H hs P env' body) := fun env' => evalI_esc S hmap body hb env'
      refine Esc.bind H (evalI_esc S hmap e ha env) (fun mv => ?_)
      by_cases he : P.isErr mv = true
      · simp [he]; exact Esc.pure H _
      · simp [he]
        by_cases hi : P.iterable mv = true
        · simp [hi]
          split
          · exact esc_iterAt H S _ mv _ hi (fun items =>
              Esc.bind H (esc_evalBodies H _ hbody env x items) (fun rs => esc_foldLogic H S env _ rs _))
          · refine Esc.catch H P ?_
            refine Esc.bind H (fun c h => Or.inl (S.iter _ _ _ hi h)) (fun items => ?_)
            refine Esc.bind H (esc_evalBodiesRaise H _ hbody hmap env x items) (fun rs => ?_)
            split
            · exact Esc.pure H _
            · exact Esc.bind H (esc_countTruthy H S rs) (fun n => Esc.pure H _)
        · simp [hi]; exact Esc.pure H _
  | .reduce e r i init body, hr, env => by
      unfold evalI
      have hA : A celEval := by
        rcases hr with h | h
        · simp [Expr.hasReduce] at h
        · exact h
      have hbody : ∀ env' : N, Esc H A [] (evalI H hs P env' body) :=
        fun env' => evalI_esc S hmap body (Or.inr hA) env'
      refine Esc.bind H (evalI_esc S hmap e (Or.inr hA) env) (fun mv => ?_)
      by_cases he : P.isErr mv = true
      · simp [he]; exact Esc.pure H _
      · simp [he]
        by_cases hi : P.iterable mv = true
        · simp [hi]
          refine Esc.bind H (evalI_esc S hmap init (Or.inr hA) env) (fun iv => ?_)
          exact esc_iterAt H S _ mv _ hi (fun items => esc_evalReduce H _ hbody hA env r i items iv)
        · simp [hi]; exact Esc.pure H _
  | .macroMin e args, hr, env => by
      unfold evalI
      refine Esc.bind H (evalI_esc S hmap e (by simpa [Expr.hasReduce] using hr) env) (fun mv => ?_)
      by_cases he : P.isErr mv = true
      · simp [he]; exact Esc.pure H _
      · simp [he]
        by_cases hi : P.iterable mv = true
        · simp [hi]; exact S.catchPrim H _ _ _ _
        · simp [hi]; exact Esc.pure H _
  | .macroBad e m args, _, env => by unfold evalI; exact Esc.pure H _
  | .list es, hr, env => by
      unfold evalI
      by_cases he : es.isEmpty = true
      · simp [he]; exact Esc.pure H _
      · simp [he]
        exact Esc.bind H (evalList_esc S hmap es (by simpa [Expr.hasReduce] using hr) env)
          (fun vs => esc_exprlistOf H S env vs)
  | .map kvs, hr, env => by
      unfold evalI
      by_cases he : kvs.isEmpty = true
      · simp [he]; exact Esc.pure H _
      · simp [he]
        refine Esc.catch H P ?_
        refine Esc.bind H (Esc.weaken H (evalList_esc S hmap kvs (by simpa [Expr.hasReduce] using hr) env)) (fun vs => ?_)
        cases firstErr P vs with
        | some e => exact Esc.pure H _
        | none => exact S.escPrim H _ _ _ _
  | .obj e names vals, hr, env => by
      unfold evalI
      have ha : e.hasReduce = false ∨ A celEval := by
        rcases hr with h | h
        · simp [Expr.hasReduce] at h; exact Or.inl h.1
        · exact Or.inr h
      have hb : hasReduceL vals = false ∨ A celEval := by
        rcases hr with h | h
        · simp [Expr.hasReduce] at h; exact Or.inl h.2
        · exact Or.inr h
      -- the block under `try: values = self.visit_children(tree)`
      have hblock : Esc H A (hs .objectFields) (do
          let mv ← evalI H hs P env e
          if vals.isEmpty then pure (mv, none)
          else do
            let vs ← evalList H hs P env vals
            let fv ← P.prim .objectFields env (",".intercalate names) vs
            pure (mv, some fv) : M (V × Option V)) := by
        refine Esc.bind H (Esc.weaken H (evalI_esc S hmap e ha env)) (fun mv => ?_)
        by_cases hv : vals.isEmpty = true
        · simp [hv]; exact Esc.pure H _
        · simp [hv]
          exact Esc.bind H (Esc.weaken H (evalList_esc S hmap vals hb env))
            (fun vs => Esc.bind H (S.escPrim H _ _ _ _) (fun fv => Esc.pure H _))
      generalize (do
          let mv ← evalI H hs P env e
          if vals.isEmpty then pure (mv, none)
          else do
            let vs ← evalList H hs P env vals
            let fv ← P.prim .objectFields env (",".intercalate names) vs
            pure (mv, some fv) : M (V × Option V)) = blk at hblock ⊢
      cases hb' : blk with
      | error c =>
          by_cases hc : caught H (hs .objectFields) c = true
          · simp [hc]; exact Esc.ok H _
          · simp [hc]
            rcases hblock c hb' with h | h
            · exact absurd h hc
            · exact Esc.error H (Or.inr h)
      | ok pr =>
          obtain ⟨mv, fo⟩ := pr
          cases fo with
          | none => exact S.catchPrim H _ _ _ _
          | some fv =>
              simp only
              by_cases he : P.isErr mv = true
              · simp [he]; exact Esc.ok H _
              · simp [he]; exact S.catchPrim H _ _ _ _
theorem evalList_esc (S : Safe H hs P) (hmap : caught H (hs .macroIter) celEval = true ∨ A celEval) :
    (es : List Expr) → (hasReduceL es = false ∨ A celEval) → ∀ env : N, Esc H A [] (evalList H hs P env es)
  | [], _, env => by unfold evalList; exact Esc.ok H _
  | e :: es, hr, env => by
      unfold evalList
      have ha : e.hasReduce = false ∨ A celEval := by
        rcases hr with h | h
        · simp [hasReduceL] at h; exact Or.inl h.1
        · exact Or.inr h
      have hb : hasReduceL es = false ∨ A celEval := by
        rcases hr with h | h
        · simp [hasReduceL] at h; exact Or.inl h.2
        · exact Or.inr h
      exact Esc.bind H (evalI_esc S hmap e ha env) (fun v => Esc.bind H (evalList_esc S hmap es hb env)
        (fun vs => Esc.pure H _))
end

end
end Cel.Props.C04

namespace Cel.Props.C04
open Cel.Total

variable {V N : Type} (H : Hier) (hs : Rule → List Cls) (P : Prims V N)

/-- **evalI_only_celerror** — "no other Python exception escapes", for ALL expression trees and ALL
    activations: if anything escapes the interpreter's visit, it is `CELEvalError` (raised by the body of a
    `reduce` macro). -/
theorem evalI_only_celerror (S : Safe H hs P) (e : Expr) (env : N) (c : Cls)
    (h : evalI H hs P env e = .error c) : c = celEval := by
  have := evalI_esc H hs P (fun c => c = celEval) S (Or.inr rfl) e (Or.inr rfl) env c h
  rcases this with h' | h'
  · rw [caught_nil] at h'; cases h'
  · exact h'

/-- **evalI_total** — "evaluating any parsed expression … returns a value or an error value": for every
    expression tree without a `reduce` macro (an extension of this library whose body errors are raised) and
    every activation the visit ends in a value (possibly an error VALUE): nothing is raised at all.
    `hmap`: the `try` around map / filter / exists_one bodies catches CELEvalError (true of the source:
    `Cel.Bridge.Total.map_body_errors_caught`). -/
theorem evalI_total (S : Safe H hs P) (hmap : caught H (hs .macroIter) celEval = true)
    (e : Expr) (hnr : e.hasReduce = false) (env : N) : ∃ v, evalI H hs P env e = .ok v := by
  cases h : evalI H hs P env e with
  | ok v => exact ⟨v, rfl⟩
  | error c =>
      have := evalI_esc H hs P (fun _ => False) S (Or.inl hmap) e (Or.inl hnr) env c h
      rcases this with h' | h'
      · rw [caught_nil] at h'; cases h'
      · exact absurd h' id

/-- **runI_only_celerror** — `InterpretedRunner.evaluate` (visit, then `raise value` for an error value):
    the only exception class that leaves it is CELEvalError. -/
theorem runI_only_celerror (S : Safe H hs P) (e : Expr) (env : N) (c : Cls)
    (h : runI H hs P env e = .error c) : c = celEval := by
  unfold runI raiseIfErr at h
  cases h' : evalI H hs P env e with
  | ok v =>
      rw [h'] at h
      by_cases he : P.isErr v = true
      · simp [he] at h; exact h.symm
      · simp [he] at h
  | error c' =>
      rw [h'] at h
      have : c' = c := by simpa using h
      exact this ▸ evalI_only_celerror H hs P S e env c' h'

/-- the outcome of the interpreted runner: a non-error value, or CELEvalError raised -/
theorem runI_value_or_celerror (S : Safe H hs P) (e : Expr) (env : N) :
    (∃ v, runI H hs P env e = .ok v ∧ P.isErr v = false) ∨ runI H hs P env e = .error celEval := by
  cases h : runI H hs P env e with
  | error c => exact Or.inr (by rw [runI_only_celerror H hs P S e env c h])
  | ok v =>
      refine Or.inl ⟨v, rfl, ?_⟩
      unfold runI raiseIfErr at h
      cases h' : evalI H hs P env e with
      | error c' => rw [h'] at h; cases h
      | ok v' =>
          rw [h'] at h
          by_cases he : P.isErr v' = true
          · simp [he] at h
          · simp [he] at h; subst h; simpa using he

/-- **runC_only_celerror** — `Transpiler.evaluate` wraps the execution of the transpiled program in a
    blanket handler: whatever the program raises, if its class is caught by that handler (`hbody`;
    true for every subclass of `Exception`, see `Cel.Bridge.Total.runC_blanket`), only CELEvalError leaves. -/
theorem runC_only_celerror (cc : List Cls) (body : M V) (hbody : ∀ c, body = .error c → caught H cc c = true)
    (c : Cls) (h : runC H P cc body = .error c) : c = celEval := by
  unfold runC at h
  cases hr : raiseIfErr P body with
  | ok v => rw [hr] at h; cases h
  | error c' =>
      rw [hr] at h
      simp only at h
      have hc' : caught H cc c' = true ∨ c' = celEval := by
        unfold raiseIfErr at hr
        cases hb : body with
        | ok v =>
            rw [hb] at hr
            by_cases he : P.isErr v = true
            · simp [he] at hr; exact Or.inr hr.symm
            · simp [he] at hr
        | error c'' =>
            rw [hb] at hr
            have : c'' = c' := by simpa using hr
            exact Or.inl (this ▸ hbody c'' hb)
      by_cases hc : caught H cc c' = true
      · simp [hc] at h; exact h.symm
      · simp [hc] at h
        rcases hc' with h1 | h1
        · exact absurd h1 hc
        · exact h ▸ h1

/-- **parse_only_parseerror** — `CELParser.parse`: when lark raises a class caught by the `except`
    clauses (all of lark's parse-time classes are: `Cel.Bridge.Total.parse_errors_wrapped`), the only
    exception class that leaves `compile` is CELParseError. -/
theorem parse_only_parseerror {T : Type} (cp : List Cls) (lark : M T)
    (hl : ∀ c, lark = .error c → caught H cp c = true) (c : Cls)
    (h : parseM H cp lark = .error c) : c = celParse := by
  unfold parseM at h
  cases hb : lark with
  | ok t => rw [hb] at h; cases h
  | error c' =>
      rw [hb] at h
      simp [hl c' hb] at h
      exact h.symm

/-- the same two facts from the table-level hypotheses (what `Cel.Bridge.Total` instantiates) -/
theorem evalI_total_of_tables {raises : Raises} {key : Rule → String → List V → List String}
    {keyT : Rule → V → List String} (hc : Covered H hs raises) (hp : PrimSpec raises key keyT P)
    (hmap : caught H (hs .macroIter) celEval = true) (e : Expr) (hnr : e.hasReduce = false) (env : N) :
    ∃ v, evalI H hs P env e = .ok v :=
  evalI_total H hs P (safe_of_spec_covered hc hp) hmap e hnr env

theorem runI_only_celerror_of_tables {raises : Raises} {key : Rule → String → List V → List String}
    {keyT : Rule → V → List String} (hc : Covered H hs raises) (hp : PrimSpec raises key keyT P)
    (e : Expr) (env : N) (c : Cls) (h : runI H hs P env e = .error c) : c = celEval :=
  runI_only_celerror H hs P (safe_of_spec_covered hc hp) e env c h

/-! ### Sessions (round 2): every history of compile / evaluate calls on one Environment -/

section
variable {T : Type} (cp : List Cls) (lark : T → M Expr)

/-- **session_only_cel_errors** — for EVERY history of `compile` / `evaluate` steps through one Environment (any
    texts, any order, any activations, programs evaluated any number of times, after any number of later compiles,
    successful or not) and every starting state: whatever is raised by a step is CELEvalError or CELParseError.
    Hypotheses: `Safe` (from the tables: `safe_of_spec_covered`) and lark's classes are wrapped (`parse_errors_wrapped`). -/
theorem session_only_cel_errors (S : Safe H hs P) (hl : ∀ t c, lark t = .error c → caught H cp c = true) :
    ∀ (steps : List (Step T N)) (s : Session T) (c : Cls),
      Out.raised c ∈ runS (V := V) H hs P cp lark s steps → c = celEval ∨ c = celParse := by
  intro steps
  induction steps with
  | nil => intro s c h; simp [runS] at h
  | cons st rest ih =>
      intro s c h
      simp only [runS, List.mem_cons] at h
      rcases h with h | h
      · cases st with
        | compile t =>
            simp only [stepS] at h
            cases hp : parseM H cp (lark t) with
            | ok e => rw [hp] at h; simp at h
            | error c' =>
                rw [hp] at h
                simp only [Out.raised.injEq] at h
                subst h
                exact Or.inr (parse_only_parseerror H cp (lark t) (hl t) c hp)
        | evaluate i act =>
            simp only [stepS] at h
            cases hg : s.progs[i]? with
            | none => rw [hg] at h; simp at h
            | some e =>
                rw [hg] at h
                simp only at h
                cases hr : runI H hs P act e with
                | ok v => rw [hr] at h; simp at h
                | error c' =>
                    rw [hr] at h
                    simp only [Out.raised.injEq] at h
                    subst h
                    exact Or.inl (runI_only_celerror H hs P S e act c hr)
      · exact ih _ c h

/-- **evaluate_ignores_parser_state** — what `evaluate` of a program returns or raises does not depend on the text
    the Environment's parser holds (the state `compile` leaves behind): two sessions with the same programs agree. -/
theorem evaluate_ignores_parser_state (s₁ s₂ : Session T) (hp : s₁.progs = s₂.progs) (i : Nat) (act : N) :
    (stepS (V := V) H hs P cp lark s₁ (.evaluate i act)).2 = (stepS (V := V) H hs P cp lark s₂ (.evaluate i act)).2 := by
  simp only [stepS, hp]
  cases s₂.progs[i]? with
  | none => rfl
  | some e =>
      simp only
      cases hr : runI H hs P act e <;> simp

/-- programs are never lost or replaced: a later step leaves every program built so far in place -/
theorem programs_persist (s : Session T) (st : Step T N) (i : Nat) (e : Expr) (h : s.progs[i]? = some e) :
    (stepS (V := V) H hs P cp lark s st).1.progs[i]? = some e := by
  cases st with
  | compile t =>
      simp only [stepS]
      cases parseM H cp (lark t) with
      | ok e' =>
          simp only
          have hi : i < s.progs.length := by
            rcases Nat.lt_or_ge i s.progs.length with hlt | hge
            · exact hlt
            · rw [List.getElem?_eq_none hge] at h; cases h
          rw [List.getElem?_append_left hi]; exact h
      | error c => exact h
  | evaluate j act =>
      simp only [stepS]
      cases s.progs[j]? with
      | none => exact h
      | some e' =>
          simp only
          cases hr : runI H hs P act e' <;> simpa using h
end

/-! ### Non-vacuity and necessity of the side condition

A concrete instance: values are `Nat` (0 = error value), one Python class hierarchy
`2 = TypeError ⊑ 3 = Exception`, every site handles `TypeError`, and every primitive raises `TypeError` on an
operand `7` (the literal `abc` denotes 7, the literal `1` denotes 5).  `Safe` holds, so the theorems apply; dropping the handler of one site makes the same
primitive escape — the model does exhibit the defect class the property is about. -/

def exH : Hier := fun c => if c = 2 then [2, 3] else [c]
def exP : Prims Nat Unit where
  err := 0
  isErr := fun v => v == 0
  boolV := fun b => if b then 1 else 2
  emptyList := 3
  emptyMap := 4
  prim := fun r _ lbl args =>
    if r = .literal then .ok lbl.length            -- "int:abc" ↦ 7, "int:1" ↦ 5
    else if args.contains 7 then .error 2 else .ok (args.foldl (· + ·) 1)
  truth := fun _ v => if v == 7 then .error 2 else .ok (v != 2)
  iter := fun _ v => .ok [v, v + 1]
  iterable := fun v => v > 4
  dotBranch := fun _ _ => .mapping
  bind := fun _ _ _ => ()
def exHs : Rule → List Cls := fun r => if r = .macroIter then [2, 0] else [2]
def exHsDropped : Rule → List Cls := fun r => if r = .addition then [] else exHs r

theorem exCaught (r : Rule) : caught exH (exHs r) 2 = true := by
  cases r <;> decide

theorem exSafe : Safe exH exHs exP where
  prim := by
    intro r env lbl args c h
    simp only [exP] at h
    split at h
    · cases h
    · split at h
      · cases h; exact exCaught r
      · cases h
  truth := by
    intro r v c h
    simp only [exP] at h
    split at h
    · cases h; exact exCaught r
    · cases h
  iter := by
    intro r v c _ h
    simp only [exP] at h
    cases h

/-- the hypotheses are satisfiable and the conclusion is not trivially "error": `abc + 1` is an error VALUE,
    `1 + 1` a proper value -/
example : evalI exH exHs exP () (.add "_+_" (.lit "int" "abc") (.lit "int" "1")) = .ok 0 := by rfl
example : evalI exH exHs exP () (.add "_+_" (.lit "int" "1") (.lit "int" "1")) = .ok 11 := by rfl
example : ∃ v, evalI exH exHs exP () (.macro1 (.list [.lit "int" "5"]) "map" "x" (.un "-_" (.ident "x"))) = .ok v :=
  evalI_total exH exHs exP exSafe (by decide) _ (by decide) ()
/-- necessity: with the handler of `addition` dropped the TypeError of the same primitive escapes -/
example : evalI exH exHsDropped exP () (.add "_+_" (.ident "x") (.lit "int" "1")) = .ok 7 := by rfl
example : runI exH exHsDropped exP () (.add "_+_" (.lit "int" "abc") (.lit "int" "1")) = .error 2 := by rfl
/-- `reduce` raises its body error: evalI is not total on it, but only CELEvalError escapes -/
example : evalI exH exHs exP () (.reduce (.lit "int" "5") "r" "i" (.lit "int" "1") (.add "_+_" (.lit "int" "abc") (.ident "r")))
    = .error celEval := by rfl

/-- sessions: compile `abc + 1` (program 0), compile a text lark rejects, evaluate program 0 → CELEvalError, the
    rejected text → CELParseError, an index without program → skipped; the theorem applies to this instance -/
def exLark : Nat → M Expr := fun t => if t = 0 then .error 2 else .ok (.add "_+_" (.lit "int" "abc") (.lit "int" "1"))
example : runS (V := Nat) exH exHs exP [2] exLark {} [.compile 1, .compile 0, .evaluate 0 (), .evaluate 5 ()]
    = [.tree, .raised celParse, .raised celEval, .skipped] := by rfl
example : ∀ c, Out.raised c ∈ runS (V := Nat) exH exHs exP [2] exLark {} [.compile 1, .compile 0, .evaluate 0 ()] →
    c = celEval ∨ c = celParse :=
  fun c => session_only_cel_errors exH exHs exP [2] exLark exSafe
    (by intro t c h; simp only [exLark] at h; split at h <;> cases h; decide) _ _ c

end Cel.Props.C04
