/-
  C13 — Results carry their CEL type: type() and API values agree with the language.

  Property theorems only.  Subject: `Cel.evalT` (Cel.Model.Typing) — evaluation of the well-typed operator
  fragment (arithmetic, concatenation, time arithmetic, unary minus, relations, `in`, `! && || ?:`, conversions,
  `type()`, `size()`, string predicates, timestamp/duration accessors, `has()`, boolean macros, `map`/`filter`, list literals) in both runners, where the
  class of every result is decided by `resTable` (which arithmetic dunder a wrapper class defines and what it
  constructs — proved equal to the table regenerated from the class bodies of celtypes.py in
  `Cel.Bridge.ResultCls`), `cmpSpecs` (C08) and `wrapSpec` (which results evaluation.py builds with
  `BoolType(…)`/`IntType(…)`/`ListType(…)`, also regenerated).  Payload arithmetic (`Prims`: IEEE operations,
  text parsing/formatting, regular expressions, conversions' values) is universally quantified: the theorems
  hold for every payload semantics.  All statements are for every expression tree of the fragment (any size,
  any nesting) and every operand value.
-/
import Cel.Lemmas.Typing
import Cel.Lemmas.Value
namespace Cel.Props.C13
open Cel

/-- the evaluation context of runner `r` with the tables of the current source -/
def ctx (P : Prims) (r : Runner) : Ctx := ⟨P, resTable, cmpSpecs, wrapSpec, r⟩

/-- **Type preservation.** "For every well-typed expression the value handed back to the caller is an instance
of the library's class for the CEL type of that expression": if `e` has type `τ` in the fragment and evaluates
to a value `v`, then `type(v)` is the library's class for `τ` — on the interpreter for every `e`, on the
compiled runner for every `e` that does not use `has()` (finding D6: the transpiled `has()` template yields a
Python `bool`; see `has_compiled_degrades`). By structural induction on `e`. -/
theorem preservation (P : Prims) (r : Runner) : (e : TExpr) → (τ : Cls) → typeOfE e = some τ →
    (r = .C → usesHas e = false) → (v : Val) → evalT (ctx P r) e = .ok v → clsOf v = τ
  | .lit w, τ, ht, _, v, hv => by
      simp only [typeOfE] at ht
      split at ht <;> simp at ht
      simp [evalT] at hv
      rw [← hv, ht]
  | .neg e, τ, ht, hh, v, hv => by
      simp only [typeOfE, Option.bind_eq_some_iff] at ht
      obtain ⟨σ, hσ, hn⟩ := ht
      simp only [evalT] at hv
      obtain ⟨x, hx, hp⟩ := bind_ok _ _ _ hv
      have := preservation P r e σ hσ (fun h => by simpa [usesHas] using hh h) x hx
      exact pyNeg_cls P x v τ (this ▸ hn) hp
  | .bin op a b, τ, ht, hh, v, hv => by
      simp only [typeOfE, Option.bind_eq_bind, Option.bind_eq_some_iff] at ht
      obtain ⟨σa, hσa, σb, hσb, hb⟩ := ht
      simp only [evalT] at hv
      obtain ⟨x, hx, hv⟩ := bind_ok _ _ _ hv
      obtain ⟨y, hy, hv⟩ := bind_ok _ _ _ hv
      have h1 := preservation P r a σa hσa (fun h => by have := hh h; simp [usesHas] at this; exact this.1) x hx
      have h2 := preservation P r b σb hσb (fun h => by have := hh h; simp [usesHas] at this; exact this.2) y hy
      exact pyBin_cls P op x y v τ (by rw [h1, h2]; exact hb) hv
  | .rel op a b, τ, ht, _, v, hv => by
      simp only [typeOfE, Option.bind_eq_bind, Option.bind_eq_some_iff] at ht
      obtain ⟨σa, _, σb, _, hb⟩ := ht
      split at hb <;> simp at hb
      subst hb
      simp only [evalT] at hv
      obtain ⟨x, _, hv⟩ := bind_ok _ _ _ hv
      obtain ⟨y, _, hv⟩ := bind_ok _ _ _ hv
      split at hv <;> simp at hv
      subst hv; rfl
  | .isIn a b, τ, ht, _, v, hv => by
      simp only [typeOfE, Option.bind_eq_bind, Option.bind_eq_some_iff] at ht
      obtain ⟨σa, _, σb, _, hb⟩ := ht
      split at hb <;> simp at hb
      subst hb
      simp only [evalT] at hv
      obtain ⟨x, _, hv⟩ := bind_ok _ _ _ hv
      obtain ⟨y, _, hv⟩ := bind_ok _ _ _ hv
      exact opIn_cls _ _ _ _ hv
  | .not e, τ, ht, _, v, hv => by
      simp only [typeOfE, Option.bind_eq_bind, Option.bind_eq_some_iff] at ht
      obtain ⟨σ, _, hb⟩ := ht
      split at hb <;> simp at hb
      subst hb
      simp only [evalT] at hv
      obtain ⟨x, _, hv⟩ := bind_ok _ _ _ hv
      split at hv <;> simp at hv
      subst hv; rfl
  | .and a b, τ, ht, _, v, hv => by
      simp only [typeOfE, Option.bind_eq_bind, Option.bind_eq_some_iff] at ht
      obtain ⟨σa, _, σb, _, hb⟩ := ht
      split at hb <;> simp at hb
      subst hb
      exact logAnd_cls _ _ _ (by simpa [evalT] using hv)
  | .or a b, τ, ht, _, v, hv => by
      simp only [typeOfE, Option.bind_eq_bind, Option.bind_eq_some_iff] at ht
      obtain ⟨σa, _, σb, _, hb⟩ := ht
      split at hb <;> simp at hb
      subst hb
      exact logOr_cls _ _ _ (by simpa [evalT] using hv)
  | .cond g a b, τ, ht, hh, v, hv => by
      simp only [typeOfE, Option.bind_eq_bind, Option.bind_eq_some_iff] at ht
      obtain ⟨σg, _, σa, hσa, σb, hσb, hb⟩ := ht
      split at hb <;> simp at hb
      rename_i hc
      subst hb
      simp only [evalT] at hv
      obtain ⟨x, _, hv⟩ := bind_ok _ _ _ hv
      split at hv
      · exact preservation P r a σa hσa (fun h => by have := hh h; simp [usesHas] at this; exact this.1.2) v hv
      · exact hc.2 ▸ preservation P r b σb hσb (fun h => by have := hh h; simp [usesHas] at this; exact this.2) v hv
      · simp at hv
  | .conv t e, τ, ht, _, v, hv => by
      simp only [typeOfE, Option.bind_eq_bind, Option.bind_eq_some_iff] at ht
      obtain ⟨σ, _, hb⟩ := ht
      split at hb <;> simp at hb
      rename_i hc
      subst hb
      simp only [evalT] at hv
      obtain ⟨x, _, hv⟩ := bind_ok _ _ _ hv
      exact convTo_cls P t x v hc hv
  | .typeOf e, τ, ht, _, v, hv => by
      simp only [typeOfE, Option.bind_eq_bind, Option.bind_eq_some_iff] at ht
      obtain ⟨σ, _, hb⟩ := ht
      simp at hb
      subst hb
      simp only [evalT] at hv
      obtain ⟨x, _, hv⟩ := bind_ok _ _ _ hv
      simp at hv
      subst hv
      exact typeFn_cls x
  | .size e, τ, ht, _, v, hv => by
      simp only [typeOfE, Option.bind_eq_bind, Option.bind_eq_some_iff] at ht
      obtain ⟨σ, _, hb⟩ := ht
      split at hb <;> simp at hb
      subst hb
      simp only [evalT] at hv
      obtain ⟨x, _, hv⟩ := bind_ok _ _ _ hv
      split at hv <;> simp [ctx, wrapSpec] at hv <;> subst hv <;> rfl
  | .strPred p a b, τ, ht, _, v, hv => by
      simp only [typeOfE, Option.bind_eq_bind, Option.bind_eq_some_iff] at ht
      obtain ⟨σa, _, σb, _, hb⟩ := ht
      split at hb <;> simp at hb
      subst hb
      simp only [evalT] at hv
      obtain ⟨x, _, hv⟩ := bind_ok _ _ _ hv
      obtain ⟨y, _, hv⟩ := bind_ok _ _ _ hv
      split at hv
      · exact map_ok_cls _ _ _ _ (fun _ => rfl) hv
      · simp at hv
  | .getter k e tz, τ, ht, _, v, hv => by
      simp only [typeOfE, Option.bind_eq_bind, Option.bind_eq_some_iff] at ht
      obtain ⟨σ, _, hb⟩ := ht
      split at hb <;> simp at hb
      subst hb
      simp only [evalT] at hv
      obtain ⟨x, _, hv⟩ := bind_ok _ _ _ hv
      split at hv
      · exact map_ok_cls _ _ _ _ (fun _ => rfl) hv
      · exact map_ok_cls _ _ _ _ (fun _ => rfl) hv
      · simp at hv
  | .has m f, τ, ht, hh, v, hv => by
      simp only [typeOfE, Option.bind_eq_bind, Option.bind_eq_some_iff] at ht
      obtain ⟨σ, _, hb⟩ := ht
      split at hb <;> simp at hb
      subst hb
      cases r with
      | C => simp [usesHas] at hh
      | I =>
        simp only [evalT] at hv
        obtain ⟨x, _, hv⟩ := bind_ok _ _ _ hv
        split at hv <;> simp at hv <;> subst hv <;> rfl
  | .macroBool k bodies, τ, ht, _, v, hv => by
      simp only [typeOfE] at ht
      split at ht <;> simp at ht
      subst ht
      simp only [evalT] at hv
      obtain ⟨x, _, hv⟩ := bind_ok _ _ _ hv
      simp at hv
      subst hv
      cases r <;> rfl
  | .macroList isFilter elems bodies, τ, ht, _, v, hv => by
      have hτ : τ = .list := by
        simp only [typeOfE] at ht
        split at ht <;> simp at ht
        all_goals exact ht.2.symm
      subst hτ
      simp only [evalT] at hv
      split at hv
      · obtain ⟨x, _, hv⟩ := bind_ok _ _ _ hv
        simp [ctx, wrapSpec] at hv
        subst hv; rfl
      · obtain ⟨x, _, hv⟩ := bind_ok _ _ _ hv
        simp [ctx, wrapSpec] at hv
        subst hv; rfl
  | .listLit es, τ, ht, _, v, hv => by
      simp only [typeOfE] at ht
      split at ht <;> simp at ht
      subst ht
      simp only [evalT] at hv
      obtain ⟨x, _, hv⟩ := bind_ok _ _ _ hv
      simp [ctx, wrapSpec] at hv
      subst hv; rfl


/-- interpreter: no side condition -/
theorem preservation_interpreted (P : Prims) (e : TExpr) (τ : Cls) (ht : typeOfE e = some τ) (v : Val)
    (hv : evalT (ctx P .I) e = .ok v) : clsOf v = τ :=
  preservation P .I e τ ht (fun h => by cases h) v hv

/-- compiled runner: the full statement fails only through `has()` (known finding D6, predicate `compiled_has`) -/
theorem preservation_compiled_partial (P : Prims) (e : TExpr) (τ : Cls) (ht : typeOfE e = some τ)
    (hno : usesHas e = false) (v : Val) (hv : evalT (ctx P .C) e = .ok v) : clsOf v = τ :=
  preservation P .C e τ ht (fun _ => hno) v hv

/-- D6, in the model: the compiled `has()` hands back a native `bool` although its CEL type is bool -/
theorem has_compiled_degrades (P : Prims) (kvs : List (Key × Val)) (f : List Nat) :
    typeOfE (.has (.lit (.map kvs)) f) = some .bool ∧
    ∃ b, evalT (ctx P .C) (.has (.lit (.map kvs)) f) = .ok (.nbool b) := ⟨rfl, _, rfl⟩

/-- both runners hand back the same class (on the fragment without `has()`) -/
theorem runners_same_class (P : Prims) (e : TExpr) (τ : Cls) (ht : typeOfE e = some τ) (hno : usesHas e = false)
    (v w : Val) (hv : evalT (ctx P .I) e = .ok v) (hw : evalT (ctx P .C) e = .ok w) : clsOf v = clsOf w := by
  rw [preservation_interpreted P e τ ht v hv, preservation_compiled_partial P e τ ht hno w hw]

/-- "`type(x op y) == type(x)` for arithmetic, concatenation and time arithmetic": when the operator's result
type is the type of its left operand (every case except timestamp − timestamp and duration + timestamp), the
type objects coincide. -/
theorem type_of_op (P : Prims) (r : Runner) (op : ArOp) (a b : TExpr) (τ : Cls)
    (ht : typeOfE (.bin op a b) = some τ) (ha : typeOfE a = some τ) (hh : r = .C → usesHas (.bin op a b) = false)
    (x v : Val) (hx : evalT (ctx P r) a = .ok x) (hv : evalT (ctx P r) (.bin op a b) = .ok v) :
    evalT (ctx P r) (.rel .eq (.typeOf (.lit v)) (.typeOf (.lit x))) = .ok (.bool true) := by
  have h1 := preservation P r _ τ ht hh v hv
  have h2 := preservation P r a τ ha (fun h => by have := hh h; simp [usesHas] at this; exact this.1) x hx
  have hτ : τ ≠ .type := by
    intro h; subst h
    simp only [typeOfE, Option.bind_eq_bind, Option.bind_eq_some_iff] at ht
    obtain ⟨σa, _, σb, _, hb⟩ := ht
    unfold binTy at hb; split at hb <;> simp at hb
  have tv : typeFn v = .type τ := by
    unfold typeFn; split
    · simp [clsOf] at h1; exact absurd h1.symm hτ
    · rw [h1]
  have tx : typeFn x = .type τ := by
    unfold typeFn; split
    · simp [clsOf] at h2; exact absurd h2.symm hτ
    · rw [h2]
  simp only [evalT, bind, Except.bind, tv, tx]
  have : pyRel (ctx P r).S .eq (.type τ) (.type τ) = .ok true := by
    show pyRel cmpSpecs .eq (.type τ) (.type τ) = .ok true
    rw [(rel_spec (.type τ) (.type τ) rfl).1]; simp [eqSpec]
  rw [this]; rfl

/-- unary minus keeps the type -/
theorem type_of_neg (P : Prims) (r : Runner) (a : TExpr) (τ : Cls) (ht : typeOfE (.neg a) = some τ)
    (hh : r = .C → usesHas a = false) (v : Val) (hv : evalT (ctx P r) (.neg a) = .ok v) : clsOf v = τ :=
  preservation P r _ τ ht (fun h => by simpa [usesHas] using hh h) v hv

/-! "every relation, `has()`, `in`, string predicate and boolean macro yields the CEL bool type" — these need no
typing hypothesis: whatever the operands, a value that comes back is a `BoolType`. -/

theorem relation_yields_bool (P : Prims) (r : Runner) (op : RelOp) (a b : TExpr) (v : Val)
    (hv : evalT (ctx P r) (.rel op a b) = .ok v) : clsOf v = .bool := by
  simp only [evalT] at hv
  obtain ⟨x, _, hv⟩ := bind_ok _ _ _ hv
  obtain ⟨y, _, hv⟩ := bind_ok _ _ _ hv
  split at hv <;> simp at hv
  subst hv; rfl

theorem in_yields_bool (P : Prims) (r : Runner) (a b : TExpr) (v : Val)
    (hv : evalT (ctx P r) (.isIn a b) = .ok v) : clsOf v = .bool := by
  simp only [evalT] at hv
  obtain ⟨x, _, hv⟩ := bind_ok _ _ _ hv
  obtain ⟨y, _, hv⟩ := bind_ok _ _ _ hv
  exact opIn_cls _ _ _ _ hv

theorem has_yields_bool_interpreted (P : Prims) (m : TExpr) (f : List Nat) (v : Val)
    (hv : evalT (ctx P .I) (.has m f) = .ok v) : clsOf v = .bool := by
  simp only [evalT] at hv
  obtain ⟨x, _, hv⟩ := bind_ok _ _ _ hv
  split at hv <;> simp at hv <;> subst hv <;> rfl

theorem string_predicate_yields_bool (P : Prims) (r : Runner) (p : Nat) (a b : TExpr) (v : Val)
    (hv : evalT (ctx P r) (.strPred p a b) = .ok v) : clsOf v = .bool := by
  simp only [evalT] at hv
  obtain ⟨x, _, hv⟩ := bind_ok _ _ _ hv
  obtain ⟨y, _, hv⟩ := bind_ok _ _ _ hv
  split at hv
  · exact map_ok_cls _ _ _ _ (fun _ => rfl) hv
  · simp at hv

theorem boolean_macro_yields_bool (P : Prims) (r : Runner) (k : Nat) (bodies : List TExpr) (v : Val)
    (hv : evalT (ctx P r) (.macroBool k bodies) = .ok v) : clsOf v = .bool := by
  simp only [evalT] at hv
  obtain ⟨x, _, hv⟩ := bind_ok _ _ _ hv
  simp at hv
  subst hv
  cases r <;> rfl

/-- `map` and `filter` hand back a `ListType` whatever the range was (a list, or a map ranged over by its keys) -/
theorem list_macro_yields_list (P : Prims) (r : Runner) (isFilter : Bool) (elems : List Val) (bodies : List TExpr) (v : Val)
    (hv : evalT (ctx P r) (.macroList isFilter elems bodies) = .ok v) : clsOf v = .list := by
  simp only [evalT] at hv
  split at hv
  · obtain ⟨x, _, hv⟩ := bind_ok _ _ _ hv
    simp [ctx, wrapSpec] at hv
    subst hv; rfl
  · obtain ⟨x, _, hv⟩ := bind_ok _ _ _ hv
    simp [ctx, wrapSpec] at hv
    subst hv; rfl

theorem logical_yields_bool (P : Prims) (r : Runner) (a b : TExpr) (v : Val) :
    (evalT (ctx P r) (.and a b) = .ok v → clsOf v = .bool) ∧ (evalT (ctx P r) (.or a b) = .ok v → clsOf v = .bool) :=
  ⟨fun h => logAnd_cls _ _ _ (by simpa [evalT] using h), fun h => logOr_cls _ _ _ (by simpa [evalT] using h)⟩

/-! "`type(e) == T` is true exactly for the matching name among int, uint, double, bool, string, bytes, list,
map, null_type, timestamp, duration, type." -/

/-- the CEL type of a value of a wrapper class, as a class: a type object has type `type` -/
def tyCls (v : Val) : Cls := match v with | .type _ => .type | _ => clsOf v

/-- `type(v) == T` is never an error and is true iff the class `T` names is the class of `v`. -/
theorem type_name_eq (v : Val) (c : Cls) :
    veq (typeFn v) (.type c) = .ok (decide (tyCls v = c)) := by
  have hs : sameType (typeFn v) (.type c) = true := by unfold typeFn; split <;> rfl
  rw [show veq (typeFn v) (.type c) = _ from (rel_spec _ _ hs).1]
  unfold typeFn tyCls; split <;> simp [eqSpec]

/-- the twelve names denote twelve different classes … -/
theorem type_names_distinct : (typeNames.map (·.2)).Nodup := by decide
/-- … which are exactly the library's classes for the CEL types: for every wrapper class exactly one name matches,
so `type(e) == T` holds for exactly one of the twelve names. -/
theorem type_name_unique (c : Cls) (hc : c.isWrapper = true) :
    (typeNameOf c, c) ∈ typeNames ∧ ∀ p ∈ typeNames, p.2 = c → p.1 = typeNameOf c := by
  cases c <;> simp [Cls.isWrapper] at hc <;> decide

/-- both runners: `type(e) == T` evaluated inside CEL is the `BoolType` carrying that comparison -/
theorem type_name_eq_runners (P : Prims) (r : Runner) (v : Val) (c : Cls) :
    evalT (ctx P r) (.rel .eq (.typeOf (.lit v)) (.lit (.type c))) = .ok (.bool (decide (tyCls v = c))) := by
  simp only [evalT, bind, Except.bind]
  have := type_name_eq v c
  unfold veq at this
  show (match pyRel cmpSpecs .eq (typeFn v) (.type c) with | .ok r => _ | .error e => _) = _
  rw [this]; rfl

/-- `type(…)` applied `n` times -/
def typeIter : Nat → TExpr → TExpr
  | 0, e => e
  | n + 1, e => .typeOf (typeIter n e)

/-- the type of a type object is `type`: `TypeType.__new__` answers `TypeType` for every class object -/
theorem typeFn_typeFn (v : Val) : typeFn (typeFn v) = .type .type := by
  cases v <;> rfl

/-- **type-of-type chains** ("`type(e) == T` is true exactly for the matching name … type"): whatever `e` evaluates to —
a value of any kind, `null`, or itself a type — `type(type(e))`, `type(type(type(e)))`, … all evaluate to the type
`type`, in both runners (round 2; the class of seeded change C13-m5) -/
theorem type_of_type (P : Prims) (r : Runner) (e : TExpr) (v : Val) (hv : evalT (ctx P r) e = .ok v) :
    (n : Nat) → evalT (ctx P r) (typeIter (n + 2) e) = .ok (.type .type)
  | 0 => by
      simp only [typeIter, evalT, hv, bind, Except.bind]
      rw [typeFn_typeFn]
  | n + 1 => by
      have ih := type_of_type P r e v hv n
      show evalT (ctx P r) (.typeOf (typeIter (n + 2) e)) = _
      simp only [evalT, ih, bind, Except.bind]
      rfl

/-- every type NAME (`int`, …, `null_type`, `type`) has type `type`: `type(null_type)`, `type(type)`, `type(int)` -/
theorem type_name_has_type_type (P : Prims) (r : Runner) (c : Cls) :
    evalT (ctx P r) (.typeOf (.lit (.type c))) = .ok (.type .type) := rfl

/-- … and `type(type(e)) == type` (any depth ≥ 2) evaluates to `BoolType(true)` inside CEL -/
theorem type_of_type_eq_type (P : Prims) (r : Runner) (e : TExpr) (v : Val) (hv : evalT (ctx P r) e = .ok v) (n : Nat) :
    evalT (ctx P r) (.rel .eq (typeIter (n + 2) e) (.lit (.type .type))) = .ok (.bool true) := by
  have h := type_of_type P r e v hv n
  simp only [evalT, h, bind, Except.bind]
  have : pyRel (ctx P r).S .eq (.type .type) (.type .type) = .ok true := by
    show pyRel cmpSpecs .eq (.type .type) (.type .type) = .ok true
    rw [(rel_spec (.type .type) (.type .type) rfl).1]; simp [eqSpec]
  rw [this]; rfl

/-! ### element types (round 2): the class of every ELEMENT of a list result -/

/-- evaluating a list of expressions that all have type `τ` yields as many values, each of class `τ` -/
theorem evalList_cls (P : Prims) (r : Runner) (τ : Cls) : (es : List TExpr) → (∀ e ∈ es, typeOfE e = some τ) →
    (r = .C → usesHasList es = false) → (vs : List Val) → evalList (ctx P r) es = .ok vs →
    vs.length = es.length ∧ ∀ v ∈ vs, clsOf v = τ
  | [], _, _, vs, h => by
      simp [evalList] at h; subst h; simp
  | e :: es, ht, hh, vs, h => by
      simp only [evalList] at h
      obtain ⟨x, hx, h⟩ := bind_ok _ _ _ h
      obtain ⟨xs, hxs, h⟩ := bind_ok _ _ _ h
      simp at h; subst h
      have h1 := preservation P r e τ (ht e (by simp)) (fun hc => by have := hh hc; simp [usesHasList] at this; exact this.1) x hx
      have h2 := evalList_cls P r τ es (fun e' he' => ht e' (by simp [he'])) (fun hc => by have := hh hc; simp [usesHasList] at this; exact this.2) xs hxs
      refine ⟨by simp [h2.1], ?_⟩
      intro v hv
      simp at hv
      rcases hv with rfl | hv
      · exact h1
      · exact h2.2 v hv

/-- a list literal whose elements all have type `τ` evaluates to a `ListType` of as many elements, EACH an instance of
the library's class for `τ` (so indexing it hands back such an instance) -/
theorem list_literal_elements_typed (P : Prims) (r : Runner) (τ : Cls) (es : List TExpr) (ht : ∀ e ∈ es, typeOfE e = some τ)
    (hh : r = .C → usesHasList es = false) (v : Val) (hv : evalT (ctx P r) (.listLit es) = .ok v) :
    ∃ vs, v = .list vs ∧ vs.length = es.length ∧ ∀ x ∈ vs, clsOf x = τ := by
  simp only [evalT] at hv
  obtain ⟨vs, hvs, hv⟩ := bind_ok _ _ _ hv
  simp [ctx, wrapSpec] at hv
  exact ⟨vs, hv.symm, evalList_cls P r τ es ht hh vs hvs⟩

/-- `r.map(x, body)`: when the body has type `τ` for every element of the range, the result is a `ListType` with one
element per element of the range, each of class `τ` -/
theorem map_macro_elements_typed (P : Prims) (r : Runner) (τ : Cls) (elems : List Val) (bodies : List TExpr)
    (ht : ∀ e ∈ bodies, typeOfE e = some τ) (hh : r = .C → usesHasList bodies = false) (v : Val)
    (hv : evalT (ctx P r) (.macroList false elems bodies) = .ok v) :
    ∃ vs, v = .list vs ∧ vs.length = bodies.length ∧ ∀ x ∈ vs, clsOf x = τ := by
  simp only [evalT] at hv
  simp at hv
  obtain ⟨vs, hvs, hv⟩ := bind_ok _ _ _ hv
  simp [ctx, wrapSpec] at hv
  exact ⟨vs, hv.symm, evalList_cls P r τ bodies ht hh vs hvs⟩

/-- `r.filter(x, body)` hands back a `ListType` whose elements are elements of the range (no element is rebuilt or
converted, so their classes are those of the range's elements), and not more of them -/
theorem filter_macro_elements_from_range (P : Prims) (r : Runner) (elems : List Val) (bodies : List TExpr) (v : Val)
    (hv : evalT (ctx P r) (.macroList true elems bodies) = .ok v) :
    ∃ kept, v = .list kept ∧ kept.length ≤ elems.length ∧ ∀ x ∈ kept, x ∈ elems := by
  simp only [evalT] at hv
  simp at hv
  obtain ⟨bs, _, hv⟩ := bind_ok _ _ _ hv
  simp [ctx, wrapSpec] at hv
  refine ⟨_, hv.symm, ?_, ?_⟩
  · simp only [List.length_map]
    calc _ ≤ (elems.zip bs).length := List.length_filter_le _ _
      _ ≤ elems.length := by simp [List.length_zip]; omega
  · intro x hx
    simp only [List.mem_map, List.mem_filter] at hx
    obtain ⟨p, ⟨hp, _⟩, rfl⟩ := hx
    exact (List.of_mem_zip (a := p.1) (b := p.2) hp).1

/-! non-vacuity -/
example : typeIter 2 (.lit .null) = .typeOf (.typeOf (.lit .null)) := rfl
example (P : Prims) : evalT (ctx P .I) (typeIter 3 (.lit (.int 1))) = .ok (.type .type) :=
  type_of_type P .I (.lit (.int 1)) (.int 1) rfl 1
example (P : Prims) : ∃ vs, evalT (ctx P .C) (.listLit [.lit (.int 1), .neg (.lit (.int 2))]) = .ok (.list vs) ∧ vs.length = 2 :=
  ⟨_, rfl, rfl⟩

example : typeOfE (.bin .add (.lit (.dbl (.num 1 false))) (.bin .mul (.lit (.dbl (.num 2 false))) (.lit (.dbl (.num 3 false))))) = some .dbl := rfl
example : typeOfE (.bin .sub (.lit (.ts 0 0)) (.lit (.ts 5 60))) = some .dur := rfl
example : typeOfE (.cond (.rel .lt (.lit (.int 1)) (.lit (.int 2))) (.bin .add (.lit (.str [97])) (.lit (.str [98]))) (.lit (.str []))) = some .str := rfl
example : typeOfE (.bin .add (.lit (.int 1)) (.lit (.uint 1))) = none := rfl

end Cel.Props.C13
