/-
  C12 — Names resolve to the longest matching binding; macro variables are scoped.

  Property theorems only.  Subject: Cel.Model.Names — `load_values` (dotted names expanded into nested
  NameContainers), `find_name`/`dict_find_name`, `resolve_name` (package loop), `Referent.value`,
  `member_dot`, macro variable binding by `nested_activation`, and the evaluators of both runners
  (`eval .I`, `eval .C`) that are corresponded with the implementation on every run.

  Quantifiers: ALL binding lists (any names over any alphabet, any length, any values, any order,
  duplicates), ALL package paths, ALL references, ALL expressions (any nesting of macros), ALL
  enclosing chains.  Hypotheses are only those the proof forces; each names a zone where the real
  code deviates (known findings) or where the property's statement is silent:

    `CleanAt bs head rest L`  (= NoValueUnderContainer, on exactly the binding that is used) the
                         binding the specification selects at level `L` — the longest bound prefix
                         of the reference — is not a proper prefix of another bound name.  Otherwise
                         its Referent holds a value AND a nested container and `Referent.value`
                         prefers the container: D19.  (`PrefixFree bs` implies it.)
    `hns`                the reference is not a pure namespace prefix (a proper prefix of bound names
                         that is not itself bound): such a reference evaluates to the NameContainer
                         object instead of an error: D66.
    `hpkg`               no binding is named like (a prefix of) the package path: the property's
                         statement says nothing about looking a name up *inside* such a binding.
-/
import Cel.Lemmas.Names
namespace Cel.Props.C12
open Cel Cel.Names

/-- **A dotted reference denotes the binding whose name is its longest bound prefix, the remaining
components being field selections; with a package `p.q` it is looked up as `p.q.a…`, then `p.a…`,
then `a…`, the first level that binds `a` winning** — for every binding list, package, reference, in
both runners (`r`), outside the two defect zones.  `hclean` is exactly the complement of the known
finding D19 (predicate `value_under_container`), `hns` of D66 (`namespace_as_value`). -/
theorem resolve_eq_denote (r : Runner) (bs : List (List String × Val)) (pkg : List String) (head : String)
    (rest : List String) (hne : NonEmptyNames bs)
    (hclean : ∀ L, L <+: pkg → CleanAt bs head rest L)
    (hpkg : ∀ b, b ∈ bs → ¬ b.1 <+: pkg)
    (hns : ∀ L, L <+: pkg → ¬ namespaceOnly bs (L ++ head :: rest)) :
    eval r pkg [loadValues [] bs] (.ref head rest) = denote bs pkg head rest :=
  resolve_eq_denote_clean r bs pkg head rest hne hclean hpkg hns

/-- in particular for binding lists in which no name is a proper prefix of another -/
theorem resolve_eq_denote_prefixFree (r : Runner) (bs : List (List String × Val)) (pkg : List String)
    (head : String) (rest : List String) (hne : NonEmptyNames bs) (hpf : PrefixFree bs)
    (hpkg : ∀ b, b ∈ bs → ¬ b.1 <+: pkg)
    (hns : ∀ L, L <+: pkg → ¬ namespaceOnly bs (L ++ head :: rest)) :
    eval r pkg [loadValues [] bs] (.ref head rest) = denote bs pkg head rest :=
  resolve_eq_denote_clean r bs pkg head rest hne (fun L _ => cleanAt_of_prefixFree hpf head rest L) hpkg hns

/-- what the code computes for EVERY binding list, both defect zones included: the walk through the
loaded containers is `specResG` — below an identifier the nested container (if a longer name exists)
wins over the value; a bound leaf is followed by field selections; a path that stops inside the
namespace is the NameContainer itself -/
theorem resolve_characterised (bs : List (List String × Val)) (p : List String) (hne : NonEmptyNames bs)
    (hp : p ≠ []) : walk (loadValues [] bs) p = specResG bs p :=
  walk_loadedG p bs hne hp

/-- the entry a binding list creates for an identifier, in closed form: the value bound to exactly that
name (the last binding wins) and, below it, the container loaded from the longer names -/
theorem loaded_entry (bs : List (List String × Val)) (h : String) :
    lookup h (loadValues [] bs) =
      if headBound bs h then some (.mk none (boundAt bs [h]) (loadValues [] (sub bs h))) else none :=
  lookup_loaded bs h

/-- D19 is real in the model: with `{a: {c: 1}, a.b: 2}` the reference `a.c` is an error, the
specification says 1 (so `CleanAt` cannot be dropped) -/
example : eval .I [] [loadValues [] [(["a"], .map [("c", .int 1)]), (["a", "b"], .int 2)]] (.ref "a" ["c"]) = none ∧
    denote [(["a"], .map [("c", .int 1)]), (["a", "b"], .int 2)] [] "a" ["c"] = some (.int 1) := by
  constructor <;> rfl

/-- … while a binding list that is not prefix-free is still covered when the binding used is a leaf:
with `{a: {b: 5}, a.b: 2}` the reference `a.b` denotes the longer name, in code and specification -/
example : eval .I [] [loadValues [] [(["a"], .map [("b", .int 5)]), (["a", "b"], .int 2)]] (.ref "a" ["b"]) = some (.int 2) ∧
    denote [(["a"], .map [("b", .int 5)]), (["a", "b"], .int 2)] [] "a" ["b"] = some (.int 2) := by
  constructor <;> rfl

/-- D66 is real in the model: with `{a.b: 2}` the reference `a` is the NameContainer object, the
specification says error (so `hns` cannot be dropped) -/
example : eval .I [] [loadValues [] [(["a", "b"], .int 2)]] (.ref "a" []) = some .ncobj ∧
    denote [(["a", "b"], .int 2)] [] "a" [] = none := by
  constructor <;> rfl

/-- the hypotheses are satisfiable, and the package levels are really tried in order -/
example : denote [(["p", "q", "a"], .int 1), (["p", "a"], .int 2), (["a"], .int 3)] ["p", "q"] "a" [] = some (.int 1) ∧
    denote [(["p", "a"], .int 2), (["a"], .int 3)] ["p", "q"] "a" [] = some (.int 2) ∧
    denote [(["a"], .int 3)] ["p", "q"] "a" [] = some (.int 3) ∧
    eval .C ["p", "q"] [loadValues [] [(["p", "a"], .int 2), (["a"], .int 3)]] (.ref "a" []) = some (.int 2) := by
  refine ⟨?_, ?_, ?_, ?_⟩ <;> rfl

/-- **Bindings passed to evaluate take precedence over declarations of the same name**: a declared,
unbound name evaluates to its annotation; once a value is loaded for it, to the value — for every
dotted name -/
theorem binding_overrides_declaration (p : List String) (a : Nat) (v : Val) (hp : p ≠ []) :
    walk (setAnn [] p a) p = some (.ann a) ∧ walk (setValue (setAnn [] p a) p v) p = some (.val v) :=
  declared_then_bound p a v hp

/-- a binding to CEL `null` is a binding like any other: it still beats the declaration -/
example : walk (setValue (setAnn [] ["a", "b"] 0) ["a", "b"] .null) ["a", "b"] = some (.val .null) :=
  (binding_overrides_declaration ["a", "b"] 0 .null (by simp)).2

/-- the same at the level of one Referent: `Referent.value` is the value when one is set, whatever the
annotation (and the nested container when there is one: the source of D19) -/
theorem referent_value (a : Option Nat) (v : Val) :
    (Node.mk a (some v) []).result = .val v ∧ ∀ k ks, (Node.mk a (some v) (k :: ks)).result = .nc (k :: ks) := by
  constructor
  · rfl
  · intro k ks; rfl

/-- **A macro's iteration variable shadows an outer variable of the same name inside the macro body
only, also when macros nest**: in both runners evaluation under any stack `env` of macro variables
(innermost first) over any enclosing chain equals the lexically scoped evaluator `evalSpec` — a
reference whose head is a macro variable means that variable (the innermost of that name) with field
selections, every other reference means what it means outside all macros (`outer`).  By induction
over all expressions: any nesting depth, any names (no package). -/
theorem macro_scope (r : Runner) (chain0 : List NC) (e : NE) (env : List (String × Val)) :
    eval r [] (envChain env ++ chain0) e = evalSpec (outer r chain0) env e :=
  eval_eq_evalSpec r chain0 e env

/-- inside the body of `c.map(x, body)` the variable is bound to the element, outside nothing changed:
the value of the macro is the list of the body's values under `x ↦ element`, evaluated over the SAME
enclosing chain -/
theorem macro_scope_map (r : Runner) (chain0 : List NC) (c body : NE) (x : String) (vs : List Val)
    (hc : eval r [] chain0 c = some (.list vs)) :
    eval r [] chain0 (.map c x body) =
      (mapOpt (fun v => evalSpec (outer r chain0) [(x, v)] body) vs).map Val.list := by
  have h1 := eval_eq_evalSpec r chain0 (.map c x body) []
  have h2 := eval_eq_evalSpec r chain0 c []
  simp only [envChain, List.map_nil, List.nil_append] at h1 h2
  rw [h1]
  rw [h2] at hc
  simp only [evalSpec, hc, bind, Option.bind]
  cases mapOpt (fun v => evalSpec (outer r chain0) [(x, v)] body) vs <;> rfl

/-- a macro variable hides an outer binding of the same name, dotted or not, at any depth: the
innermost binding of the name decides -/
theorem macro_var_shadows (r : Runner) (chain0 : List NC) (env : List (String × Val)) (x : String) (v : Val)
    (rest : List String) :
    eval r [] (envChain ((x, v) :: env) ++ chain0) (.ref x rest) = selectFields v rest := by
  rw [eval_eq_evalSpec]
  simp [evalSpec, envFind]

/-- … and a reference to any other name is not affected by the macro variable -/
theorem macro_var_local (r : Runner) (chain0 : List NC) (env : List (String × Val)) (x h : String) (v : Val)
    (rest : List String) (hx : x ≠ h) :
    eval r [] (envChain ((x, v) :: env) ++ chain0) (.ref h rest) =
      eval r [] (envChain env ++ chain0) (.ref h rest) := by
  rw [eval_eq_evalSpec, eval_eq_evalSpec]
  simp [evalSpec, envFind, hx]

/-- **both runners** resolve every expression alike (the models of the two runners bind macro
variables the same way since the D64 repair) -/
theorem both_runners_same_resolution (pkg : List String) (e : NE) (chain : List NC) :
    eval .I pkg chain e = eval .C pkg chain e :=
  runners_agree pkg e chain

end Cel.Props.C12
