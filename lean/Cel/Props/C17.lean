/-
  C17 — Custodian helper functions implement their set, CIDR, tag and ARN semantics.

  Property theorems only.  Subject: the executable model `Cel.Model.C7n` of `src/celpy/c7nlib.py`
  (tied to the source by `Cel.Bridge.C7n` for the regenerated one-line helpers / tables and by the
  correspondence harness for everything else).  Every statement is for all lists / all strings and
  patterns / all networks and addresses / all versions / all tag lists / all histories — no size bound.
  Proofs are in `Cel.Lemmas.C7n`.
-/
import Cel.Lemmas.C7n
import Cel.Bridge.C7n
namespace Cel.Props.C17
open Cel Cel.C7n

/-! ### `intersect`, `difference`, `unique_size` -/
section
variable {α : Type} [DecidableEq α]

/-- "`intersect(a, b)` is true iff the lists share an element" -/
theorem intersect_iff (a b : List α) : intersect a b = true ↔ ∃ x, x ∈ a ∧ x ∈ b :=
  C7n.intersect_iff a b

/-- "`difference(a, b)` iff some element of a is missing from b" -/
theorem difference_iff (a b : List α) : difference a b = true ↔ ∃ x, x ∈ a ∧ x ∉ b :=
  C7n.difference_iff a b

/-- "`unique_size` counts distinct elements": the length of the list with duplicates erased -/
theorem unique_size_eq (a : List α) : uniqueSize a = a.eraseDups.length :=
  C7n.unique_size_eraseDups a

/-- … equivalently the cardinality of the set of elements … -/
theorem unique_size_card (a : List α) : uniqueSize a = a.toFinset.card := C7n.unique_size_card a

/-- … equivalently the length of ANY duplicate-free list with the same elements. -/
theorem unique_size_spec (a d : List α) (hd : d.Nodup) (hm : ∀ x, x ∈ d ↔ x ∈ a) :
    uniqueSize a = d.length := C7n.unique_size_spec a d hd hm
end

/-- On CEL lists of ints and strings the helpers answer as above **unless** the operands contain both the empty
string and an int with CPython hash 0 (known finding D41, predicate `empty_string_and_hash0_int` = `collide`).
Full statement (fails on the current code): `∀ l r, intersectE l r = .ok (intersect l r)`. -/
theorem set_helpers_partial (l r : List Elem) (h : collide (l ++ r) = false) :
    intersectE l r = .ok (intersect l r) ∧ differenceE l r = .ok (difference l r) := by
  simp [intersectE, differenceE, h]
theorem unique_size_partial (c : List Elem) (h : collide c = false) : uniqueSizeE c = .ok (uniqueSize c) := by
  simp [uniqueSizeE, h]
/-- the excluded inputs really fail (the model mirrors the defect) -/
theorem set_helpers_collision (l r : List Elem) (h : collide (l ++ r) = true) :
    intersectE l r = .error .typeError ∧ differenceE l r = .error .typeError := by
  simp [intersectE, differenceE, h]
example : collide [.str [], .int 0] = true := by decide
example : collide [.str [97], .int 0, .int 1, .str [49]] = false := by decide
example : intersectE [.str [97], .int 1] [.int 1] = .ok true := by decide

/-! ### `normalize` (ASCII; Unicode case mapping is delegated to CPython) -/

/-- "`normalize` trims": the result neither starts nor ends with white space … -/
theorem normalize_trimmed (s : Str) :
    (∀ c, (normalize s).head? = some c → isSpace c = false) ∧
    (∀ c, (normalize s).getLast? = some c → isSpace c = false) := C7n.normalize_trimmed s
/-- "… and lower-cases": no upper-case ASCII letter survives, every character comes from the lower-cased input … -/
theorem normalize_lower (s : Str) : ∀ c ∈ normalize s, ¬ (65 ≤ c ∧ c ≤ 90) := C7n.normalize_lower s
theorem normalize_sub (s : Str) : ∀ c ∈ normalize s, c ∈ pyLower s := C7n.normalize_sub s
/-- … and it is idempotent. -/
theorem normalize_idem (s : Str) : normalize (normalize s) = normalize s := C7n.normalize_idem s
/-- (round 2) trimming and lower-casing commute (lower-casing neither creates nor removes white space), so the order in which
the source applies them is immaterial. -/
theorem normalize_order (s : Str) : pyLower (pyStrip s) = normalize s := C7n.pyLower_strip s
example : normalize (ofString " \t HeLlO WoRlD \n") = ofString "hello world" := by decide

/-! ### `glob` -/

/-- "`glob` follows shell-pattern matching": the matcher accepts exactly the language of the pattern, defined
inductively on the pattern text (`*` any string, `?` any character, `[seq]`/`[!seq]` a character (not) in the
set, an unclosed `[` and every other character itself).  By induction on the pattern. -/
theorem glob_correct (text pat : Str) : glob text pat = true ↔ Glob pat text := by
  simp only [glob, fnmatch, normcase, fnmatchcase]
  rw [matchItems_iff, globLang_iff_glob]

/-- the same through the item list `fnmatch.translate` produces -/
theorem glob_items (text pat : Str) : glob text pat = true ↔ GlobLang (parseGlob pat) text := by
  simp only [glob, fnmatch, normcase, fnmatchcase]
  exact matchItems_iff _ _

/-- `*` matches every string; a pattern without metacharacters matches only itself (case-sensitively). -/
theorem glob_star (text : Str) : glob text [42] = true :=
  (glob_correct text [42]).2 (by simpa using Glob.star text Glob.nil)
theorem glob_literal (text pat : Str) (h : ∀ c ∈ pat, c ≠ 42 ∧ c ≠ 63 ∧ c ≠ 91) :
    glob text pat = true ↔ text = pat := by
  rw [glob_correct]
  induction pat generalizing text with
  | nil => constructor
           · intro g; cases g; rfl
           · intro e; subst e; exact .nil
  | cons c p ih =>
    obtain ⟨h1, h2, h3⟩ := h c (by simp)
    have ihp := fun t => ih t (fun d hd => h d (by simp [hd]))
    constructor
    · intro g
      cases g with
      | star => exact absurd rfl h1
      | any => exact absurd rfl h2
      | set => exact absurd rfl h3
      | openBracket => exact absurd rfl h3
      | lit _ _ _ _ g => rw [(ihp _).1 g]
    · intro e; subst e; exact .lit c h1 h2 h3 ((ihp p).2 rfl)
/-- closed instances, evaluated through the parse equations (`parseGlob` is defined by well-founded recursion) -/
example : glob (ofString "x.py") (ofString "*.py") = true ∧ glob (ofString "x.pyc") (ofString "*.py") = false := by
  simp [glob, fnmatch, normcase, fnmatchcase, ofString, parseGlob_star, parseGlob_lit, parseGlob_nil,
    matchItems, tails]
example : glob (ofString "ABC") (ofString "abc") = false := by
  simp [glob, fnmatch, normcase, fnmatchcase, ofString, parseGlob_lit, parseGlob_nil, matchItems]
example : glob (ofString "b") (ofString "[!a]") = true ∧ glob (ofString "a") (ofString "[!a]") = false := by
  have h : scanSet [33, 97, 93] = some (true, [97], []) := by decide
  simp [glob, fnmatch, normcase, fnmatchcase, ofString, parseGlob_set _ _ _ _ h, parseGlob_nil, matchItems,
    setItems, setHas, SetItem.has]
example : glob (ofString "[") (ofString "[") = true := by
  have h : scanSet [] = none := by decide
  simp [glob, fnmatch, normcase, fnmatchcase, ofString, parseGlob_open _ h, parseGlob_nil, matchItems]

/-! ### CIDR -/

/-- the addresses of a network: the Nat interval from the network address to the broadcast address -/
def Net.mem (ip : Nat) (n : Net) : Prop := n.addr ≤ ip ∧ ip ≤ n.bcast

/-- what `IPv4Network(text)` (strict) yields is well formed, with the prefix length of the text -/
theorem mkNet_wf (a l : Nat) (n : Net) (h : mkNet a l = some n) : n.WF ∧ n.addr = a ∧ n.len = l := by
  unfold mkNet at h
  split at h
  · cases h; rename_i hc; exact ⟨⟨hc.1, hc.2.1, hc.2.2⟩, rfl, rfl⟩
  · cases h

/-- the broadcast address of a well-formed network ends its aligned block of `2^(32-len)` addresses -/
theorem bcast_eq (n : Net) : n.bcast = n.addr + 2 ^ (32 - n.len) - 1 := by
  have := n.size_pos
  simp only [Net.bcast, Net.hostmask, Net.size] at *; omega

/-- "`parse_cidr(n).contains(parse_cidr(x))` holds iff the … address x lies inside network n" -/
theorem addr_contains_iff (n : Net) (h : n.WF) (ip : Nat) :
    contains n (.addr4 ip) = true ↔ Net.mem ip n := addrIn_iff n h ip

/-- "… iff the … network x lies inside network n": `supernet_of` holds iff every address of x is an address of n -/
theorem cidr_contains_iff (n x : Net) :
    contains n (.net x) = true ↔ ∀ ip, Net.mem ip x → Net.mem ip n := C7n.cidr_contains_iff n x

/-- the arithmetic of the model is the bit arithmetic `ipaddress` performs: `ip & netmask == network_address`
with `netmask = 2^32 - 2^(32-len)`, and `broadcast = network | hostmask` -/
theorem addr_contains_bitmask (n : Net) (hn : n.len ≤ 32) (ip : Nat) (hip : ip < 2 ^ 32) :
    contains n (.addr4 ip) = (ip &&& (2 ^ 32 - 2 ^ (32 - n.len)) == n.addr) := by
  simp only [contains, addrIn, Net.size, and_netmask ip (32 - n.len) hip (by omega)]
theorem bcast_bitor (n : Net) (h : n.WF) : n.bcast = n.addr ||| n.hostmask := (or_hostmask n h).symm

/-- an unparsable operand (`None`) and an IPv6 address are never contained -/
theorem contains_none (n : Net) : contains n .none = false ∧ contains n .addr6 = false := ⟨rfl, rfl⟩

/-- power-of-two alignment: two well-formed networks are nested or disjoint … -/
theorem nested_or_disjoint (n x : Net) (hn : n.WF) (hx : x.WF) (hl : n.len ≤ x.len) :
    contains n (.net x) = true ∨ x.bcast < n.addr ∨ n.bcast < x.addr := C7n.nested_or_disjoint n x hn hx hl

/-- … so containment is "shorter prefix and x's network address inside n" (the routing-table formulation) -/
theorem cidr_contains_iff_prefix (n x : Net) (hn : n.WF) (hx : x.WF) :
    contains n (.net x) = true ↔ n.len ≤ x.len ∧ Net.mem x.addr n := by
  rw [show contains n (.net x) = supernetOf n x from rfl, supernet_iff_prefix n x hn hx, addrIn_iff n hn]
  rfl

/-- "`size_parse_cidr` is the prefix length" (and null for anything that is not a network) -/
theorem size_is_prefixlen (a l : Nat) (n : Net) (h : mkNet a l = some n) : sizeParseCidr (.net n) = some l := by
  simp [sizeParseCidr, (mkNet_wf a l n h).2.2]
theorem size_not_network : sizeParseCidr .none = none ∧ sizeParseCidr .addr6 = none ∧
    ∀ ip, sizeParseCidr (.addr4 ip) = none := ⟨rfl, rfl, fun _ => rfl⟩


/-- (round 2) "lies inside" is a partial order on well-formed networks: reflexive, transitive (also down to a single
address), antisymmetric … -/
theorem contains_partial_order :
    (∀ n : Net, contains n (.net n) = true) ∧
    (∀ a b c : Net, contains a (.net b) = true → contains b (.net c) = true → contains a (.net c) = true) ∧
    (∀ a b : Net, a.WF → b.WF → ∀ ip, contains a (.net b) = true → contains b (.addr4 ip) = true →
        contains a (.addr4 ip) = true) ∧
    (∀ a b : Net, a.WF → b.WF → contains a (.net b) = true → contains b (.net a) = true → a = b) :=
  ⟨contains_refl, contains_trans, fun a b ha hb ip => contains_trans_addr a b ha hb ip, contains_antisymm⟩

/-- … with the boundary prefix lengths: `0.0.0.0/0` (the "anywhere" CIDR, prefix length 0) contains every IPv4 address
and every network, and its size is 0, not null … -/
theorem default_route (x : Net) (hx : x.WF) (ip : Nat) (hip : ip < 2 ^ 32) :
    contains ⟨0, 0⟩ (.net x) = true ∧ contains ⟨0, 0⟩ (.addr4 ip) = true ∧ sizeParseCidr (.net ⟨0, 0⟩) = some 0 :=
  ⟨(default_route_contains x hx ip hip).1, (default_route_contains x hx ip hip).2, rfl⟩

/-- … and a `/32` network contains exactly its own address and, among networks, only itself. -/
theorem host_route (n : Net) (hn : n.WF) (h32 : n.len = 32) :
    (∀ ip, contains n (.addr4 ip) = true ↔ ip = n.addr) ∧
    (∀ x : Net, x.WF → contains n (.net x) = true → x = n) :=
  ⟨host_route_addr n hn h32, fun x hx h => host_route_net n x hn hx h32 h⟩

/-- (round 2) the decision `size_parse_cidr` makes, as regenerated from the source (guard clauses / if-else / conditional
expression over the truth value and class of the parsed value), never raises and returns the prefix length exactly for
networks — `Cel.Bridge.c7n_size_eq` restated for the values `parse_cidr` can return. -/
theorem size_source (a l : Nat) (n : Net) (h : mkNet a l = some n) :
    Gen.C7n.size_parse_cidr (.net n) = .ok (some l) ∧ Gen.C7n.size_parse_cidr .none = .ok none ∧
    Gen.C7n.size_parse_cidr .addr6 = .ok none ∧ ∀ ip, Gen.C7n.size_parse_cidr (.addr4 ip) = .ok none := by
  refine ⟨?_, ?_, ?_, fun ip => ?_⟩ <;> rw [Cel.Bridge.c7n_size_eq]
  · rw [size_is_prefixlen a l n h]
  all_goals rfl

example : mkNet 0x0A000000 8 = some ⟨0x0A000000, 8⟩ ∧ mkNet 0x0A000001 8 = none ∧ mkNet 0 33 = none := by decide
example : contains ⟨0x0A000000, 8⟩ (.net ⟨0x0A800000, 9⟩) = true ∧ contains ⟨0x0A000000, 8⟩ (.net ⟨0x0A000000, 7⟩) = false ∧
    contains ⟨0, 0⟩ (.addr4 0xFFFFFFFF) = true ∧ contains ⟨0x0A000000, 8⟩ (.addr4 0x0B000000) = false := by decide

/-! ### versions -/

/-- "`version(a) < version(b)` follows numeric component order": `<` on version keys is a strict total order … -/
theorem version_order :
    (∀ a, vlt a a = false) ∧
    (∀ a b c, vlt a b = true → vlt b c = true → vlt a c = true) ∧
    (∀ a b, vlt a b = true ∨ veq a b = true ∨ vlt b a = true) ∧
    (∀ a b, vlt a b = true → veq a b = false ∧ vlt b a = false) := by
  refine ⟨fun a => lexLt_irrefl _, fun a b c => lexLt_trans, ?_, ?_⟩
  · intro a b
    rcases lexLt_trichotomy (vkey a) (vkey b) with h | h | h
    · exact Or.inl h
    · right; left; simp [veq, h]
    · right; right; exact h
  · intro a b h
    refine ⟨?_, lexLt_asymm h⟩
    cases hq : veq a b with
    | false => rfl
    | true =>
      simp only [veq, beq_iff_eq] at hq
      simp only [vlt, hq, lexLt_irrefl] at h; cases h

/-- … that compares components as numbers: 1.10 > 1.9, 2.7.18 < 2.8 … -/
theorem version_numeric : vlt [1, 9] [1, 10] = true ∧ vgt [1, 10] [1, 9] = true ∧ vlt [1, 10] [1, 9] = false ∧
    vlt [2, 7, 18] [2, 8] = true := by decide

/-- … it is the lexicographic order of the zero-padded release tuples (trailing zeros are insignificant) … -/
theorem version_lt_padded (a b : List Nat) (n : Nat) (ha : a.length ≤ n) (hb : b.length ≤ n) :
    vlt a b = lexLt (padTo n a) (padTo n b) := lexLt_strip_pad a b n ha hb
theorem version_eq_padded (a b : List Nat) (n : Nat) (ha : a.length ≤ n) (hb : b.length ≤ n) :
    veq a b = true ↔ padTo n a = padTo n b := by
  simp only [veq, vkey, beq_iff_eq]; exact stripZeros_pad a b n ha hb
theorem version_trailing_zero (a : List Nat) : veq (a ++ [0]) a = true := by
  rw [version_eq_padded (a ++ [0]) a (a.length + 1) (by simp) (by simp)]
  simp [padTo]

theorem veq_comm (a b : List Nat) : veq a b = veq b a := by
  unfold veq
  by_cases h : vkey a = vkey b
  · simp [h]
  · have h' : ¬ vkey b = vkey a := fun e => h e.symm
    simp [h, h']

/-- … and `<=`, `>`, `>=`, `!=` are derived from `<` and `==` the usual way. -/
theorem version_ops (a b : List Nat) :
    vle a b = !vlt b a ∧ vge a b = !vlt a b ∧ vgt a b = vlt b a ∧ vne a b = !veq a b := by
  refine ⟨?_, ?_, rfl, rfl⟩
  · rcases version_order.2.2.1 a b with h | h | h
    · have := (version_order.2.2.2 a b h); simp [vle, h, this.2]
    · have e : vkey a = vkey b := by simpa [veq] using h
      simp [vle, h, vlt, e, lexLt_irrefl]
    · have := (version_order.2.2.2 b a h)
      have e : veq a b = false := by rw [veq_comm]; exact this.1
      simp [vle, h, this.2, e]
  · rcases version_order.2.2.1 b a with h | h | h
    · have := (version_order.2.2.2 b a h); simp [vge, vle, h, this.2]
    · have e : vkey b = vkey a := by simpa [veq] using h
      simp [vge, vle, h, vlt, e, lexLt_irrefl]
    · have := (version_order.2.2.2 a b h)
      have e : veq b a = false := by rw [veq_comm]; exact this.1
      simp [vge, vle, h, this.2, e]

/-! ### `key`, `marked_key`, `arn_split` -/

/-- "`key(tags, k)` returns the Value of the first tag whose Key is k": tags before it have other keys
(tags after it are not even looked at — they may be malformed) … -/
theorem key_first_match {V : Type} (pre : List (Tag V)) (t : Tag V) (post : List (Tag V)) (k : Str) (v : V)
    (hpre : ∀ u ∈ pre, ∃ k', u.key = some k' ∧ k' ≠ k) (hk : t.key = some k) (hv : t.value = some v) :
    key (pre ++ t :: post) k = .ok (some v) := C7n.key_first_match pre t post k v hpre hk hv

/-- "… or null" when no tag has that Key … -/
theorem key_absent {V : Type} (tags : List (Tag V)) (k : Str)
    (h : ∀ u ∈ tags, ∃ k', u.key = some k' ∧ k' ≠ k) : key tags k = .ok none := C7n.key_absent tags k h

/-- … in one formula, on well-formed tag lists (every tag has a Key and a Value). -/
theorem key_eq_find {V : Type} (tags : List (Tag V)) (k : Str) (h : ∀ u ∈ tags, u.key.isSome ∧ u.value.isSome) :
    key tags k = .ok ((tags.find? (fun u => u.key == some k)).bind (·.value)) := C7n.key_eq_find tags k h

/-- "`marked_key` decomposes `message:action@date`", under the explicit well-formedness hypothesis: no `:` in the
action or the date, no `@` in the action (the message may contain both).  White space around `action@date` is
stripped. -/
theorem marked_key_decompose (m a d : Str) (h1 : 58 ∉ a) (h2 : 58 ∉ d) (h3 : 64 ∉ a) :
    markedSplit (m ++ 58 :: (a ++ 64 :: d)) = some (m, lstrip a, rstrip d) := marked_split m a d h1 h2 h3

/-- … applied to the Value `key` finds … -/
theorem marked_key_of_key (tags : List (Tag Str)) (k v : Str) (h : key tags k = .ok (some v)) :
    markedKey tags k = .ok (markedSplit v) := by simp [markedKey, h]
/-- … and null when the key is absent or the value has no `:` or no `@` after the last `:`. -/
theorem marked_key_null (tags : List (Tag Str)) (k : Str) (h : key tags k = .ok none) :
    markedKey tags k = .ok none := by simp [markedKey, h]
/-- (round 2) the converse directions: a value returned by `key` IS the Value of the first tag whose Key is k, and a null
means no tag has that Key (so, with `key_first_match`/`key_absent`, the characterisation is an equivalence) … -/
theorem key_result_sound {V : Type} (tags : List (Tag V)) (k : Str) :
    (∀ v, key tags k = .ok (some v) →
      ∃ pre t post, tags = pre ++ t :: post ∧ (∀ u ∈ pre, ∃ k', u.key = some k' ∧ k' ≠ k) ∧
        t.key = some k ∧ t.value = some v) ∧
    (key tags k = .ok none → ∀ u ∈ tags, ∃ k', u.key = some k' ∧ k' ≠ k) :=
  ⟨fun v h => key_some_sound tags k v h, key_none_sound tags k⟩

/-- … which holds of the function regenerated from the source text of `key` (for loop with early return or generator +
`next()`), on string-valued tags: `Cel.Bridge.c7n_key_eq` composed with `key_first_match`. -/
theorem key_source_first_match (pre : List (Tag Str)) (t : Tag Str) (post : List (Tag Str)) (k v : Str)
    (hpre : ∀ u ∈ pre, ∃ k', u.key = some k' ∧ k' ≠ k) (hk : t.key = some k) (hv : t.value = some v) :
    Gen.C7n.key (pre ++ t :: post) k = .ok (some v) := by
  rw [Cel.Bridge.c7n_key_eq]; exact C7n.key_first_match pre t post k v hpre hk hv

/-- (round 2) converse of `marked_key_decompose`: every non-null result `(message, action, date)` comes from a value
`message ++ ":" ++ target` where the target holds no further `:` (the message ends at the LAST colon), and the stripped
target is `action ++ "@" ++ date` with no `@` in the action (the action ends at the FIRST `@`). -/
theorem marked_key_sound (v m a d : Str) (h : markedSplit v = some (m, a, d)) :
    ∃ tgt, v = m ++ 58 :: tgt ∧ 58 ∉ tgt ∧ pyStrip tgt = a ++ 64 :: d ∧ 64 ∉ a := marked_split_sound v m a d h
theorem marked_no_colon (v : Str) (h : 58 ∉ v) : markedSplit v = none := by
  have : splitLast 58 v = none := by
    simp [splitLast, splitFirst_none 58 v.reverse (by simpa using h)]
  simp [markedSplit, this]
example : markedSplit (ofString "hello:stop@2020-09-10") =
    some (ofString "hello", ofString "stop", ofString "2020-09-10") := by decide
example : markedSplit (ofString "nope:") = none := by decide

/-- "`arn_split` returns the named ARN field": for both documented shapes (5 and 6 fields after `arn`), any field
texts without `:`, and every field name of that shape. -/
theorem arn_fields (fields names : List Str) (hnames : names ∈ arnFieldNames)
    (hlen : fields.length = names.length) (hcolon : ∀ f ∈ fields, 58 ∉ f) (i : Nat) (hi : i < names.length) :
    arnSplit (joinColon (ofString "arn" :: fields)) names[i] = .ok (fields[i]'(hlen ▸ hi)) :=
  C7n.arn_fields fields names hnames hlen hcolon i hi
example : arnSplit (ofString "arn:p:s:r:a:t/x") (ofString "resource-id") = .ok (ofString "t/x") := by decide
example : arnSplit (ofString "arn:p:s:r:a:t:x") (ofString "resource-type") = .ok (ofString "t") := by decide

/-! ### the filter context -/

/-- "The filter context installed for an evaluation … is cleared afterwards, also when the evaluation fails":
whatever the body does (nested contexts included) and whichever way it ends (`raised` = an exception
propagates), the global is `None` after the `with` block … -/
theorem context_cleared (f : Nat) (body : List Ev) (s : St) (raised : Bool) (s' : St)
    (h : runEv (.ctx f body) s = (raised, s')) : s'.c7n = none := by
  have := ctx_cleared f body s; rw [h] at this; exact this

/-- … the exception is not swallowed … -/
theorem context_propagates (f : Nat) (body : List Ev) (s : St) :
    (runEv (.ctx f body) s).1 = (runEvs body { s with c7n := some f }).1 := ctx_propagates f body s

/-- "… is visible to these functions during that evaluation": every observation made inside (before a possible
failure; bodies without a nested context) sees exactly this filter. -/
theorem context_visible (f : Nat) (body : List Ev) (h : plains body = true) (s : St) :
    runEv (.ctx f body) s = ((obsEs body).2, ⟨none, s.log ++ List.replicate (obsEs body).1 (some f)⟩) :=
  ctx_visible f body h s

/-- both outcomes exist -/
example : runEv (.ctx 7 [.obs]) ⟨none, []⟩ = (false, ⟨none, [some 7]⟩) := by decide
example : runEv (.ctx 7 [.obs, .fail, .obs]) ⟨none, []⟩ = (true, ⟨none, [some 7]⟩) := by decide

/-- All histories: any sequence of observations and (caught) evaluations, each evaluation with an arbitrary body
and either outcome, started with the global unset, ends with the global unset and no exception pending … -/
theorem history_cleared (h : List HItem) (s : St) (hs : s.c7n = none) :
    (runEvs (h.map HItem.toEv) s).1 = false ∧ (runEvs (h.map HItem.toEv) s).2.c7n = none :=
  C7n.history_cleared h s hs

/-- … and what is observed is: `None` between evaluations, the evaluation's own filter inside it. -/
theorem history_log (h : List HItem) (hp : ∀ i ∈ h, ∀ f b, i = .eval f b → plains b = true) (s : St)
    (hs : s.c7n = none) :
    (runEvs (h.map HItem.toEv) s).2.log = s.log ++ h.flatMap HItem.expected := C7n.history_log h hp s hs

end Cel.Props.C17
