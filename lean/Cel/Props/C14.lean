/-
  C14 — Host functions bind uniformly as functions or methods and override built-ins.

  Property theorems only.  Subject: `Cel.Model.Funcs` — `chainOf`/`chainGet?` (Activation.functions =
  ChainMap(local, base_functions)), `functionEval`/`methodEval` (Evaluator.function_eval / method_eval), `callC`
  (Phase1Transpiler.func_name + host_function), the interpreter `evalI` and the transpiled-program denotation `evalC`
  over the fragment {literal, macro variable, f(a…), a.f(…), ||, &&, !, ?:, +, <, all, exists, map}; every evaluation
  returns the value TOGETHER WITH THE CALL LOG (which host function was applied to which arguments, in order).
  The handler classes, the chain order, the absence of writes to base_functions, the erroneous-argument checks and the
  shape of func_name are regenerated from the source and bridged in `Cel.Bridge.Funcs`.

  All statements quantify over every expression of the fragment, every environment, every table of host functions
  (arbitrary functions `List Val → HostRes`), every history of programs.
-/
import Cel.Lemmas.Funcs
import Cel.Props.C02
namespace Cel.Props.C14
open Cel Cel.Funcs

/-! ### "… whether written `f(a, b)` or `a.f(b)` …" -/

/-- **Interpreter: `f(a, as…)` and `a.f(as…)` are the same evaluation** — same value, same escaping exception, same
call log — for every function table (bound, unbound, raising, returning errors), every receiver and argument list.
The two sides run different code (`ident_arg` + `function_eval` looping over the values vs. the `exprlist` rule +
`method_eval` checking receiver then exprlist). -/
theorem call_syntax_uniform (cx : Ctx) (env : List Val) (f : String) (a : Expr) (as : List Expr) :
    evalI cx env (.call f (a :: as)) = evalI cx env (.method a f as) := by
  simp only [evalI, evalIs, Out.bind_assoc, Out.pure_bind, functionEval_cons]

/-- **Transpiled program: the same**, value and call log. -/
theorem call_syntax_uniform_compiled (cx : Ctx) (env : List Val) (f : String) (a : Expr) (as : List Expr) :
    evalC cx env (.call f (a :: as)) = evalC cx env (.method a f as) := by
  simp only [evalC, evalCs, Out.bind_assoc, Out.pure_bind]

/-! ### "… invoked with the evaluated CEL arguments, once per call site reached …" -/

/-- **The interpreter's evaluation = (value, reached call sites)**, for ALL expressions of the fragment (induction over
the expression, any nesting, any list length): the value is `den` — a function of the expression alone, computed
without any log — and the call log is `sites`: the concatenation, in evaluation order, of one entry per *reached* call
site carrying the evaluated arguments (`callSite`), where "reached" is: both operands of `||`, `&&`, `+`, `<`, every
argument of a call, the condition and ONLY the selected branch of `?:`, the body of `all`/`exists` once per element,
the body of `map` once per element up to the first erroneous one.
`Tame`: no host function raises a class that `function_eval` does not convert (none is left with `except Exception`,
see `tame_default`). -/
theorem once_per_reached_site {cx : Ctx} (ht : Tame cx) (e : Expr) (env : List Val) :
    evalI cx env e = (.ok (den cx env e), sites cx env e) :=
  evalI_spec ht e env

/-- with the handler list the source has now (`except Exception` included) every function table is tame -/
theorem tame_default (fns : String → Option Fn) : Tame { fns := fns } := by
  intro f fn vs e _ _
  simp [catches]

/-- A reached call site of a bound function whose arguments evaluate to values contributes EXACTLY ONE log entry:
the function's name with the evaluated arguments — after the entries of its arguments. -/
theorem site_applied_once {cx : Ctx} (env : List Val) (f : String) (fn : Fn) (args : List Expr)
    (hf : cx.fns f = some fn) (hh : fn.host = true) (hargs : firstErr (dens cx env args) = false) :
    sites cx env (.call f args) = sitess cx env args ++ [(f, dens cx env args)] := by
  simp [sites, callSite, hf, hargs, Fn.logOf, hh]

/-- A call site with an erroneous argument is NOT applied (no entry), its arguments are still all evaluated. -/
theorem site_not_applied_on_error (cx : Ctx) (env : List Val) (f : String) (args : List Expr)
    (hargs : firstErr (dens cx env args) = true) :
    sites cx env (.call f args) = sitess cx env args ∧ den cx env (.call f args) = .err := by
  constructor
  · simp only [sites, callSite]; cases cx.fns f <;> simp [hargs]
  · simp only [den]; exact denCall_firstErr cx f hargs

/-- `?:` is lazy: with a true (false) condition the call sites of the other branch are not reached. -/
theorem cond_lazy_sites (cx : Ctx) (env : List Val) (c x y : Expr) :
    (den cx env c = .bool true → sites cx env (.cond c x y) = sites cx env c ++ sites cx env x ∧
        den cx env (.cond c x y) = den cx env x) ∧
    (den cx env c = .bool false → sites cx env (.cond c x y) = sites cx env c ++ sites cx env y ∧
        den cx env (.cond c x y) = den cx env y) := by
  constructor <;> intro h <;> simp [sites, den, h, Val.truthy, condT, condV, catchAs, total]

/-- `||` and `&&` reach both operands, whatever their values. -/
theorem logic_eager_sites (cx : Ctx) (env : List Val) (a b : Expr) :
    sites cx env (.or a b) = sites cx env a ++ sites cx env b ∧
    sites cx env (.and a b) = sites cx env a ++ sites cx env b := ⟨rfl, rfl⟩

/-- the body of `all` / `exists` is reached once per element of the list, in order, with the element bound -/
theorem macro_sites_per_element (cx : Ctx) (env : List Val) (src body : Expr) (vs : List Val)
    (h : den cx env src = .list vs) :
    sites cx env (.all src body) = sites cx env src ++ allSites (fun v => sites cx (v :: env) body) vs ∧
    sites cx env (.exists_ src body) = sites cx env src ++ allSites (fun v => sites cx (v :: env) body) vs := by
  simp [sites, h]

/-! ### "… whether supplied as a list of callables or a name-to-callable mapping …" -/

/-- **A list of callables with distinct `__name__`s binds exactly like the mapping `{f.__name__: f}`**: the activation's
function chain is the same, hence (next theorem) every evaluation. -/
theorem list_vs_dict_binding (base : FMap) (fs : List Callable) (ps : List (String × Callable))
    (hn : named fs = some ps) (hd : (ps.map (·.1)).Nodup) :
    chainOf base (.list fs) = chainOf base (.dict ps) := by
  have := localOfList_nodup fs ps [] hn (by simpa [FMap.keys] using hd)
  simp [chainOf, this, bind, Except.bind]

theorem list_vs_dict_evaluation (w : World) (fs : List Callable) (ps : List (String × Callable)) (compiled : Bool) (e : Expr)
    (hn : named fs = some ps) (hd : (ps.map (·.1)).Nodup) :
    (w.evaluate ⟨compiled, .list fs, e⟩).2 = (w.evaluate ⟨compiled, .dict ps, e⟩).2 := by
  simp [World.evaluate, list_vs_dict_binding w.base fs ps hn hd]

/-- with duplicate names the LAST callable of that name wins (dict comprehension), like a dict literal -/
theorem list_binding_last_wins (f g : Callable) (n : String) (hf : f.pyName = some n) (hg : g.pyName = some n) :
    localOfList [f, g] [] = .ok [(n, g)] := by
  simp [localOfList, hf, hg, FMap.set]

/-- a callable without `__name__` cannot be supplied in a list: building the activation raises AttributeError -/
theorem list_binding_needs_name (base : FMap) (f : Callable) (fs gs : List Callable) (ps : List (String × Callable))
    (hf : f.pyName = none) (hn : named fs = some ps) :
    chainOf base (.list (fs ++ f :: gs)) = .error .attributeError := by
  have key : ∀ (fs : List Callable) (ps : List (String × Callable)) (acc : FMap), named fs = some ps →
      localOfList (fs ++ f :: gs) acc = .error .attributeError := by
    intro fs
    induction fs with
    | nil => intro ps acc _; simp [localOfList, hf]
    | cons h t ih =>
      intro ps acc hn
      simp only [named] at hn
      cases hp : h.pyName with
      | none => simp [hp] at hn
      | some n =>
        cases hr : named t with
        | none => simp [hp, hr] at hn
        | some qs => simp [localOfList, hp, ih qs _ hr]
  simp [chainOf, key fs ps [] hn, bind, Except.bind]

/-! ### "… a supplied function named like a built-in replaces that built-in for this program only" -/

/-- a locally supplied name shadows the built-in of that name; every other name still reaches `base_functions` -/
theorem override_shadows (l base : FMap) (n : String) :
    chainGet? [l, base] n = (match l.get? n with | some c => some c | none => base.get? n) := by
  simp only [chainGet?]
  cases l.get? n <;> simp
  cases base.get? n <;> rfl

/-- **`base_functions` is never written**: after any history of programs (any runners, any supplied functions, any
expressions) the world is the one we started with. -/
theorem base_unchanged (w : World) (ps : List Program) : (w.run ps).1 = w := by
  induction ps generalizing w with
  | nil => rfl
  | cons p ps ih => simp [World.run, World.evaluate, ih]

/-- **override_local: the functions of program p₁ never affect program p₂.**  In any history the outcome of each
program is the outcome it has when evaluated alone in the initial world. -/
theorem override_local (w : World) (ps : List Program) :
    (w.run ps).2 = ps.map (fun p => (w.evaluate p).2) := by
  induction ps generalizing w with
  | nil => rfl
  | cons p ps ih =>
    have hw : (w.evaluate p).1 = w := rfl
    simp [World.run, ih, hw]

/-- in particular: a program that does not supply `size` gets the built-in, whatever was evaluated before it -/
theorem override_local_size (before : List Program) (compiled : Bool) (e : Expr) :
    ((World.mk baseFns).run (before ++ [⟨compiled, .none, e⟩])).2.getLast? =
      some ((World.mk baseFns).evaluate ⟨compiled, .none, e⟩).2 := by
  simp [override_local]

/-! ### "… calling a name bound to no function is an evaluation error" -/

/-- **Interpreter**: an unbound name is the error value — nothing is applied for it (its arguments are evaluated). -/
theorem unbound_is_error {cx : Ctx} (ht : Tame cx) (env : List Val) (f : String) (args : List Expr)
    (hf : cx.fns f = none) :
    evalI cx env (.call f args) = (.ok .err, sitess cx env args) := by
  rw [evalI_spec ht]
  simp [den, sites, denCall, callSite, hf]

/-- **Transpiled program**: `CELEvalError('unbound function', …)(args)` — the error object, or an exception raised by
an argument; under the top-level `result()` in any case an evaluation error. -/
theorem unbound_is_error_compiled (cx : Ctx) (f : String) (args : List Expr) (hf : cx.fns f = none) :
    (Funcs.runC cx (.call f args)).1 = .ok .err := by
  unfold Funcs.runC
  simp only [evalC]
  obtain ⟨r, l⟩ := evalCs cx [] args
  cases r with
  | error e =>
    simp only [Out.bind_error, resultC]
    by_cases h : catches cx.resultCaught e = true <;> simp [h]
  | ok vs => simp [callC, hf, Out.pure, resultC]

/-! ### "A CELEvalError returned by the function (or a ValueError/TypeError it raises) behaves as an evaluation error of
that sub-expression — absorbed by `||`, `&&`, `?:` exactly like a built-in error" -/

/-- the configuration converts the classes C14 names (true of the source: `Bridge.Funcs.call_handlers`) -/
def Converts (cx : Ctx) : Prop :=
  catches cx.callCaught .valueError = true ∧ catches cx.callCaught .typeError = true

/-- **The site is the error value** when the function returns a CELEvalError or raises ValueError / TypeError —
and the function WAS applied (one log entry). -/
theorem host_error_is_site_error {cx : Ctx} (ht : Tame cx) (hc : Converts cx) (env : List Val) (f : String) (fn : Fn)
    (args : List Expr) (hf : cx.fns f = some fn) (hargs : firstErr (dens cx env args) = false)
    (hres : fn.fn (dens cx env args) = .ret .err ∨ fn.fn (dens cx env args) = .raise .valueError ∨
            fn.fn (dens cx env args) = .raise .typeError) :
    evalI cx env (.call f args) = (.ok .err, sitess cx env args ++ fn.logOf f (dens cx env args)) := by
  have _ := hc
  rw [evalI_spec ht]
  simp only [den, sites, denCall, callSite, hf, hargs, applyV]
  rcases hres with h | h | h <;> simp [h]

/-- raising ValueError/TypeError is converted even by a configuration that catches nothing else (the hypothesis
`Tame` of the previous theorem is then exactly "raises only those") -/
theorem host_raise_converted (cx : Ctx) (hc : Converts cx) (fn : HostFn) (vs : List Val)
    (h : fn vs = .raise .valueError ∨ fn vs = .raise .typeError) : applyI cx fn vs = .ok .err := by
  rcases h with h | h <;> simp [applyI, h, hc.1, hc.2]

/-- **C02 applies.**  Seen through C02's outcome classes (`cls`: true / false / error / other), `||`, `&&`, `!`, `?:` of
this model ARE the operators of `Cel.Model.Logic` about which C02's theorems speak. -/
theorem logic_is_C02 (x y c : Val) :
    clsM (catchAs [.typeError] (orV x y)) = catchTE (lor (cls x) (cls y)) ∧
    clsM (catchAs [.typeError] (andV x y)) = catchTE (land (cls x) (cls y)) ∧
    clsM (notV x) = lnot (cls x) ∧
    clsM (catchAs [.typeError] (condV c x y)) = catchTE (lcond (cls c) (cls x) (cls y)) := by
  refine ⟨?_, ?_, notV_cls x, ?_⟩
  · rw [catchAs_cls, orV_cls]
  · rw [catchAs_cls, andV_cls]
  · rw [catchAs_cls, condV_cls]

/-- **Absorption, `||`**: an erroneous site `s` (for instance a host call as in `host_error_is_site_error`) next to an
operand that evaluates to `true` gives `true`, on either side; next to `false` or another error it is the error —
C02's `or_table` transported to this model. -/
theorem host_error_absorbed_or {cx : Ctx} (ht : Tame cx) (env : List Val) (s b : Expr)
    (hs : den cx env s = .err) (hb : (cls (den cx env b)).is3 = true) :
    cls (evalI cx env (.or s b)).1.toOption.get! = kor .e (cls (den cx env b)) ∧
    cls (evalI cx env (.or b s)).1.toOption.get! = kor (cls (den cx env b)) .e := by
  rw [evalI_spec ht, evalI_spec ht]
  simp only [den, hs, Except.toOption, Option.get!]
  have h1 := (logic_is_C02 .err (den cx env b) .err).1
  have h2 := (logic_is_C02 (den cx env b) .err .err).1
  rw [orI_ok] at h1 h2
  simp only [clsM, cls_err] at h1 h2
  rw [C02.or_table .e _ rfl hb] at h1
  rw [C02.or_table _ .e hb rfl] at h2
  simp only [Except.ok.injEq] at h1 h2
  exact ⟨h1, h2⟩

/-- the same for `&&` -/
theorem host_error_absorbed_and {cx : Ctx} (ht : Tame cx) (env : List Val) (s b : Expr)
    (hs : den cx env s = .err) (hb : (cls (den cx env b)).is3 = true) :
    cls (evalI cx env (.and s b)).1.toOption.get! = kand .e (cls (den cx env b)) ∧
    cls (evalI cx env (.and b s)).1.toOption.get! = kand (cls (den cx env b)) .e := by
  rw [evalI_spec ht, evalI_spec ht]
  simp only [den, hs, Except.toOption, Option.get!]
  have h1 := (logic_is_C02 .err (den cx env b) .err).2.1
  have h2 := (logic_is_C02 (den cx env b) .err .err).2.1
  rw [andI_ok] at h1 h2
  simp only [clsM, cls_err] at h1 h2
  rw [C02.and_table .e _ rfl hb] at h1
  rw [C02.and_table _ .e hb rfl] at h2
  simp only [Except.ok.injEq] at h1 h2
  exact ⟨h1, h2⟩

/-- concretely: `s || true = true = true || s`, `s && false = false = false && s` with value AND with both sites reached -/
theorem host_error_absorbed_decided {cx : Ctx} (ht : Tame cx) (env : List Val) (s : Expr) (hs : den cx env s = .err) :
    (evalI cx env (.or s (.lit (.bool true)))).1 = .ok (.bool true) ∧
    (evalI cx env (.or (.lit (.bool true)) s)).1 = .ok (.bool true) ∧
    (evalI cx env (.and s (.lit (.bool false)))).1 = .ok (.bool false) ∧
    (evalI cx env (.and (.lit (.bool false)) s)).1 = .ok (.bool false) := by
  simp only [evalI_spec ht, den, hs]
  exact ⟨rfl, rfl, rfl, rfl⟩

/-- **`?:`**: an erroneous site in the branch that is not selected is ignored (not even evaluated); as the condition,
or as the selected branch, it is the result. -/
theorem host_error_absorbed_cond {cx : Ctx} (ht : Tame cx) (env : List Val) (s x y : Expr) (hs : den cx env s = .err) :
    evalI cx env (.cond (.lit (.bool true)) x s) = evalI cx env x ∧
    evalI cx env (.cond (.lit (.bool false)) s y) = evalI cx env y ∧
    (evalI cx env (.cond s x y)).1 = .ok .err ∧
    (evalI cx env (.cond (.lit (.bool true)) s y)).1 = .ok .err := by
  simp only [evalI_spec ht, den, sites, hs, Val.truthy]
  refine ⟨?_, ?_, rfl, rfl⟩ <;> simp [condT, condV, catchAs, total]

/-! ### both runner classes -/

/-- decidable `FunsOk`: which callable kinds `func_name` can leave to the activation.  A supplied callable whose
`module.qualname` text denotes it in celpy.evaluation's globals (`evalVisible`, e.g. the functions of `celpy.c7nlib`)
is named by dotted text and applied WITHOUT the erroneous-argument check (finding D43); every other kind — module-level
def of the application, `__main__`, nested def, lambda, callable object, bound method, partial — goes through
`host_function`. -/
def kindsOk (l : FMap) : Bool := l.all (fun p => p.2.kind != .evalVisible)

theorem sizeFn_errStrict : ErrStrict sizeFn := by
  intro vs h
  rcases vs with _ | ⟨v, _ | ⟨w, t⟩⟩
  · simp [firstErr] at h
  · cases v <;> simp_all [firstErr, Val.isErr, sizeFn]
  · cases v <;> simp [sizeFn]

theorem containsFn_errStrict : ErrStrict containsFn := by
  intro vs h
  rcases vs with _ | ⟨c, _ | ⟨v, _ | ⟨w, t⟩⟩⟩
  · simp [firstErr] at h
  · simp [containsFn]
  · simp only [firstErr, Bool.or_false] at h
    left
    simp only [containsFn]
    cases hc : c.isErr <;> cases hv : v.isErr <;> simp_all
  · simp [containsFn]

/-- `kindsOk` for the supplied map + the modelled built-ins ⇒ `FunsOk` of the evaluation context -/
theorem funsOk_of_kinds (l : FMap) (h : kindsOk l = true) : FunsOk (ctxOf [l, baseFns]) := by
  intro f fn hf hd
  simp only [ctxOf, override_shadows, Option.map_eq_some_iff] at hf
  obtain ⟨c, hc, rfl⟩ := hf
  cases hl : l.get? f with
  | some c' =>
    rw [hl] at hc; simp only [Option.some.injEq] at hc; subst hc
    -- a supplied callable: not evalVisible, so not direct
    have hmem : ∀ (m : FMap), m.get? f = some c' → (f, c') ∈ m ∨ ∃ k, (k, c') ∈ m := by
      intro m
      induction m with
      | nil => intro h; simp [FMap.get?] at h
      | cons p rest ih =>
        obtain ⟨k, v⟩ := p
        intro h
        by_cases hk : k = f
        · simp [FMap.get?, hk] at h; subst h; right; exact ⟨k, by simp⟩
        · simp [FMap.get?, hk] at h
          rcases ih h with h | ⟨k', h⟩
          · left; simp [h]
          · right; exact ⟨k', by simp [h]⟩
    have hk : c'.kind ≠ .evalVisible := by
      have hall := h
      simp only [kindsOk, List.all_eq_true] at hall
      rcases hmem l hl with hm | ⟨k, hm⟩
      · simpa using hall _ hm
      · simpa using hall _ hm
    simp [Callable.toFn, funcNameDirect_iff, hk] at hd
  | none =>
    rw [hl] at hc
    simp only [baseFns, FMap.get?] at hc
    by_cases h1 : "size" = f
    · simp [h1] at hc; subst hc; exact sizeFn_errStrict
    · by_cases h2 : "contains" = f
      · simp [h1, h2] at hc; subst hc; exact containsFn_errStrict
      · simp [h1, h2] at hc

/-- **compiled_same (value): the transpiled program gives the interpreter's result** on every expression of the
fragment, under
* `FunsOk` — functions applied directly handle erroneous arguments themselves (`funsOk_of_kinds`: true when no supplied
  callable is of kind `evalVisible`);
* `Tame`/`TameC` — host functions raise only classes both runners convert (ValueError, TypeError, … — the classes of
  `result()`; an exception outside that list is absorbed by the interpreter only);
* `Conform` — `all`/`exists` bodies are boolean-or-error and `map` bodies are error-free (finding D42 and the
  `BoolType()` coercion of the transpiled macros are exactly what this excludes).
The call logs are NOT equal in general: the transpiled `?:` evaluates both branches (finding D41) and Python stops
evaluating arguments at the first one that raises; see `compiled_log_*` below. -/
theorem compiled_same {cx : Ctx} (ht : Tame cx) (hT : TameC cx) (hC : CfgOk cx) (hF : FunsOk cx) (e : Expr)
    (hcf : Conform cx [] e) :
    (Funcs.runC cx e).1 = (Funcs.runI cx e).1 := by
  have h := resultC_agree (evalC_agree hT hC hF e [] hcf)
  unfold Funcs.runC Funcs.runI
  rw [evalI_spec ht]
  generalize resultC cx (evalC cx [] e) = o at h
  obtain ⟨r, l⟩ := o
  simp at h; subst h; rfl

/-- **compiled call log.**  In an evaluation where no sub-expression is an error (`Quiet`; macro bodies of the expected
type) the transpiled program computes the same value and applies the host functions at the call sites `sitesE`:
exactly the interpreter's `sites`, EXCEPT that both branches of every `?:` are reached. -/
theorem compiled_log_quiet {cx : Ctx} (e : Expr) (env : List Val) (hq : Quiet cx env e) :
    evalC cx env e = (.ok (den cx env e), sitesE cx env e) :=
  evalC_quiet e env hq

/-- **finding D41, as a theorem about the transpiled program**: the branch that is not selected is reached too. -/
theorem compiled_cond_eager (cx : Ctx) (env : List Val) (c x y : Expr) :
    sitesE cx env (.cond c x y) = sitesE cx env c ++ (sitesE cx env x ++ sitesE cx env y) := rfl

/-- **compiled_same (value AND call log)**: on quiet evaluations of expressions without `?:` the two runners are
indistinguishable — same value, same host functions applied to the same arguments in the same order. -/
theorem compiled_same_log {cx : Ctx} (ht : Tame cx) (e : Expr) (env : List Val) (hq : Quiet cx env e)
    (hn : noCond e = true) :
    evalC cx env e = evalI cx env e := by
  rw [evalC_quiet e env hq, evalI_spec ht e env, sitesE_eq_sites e env hq hn]

/-- the default configuration (the handler lists of the source now) satisfies `CfgOk` -/
theorem cfgOk_default (fns : String → Option Fn) : CfgOk { fns := fns } := by
  refine ⟨?_, ?_, ?_⟩ <;> rfl

/-! ### round 2: no memo, no leak -/

/-- **A call site reached again is applied again** (no memo of results): evaluating `e + e` applies every host function
reached in `e` twice, in order, whatever the functions, arguments and values are -/
theorem repeated_site_applied_each_time {cx : Ctx} (ht : Tame cx) (env : List Val) (e : Expr) :
    evalI cx env (.add e e) = (.ok (addT (den cx env e) (den cx env e)), sites cx env e ++ sites cx env e) := by
  rw [evalI_spec ht]; rfl

theorem repeated_call_applied_twice {cx : Ctx} (ht : Tame cx) (env : List Val) (f : String) (fn : Fn) (args : List Expr)
    (hf : cx.fns f = some fn) (hh : fn.host = true) (hargs : firstErr (dens cx env args) = false) :
    (evalI cx env (.add (.call f args) (.call f args))).2 =
      (sitess cx env args ++ [(f, dens cx env args)]) ++ (sitess cx env args ++ [(f, dens cx env args)]) := by
  rw [repeated_site_applied_each_time ht, site_applied_once env f fn args hf hh hargs]

/-- the same in the transpiled program (quiet evaluations) -/
theorem repeated_site_applied_each_time_compiled {cx : Ctx} (env : List Val) (e : Expr) (hq : Quiet cx env e)
    (hs : (addT (den cx env e) (den cx env e)).isErr = false) :
    (evalC cx env (.add e e)).2 = sitesE cx env e ++ sitesE cx env e := by
  have hq2 : Quiet cx env (.add e e) := ⟨hq, hq, hs⟩
  rw [evalC_quiet _ env hq2]; rfl

/-- **`n` equal elements are `n` applications**: `[v, v, …, v].map(x, f(x))` applies `f` to `v` once per element -/
theorem macro_equal_elements_each_applied {cx : Ctx} (ht : Tame cx) (env : List Val) (f : String) (fn : Fn) (v : Val) (n : Nat)
    (hf : cx.fns f = some fn) (hh : fn.host = true) (hv : v.isErr = false) (hr : (applyV fn.fn [v]).isErr = false) :
    (evalI cx env (.map (.lit (.list (List.replicate n v))) (.call f [.var 0]))).2 = List.replicate n (f, [v]) ∧
    (evalI cx env (.all (.lit (.list (List.replicate n v))) (.call f [.var 0]))).2 = List.replicate n (f, [v]) := by
  have hd : ∀ w : Val, dens cx (w :: env) [.var 0] = [w] := fun w => by simp [dens, den]
  have hs : ∀ w : Val, w.isErr = false → sites cx (w :: env) (.call f [.var 0]) = [(f, [w])] := by
    intro w hw
    simp [sites, sitess, callSite, hf, hd, firstErr, hw, Fn.logOf, hh]
  have hden : (den cx (v :: env) (.call f [.var 0])).isErr = false := by
    simp [den, denCall, hf, hd, firstErr, hv, hr]
  have hs2 : sitess cx (v :: env) [.var 0] ++ callSite cx f (dens cx (v :: env) [.var 0]) = [(f, [v])] := by
    simpa [sites] using hs v hv
  constructor
  · rw [evalI_spec ht]
    simp only [sites, den, List.nil_append]
    rw [mapSites_replicate _ _ v hden n, hs2]
    induction n with
    | zero => rfl
    | succ k ih => simp [List.replicate_succ, ih]
  · rw [evalI_spec ht]
    simp only [sites, den, List.nil_append]
    rw [allSites_replicate _ v n, hs2]
    induction n with
    | zero => rfl
    | succ k ih => simp [List.replicate_succ, ih]

/-- **Evaluating a program again gives the same outcome again** (value and call log: every application happens again),
and so does any later program equal to an earlier one — whatever was evaluated in between. -/
theorem evaluate_again_same (w : World) (p : Program) (between : List Program) :
    (w.run (p :: between ++ [p])).2.head? = some (w.evaluate p).2 ∧
    (w.run (p :: between ++ [p])).2.getLast? = some (w.evaluate p).2 := by
  refine ⟨by simp [override_local], ?_⟩
  rw [override_local, List.map_append, List.map_singleton]
  exact List.getLast?_concat ..

/-- **the order of a history does not matter**: evaluating the same programs in another order (build all first and evaluate
later, interleave two applications, …) gives every program the same outcome -/
theorem history_order_irrelevant (w : World) (ps qs : List Program) (h : ps.Perm qs) :
    ((w.run ps).2).Perm ((w.run qs).2) := by
  rw [override_local, override_local]; exact h.map _

theorem history_split (w : World) (ps qs : List Program) :
    (w.run (ps ++ qs)).2 = (w.run ps).2 ++ (w.run qs).2 := by
  simp [override_local]

/-- **a list binds every callable under its `__name__`; of several with the same name the LAST one** — for every list
(generalises `list_binding_last_wins`), and every other name still reaches `base_functions` -/
theorem list_binding_lookup (base : FMap) (fs : List Callable) (chain : List FMap)
    (h : chainOf base (.list fs) = .ok chain) (n : String) :
    chainGet? chain n = (match fs.reverse.find? (fun c => c.pyName == some n) with
                         | some c => some c
                         | none => base.get? n) := by
  simp only [chainOf, bind, Except.bind] at h
  cases hl : localOfList fs [] with
  | error e => simp [hl] at h
  | ok l =>
    simp [hl] at h; subst h
    rw [override_shadows, localOfList_get? fs [] l n hl]
    cases fs.reverse.find? (fun c => c.pyName == some n) <;> simp [FMap.get?]

/-! ### `func_name`: identity, not equality, not "wraps it" -/

/-- an object as `func_name` sees it -/
structure PyObj where
  oid : Nat                      -- identity
  fn : HostFn                    -- what calling it does
  qual : Option String           -- `module.qualname` when both attributes exist
  wrapped : Option Nat := none   -- identity of `__wrapped__`
  equalsAll : Bool := false      -- `__eq__` answers True to everything

/-- what the transpiled call site applies: the object the dotted text denotes in the namespace the generated code runs
in when the guard lets `func_name` emit the text, else the activation's binding (the supplied object) -/
def appliedBy (guard : PyObj → PyObj → Bool) (globals : String → Option PyObj) (supplied : PyObj) : HostFn :=
  match supplied.qual.bind globals with
  | some target => if guard target supplied then target.fn else supplied.fn
  | none => supplied.fn

/-- `target is func` -/
def identityGuard (t f : PyObj) : Bool := t.oid == f.oid
/-- the relaxed guards of realistic regressions: `target == func`; `target is func or target is func.__wrapped__` -/
def equalityGuard (t f : PyObj) : Bool := t.oid == f.oid || f.equalsAll || t.equalsAll
def wrappedGuard (t f : PyObj) : Bool := t.oid == f.oid || f.wrapped == some t.oid

/-- **With the identity guard the transpiled call site applies the SUPPLIED callable**, for every namespace and every
callable (wrappers carrying another function's name, objects equal to everything, renamed functions included), in a
heap where identity determines the object. -/
theorem func_name_applies_supplied (globals : String → Option PyObj) (supplied : PyObj)
    (heap : ∀ t, supplied.qual.bind globals = some t → t.oid = supplied.oid → t.fn = supplied.fn) :
    appliedBy identityGuard globals supplied = supplied.fn := by
  unfold appliedBy
  cases h : supplied.qual.bind globals with
  | none => rfl
  | some t =>
    by_cases hg : identityGuard t supplied = true
    · simp only [hg, if_true]; exact heap t h (by simpa [identityGuard] using hg)
    · simp [hg]

/-- … whereas the relaxed guards apply ANOTHER function: a `functools.wraps(size)` wrapper, an object equal to everything -/
example : ∃ globals supplied, appliedBy wrappedGuard globals supplied [] ≠ supplied.fn [] :=
  ⟨fun _ => some ⟨1, fun _ => .ret (.int 0), some "celpy.evaluation.function_size", none, false⟩,
   ⟨2, fun _ => .ret (.int 77), some "celpy.evaluation.function_size", some 1, false⟩, by
     simp [appliedBy, wrappedGuard]⟩
example : ∃ globals supplied, appliedBy equalityGuard globals supplied [] ≠ supplied.fn [] :=
  ⟨fun _ => some ⟨1, fun _ => .ret (.int 0), some "celpy.evaluation.function_size", none, false⟩,
   ⟨2, fun _ => .ret (.int 77), some "celpy.evaluation.function_size", none, true⟩, by
     simp [appliedBy, equalityGuard]⟩

/-- the model's `direct` flag IS this decision: of the callable kinds only `evalVisible` (text denotes the object itself)
gets dotted text; a wrapper of a built-in or of a visible function, an equal-to-all object and a renamed def do not -/
theorem direct_iff_text_denotes_self (c : Callable) :
    (Callable.toFn c).direct = true ↔ (c.kind.qualified = true ∧ c.kind.denotes = .self) := by
  simp [Callable.toFn, funcNameDirect]

theorem lookalikes_not_direct (c : Callable)
    (h : c.kind = .wrapsBuiltin ∨ c.kind = .wrapsVisible ∨ c.kind = .equalToAll ∨ c.kind = .renamedDef) :
    (Callable.toFn c).direct = false := by
  rcases h with h | h | h | h <;> simp [Callable.toFn, funcNameDirect, h, CKind.denotes, CKind.qualified]

/-! ### non-vacuity and the recorded findings, inside the model -/

section examples
/-- `f` adds 100 to its first argument, `g` returns an error value, `h` raises ValueError, `k` raises KeyError -/
def exFns : FMap := [
  ("f", { pyName := some "f", kind := .mainDef, fn := fun vs => match vs with | .int n :: _ => .ret (.int (n + 100)) | _ => .ret (.int 100) }),
  ("g", { pyName := some "g", kind := .lambda, fn := fun _ => .ret .err }),
  ("h", { pyName := some "h", kind := .nestedDef, fn := fun _ => .raise .valueError }),
  ("size", { pyName := some "size", kind := .callableObj, fn := fun _ => .ret (.int 77) })]
def exCx : Ctx := ctxOf [exFns, baseFns]

/-- `f(1)` and `1.f()`: value 101, one application with the argument 1 -/
example : evalI exCx [] (.call "f" [.lit (.int 1)]) = (.ok (.int 101), [("f", [.int 1])]) := by rfl
example : evalI exCx [] (.method (.lit (.int 1)) "f" []) = (.ok (.int 101), [("f", [.int 1])]) := by rfl
/-- shadowed `size` vs. the built-in -/
example : (evalI exCx [] (.call "size" [.lit (.list [.int 1, .int 2])])).1 = .ok (.int 77) := by rfl
example : (evalI (ctxOf [[], baseFns]) [] (.call "size" [.lit (.list [.int 1, .int 2])])).1 = .ok (.int 2) := by rfl
/-- `h(1) || true` is true, `h` was applied once; `f(g(1))` is an error and `f` is NOT applied — both runners -/
example : evalI exCx [] (.or (.call "h" [.lit (.int 1)]) (.lit (.bool true))) = (.ok (.bool true), [("h", [.int 1])]) := by rfl
example : Funcs.runC exCx (.or (.call "h" [.lit (.int 1)]) (.lit (.bool true))) = (.ok (.bool true), [("h", [.int 1])]) := by rfl
example : Funcs.runI exCx (.call "f" [.call "g" [.lit (.int 1)]]) = (.ok .err, [("g", [.int 1])]) := by rfl
example : Funcs.runC exCx (.call "f" [.call "g" [.lit (.int 1)]]) = (.ok .err, [("g", [.int 1])]) := by rfl
/-- the hypotheses of `compiled_same` are satisfiable -/
example : kindsOk exFns = true := by decide
/-- … and those of `compiled_same_log`: `[1, 2].all(x, f(x) < 1000)` is quiet and has no `?:` -/
example : Quiet exCx [] (.all (.lit (.list [.int 1, .int 2])) (.lt (.call "f" [.var 0]) (.lit (.int 1000)))) := by
  refine ⟨rfl, [.int 1, .int 2], rfl, ?_⟩
  intro v hv
  simp at hv
  rcases hv with rfl | rfl <;>
    exact ⟨⟨⟨⟨⟨_, rfl, rfl⟩, trivial⟩, rfl⟩, rfl, rfl⟩, rfl⟩
example : (evalC exCx [] (.all (.lit (.list [.int 1, .int 2])) (.lt (.call "f" [.var 0]) (.lit (.int 1000))))).2 =
    [("f", [.int 1]), ("f", [.int 2])] := by rfl
/-- round 2 — a site reached again is applied again: `f(1) + f(1)`, `[5, 5, 5].map(x, f(x))`, on both runners -/
example : Funcs.runI exCx (.add (.call "f" [.lit (.int 1)]) (.call "f" [.lit (.int 1)])) =
    (.ok (.int 202), [("f", [.int 1]), ("f", [.int 1])]) := by rfl
example : Funcs.runC exCx (.add (.call "f" [.lit (.int 1)]) (.call "f" [.lit (.int 1)])) =
    (.ok (.int 202), [("f", [.int 1]), ("f", [.int 1])]) := by rfl
example : (Funcs.runI exCx (.map (.lit (.list (List.replicate 3 (.int 5)))) (.call "f" [.var 0]))).2 =
    List.replicate 3 ("f", [.int 5]) := by rfl
/-- … and the hypotheses of `macro_equal_elements_each_applied` are satisfiable -/
example : exCx.fns "f" = some (Callable.toFn (exFns.get? "f").get!) ∧ (applyV (Callable.toFn (exFns.get? "f").get!).fn [.int 5]).isErr = false := by
  exact ⟨rfl, rfl⟩
/-- a list with two callables named `f`: the last one is bound -/
example : (chainOf baseFns (.list [⟨some "f", .lambda, fun _ => .ret (.int 1), false⟩, ⟨some "f", .nestedDef, fun _ => .ret (.int 2), false⟩])).toOption.map
    (fun ch => (chainGet? ch "f").map (fun c => c.fn [])) = some (some (.ret (.int 2))) := by rfl
/-- **finding D41** in the model: the transpiled `true ? f(1) : f(2)` applies `f` to 2 as well -/
example : (Funcs.runI exCx (.cond (.lit (.bool true)) (.call "f" [.lit (.int 1)]) (.call "f" [.lit (.int 2)]))).2 = [("f", [.int 1])] ∧
    (Funcs.runC exCx (.cond (.lit (.bool true)) (.call "f" [.lit (.int 1)]) (.call "f" [.lit (.int 2)]))).2 = [("f", [.int 1]), ("f", [.int 2])] := by
  exact ⟨rfl, rfl⟩
/-- **finding D42** in the model: the transpiled `[1].map(x, g(x))` is a list holding the error value -/
example : (Funcs.runI exCx (.map (.lit (.list [.int 1])) (.call "g" [.var 0]))).1 = .ok .err ∧
    (Funcs.runC exCx (.map (.lit (.list [.int 1])) (.call "g" [.var 0]))).1 = .ok (.list [.err]) := ⟨rfl, rfl⟩
/-- **finding D43** in the model: a supplied function of kind `evalVisible` is applied to the error value -/
example : (Funcs.runC (ctxOf [[("f", { pyName := some "f", kind := .evalVisible, fn := fun _ => .ret (.int 5) }),
                          ("g", { pyName := some "g", kind := .lambda, fn := fun _ => .ret .err })], baseFns])
            (.call "f" [.call "g" []])) = (.ok (.int 5), [("g", []), ("f", [.err])]) := by rfl
end examples

end Cel.Props.C14
