/-
  C06 — Parser implements CEL precedence and associativity; AST dump round-trips.

  Setting (Cel.Model.Grammar): `productions` is the BNF lark derives from cel.lark (regenerated on
  every run and compared by Cel.Bridge.Grammar); `Derives X ts cs` is derivability in that grammar
  together with lark's tree construction; `PExpr` is CEL syntax with explicit parenthesis nodes,
  `render` its token string, `toTree` its lark tree, `WF` CEL's level table
  (`?:` < `||` < `&&` < relations < `+ -` < `* / %` < unary < member < primary; binary operators
  left-associative, `?:` right-associative with conditional-or first and middle operands).

  Trusted (DESIGN §4): lark's lexer (text ↔ tokens, `%ignore` of whitespace and comments) and the
  LALR(1) meta-theorem that a conflict-free LALR(1) grammar is unambiguous, so that the tree lark
  returns for `ts` is *the* tree `t` with `Derives expr ts [t]` (`derivable_is_render` shows every such
  `t` is `toTree e` of a well-formed `e` with `render e = ts`; that `e` is unique is the trusted part). Both are exercised by the
  correspondence run (lark tree vs. `toTree`, zero shift/reduce resolutions in lark's log).
-/
import Cel.Lemmas.Grammar
import Cel.Lemmas.GrammarDump
import Cel.Lemmas.GrammarComplete
namespace Cel.Props.C06
open Cel Cel.Grammar

/-- **Precedence and associativity** (sentence 1 of the property), level-generalised: the token
string of every well-formed expression derives, from the rule of any level not above its own,
exactly the intended tree. Induction over all expressions (any depth, any argument count). -/
theorem render_derives_at (e : PExpr) (h : WF e) (m : Nat) (hm : m ≤ level e) :
    Derives (.n (ntOf m)) (render e) [toTreeAt m e] :=
  at_of_core e m hm (render_core e h)

/-- **Precedence and associativity**: every well-formed expression's rendering is a sentence of the
grammar and its parse tree is `toTree e` — i.e. the grouping the CEL level table prescribes. -/
theorem render_derives (e : PExpr) (h : WF e) : Derives (.n .expr) (render e) [toTree e] :=
  render_derives_at e h 0 (Nat.zero_le _)

/-- the fully parenthesised form of *any* expression is well-formed … -/
theorem fullParen_wf (e : PExpr) : WF (fullParen e) := wf_fullParen e

/-- … hence a sentence of the grammar with the expected tree … -/
theorem fullParen_derives (e : PExpr) :
    Derives (.n .expr) (render (fullParen e)) [toTree (fullParen e)] :=
  render_derives _ (fullParen_wf e)

/-- the parse tree of an expression, modulo parenthesis and unit-chain nodes, is its abstract tree -/
theorem strip_toTree (e : PExpr) : strip (toTree e) = abs e := strip_toTreeAt 0 e

/-- … and **"any expression parses to the same tree as its fully parenthesised form"**, trees
compared modulo parenthesis nodes. -/
theorem same_tree_as_parenthesised (e : PExpr) (_h : WF e) :
    strip (toTree (fullParen e)) = strip (toTree e) := by
  rw [strip_toTree, strip_toTree, abs_fullParen]

/-- parentheses never change the abstract tree -/
theorem paren_transparent (e : PExpr) : strip (toTree (.paren e)) = strip (toTree e) := by
  rw [strip_toTree, strip_toTree]; rfl

/-! Non-vacuity and the level table in action (`a`, `b`, `c` stand for arbitrary primaries). -/
section examples
private def a := PExpr.ident "a"
private def b := PExpr.ident "b"
private def c := PExpr.ident "c"
/-- `a || b && c` groups as `a || (b && c)`; `(a || b) && c` needs its parentheses -/
example : WF (.or a (.and b c)) ∧ ¬ WF (.and (.or a b) c) ∧ WF (.and (.paren (.or a b)) c) := by decide
/-- `a - b - c` is `(a - b) - c`; `a - (b - c)` needs parentheses -/
example : WF (.add .sub (.add .sub a b) c) ∧ ¬ WF (.add .sub a (.add .sub b c)) := by decide
/-- `a ? b : c ? a : b` nests to the right; a conditional in the middle or first position needs parentheses -/
example : WF (.cond a b (.cond c a b)) ∧ ¬ WF (.cond a (.cond b c a) b) ∧ ¬ WF (.cond (.cond a b c) a b) := by decide
/-- `-a.f()` is `-(a.f())`; `a in b + c` is `a in (b + c)`; `!a == b` is `(!a) == b` -/
example : WF (.neg (.dotArg a "f" .nil)) ∧ ¬ WF (.dotArg (.neg a) "f" .nil) ∧ WF (.rel .in_ a (.add .add b c))
    ∧ WF (.rel .eq (.not a) b) := by decide
example : render (.or a (.and b c)) = [⟨.IDENT, "a"⟩, .a .OROR, ⟨.IDENT, "b"⟩, .a .ANDAND, ⟨.IDENT, "c"⟩] := rfl
end examples

/-- **`true`, `false` and `null` are always literals** (lexer level; `lexWord` mirrors lark's
contextual lexer + the `ambiguous_literals` callback, `identAcceptSets` is regenerated from lark's
LALR table): (1) no word lexed as IDENT is `true` or `false`, in any parser state; (2) in every
parser state where an expression may start, the three words are lexed as BOOL_LIT / NULL_LIT;
(3) the only other states accepting IDENT are the two *name* positions (after `.`, and field
names inside `{ … }`), where `true`/`false` are rejected and `null`/`in` are names. -/
theorem literals_not_idents :
    (∀ acc w, lexWord acc w = some .IDENT → w ≠ "true" ∧ w ≠ "false") ∧
    (∀ acc ∈ identAcceptSets, TK.LPAR ∈ acc →
        lexWord acc "true" = some .BOOL_LIT ∧ lexWord acc "false" = some .BOOL_LIT ∧
        lexWord acc "null" = some .NULL_LIT) ∧
    (∀ acc ∈ identAcceptSets, TK.LPAR ∈ acc ∨ acc = [.RBRACE, .IDENT] ∨ acc = [.IDENT]) := by
  refine ⟨?_, by decide, by decide⟩
  intro acc w h
  constructor <;> intro hw <;> subst hw <;>
    (unfold lexWord at h; split at h <;> simp [wordStrTerminals, ambiguousLiterals, List.find?] at h)

/-- The converse for every other word: wherever an identifier is acceptable, a word that is not exactly one of
`true`, `false`, `null`, `in` stays an identifier — in particular words that merely *begin* with a keyword
(`nullable`, `true_positives`, `falseAlarms`, `inn`), in any parser state and whatever the word is. Together with
`literals_not_idents` this decides the type of every word the IDENT pattern matches. -/
theorem words_beside_keywords_are_idents (acc : List TK) (w : String) (hacc : TK.IDENT ∈ acc)
    (h1 : w ≠ "true") (h2 : w ≠ "false") (h3 : w ≠ "null") (h4 : w ≠ "in") :
    lexWord acc w = some .IDENT := by
  unfold lexWord
  simp [hacc, wordStrTerminals, ambiguousLiterals, List.find?, Ne.symm h1, Ne.symm h2, Ne.symm h3, Ne.symm h4]

example : lexWord [.IDENT, .LPAR, .NULL_LIT, .BOOL_LIT] "nullable" = some .IDENT := by decide
example : ∀ acc ∈ identAcceptSets, lexWord acc "true_positives" = some .IDENT := by decide

/-- the literal rule has no IDENT alternative and the identifier rules no literal one: a token
typed BOOL_LIT/NULL_LIT can only become a `literal` node -/
theorem literal_tokens_only_in_literal :
    ∀ p ∈ productions, (Sym.t .BOOL_LIT ∈ p.2 ∨ Sym.t .NULL_LIT ∈ p.2) → p.1 = .literal := by decide

/-- **Dump** (`celparser.tree_dump`), exact: the stack machine of `DumpAST` run on the parse tree
of *any* expression ends with exactly one entry, `dumpSpec e`. -/
theorem dump_exact (e : PExpr) : dump (toTree e) = .ok (dumpSpec e) := dump_toTreeAt 0 e

/- Full statement (sentence 3 of the property):
     theorem dump_roundtrip (e : PExpr) (h : WF e) :
       ∃ c, dump (toTree e) = .ok c ∧ Derives (.n .expr) c.toks [toTree e]
   It is FALSE on the current code for expressions containing an empty list literal
   (`dump_empty_list_finding` below; tests/test_parser.py pins `[]` ↦ ''), hence the hypothesis
   `hasEmptyList e = false` (known finding D13, predicate `empty_list_literal` in the harness). The step
   from the dumped *text* back to the token string `c.toks` is lark's lexer (trusted, corresponded; D71 —
   `1 .f` printed as `1.f` — lived in that step and is fixed, see `selectDot`). `every_parse_tree` below
   restates this for every tree the grammar admits. -/
/-- **Dump round trip** for every well-formed expression without an empty list literal: the dump
succeeds and the tokens of the dumped text derive the same tree again. -/
theorem dump_roundtrip_partial (e : PExpr) (h : WF e) (hne : hasEmptyList e = false) :
    ∃ c, dump (toTree e) = .ok c ∧ Derives (.n .expr) c.toks [toTree e] :=
  ⟨dumpSpec e, dump_exact e, by rw [toks_dumpSpec e hne]; exact render_derives e h⟩

/-- the excluded case is a genuine failure: `[]` dumps as the empty text, `[[]]` as `[]`, and
`[a, []]` as `[a, ]` (which is not a sentence) -/
theorem dump_empty_list_finding :
    dump (toTree (.list .nil)) = .ok [] ∧
    (∃ c, dump (toTree (.list (.cons (.list .nil) .nil))) = .ok c ∧ c.text = "[]") ∧
    (∃ c, dump (toTree (.list (.cons (.ident "a") (.cons (.list .nil) .nil)))) = .ok c ∧ c.text = "[a, ]") :=
  ⟨dump_exact _, ⟨_, dump_exact _, by decide⟩, ⟨_, dump_exact _, by decide⟩⟩

/-- **Executable parser, soundness**: whatever `parse` returns is a well-formed expression whose
rendering is the input, hence (by `render_derives`) a derivation of the input with tree `toTree e`. -/
theorem parse_sound (ts : List Tok) (e : PExpr) (h : parse ts = some e) :
    WF e ∧ render e = ts ∧ Derives (.n .expr) ts [toTree e] := by
  unfold parse at h
  split at h
  · split at h
    · rename_i hc
      cases h
      exact ⟨hc.2, hc.1, hc.1 ▸ render_derives _ hc.2⟩
    · cases h
  · cases h

/-- **Completeness of the expression syntax** ("all expressions derivable from the grammar"): every
sentence derivable from `expr` is the rendering of a well-formed expression, and every tree lark's
tree builder can produce for it is that expression's tree. Structural recursion over derivations,
one case per production (88). Together with `render_derives` this makes `WF`/`render`/`toTree` an
exact description of the language and its trees. -/
theorem derivable_is_render (ts : List Tok) (cs : List Tree) (h : Derives (.n .expr) ts cs) :
    ∃ e, WF e ∧ ts = render e ∧ cs = [toTree e] :=
  Cel.Grammar.derivable_is_render ts cs h

/-- **The property for every parse tree the grammar admits** (not just for trees of the form
`toTree e`): whenever `ts` derives the tree `t`, (1) the fully parenthesised text of the same
expression is a sentence whose tree equals `t` modulo parenthesis nodes, (2) `tree_dump t` succeeds
with exactly `dumpSpec e`, and (3) unless an empty list literal occurs, the tokens of the dump are `ts`
again, so the dump derives `t` again. -/
theorem every_parse_tree (ts : List Tok) (t : Tree) (h : Derives (.n .expr) ts [t]) :
    ∃ e, WF e ∧ ts = render e ∧ t = toTree e ∧
      Derives (.n .expr) (render (fullParen e)) [toTree (fullParen e)] ∧
      strip (toTree (fullParen e)) = strip t ∧
      dump t = .ok (dumpSpec e) ∧
      (hasEmptyList e = false → Derives (.n .expr) (dumpSpec e).toks [t]) := by
  obtain ⟨e, we, rfl, hc⟩ := derivable_is_render ts [t] h
  have ht : t = toTree e := by simpa using hc
  subst ht
  exact ⟨e, we, rfl, rfl, fullParen_derives e, same_tree_as_parenthesised e we, dump_exact e,
    fun hne => by rw [toks_dumpSpec e hne]; exact h⟩

/-- the parser finds the intended tree on a sample with every level involved -/
example : (parse (render (.cond (.or (.ident "a") (.and (.ident "b") (.rel .lt (.add .add (.lit .int "1")
    (.mul .mul (.neg (.dot (.ident "x") "y")) (.lit .int "2"))) (.lit .int "3")))) (.ident "p") (.ident "q")))).isSome = true := by
  decide

end Cel.Props.C06
