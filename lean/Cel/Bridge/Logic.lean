/- Bridge: definitions regenerated from the source (Cel.Gen.*) equal the hand-written model. -/
import Cel.Gen.Logic
namespace Cel.Bridge
open Cel

theorem logical_and_eq (x y : O) : Gen.logical_and x y = land x y := by
  cases x <;> cases y <;> first | rfl | decide
theorem logical_or_eq (x y : O) : Gen.logical_or x y = lor x y := by
  cases x <;> cases y <;> first | rfl | decide
theorem logical_not_eq (x : O) : Gen.logical_not x = lnot x := by
  cases x <;> first | rfl | decide
theorem logical_condition_eq (c x y : O) : Gen.logical_condition c x y = lcond c x y := by
  cases c <;> cases x <;> cases y <;> first | rfl | decide
/-- `result()` catches exactly the classes the model assumes — compared as SETS (the order of the classes in the
`except (...)` tuple is irrelevant to Python) -/
theorem resultCaught_eq (c : Exc) : (c ∈ Gen.resultCaught) ↔ (c ∈ resultCaught) := by
  cases c <;> decide
/-- the transpiled `all`/`exists` reducers catch TypeError, as `allC`/`existsC` assume -/
theorem macro_reducers : Gen.macro_all_reducer_catches_TypeError = true ∧
    Gen.macro_exists_reducer_catches_TypeError = true := by decide
/-- the interpreter's logical rules catch TypeError, as `evI` assumes (`catchTE`) -/
theorem handlers_logical : Exc.typeError ∈ Gen.handlers_expr ∧ Exc.typeError ∈ Gen.handlers_conditionalor ∧
    Exc.typeError ∈ Gen.handlers_conditionaland ∧ Exc.typeError ∈ Gen.handlers_unary := by decide

end Cel.Bridge
