/- Bridge (C12), continued: see Cel.Bridge.Names (scope definitions).  Separate module so that the kernel
   evaluations run in parallel. -/
import Cel.Bridge.Names
namespace Cel.Bridge
open Cel Cel.Names Cel.NamesPy NamesScope

/-- both runners read a name through `Referent.value` semantics (`Activation.resolve_variable` for the
interpreter, `Activation.__getattr__` = `get` for transpiled code) and select fields of a NameContainer by
key (`NameContainer.get` = `memberDot`) -/
theorem names_lookup_paths :
    checkResolveVariable = true ∧ checkGetattr = true ∧ checkGet = true ∧
    Gen.NamesPy.activationGetIsGetattr = true ∧
    Gen.Names.memberDotOnNameContainer = true ∧
    Gen.Names.transpiledIdentIsActivationAttr = true ∧ Gen.Names.transpiledMemberDotIsGet = true := by
  decide +kernel

end Cel.Bridge
