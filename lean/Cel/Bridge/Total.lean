/-
  Bridge for C04: the coverage facts over the tables regenerated from the source on every run
  (`Cel.Gen.Handlers`: except clauses + class hierarchy; `Cel.Gen.Measured`: exception classes raised by
  every primitive over the value pool), by `decide +kernel`; and the property theorems of `Cel.Props.C04`
  instantiated with those tables.
-/
import Cel.Gen.Handlers
import Cel.Gen.Measured
import Cel.Props.C04
namespace Cel.Bridge.Total
open Cel.Total Cel.Props.C04
open Cel.Gen.Handlers (mro handlers runCCaught parseCaught larkRaised classNames nClasses handlerOps)
open Cel.Gen.Measured (table)

/-- the class-id convention of the model holds in the regenerated class table -/
theorem class_ids : classNames[celEval]? = some "celpy.evaluation.CELEvalError" ∧
    classNames[celParse]? = some "celpy.celparser.CELParseError" ∧ classNames.length = nClasses := by decide

/-- **rule_covered** — every exception class MEASURED at a primitive site (all primitives × all operand
    tuples of the value pool) is caught, up to subclass closure, by the `except` clauses the SOURCE has
    around that site. Recomputed from the live code on every run. -/
theorem rule_covered : ∀ e ∈ table, ∀ c ∈ e.2.2, caught mro (handlers e.1) c = true := by decide +kernel

/-- the measured table as a function of site and operand key -/
def raises : Raises := fun r key =>
  (table.filter (fun e => e.1 == r && e.2.1 == key)).flatMap (fun e => e.2.2)

/-- `rule_covered` in the form the totality theorems consume: ∀ r k, raises r k ⊆ closure (handlers r) -/
theorem covered : Covered mro handlers raises := by
  intro r key c hc
  simp only [raises, List.mem_flatMap, List.mem_filter, Bool.and_eq_true, beq_iff_eq] at hc
  obtain ⟨e, ⟨he, hr, _⟩, hc⟩ := hc
  exact hr ▸ rule_covered e he c hc

/-- the `try` around the bodies of map / filter / exists_one catches CELEvalError (a body error becomes the
    value of the macro) -/
theorem map_body_errors_caught : caught mro (handlers .macroIter) celEval = true := by decide

/-- the handler of `Transpiler.evaluate` is a blanket: it catches every class of the table that derives
    from `Exception` … -/
theorem runC_blanket : ∀ c, c < nClasses → (mro c).contains Cel.Gen.Handlers.idException = true →
    caught mro runCCaught c = true := by decide +kernel

/-- … in particular every class measured at any site, and RecursionError -/
theorem runC_catches_measured : ∀ e ∈ table, ∀ c ∈ e.2.2, caught mro runCCaught c = true := by decide +kernel
theorem runC_catches_recursion : caught mro runCCaught Cel.Gen.Handlers.idRecursionError = true := by decide

/-- **parse_errors_wrapped** — every exception class lark's `parse` can raise (lark's exception class DAG,
    introspected on every run) derives from a class named by the `except` clauses of `CELParser.parse`,
    each of which re-raises `CELParseError`. -/
theorem parse_errors_wrapped : ∀ c ∈ larkRaised, caught mro parseCaught c = true := by decide

/-- Operations an `except` body may apply without being able to raise (trusted, one line of justification each):
    constructing the library's errors (`__init__` stores its arguments), `with_traceback`, `sys.exc_info`, `type`,
    `isinstance`, `str(ex)` of a caught builtin exception, the logging calls (logging swallows formatting errors),
    f-string conversion of operand values (`repr` of CEL values is total), `*ex.args`, `ex.args[1:]` (a slice),
    `ex.args[0]` (guarded by the whole-run check `args0:<site>`: no class measured at the site is raised without
    arguments), lark's own `get_context`, and the first line of lark's message in the `LexError`/`ParseError` clause. -/
def pureOps : List String :=
  ["call:CELEvalError", "call:CELEvalError().with_traceback", "call:CELParseError", "call:sys.exc_info", "call:type",
   "call:isinstance", "call:str(ex)", "call:logger.debug", "call:logger.error", "call:self.logger.debug",
   "call:self.logger.error", "call:self.logger.info", "call:self.logger.warning", "call:logger.info", "call:logger.warning",
   "call:cast", "fmt", "star:ex.args", "sub:ex.args[1:]", "sub:ex.args[0]", "call:ex.get_context",
   "call:ex.args[0].splitlines", "sub:ex.args[0].splitlines()[0]"]

/-- **handler_bodies_pure** — the skeleton's `catchWith` turns a caught exception into an error value; that is only
    right if the body of the `except` clause cannot raise itself. Every operation found in the body of every `except`
    clause of `Evaluator`'s rule methods, `Evaluator.evaluate`'s callers (`InterpretedRunner`, `CompiledRunner`, `Runner`,
    `Environment`), `Transpiler.evaluate`, `result`, `eval_error` and `CELParser.parse` (regenerated from the source:
    `Cel.Gen.Handlers.handlerOps`) is one of `pureOps`. -/
theorem handler_bodies_pure : ∀ p ∈ handlerOps, pureOps.contains p.2 = true := by decide

section
variable {V N : Type} (P : Prims V N) (key : Rule → String → List V → List String) (keyT : Rule → V → List String)

/-- **evalI_total** over the CURRENT source: for primitives that raise only what the measured table lists
    (`PrimSpec`, the trusted pool→all-values step), every expression tree without `reduce`, under every
    activation, evaluates to a value or an error VALUE in the interpreter. -/
theorem evalI_total_current (hp : PrimSpec raises key keyT P) (e : Expr) (hnr : e.hasReduce = false) (env : N) :
    ∃ v, evalI mro handlers P env e = .ok v :=
  evalI_total_of_tables mro handlers P covered hp map_body_errors_caught e hnr env

/-- **runI_only_celerror** over the current source (all expression trees, `reduce` included) -/
theorem runI_only_celerror_current (hp : PrimSpec raises key keyT P) (e : Expr) (env : N) (c : Cls)
    (h : runI mro handlers P env e = .error c) : c = celEval :=
  runI_only_celerror_of_tables mro handlers P covered hp e env c h

/-- **runC_only_celerror** over the current source: a transpiled program that raises classes deriving from
    `Exception` only lets CELEvalError out of `Transpiler.evaluate` -/
theorem runC_only_celerror_current (body : M V)
    (hbody : ∀ c, body = .error c → c < nClasses ∧ (mro c).contains Cel.Gen.Handlers.idException = true)
    (c : Cls) (h : runC mro P runCCaught body = .error c) : c = celEval :=
  runC_only_celerror mro P runCCaught body (fun c' hc' => runC_blanket c' (hbody c' hc').1 (hbody c' hc').2) c h

/-- **parse_only_parseerror** over the current source and the installed lark -/
theorem parse_only_parseerror_current {T : Type} (lark : M T) (hl : ∀ c, lark = .error c → c ∈ larkRaised)
    (c : Cls) (h : parseM mro parseCaught lark = .error c) : c = celParse :=
  parse_only_parseerror mro parseCaught lark (fun c' hc' => parse_errors_wrapped c' (hl c' hc')) c h

/-- **session_only_cel_errors** over the current source and the installed lark: in EVERY history of compile / evaluate
    calls through one Environment only CELEvalError and CELParseError are raised -/
theorem session_only_cel_errors_current {T : Type} (lark : T → M Expr) (hl : ∀ t c, lark t = .error c → c ∈ larkRaised)
    (hp : PrimSpec raises key keyT P) (steps : List (Step T N)) (s : Session T) (c : Cls)
    (h : Out.raised c ∈ runS (V := V) mro handlers P parseCaught lark s steps) : c = celEval ∨ c = celParse :=
  session_only_cel_errors mro handlers P parseCaught lark (safe_of_spec_covered covered hp)
    (fun t c' hc' => parse_errors_wrapped c' (hl t c' hc')) steps s c h
end

end Cel.Bridge.Total
