/-
  Bridge for C10: the `__new__` dispatch ladders, the `__str__` bodies and the conversion names of
  `base_functions`, regenerated from the source on every run (`Cel.Gen.Conv`), against the
  normalised source text `Cel.Model.Conv` was written from; the int64/uint64 range checks are
  translated and proved equal in `Cel.Bridge.Num`; handlers by membership.
-/
import Cel.Gen.Conv
import Cel.Model.Conv
import Cel.Model.ConvDispatch
import Cel.Bridge.Num
namespace Cel.Bridge.Conv
open Cel

/-! ## dispatch of the `__new__` ladders, compared semantically

`xNewSpec k t`: for a source of exact class `k` (with text `t` when it is a str) the statements
`X.__new__` executes (round 4: in the leaf normal form of the translator — `cast(T, x)` is `x`, a local bound
just to be used once in the next statement is folded into it) — the pinned reading of the source the model (`Cel.Conv.intOfText` …) was written
from.  The regenerated functions must agree for EVERY class and EVERY text; how the source spells
the dispatch (nesting, `and`, early returns, order of tuple / set members) is immaterial. -/

def intTypeNewSpec (k : Cel.Conv.Cls) (t : List Nat) : String :=
  if Cel.Conv.isInst k [.NoneType] then "return super().__new__(cls, 0)"
  else 
    if Cel.Conv.isInst k [.IntType] then "return source"
    else 
      if Cel.Conv.isInst k [.MessageType] then "return super().__new__(cls, source.get(StringType('value')))"
      else 
        if Cel.Conv.isInst k [.float, .DoubleType] then "return super().__new__(cls, int64(trunc)(source))"
        else 
          if Cel.Conv.isInst k [.TimestampType] then "return super().__new__(cls, int64(lambda src: src.timestamp())(source))"
          else 
            if (Cel.Conv.isInst k [.str, .StringType] && Cel.Conv.prefixIn t 2 [[48, 88], [48, 120]]) then "return super().__new__(cls, int64(lambda src: int(src[2:], 16))(source))"
            else 
              if (Cel.Conv.isInst k [.str, .StringType] && Cel.Conv.prefixIn t 3 [[45, 48, 88], [45, 48, 120]]) then "return super().__new__(cls, int64(lambda src: -int(src[3:], 16))(source))"
              else "return super().__new__(cls, int64(int)(source))"
def uintTypeNewSpec (k : Cel.Conv.Cls) (t : List Nat) : String :=
  if Cel.Conv.isInst k [.UintType] then "return source"
  else 
    if Cel.Conv.isInst k [.float, .DoubleType] then "return super().__new__(cls, uint64(trunc)(source))"
    else 
      if Cel.Conv.isInst k [.TimestampType] then "return super().__new__(cls, uint64(lambda src: src.timestamp())(source))"
      else 
        if (Cel.Conv.isInst k [.str, .StringType] && Cel.Conv.prefixIn t 2 [[48, 88], [48, 120]]) then "return super().__new__(cls, uint64(lambda src: int(src[2:], 16))(source))"
        else 
          if Cel.Conv.isInst k [.MessageType] then "return super().__new__(cls, uint64(lambda src: src['value'] if src['value'] is not None else 0)(source))"
          else 
            if Cel.Conv.isInst k [.NoneType] then "return super().__new__(cls, uint64(lambda src: 0)(source))"
            else "return super().__new__(cls, uint64(int)(source))"
def doubleTypeNewSpec (k : Cel.Conv.Cls) (t : List Nat) : String :=
  if Cel.Conv.isInst k [.NoneType] then "return super().__new__(cls, 0)"
  else 
    if Cel.Conv.isInst k [.MessageType] then "return super().__new__(cls, source.get(StringType('value')))"
    else "return super().__new__(cls, source)"
def stringTypeNewSpec (k : Cel.Conv.Cls) (t : List Nat) : String :=
  if Cel.Conv.isInst k [.bytes, .BytesType] then "return super().__new__(cls, source.decode('utf'))"
  else 
    if Cel.Conv.isInst k [.str, .StringType] then "return super().__new__(cls, source)"
    else "return super().__new__(cls, source)"
def bytesTypeNewSpec (k : Cel.Conv.Cls) (t : List Nat) : String :=
  if Cel.Conv.isInst k [.NoneType] then "return super().__new__(cls, b'')"
  else 
    if Cel.Conv.isInst k [.bytes, .BytesType] then "return super().__new__(cls, source)"
    else 
      if Cel.Conv.isInst k [.str, .StringType] then "return super().__new__(cls, source.encode('utf-8'))"
      else 
        if Cel.Conv.isInst k [.MessageType] then "return super().__new__(cls, source.get(StringType('value')))"
        else 
          if Cel.Conv.isInst k [.Iterable] then "return super().__new__(cls, source)"
          else "raise TypeError(f'Invalid initial value type: {type(source)}')"
def boolTypeNewSpec (k : Cel.Conv.Cls) (t : List Nat) : String :=
  if Cel.Conv.isInst k [.NoneType] then "return super().__new__(cls, 0)"
  else 
    if Cel.Conv.isInst k [.BoolType] then "return source"
    else 
      if Cel.Conv.isInst k [.MessageType] then "return super().__new__(cls, source.get(StringType('value')))"
      else 
        if Cel.Conv.isInst k [.str, .StringType] then 
          if Cel.Conv.textIn t [[70, 65, 76, 83, 69], [70, 97, 108, 115, 101], [102], [102, 97, 108, 115, 101]] then "return super().__new__(cls, 0)"
          else 
            if Cel.Conv.textIn t [[84, 82, 85, 69], [84, 114, 117, 101], [116], [116, 114, 117, 101]] then "return super().__new__(cls, 1)"
            else "return super().__new__(cls, source)"
        else "return super().__new__(cls, source)"

/-- closes what `simp` leaves when the two sides nest or order their text tests differently: case
split on every remaining test; contradictory combinations of text tests (`source[:2]` is `0x` and
`source[:3]` is `-0x`) are refuted on the first characters of the text -/
syntax "dispatch_tail " ident : tactic
macro_rules
  | `(tactic| dispatch_tail $t:ident) =>
    `(tactic| (repeat' split) <;> first
      | (simp_all; done)
      | (rcases $t:ident with _ | ⟨_, _ | ⟨_, _ | ⟨_, _ | ⟨_, _⟩⟩⟩⟩ <;> simp_all [Conv.prefixIn, Conv.textIn] <;> omega))

theorem intTypeNew_eq (k : Conv.Cls) (t : List Nat) : Gen.Conv.intTypeNew k t = intTypeNewSpec k t := by
  cases k <;> simp [Gen.Conv.intTypeNew, intTypeNewSpec, Conv.isInst, Conv.ancestors] <;> dispatch_tail t

theorem uintTypeNew_eq (k : Conv.Cls) (t : List Nat) : Gen.Conv.uintTypeNew k t = uintTypeNewSpec k t := by
  cases k <;> simp [Gen.Conv.uintTypeNew, uintTypeNewSpec, Conv.isInst, Conv.ancestors] <;> dispatch_tail t

theorem doubleTypeNew_eq (k : Conv.Cls) (t : List Nat) : Gen.Conv.doubleTypeNew k t = doubleTypeNewSpec k t := by
  cases k <;> simp [Gen.Conv.doubleTypeNew, doubleTypeNewSpec, Conv.isInst, Conv.ancestors] <;> dispatch_tail t

theorem stringTypeNew_eq (k : Conv.Cls) (t : List Nat) : Gen.Conv.stringTypeNew k t = stringTypeNewSpec k t := by
  cases k <;> simp [Gen.Conv.stringTypeNew, stringTypeNewSpec, Conv.isInst, Conv.ancestors] <;> dispatch_tail t

theorem bytesTypeNew_eq (k : Conv.Cls) (t : List Nat) : Gen.Conv.bytesTypeNew k t = bytesTypeNewSpec k t := by
  cases k <;> simp [Gen.Conv.bytesTypeNew, bytesTypeNewSpec, Conv.isInst, Conv.ancestors] <;> dispatch_tail t

theorem boolTypeNew_eq (k : Conv.Cls) (t : List Nat) : Gen.Conv.boolTypeNew k t = boolTypeNewSpec k t := by
  cases k <;> simp [Gen.Conv.boolTypeNew, boolTypeNewSpec, Conv.isInst, Conv.ancestors] <;> dispatch_tail t

/-- the class hierarchy the dispatch is evaluated over is the one the `class` statements declare -/
theorem classBases_eq : Gen.Conv.classBases = Conv.celBases := by decide
theorem ancestors_follow_bases : ∀ p ∈ Conv.celBases, Conv.ancestors p.1 = p.1 :: Conv.ancestors p.2 := by decide

theorem timestampTypeNewTests_eq : Gen.Conv.timestampTypeNewTests =
    ["isinstance(source, datetime.datetime)", "isinstance(source, int) and len(args) >= 2", "isinstance(source, str)", "else"] := rfl
theorem timestampTypeStrBranch_eq : Gen.Conv.timestampTypeStrBranch =
    "parsed_datetime = cast(datetime.datetime, pendulum.parse(source)); parsed_datetime.utcoffset(); return super().__new__(cls, year=parsed_datetime.year, month=parsed_datetime.month, day=parsed_datetime.day, hour=parsed_datetime.hour, minute=parsed_datetime.minute, second=parsed_datetime.second, microsecond=parsed_datetime.microsecond, tzinfo=parsed_datetime.tzinfo)" := rfl
theorem intTypeStr_eq : Gen.Conv.intTypeStr =
    "return str(int(self))" := rfl
theorem uintTypeStr_eq : Gen.Conv.uintTypeStr =
    "return str(int(self))" := rfl
theorem doubleTypeStr_eq : Gen.Conv.doubleTypeStr =
    "return str(float(self))" := rfl
theorem boolTypeStr_eq : Gen.Conv.boolTypeStr =
    "return str(bool(self))" := rfl
theorem timestampTypeStr_eq : Gen.Conv.timestampTypeStr =
    "return ite(endswith(cat(fmt(self.year|04d|-1), self.strftime('-%m-%dT%H:%M:%S%z')), '+0000'), cat(slice(cat(fmt(self.year|04d|-1), self.strftime('-%m-%dT%H:%M:%S%z')), None, -5), 'Z'), cat(slice(cat(fmt(self.year|04d|-1), self.strftime('-%m-%dT%H:%M:%S%z')), None, -2), ':', slice(cat(fmt(self.year|04d|-1), self.strftime('-%m-%dT%H:%M:%S%z')), -2, None)))" := rfl
theorem durationTypeStr_eq : Gen.Conv.durationTypeStr =
    "return cat(fmt(int(self.total_seconds())||-1), 's')" := rfl
theorem conversions_eq : Gen.Conv.conversions =
    [("bool", "celpy.celtypes.BoolType"),
   ("bytes", "celpy.celtypes.BytesType"),
   ("double", "celpy.celtypes.DoubleType"),
   ("duration", "celpy.celtypes.DurationType"),
   ("int", "celpy.celtypes.IntType"),
   ("string", "celpy.celtypes.StringType"),
   ("timestamp", "celpy.celtypes.TimestampType"),
   ("uint", "celpy.celtypes.UintType")] := rfl

/-- the range checks the model applies are the decorators of the source (see `Cel.Bridge.Num`) -/
theorem int64_is_source : Gen.int64 = Cel.int64 := Cel.Bridge.int64_eq
theorem uint64_is_source : Gen.uint64 = Cel.uint64 := Cel.Bridge.uint64_eq

/-- what the conversions raise on bad input is an evaluation error of `function_eval` -/
theorem function_eval_handlers :
    Exc.valueError ∈ Gen.Conv.handlers_function_eval ∧ Exc.typeError ∈ Gen.Conv.handlers_function_eval := by decide

end Cel.Bridge.Conv
