/-
  Bridge for C10: the `__new__` dispatch ladders, the `__str__` bodies and the conversion names of
  `base_functions`, regenerated from the source on every run (`Cel.Gen.Conv`), against the
  normalised source text `Cel.Model.Conv` was written from; the int64/uint64 range checks are
  translated and proved equal in `Cel.Bridge.Num`; handlers by membership.
-/
import Cel.Gen.Conv
import Cel.Model.Conv
import Cel.Bridge.Num
namespace Cel.Bridge.Conv
open Cel

theorem intTypeNewLadder_eq : Gen.Conv.intTypeNewLadder =
    [("source is None", "return super().__new__(cls, 0)"),
   ("isinstance(source, IntType)", "return source"),
   ("isinstance(source, MessageType)", "return super().__new__(cls, cast(int, source.get(StringType('value'))))"),
   ("isinstance(source, (float, DoubleType))", "convert = int64(trunc)"),
   ("isinstance(source, TimestampType)", "convert = int64(lambda src: src.timestamp())"),
   ("isinstance(source, (str, StringType)) and source[:2] in {'0x', '0X'}", "convert = int64(lambda src: int(src[2:], 16))"),
   ("isinstance(source, (str, StringType)) and source[:3] in {'-0x', '-0X'}", "convert = int64(lambda src: -int(src[3:], 16))"),
   ("else", "convert = int64(int)"),
   ("then", "return super().__new__(cls, convert(source))")] := rfl
theorem uintTypeNewLadder_eq : Gen.Conv.uintTypeNewLadder =
    [("isinstance(source, UintType)", "return source"),
   ("isinstance(source, (float, DoubleType))", "convert = uint64(trunc)"),
   ("isinstance(source, TimestampType)", "convert = uint64(lambda src: src.timestamp())"),
   ("isinstance(source, (str, StringType)) and source[:2] in {'0x', '0X'}", "convert = uint64(lambda src: int(src[2:], 16))"),
   ("isinstance(source, MessageType)", "convert = uint64(lambda src: src['value'] if src['value'] is not None else 0)"),
   ("source is None", "convert = uint64(lambda src: 0)"),
   ("else", "convert = uint64(int)"),
   ("then", "return super().__new__(cls, convert(source))")] := rfl
theorem doubleTypeNewLadder_eq : Gen.Conv.doubleTypeNewLadder =
    [("source is None", "return super().__new__(cls, 0)"),
   ("isinstance(source, MessageType)", "return super().__new__(cls, cast(float, source.get(StringType('value'))))"),
   ("else", "return super().__new__(cls, source)")] := rfl
theorem stringTypeNewLadder_eq : Gen.Conv.stringTypeNewLadder =
    [("isinstance(source, (bytes, BytesType))", "return super().__new__(cls, source.decode('utf'))"),
   ("isinstance(source, (str, StringType))", "return super().__new__(cls, source)"),
   ("else", "return cast(StringType, super().__new__(cls, source))")] := rfl
theorem bytesTypeNewLadder_eq : Gen.Conv.bytesTypeNewLadder =
    [("source is None", "return super().__new__(cls, b'')"),
   ("isinstance(source, (bytes, BytesType))", "return super().__new__(cls, source)"),
   ("isinstance(source, (str, StringType))", "return super().__new__(cls, source.encode('utf-8'))"),
   ("isinstance(source, MessageType)", "return super().__new__(cls, cast(bytes, source.get(StringType('value'))))"),
   ("isinstance(source, Iterable)", "return super().__new__(cls, source)"),
   ("else", "raise TypeError(f'Invalid initial value type: {type(source)}')")] := rfl
theorem boolTypeNewLadder_eq : Gen.Conv.boolTypeNewLadder =
    [("source is None", "return super().__new__(cls, 0)"),
   ("isinstance(source, BoolType)", "return source"),
   ("isinstance(source, MessageType)", "return super().__new__(cls, cast(int, source.get(StringType('value'))))"),
   ("isinstance(source, (str, StringType))", "if source in ('False', 'f', 'FALSE', 'false'):\n    return super().__new__(cls, 0)\nelif source in ('True', 't', 'TRUE', 'true'):\n    return super().__new__(cls, 1); return super().__new__(cls, source)"),
   ("else", "return super().__new__(cls, source)")] := rfl
theorem timestampTypeNewTests_eq : Gen.Conv.timestampTypeNewTests =
    ["isinstance(source, datetime.datetime)", "isinstance(source, int) and len(args) >= 2", "isinstance(source, str)", "else"] := rfl
theorem timestampTypeStrBranch_eq : Gen.Conv.timestampTypeStrBranch =
    "parsed_datetime = cast(datetime.datetime, pendulum.parse(source)); parsed_datetime.utcoffset(); return super().__new__(cls, year=parsed_datetime.year, month=parsed_datetime.month, day=parsed_datetime.day, hour=parsed_datetime.hour, minute=parsed_datetime.minute, second=parsed_datetime.second, microsecond=parsed_datetime.microsecond, tzinfo=parsed_datetime.tzinfo)" := rfl
theorem intTypeStr_eq : Gen.Conv.intTypeStr =
    "text = str(int(self))\nreturn text" := rfl
theorem uintTypeStr_eq : Gen.Conv.uintTypeStr =
    "text = str(int(self))\nreturn text" := rfl
theorem doubleTypeStr_eq : Gen.Conv.doubleTypeStr =
    "text = str(float(self))\nreturn text" := rfl
theorem boolTypeStr_eq : Gen.Conv.boolTypeStr =
    "return str(bool(self))" := rfl
theorem timestampTypeStr_eq : Gen.Conv.timestampTypeStr =
    "text = f'{self.year:04d}' + self.strftime('-%m-%dT%H:%M:%S%z')\nif text.endswith('+0000'):\n    return f'{text[:-5]}Z'\nreturn f'{text[:-2]}:{text[-2:]}'" := rfl
theorem durationTypeStr_eq : Gen.Conv.durationTypeStr =
    "return '{0}s'.format(int(self.total_seconds()))" := rfl
theorem conversions_eq : Gen.Conv.conversions =
    [("bool", "celpy.celtypes.BoolType"),
   ("bytes", "celpy.celtypes.BytesType"),
   ("double", "celpy.celtypes.DoubleType"),
   ("duration", "celpy.celtypes.DurationType"),
   ("int", "celpy.celtypes.IntType"),
   ("string", "celpy.celtypes.StringType"),
   ("timestamp", "celpy.celtypes.TimestampType"),
   ("uint", "celpy.celtypes.UintType")] := rfl

/-- the range checks the model applies are the decorators of the source (see `Cel.Bridge.Num`) -/
theorem int64_is_source : Gen.int64 = Cel.int64 := Cel.Bridge.int64_eq
theorem uint64_is_source : Gen.uint64 = Cel.uint64 := Cel.Bridge.uint64_eq

/-- what the conversions raise on bad input is an evaluation error of `function_eval` -/
theorem function_eval_handlers :
    Exc.valueError ∈ Gen.Conv.handlers_function_eval ∧ Exc.typeError ∈ Gen.Conv.handlers_function_eval := by decide

end Cel.Bridge.Conv
