/- Bridge: IntType/UintType arithmetic regenerated from celtypes.py equals the hand-written model. -/
import Cel.Gen.Num
namespace Cel.Bridge
open Cel

theorem int64_eq : Gen.int64 = int64 := by
  funext z
  unfold Gen.int64 int64
  by_cases h : -(2:Int)^63 ≤ z ∧ z < (2:Int)^63
  · rw [if_pos h, if_pos h]; rfl
  · rw [if_neg h, if_neg h]; rfl
theorem uint64_eq : Gen.uint64 = uint64 := by
  funext z
  unfold Gen.uint64 uint64
  by_cases h : (0:Int) ≤ z ∧ z < (2:Int)^64
  · rw [if_pos h, if_pos h]; rfl
  · rw [if_neg h, if_neg h]; rfl

/-- closes what `simp` leaves when the source was rewritten harmlessly (commuted factors, …) -/
macro "bridge_finish" : tactic =>
  `(tactic| try (first
      | rfl
      | ac_rfl
      | (congr 1; funext _; first | rfl | ac_rfl | (congr 1; ac_rfl) | (congr 2; ac_rfl))))

@[simp] theorem ok_bind {α β} (a : α) (f : α → PyM β) : (Except.ok a >>= f) = f a := rfl
theorem int64_zero : int64 0 = .ok 0 := by simp [int64]

section Int
open IntOps
theorem int_neg (a : Int) : Gen.IntType.neg a = neg a := by
  simp [Gen.IntType.neg, neg, wrap, int64_eq]
  bridge_finish
theorem int_add (a b : Int) : Gen.IntType.add a b = add a b := by
  simp [Gen.IntType.add, add, wrap, int64_eq]
  bridge_finish
theorem int_sub (a b : Int) : Gen.IntType.sub a b = sub a b := by
  simp [Gen.IntType.sub, sub, wrap, int64_eq]
  bridge_finish
theorem int_mul (a b : Int) : Gen.IntType.mul a b = mul a b := by
  simp [Gen.IntType.mul, mul, wrap, int64_eq]
  bridge_finish
theorem int_truediv (a b : Int) : Gen.IntType.truediv a b = truediv a b := by
  simp [Gen.IntType.truediv, truediv, wrap, int64_eq, int64_zero, pySign, bind_assoc]
  bridge_finish
theorem int_mod (a b : Int) : Gen.IntType.mod a b = mod a b := by
  simp [Gen.IntType.mod, mod, wrap, int64_eq, int64_zero, pySign, bind_assoc]
  bridge_finish
theorem int_radd (a b : Int) : Gen.IntType.radd a b = radd a b := by
  simp [Gen.IntType.radd, radd, wrap, int64_eq]
  bridge_finish
theorem int_rsub (a b : Int) : Gen.IntType.rsub a b = rsub a b := by
  simp [Gen.IntType.rsub, rsub, wrap, int64_eq]
  bridge_finish
theorem int_rmul (a b : Int) : Gen.IntType.rmul a b = rmul a b := by
  simp [Gen.IntType.rmul, rmul, wrap, int64_eq]
  bridge_finish
theorem int_rtruediv (a b : Int) : Gen.IntType.rtruediv a b = rtruediv a b := by
  simp [Gen.IntType.rtruediv, rtruediv, wrap, int64_eq, int64_zero, pySign, bind_assoc]
  bridge_finish
theorem int_rmod (a b : Int) : Gen.IntType.rmod a b = rmod a b := by
  simp [Gen.IntType.rmod, rmod, wrap, int64_eq, int64_zero, pySign, bind_assoc]
  bridge_finish
end Int

section Uint
open UintOps
theorem uint_neg (a : Int) : Gen.UintType.neg a = neg a := by
  simp [Gen.UintType.neg, neg]; rfl
theorem uint_add (a b : Int) : Gen.UintType.add a b = add a b := by
  simp [Gen.UintType.add, add, wrap, uint64_eq]
  bridge_finish
theorem uint_sub (a b : Int) : Gen.UintType.sub a b = sub a b := by
  simp [Gen.UintType.sub, sub, wrap, uint64_eq]
  bridge_finish
theorem uint_mul (a b : Int) : Gen.UintType.mul a b = mul a b := by
  simp [Gen.UintType.mul, mul, wrap, uint64_eq]
  bridge_finish
theorem uint_truediv (a b : Int) : Gen.UintType.truediv a b = truediv a b := by
  simp [Gen.UintType.truediv, truediv, wrap, uint64_eq, bind_assoc]
  bridge_finish
theorem uint_mod (a b : Int) : Gen.UintType.mod a b = mod a b := by
  simp [Gen.UintType.mod, mod, wrap, uint64_eq, bind_assoc]
  bridge_finish
theorem uint_radd (a b : Int) : Gen.UintType.radd a b = radd a b := by
  simp [Gen.UintType.radd, radd, wrap, uint64_eq]
  bridge_finish
theorem uint_rsub (a b : Int) : Gen.UintType.rsub a b = rsub a b := by
  simp [Gen.UintType.rsub, rsub, wrap, uint64_eq]
  bridge_finish
theorem uint_rmul (a b : Int) : Gen.UintType.rmul a b = rmul a b := by
  simp [Gen.UintType.rmul, rmul, wrap, uint64_eq]
  bridge_finish
theorem uint_rtruediv (a b : Int) : Gen.UintType.rtruediv a b = rtruediv a b := by
  simp [Gen.UintType.rtruediv, rtruediv, wrap, uint64_eq, bind_assoc]
  bridge_finish
theorem uint_rmod (a b : Int) : Gen.UintType.rmod a b = rmod a b := by
  simp [Gen.UintType.rmod, rmod, wrap, uint64_eq, bind_assoc]
  bridge_finish
end Uint

/-- the aliases `__floordiv__ = __truediv__` present in the source (so `//` cannot bypass the checks) -/
theorem int_aliases : ("__floordiv__", "__truediv__") ∈ Gen.IntType.aliases ∧
    ("__rfloordiv__", "__rtruediv__") ∈ Gen.IntType.aliases := by decide

end Cel.Bridge
