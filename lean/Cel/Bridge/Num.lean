/- Bridge: IntType/UintType arithmetic regenerated from celtypes.py equals the hand-written model.

   The proofs are about the semantic content, not the spelling of the source: the range checks are proved
   by splitting every `if` and calling `omega` (so `lo <= r < hi`, `lo <= r and r < hi`, a guard clause with
   the negated test, `r < lo or r >= hi`, named constants, boolean locals and inlined helpers all pass, and
   a wrong bound does not); the dunders first by `simp` + `ac_rfl`, then (`full_bridge`) by unfolding every
   primitive, splitting and `omega`. -/
import Cel.Gen.Num
namespace Cel.Bridge
open Cel

@[simp] theorem ok_bind {α β} (a : α) (f : α → PyM β) : (Except.ok a >>= f) = f a := rfl
theorem num_error_bind {α β} (e : Exc) (f : α → PyM β) : ((Except.error e : PyM α) >>= f) = .error e := rfl
theorem num_pure_ok {α} (a : α) : (pure a : PyM α) = .ok a := rfl
theorem num_throw_error {α} (e : Exc) : (throw e : PyM α) = .error e := rfl

/-- range-check bridges: unfold both sides (helpers are `@[simp]`), split every `if`, and let `omega`
decide the integer conditions — independent of how the source spells the test -/
macro "range_bridge" : tactic =>
  `(tactic| (
      try simp [num_pure_ok, num_throw_error, num_error_bind]
      try simp only [num_pure_ok, num_throw_error, ok_bind, num_error_bind, decide_eq_true_eq, bind_pure]
      repeat' split
      all_goals first
        | rfl
        | (exfalso; omega)
        | (simp_all <;> omega)))

theorem int64_eq : Gen.int64 = int64 := by
  funext z
  unfold Gen.int64 int64
  range_bridge
theorem uint64_eq : Gen.uint64 = uint64 := by
  funext z
  unfold Gen.uint64 uint64
  range_bridge
/-- closes what `simp` leaves when the source was rewritten harmlessly (commuted factors, …) -/
macro "bridge_finish" : tactic =>
  `(tactic| try (first
      | rfl
      | ac_rfl
      | (congr 1; funext _; first | rfl | ac_rfl | (congr 1; ac_rfl) | (congr 2; ac_rfl))))

theorem int64_zero : int64 0 = .ok 0 := by simp [int64]

theorem num_ite_bind {α β} (c : Prop) [Decidable c] (x y : PyM α) (f : α → PyM β) :
    ((if c then x else y) >>= f) = if c then x >>= f else y >>= f := by split <;> rfl
theorem num_ok_inj {a b : Int} (h : a = b) : (Except.ok a : PyM Int) = .ok b := by rw [h]

/-- second line of defence for the dunder bridges: unfold every primitive of the model, push the binds
through the `if`s, split every `if` on both sides and let `omega` settle the (then linear) arithmetic —
independent of statement order, hoisted locals, `if` statements vs. conditional expressions, commuted
or re-associated factors -/
macro "full_bridge" : tactic =>
  `(tactic| (
      repeat' (first
        | rfl
        | split
        | (simp only [int64, uint64, pyFloorDiv, pyMod, pySign, pyAbs, num_ite_bind, ok_bind, num_error_bind, num_pure_ok,
            num_throw_error, decide_eq_true_eq, bind_assoc, bind_pure]))
      all_goals first
        | (exfalso; omega)
        | (apply num_ok_inj; omega)
        | (simp_all <;> omega)))

section Int
open IntOps
theorem int_neg (a : Int) : Gen.IntType.neg a = neg a := by
  first
    | (simp [Gen.IntType.neg, neg, wrap, int64_eq]; bridge_finish; done)
    | (simp only [Gen.IntType.neg, neg, wrap, int64_eq, uint64_eq]; full_bridge)
theorem int_add (a b : Int) : Gen.IntType.add a b = add a b := by
  first
    | (simp [Gen.IntType.add, add, wrap, int64_eq]; bridge_finish; done)
    | (simp only [Gen.IntType.add, add, wrap, int64_eq, uint64_eq]; full_bridge)
theorem int_sub (a b : Int) : Gen.IntType.sub a b = sub a b := by
  first
    | (simp [Gen.IntType.sub, sub, wrap, int64_eq]; bridge_finish; done)
    | (simp only [Gen.IntType.sub, sub, wrap, int64_eq, uint64_eq]; full_bridge)
theorem int_mul (a b : Int) : Gen.IntType.mul a b = mul a b := by
  first
    | (simp [Gen.IntType.mul, mul, wrap, int64_eq]; bridge_finish; done)
    | (simp only [Gen.IntType.mul, mul, wrap, int64_eq, uint64_eq]; full_bridge)
theorem int_truediv (a b : Int) : Gen.IntType.truediv a b = truediv a b := by
  first
    | (simp [Gen.IntType.truediv, truediv, wrap, int64_eq, int64_zero, pySign, bind_assoc]; bridge_finish; done)
    | (simp only [Gen.IntType.truediv, truediv, wrap, int64_eq, uint64_eq]; full_bridge)
theorem int_mod (a b : Int) : Gen.IntType.mod a b = mod a b := by
  first
    | (simp [Gen.IntType.mod, mod, wrap, int64_eq, int64_zero, pySign, bind_assoc]; bridge_finish; done)
    | (simp only [Gen.IntType.mod, mod, wrap, int64_eq, uint64_eq]; full_bridge)
theorem int_radd (a b : Int) : Gen.IntType.radd a b = radd a b := by
  first
    | (simp [Gen.IntType.radd, radd, wrap, int64_eq]; bridge_finish; done)
    | (simp only [Gen.IntType.radd, radd, wrap, int64_eq, uint64_eq]; full_bridge)
theorem int_rsub (a b : Int) : Gen.IntType.rsub a b = rsub a b := by
  first
    | (simp [Gen.IntType.rsub, rsub, wrap, int64_eq]; bridge_finish; done)
    | (simp only [Gen.IntType.rsub, rsub, wrap, int64_eq, uint64_eq]; full_bridge)
theorem int_rmul (a b : Int) : Gen.IntType.rmul a b = rmul a b := by
  first
    | (simp [Gen.IntType.rmul, rmul, wrap, int64_eq]; bridge_finish; done)
    | (simp only [Gen.IntType.rmul, rmul, wrap, int64_eq, uint64_eq]; full_bridge)
theorem int_rtruediv (a b : Int) : Gen.IntType.rtruediv a b = rtruediv a b := by
  first
    | (simp [Gen.IntType.rtruediv, rtruediv, wrap, int64_eq, int64_zero, pySign, bind_assoc]; bridge_finish; done)
    | (simp only [Gen.IntType.rtruediv, rtruediv, wrap, int64_eq, uint64_eq]; full_bridge)
theorem int_rmod (a b : Int) : Gen.IntType.rmod a b = rmod a b := by
  first
    | (simp [Gen.IntType.rmod, rmod, wrap, int64_eq, int64_zero, pySign, bind_assoc]; bridge_finish; done)
    | (simp only [Gen.IntType.rmod, rmod, wrap, int64_eq, uint64_eq]; full_bridge)
end Int

section Uint
open UintOps
theorem uint_neg (a : Int) : Gen.UintType.neg a = neg a := by
  first | rfl | (simp [Gen.UintType.neg, neg]; rfl) | (simp [Gen.UintType.neg, neg, num_throw_error]; done)
theorem uint_add (a b : Int) : Gen.UintType.add a b = add a b := by
  first
    | (simp [Gen.UintType.add, add, wrap, uint64_eq]; bridge_finish; done)
    | (simp only [Gen.UintType.add, add, wrap, int64_eq, uint64_eq]; full_bridge)
theorem uint_sub (a b : Int) : Gen.UintType.sub a b = sub a b := by
  first
    | (simp [Gen.UintType.sub, sub, wrap, uint64_eq]; bridge_finish; done)
    | (simp only [Gen.UintType.sub, sub, wrap, int64_eq, uint64_eq]; full_bridge)
theorem uint_mul (a b : Int) : Gen.UintType.mul a b = mul a b := by
  first
    | (simp [Gen.UintType.mul, mul, wrap, uint64_eq]; bridge_finish; done)
    | (simp only [Gen.UintType.mul, mul, wrap, int64_eq, uint64_eq]; full_bridge)
theorem uint_truediv (a b : Int) : Gen.UintType.truediv a b = truediv a b := by
  first
    | (simp [Gen.UintType.truediv, truediv, wrap, uint64_eq, bind_assoc]; bridge_finish; done)
    | (simp only [Gen.UintType.truediv, truediv, wrap, int64_eq, uint64_eq]; full_bridge)
theorem uint_mod (a b : Int) : Gen.UintType.mod a b = mod a b := by
  first
    | (simp [Gen.UintType.mod, mod, wrap, uint64_eq, bind_assoc]; bridge_finish; done)
    | (simp only [Gen.UintType.mod, mod, wrap, int64_eq, uint64_eq]; full_bridge)
theorem uint_radd (a b : Int) : Gen.UintType.radd a b = radd a b := by
  first
    | (simp [Gen.UintType.radd, radd, wrap, uint64_eq]; bridge_finish; done)
    | (simp only [Gen.UintType.radd, radd, wrap, int64_eq, uint64_eq]; full_bridge)
theorem uint_rsub (a b : Int) : Gen.UintType.rsub a b = rsub a b := by
  first
    | (simp [Gen.UintType.rsub, rsub, wrap, uint64_eq]; bridge_finish; done)
    | (simp only [Gen.UintType.rsub, rsub, wrap, int64_eq, uint64_eq]; full_bridge)
theorem uint_rmul (a b : Int) : Gen.UintType.rmul a b = rmul a b := by
  first
    | (simp [Gen.UintType.rmul, rmul, wrap, uint64_eq]; bridge_finish; done)
    | (simp only [Gen.UintType.rmul, rmul, wrap, int64_eq, uint64_eq]; full_bridge)
theorem uint_rtruediv (a b : Int) : Gen.UintType.rtruediv a b = rtruediv a b := by
  first
    | (simp [Gen.UintType.rtruediv, rtruediv, wrap, uint64_eq, bind_assoc]; bridge_finish; done)
    | (simp only [Gen.UintType.rtruediv, rtruediv, wrap, int64_eq, uint64_eq]; full_bridge)
theorem uint_rmod (a b : Int) : Gen.UintType.rmod a b = rmod a b := by
  first
    | (simp [Gen.UintType.rmod, rmod, wrap, uint64_eq, bind_assoc]; bridge_finish; done)
    | (simp only [Gen.UintType.rmod, rmod, wrap, int64_eq, uint64_eq]; full_bridge)
end Uint

/-- the aliases `__floordiv__ = __truediv__` present in the source (so `//` cannot bypass the checks) -/
theorem int_aliases : ("__floordiv__", "__truediv__") ∈ Gen.IntType.aliases ∧
    ("__rfloordiv__", "__rtruediv__") ∈ Gen.IntType.aliases := by decide

end Cel.Bridge
