/- Bridge (C12), continued: see Cel.Bridge.Names (scope definitions).  Separate module so that the kernel
   evaluations run in parallel. -/
import Cel.Bridge.Names
namespace Cel.Bridge
open Cel Cel.Names Cel.NamesPy NamesScope

/-- `resolve_name` as written in the source now computes `resolveName`: package path first, shortened from
the end one name at a time down to the root, over the parent chain (this container first), candidates that
raise NotFound/TypeError skipped, KeyError if nothing matched -/
theorem names_resolve_name :
    checkResolveName = true ∧ Gen.Names.parentIterSelfFirst = true ∧ Gen.NamesPy.identPatIsIdent = true := by
  decide +kernel

end Cel.Bridge
