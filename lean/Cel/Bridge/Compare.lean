/- Bridge (C08): what celtypes.py / evaluation.py / cel.lark say now about comparisons (Cel.Gen.Compare,
   regenerated on every run) equals what the model assumes; corollaries restate the central C08 facts
   directly for the regenerated specification. -/
import Cel.Gen.Compare
import Cel.Lemmas.Value
namespace Cel.Bridge.Compare
open Cel

/-- every wrapper class defines exactly the comparison dunders, in exactly the style, the model assumes -/
theorem cmpTable_eq : Gen.cmpTable = cmpTable := by
  funext c op; cases c <;> cases op <;> rfl
theorem typeMatched_eq : Gen.typeMatchedSpec = typeMatchedSpec := by decide
theorem listEq_eq : Gen.listEqSpec = listEqSpec := by decide
theorem listNe_eq : Gen.listNeSpec = listNeSpec := by decide
theorem mapEq_eq : Gen.mapEqSpec = mapEqSpec := by decide
theorem mapNe_eq : Gen.mapNeSpec = mapNeSpec := by decide
theorem cmpSpecs_eq : Gen.cmpSpecs = cmpSpecs := by
  simp only [Gen.cmpSpecs, cmpSpecs, cmpTable_eq, typeMatched_eq, listEq_eq, listNe_eq, mapEq_eq, mapNe_eq]
theorem bases_eq : Gen.bases = nativeBases := by decide
theorem boolean_eq : Gen.booleanSpec = booleanSpec := by decide
/-- each CEL relation token reaches its own `operator.*` function in both runners
(cel.lark → relation_xx → "_op_" → base_functions → bool_xx → operator.xx) -/
theorem routeI_eq : Gen.routeI = relRoute := by funext op; cases op <;> rfl
theorem routeC_eq : Gen.routeC = relRoute := by funext op; cases op <;> rfl
/-- the interpreter's `relation` rule converts TypeError, as `relI` assumes -/
theorem relation_catches_TypeError : ∀ c ∈ handlersRelation, c ∈ Gen.handlersRelation := by decide
/-- `result()` converts TypeError, as `relC` assumes -/
theorem result_catches_TypeError : Exc.typeError ∈ Gen.resultCaught := by decide

/-- the model of `==`/`!=` instantiated with the regenerated specification meets the point-wise specification -/
theorem gen_eq_is_spec (a b : Val) (h : sameType a b = true) :
    pyRel Gen.cmpSpecs .eq a b = .ok (eqSpec a b) ∧ pyRel Gen.cmpSpecs .ne a b = .ok (!eqSpec a b) := by
  rw [cmpSpecs_eq]; exact rel_spec a b h
/-- … and every relation on an ordered type is the mathematical order, through either runner's route -/
theorem gen_rel_is_order (op : RelOp) (a b : Val) (h : sameOrdered a b = true) :
    pyRel Gen.cmpSpecs (Gen.routeI op) a b = .ok (op.holds (ocmp a b)) ∧
    pyRel Gen.cmpSpecs (Gen.routeC op) a b = .ok (op.holds (ocmp a b)) := by
  rw [cmpSpecs_eq, routeI_eq, routeC_eq]; exact ⟨pyRel_ordered op a b h, pyRel_ordered op a b h⟩

end Cel.Bridge.Compare
