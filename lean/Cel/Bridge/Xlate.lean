/- Bridge for C18: the templates read from src/xlate/c7n_to_cel.py today are the ones the model
   `Cel.Xlate.logicalConnector` / `operands` / `scanTop` was written against. -/
import Cel.Gen.Xlate
import Cel.Model.Xlate
namespace Cel.Bridge
open Cel.Xlate

theorem xlate_branches : Gen.Xlate.branches = sourceBranches := by rfl
theorem xlate_operands : Gen.Xlate.operandsTemplate = sourceOperands := by rfl
theorem xlate_scanner_constants : Gen.Xlate.scannerConstants = sourceScannerConstants := by rfl
/-- fingerprint of the scanner's AST after alpha-normalisation (locals renamed in order of first occurrence, annotations and
logging dropped, `x = x op e` read as `x op= e`): the loop `scanText` (Cel.Model.XlateText) was written against.
(`sourceScannerFingerprint` in Cel.Model.Xlate is the round-1 value over the raw AST, no longer used.) -/
theorem xlate_scanner_fingerprint : Gen.Xlate.scannerFingerprint = "9c74995828e6898d" := by rfl
/-- `c7n_rewrite` enters `logical_connector` with the default level 0 -/
theorem xlate_entry : Gen.Xlate.rewriteEntry = "2 positional, keywords []" := by rfl

end Cel.Bridge
