/- Bridge (C03): the control-skeleton facts regenerated from evaluation.py (Cel.Gen.Eval) equal what the
   hand-written models of the two runners (Cel.Model.EvalI / EvalC) assume. -/
import Cel.Gen.Eval
import Cel.Model.PrimD
namespace Cel.Bridge.Eval
open Cel

/-- handler sets of the interpreter rules, as `evalI` catches them -/
theorem handlers_unary : Gen.Eval.handlers_unary = HI.unary := by decide
theorem handlers_addition : Gen.Eval.handlers_addition = HI.addition := by decide
theorem handlers_multiplication : Gen.Eval.handlers_multiplication = HI.multiplication := by decide
theorem handlers_relation : Gen.Eval.handlers_relation = HI.relation := by decide
theorem handlers_member_index : Gen.Eval.handlers_member_index = HI.memberIndex := by decide
theorem handlers_logical : Gen.Eval.handlers_expr = HI.logical ∧ Gen.Eval.handlers_conditionalor = HI.logical ∧
    Gen.Eval.handlers_conditionaland = HI.logical := by decide
theorem handlers_map_lit : Gen.Eval.handlers_map_lit = HI.mapLit := by decide
theorem handlers_literal : Gen.Eval.handlers_literal = HI.literal := by decide
/-- the `try` around the function application in `function_eval`/`method_eval` (the `KeyError` handler
belongs to the name lookup, modelled by `isFun`) -/
theorem handlers_call : Gen.Eval.handlers_function_eval = .keyError :: HI.call ∧
    Gen.Eval.handlers_method_eval = .keyError :: HI.call := by decide
theorem handlers_ident : Gen.Eval.handlers_ident = [.keyError] := by decide
/-- macro bodies: `build_ss_macro_eval` catches CELEvalError; `build_macro_eval` catches nothing, the
map/filter/exists_one branches catch CELEvalError around the whole iteration -/
theorem handlers_macros : Gen.Eval.handlers_ss_macro = HI.macroBody ∧ Gen.Eval.handlers_macro_plain = [] ∧
    Gen.Eval.handlers_macro_map = HI.macroBody ∧ Gen.Eval.handlers_macro_filter = HI.macroBody ∧
    Gen.Eval.handlers_macro_exists_one = HI.macroBody := by decide
theorem interp_reducers : Gen.Eval.interp_all_reducer_catches = HI.logical ∧
    Gen.Eval.interp_exists_reducer_catches = HI.logical := by decide
/-- classes `result()` converts -/
theorem result_caught : Gen.Eval.resultCaught = resultCaughtC := by decide
/-- `Transpiler.evaluate` converts every escaping exception (`runC`) -/
theorem evaluate_blanket : Gen.Eval.evaluateBlanket = [.other] := by decide
/-- where the templates put `result()`: 3 operands of `?:`, 2 of `||`, 2 of `&&`, the argument of `has`,
none in the macro template (the `macro_*` helpers decide), and around the whole program -/
theorem template_results : Gen.Eval.template_expr_result_operands = 3 ∧
    Gen.Eval.template_conditionalor_result_operands = 2 ∧ Gen.Eval.template_conditionaland_result_operands = 2 ∧
    Gen.Eval.template_ident_arg_result_operands = 1 ∧ Gen.Eval.template_member_dot_arg_result_operands = 0 ∧
    Gen.Eval.topLevelResult = true := by decide
/-- `macro_all`/`macro_exists` wrap the body in `result()`, fold with a TypeError-catching reducer and coerce with
BoolType; `macro_map`/`macro_filter` do none of this; `macro_exists_one` only builds a BoolType -/
theorem macro_helpers :
    Gen.Eval.macro_all_body_in_result = true ∧ Gen.Eval.macro_all_reducer_catches_TypeError = true ∧
    Gen.Eval.macro_all_coerces_BoolType = true ∧
    Gen.Eval.macro_exists_body_in_result = true ∧ Gen.Eval.macro_exists_reducer_catches_TypeError = true ∧
    Gen.Eval.macro_exists_coerces_BoolType = true ∧
    Gen.Eval.macro_map_body_in_result = false ∧ Gen.Eval.macro_map_coerces_BoolType = false ∧
    Gen.Eval.macro_filter_body_in_result = false ∧ Gen.Eval.macro_filter_coerces_BoolType = false ∧
    Gen.Eval.macro_exists_one_body_in_result = false := by decide
/-- `has()`: BoolType in the interpreter, a Python bool in the template (D6) -/
theorem has_results : Gen.Eval.has_interp_booltype = true ∧ Gen.Eval.has_template_pybool = true := by decide
/-- the interpreter inspects error values in call arguments, list elements, map entries, field selection and
macro receivers; a non-iterable macro receiver is an error value -/
theorem interp_error_checks : Gen.Eval.function_eval_checks_error_values = true ∧
    Gen.Eval.method_eval_checks_error_values = true ∧ Gen.Eval.exprlist_checks_error_values = true ∧
    Gen.Eval.mapinits_checks_error_values = true ∧ Gen.Eval.member_dot_checks_error_values = true ∧
    Gen.Eval.macro_receiver_error_check = true ∧ Gen.Eval.macro_receiver_iterable_check = true := by decide
/-- both runners treat the same names as macros -/
theorem macro_names : Gen.Eval.macrosInterp = Gen.Eval.macrosCompiled ∧
    Gen.Eval.macrosInterp = ["all", "exists", "exists_one", "filter", "map", "min", "reduce"] := by decide
theorem base_functions : Gen.Eval.baseFunctions = PrimD.baseFunctions := by decide

end Cel.Bridge.Eval
