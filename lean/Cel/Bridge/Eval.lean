/- Bridge (C03): the control-skeleton facts regenerated from evaluation.py (Cel.Gen.Eval) equal what the
   hand-written models of the two runners (Cel.Model.EvalI / EvalC) assume. -/
import Cel.Gen.Eval
import Cel.Model.PrimD
namespace Cel.Bridge.Eval
open Cel

/-- equality as SETS: the models only ask `contains`, and Python's `except (A, B)`, a set literal and the keys of a
dict mean the same in any order — a reordered tuple / table must not break the bridge, a changed member must -/
def sameSet {α : Type} [BEq α] (a b : List α) : Bool := a.all b.contains && b.all a.contains

/-- what `sameSet` gives the models: the same answer to every `contains` question -/
theorem sameSet_contains {α : Type} [BEq α] [LawfulBEq α] {a b : List α} (h : sameSet a b = true) (x : α) :
    a.contains x = b.contains x := by
  simp only [sameSet, Bool.and_eq_true, List.all_eq_true] at h
  cases hx : a.contains x <;> cases hy : b.contains x <;> try rfl
  · have hm : x ∈ b := List.contains_iff_mem.mp hy
    have := h.2 x hm; simp_all
  · have hm : x ∈ a := List.contains_iff_mem.mp hx
    have := h.1 x hm; simp_all

/-- handler sets of the interpreter rules, as `evalI` catches them -/
theorem handlers_unary : sameSet Gen.Eval.handlers_unary (HI.unary) = true := by decide
theorem handlers_addition : sameSet Gen.Eval.handlers_addition (HI.addition) = true := by decide
theorem handlers_multiplication : sameSet Gen.Eval.handlers_multiplication (HI.multiplication) = true := by decide
theorem handlers_relation : sameSet Gen.Eval.handlers_relation (HI.relation) = true := by decide
theorem handlers_member_index : sameSet Gen.Eval.handlers_member_index (HI.memberIndex) = true := by decide
theorem handlers_logical : sameSet Gen.Eval.handlers_expr (HI.logical) = true ∧ sameSet Gen.Eval.handlers_conditionalor (HI.logical) = true ∧
    sameSet Gen.Eval.handlers_conditionaland (HI.logical) = true := by decide
theorem handlers_map_lit : sameSet Gen.Eval.handlers_map_lit (HI.mapLit) = true := by decide
theorem handlers_literal : sameSet Gen.Eval.handlers_literal (HI.literal) = true := by decide
/-- the `try` around the function application in `function_eval`/`method_eval` (the `KeyError` handler
belongs to the name lookup, modelled by `isFun`) -/
theorem handlers_call : sameSet Gen.Eval.handlers_function_eval (.keyError :: HI.call) = true ∧
    sameSet Gen.Eval.handlers_method_eval (.keyError :: HI.call) = true := by decide
theorem handlers_ident : sameSet Gen.Eval.handlers_ident ([.keyError]) = true := by decide
/-- macro bodies: `build_ss_macro_eval` catches CELEvalError; `build_macro_eval` catches nothing, the
map/filter/exists_one branches catch CELEvalError around the whole iteration -/
theorem handlers_macros : sameSet Gen.Eval.handlers_ss_macro (HI.macroBody) = true ∧ sameSet Gen.Eval.handlers_macro_plain ([]) = true ∧
    sameSet Gen.Eval.handlers_macro_map (HI.macroBody) = true ∧ sameSet Gen.Eval.handlers_macro_filter (HI.macroBody) = true ∧
    sameSet Gen.Eval.handlers_macro_exists_one (HI.macroBody) = true := by decide
theorem interp_reducers : sameSet Gen.Eval.interp_all_reducer_catches (HI.logical) = true ∧
    sameSet Gen.Eval.interp_exists_reducer_catches (HI.logical) = true := by decide
/-- classes `result()` converts -/
theorem result_caught : sameSet Gen.Eval.resultCaught (resultCaughtC) = true := by decide
/-- `Transpiler.evaluate` converts every escaping exception (`runC`) -/
theorem evaluate_blanket : sameSet Gen.Eval.evaluateBlanket ([.other]) = true := by decide
/-- where the templates put `result()`: 3 operands of `?:`, 2 of `||`, 2 of `&&`, the argument of `has`,
none in the macro template (the `macro_*` helpers decide), and around the whole program -/
theorem template_results : Gen.Eval.template_expr_result_operands = 3 ∧
    Gen.Eval.template_conditionalor_result_operands = 2 ∧ Gen.Eval.template_conditionaland_result_operands = 2 ∧
    Gen.Eval.template_ident_arg_result_operands = 1 ∧ Gen.Eval.template_member_dot_arg_result_operands = 0 ∧
    Gen.Eval.topLevelResult = true := by decide
/-- `macro_all`/`macro_exists` wrap the body in `result()`, fold with a TypeError-catching reducer and coerce with
BoolType; `macro_map`/`macro_filter` do none of this; `macro_exists_one` only builds a BoolType -/
theorem macro_helpers :
    Gen.Eval.macro_all_body_in_result = true ∧ Gen.Eval.macro_all_reducer_catches_TypeError = true ∧
    Gen.Eval.macro_all_coerces_BoolType = true ∧
    Gen.Eval.macro_exists_body_in_result = true ∧ Gen.Eval.macro_exists_reducer_catches_TypeError = true ∧
    Gen.Eval.macro_exists_coerces_BoolType = true ∧
    Gen.Eval.macro_map_body_in_result = false ∧ Gen.Eval.macro_map_coerces_BoolType = false ∧
    Gen.Eval.macro_filter_body_in_result = false ∧ Gen.Eval.macro_filter_coerces_BoolType = false ∧
    Gen.Eval.macro_exists_one_body_in_result = false ∧ Gen.Eval.macro_exists_one_coerces_BoolType = true := by decide
/-- `macro_map`/`macro_filter`/`macro_exists_one` run the body on EVERY element of the source (`mapMV`/`filterMV`/
`countMV` have no early exit): no `break`/`return` inside their loops, no `any()`/`next()`-style consumer.  For these
three an element that fails after the answer is "settled" must still fail the macro, as it does in the interpreter
(`Cel.Props.C03.existsOne_fails_on_late_error`).  (`macro_all`/`macro_exists` may stop early harmlessly.) -/
theorem macro_helpers_traverse_all : Gen.Eval.macro_map_may_stop_early = false ∧
    Gen.Eval.macro_filter_may_stop_early = false ∧ Gen.Eval.macro_exists_one_may_stop_early = false := by decide
/-- `has()`: BoolType in the interpreter, a Python bool in the template (D6) -/
theorem has_results : Gen.Eval.has_interp_booltype = true ∧ Gen.Eval.has_template_pybool = true := by decide
/-- the interpreter inspects error values in call arguments, list elements, map entries, field selection and
macro receivers; a non-iterable macro receiver is an error value -/
theorem interp_error_checks : Gen.Eval.function_eval_checks_error_values = true ∧
    Gen.Eval.method_eval_checks_error_values = true ∧ Gen.Eval.exprlist_checks_error_values = true ∧
    Gen.Eval.mapinits_checks_error_values = true ∧ Gen.Eval.member_dot_checks_error_values = true ∧
    Gen.Eval.macro_receiver_error_check = true ∧ Gen.Eval.macro_receiver_iterable_check = true := by decide
/-- both runners treat the same names as macros -/
theorem macro_names : sameSet Gen.Eval.macrosInterp Gen.Eval.macrosCompiled = true ∧
    sameSet Gen.Eval.macrosInterp ["all", "exists", "exists_one", "filter", "map", "min", "reduce"] = true := by decide
/-- the keys of `base_functions`, as a set (entries of the dict literal in any order), without duplicates lost -/
theorem base_functions : sameSet Gen.Eval.baseFunctions PrimD.baseFunctions = true ∧
    Gen.Eval.baseFunctions.length = PrimD.baseFunctions.length := by decide

end Cel.Bridge.Eval
