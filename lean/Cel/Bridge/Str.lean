/- Bridge for C07: the tables and sources regenerated from evaluation.py / cel.lark (Cel.Gen.Str) are
   the ones the hand-written model (Cel.Model.Str) and the theorems of Cel.Props.C07 were written for. -/
import Cel.Gen.Str
import Cel.Model.Str
namespace Cel.Bridge
open Cel

/-- the pattern text that `Cel.Str.matchLen` implements alternative by alternative -/
theorem escapes_pat_source : Gen.Str.celEscapesPatSource = Str.celEscapesPatSource := by decide
/-- the pattern is compiled with `re.DOTALL` (`Cel.Str.celstr = celstrWith true`; D14) and no other flag -/
theorem escapes_pat_dotall : Gen.Str.celEscapesPatDotall = true ∧ Gen.Str.celEscapesPatOtherFlags = [] := by decide
/-- the `CEL_ESCAPES` dict -/
theorem escapes_table : Gen.Str.celEscapes = Str.celEscapes := by decide
/-- the literal terminals the lexer uses -/
theorem lit_terminals : Gen.Str.litTerminals = Str.litTerminals := by decide +kernel
theorem literal_alternatives : Gen.Str.literalAlternatives = Str.literalAlternatives := by decide
/-- interpreter and transpiler treat the same exception class of celstr()/celbytes()/IntType() as an evaluation error -/
theorem literal_handlers : Gen.Str.handlers_literal = Str.literalCaught ∧
    Gen.Str.transpiler_celstr_deferred = Str.literalCaught ∧ Gen.Str.transpiler_celbytes_deferred = Str.literalCaught := by decide

end Cel.Bridge
