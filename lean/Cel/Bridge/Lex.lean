/- Bridge for C07 (lexer part): the syntax trees Python's regex parser builds for the literal terminals of
   cel.lark (regenerated: Cel.Gen.Lex) are the trees the theorems of Cel.Props.C07 (`lex_*`) are about. -/
import Cel.Gen.Lex
import Cel.Model.Lex
namespace Cel.Bridge
open Cel

/-- every literal terminal: the regenerated tree = the modelled tree -/
theorem lex_terminals : Gen.Lex.terminals = Lex.terminals := by decide +kernel

end Cel.Bridge
