/- Bridge: the grammar facts regenerated from cel.lark / celparser.py (Cel.Gen.Grammar) equal the
   hand-written model (Cel.Model.Grammar) over which the C06/C18 theorems are stated. -/
import Cel.Gen.Grammar
import Cel.Model.Grammar
namespace Cel.Bridge
open Cel.Grammar

def allTK : List TK := [.IDENT, .UINT_LIT, .FLOAT_LIT, .INT_LIT, .MLSTRING_LIT, .STRING_LIT, .BYTES_LIT, .BOOL_LIT, .NULL_LIT,
  .QMARK, .COLON, .OROR, .ANDAND, .LT, .LE, .GT, .GE, .EQ, .NE, .IN, .PLUS, .MINUS, .STAR, .SLASH, .PERCENT, .BANG, .DOT,
  .LPAR, .RPAR, .LSQB, .RSQB, .LBRACE, .RBRACE, .COMMA]
def allNT : List NT := [.expr, .conditionalor, .conditionaland, .relation, .relation_lt, .relation_le, .relation_gt,
  .relation_ge, .relation_eq, .relation_ne, .relation_in, .addition, .addition_add, .addition_sub, .multiplication,
  .multiplication_mul, .multiplication_div, .multiplication_mod, .unary, .unary_not, .unary_neg, .member, .member_dot,
  .member_dot_arg, .member_index, .member_object, .primary, .dot_ident_arg, .dot_ident, .ident_arg, .ident, .paren_expr,
  .list_lit, .map_lit, .exprlist, .fieldinits, .mapinits, .literal, .exprlist_star, .fieldinits_star, .mapinits_star]

/-- the BNF lark builds from cel.lark today is the one `Derives` is defined over -/
theorem grammar_productions :
    Gen.Grammar.productions = productions.map (fun p => (p.1.name, p.2.map Sym.name)) := by decide +kernel
/-- exactly the named terminals are kept in trees -/
theorem grammar_kept_terminals :
    ∀ k ∈ allTK, (k.src ∈ Gen.Grammar.keptTerminals ↔ k.named = true) := by decide +kernel
/-- exactly the `_`-prefixed helper rules are inlined -/
theorem grammar_inline_rules :
    ∀ a ∈ allNT, (a.name ∈ Gen.Grammar.inlineRules ↔ a.inline = true) := by decide +kernel
theorem grammar_ignored : Gen.Grammar.ignored = ["COMMENT", "WHITESPACE"] := by decide
/-- whitespace (incl. form feed) and `//` comments are what the lexer ignores -/
/- (compared as Python's regex parser reads the two patterns — character classes as sorted code points, escapes
   resolved — so that an equivalent spelling, e.g. another order inside the class, `//` for `\/\/`, `[^\n]` for `.`,
   is the same pattern; `Cel.Grammar.ignoredPatterns` keeps the spelling of today's cel.lark for the reader) -/
theorem grammar_ignored_patterns : Gen.Grammar.ignoredPatternsCanon =
    [("COMMENT", "[set{47} set{47} rep(0,inf)[any-but-newline]]"), ("WHITESPACE", "[rep(1,inf)[set{9,10,12,13,32}]]")] := by decide
/-- the tree-shaping options of the `Lark(...)` call -/
theorem grammar_options :
    Gen.Grammar.larkOptions = [("parser", "'lalr'"), ("start", "'expr'"), ("maybe_placeholders", "False"), ("priority", "'invert'")]
    ∧ Gen.Grammar.lexerKind = "contextual" ∧ Gen.Grammar.startSymbols = ["expr"] := by decide
/-- no terminal has a non-default priority (RESERVED.0 is 0 and unused) -/
theorem grammar_priorities : ∀ p ∈ Gen.Grammar.terminalPriorities, p.2 = 0 := by decide +kernel
/-- lark resolved no shift/reduce conflict: the grammar is LALR(1) as written -/
theorem grammar_no_conflicts : Gen.Grammar.shiftReduceConflicts = 0 := by decide
/-- `CELParser.ambiguous_literals`, extracted as the function word ↦ new token type it computes (a finite
    table, one entry per word, sorted by word — the shape of the Python code does not matter), is the model's
    table as a set; the model looks words up with `find?`, so with one entry per word the two are the same function -/
theorem grammar_ambiguous_literals :
    (∀ p ∈ Gen.Grammar.ambiguousLiterals, p ∈ ambiguousLiterals.map (fun p => (p.1, p.2.src)))
    ∧ (∀ p ∈ ambiguousLiterals.map (fun p => (p.1, p.2.src)), p ∈ Gen.Grammar.ambiguousLiterals)
    ∧ (Gen.Grammar.ambiguousLiterals.map Prod.fst).Nodup
    ∧ (ambiguousLiterals.map Prod.fst).Nodup
    ∧ Gen.Grammar.ambiguousLiteralsOnIdent = true := by decide
theorem grammar_word_terminals :
    Gen.Grammar.wordStrTerminals = wordStrTerminals.map (fun p => (p.1, p.2.src)) := by decide
theorem grammar_ident_accept_sets :
    Gen.Grammar.identAcceptSets = identAcceptSets.map (fun s => s.map TK.src) := by decide +kernel

end Cel.Bridge
