/- Bridge: the DoubleType arithmetic dunders regenerated from celtypes.py (over an abstract host float)
   equal the hand-written model `Cel.DoubleOps` — for EVERY host float structure and all operands.
   Proofs by unfolding + case split on the zero test, so statement order, hoisted locals, early returns
   and a dropped/kept `NotImplemented` guard do not matter; another host operation, swapped operands,
   a missing zero test or a constructor that is not the identity do. -/
import Cel.Gen.NumD
namespace Cel.Bridge
open Cel

macro "dbl_unfold" : tactic =>
  `(tactic| simp only [Gen.DoubleType.neg, Gen.DoubleType.add, Gen.DoubleType.radd, Gen.DoubleType.sub,
      Gen.DoubleType.rsub, Gen.DoubleType.mul, Gen.DoubleType.rmul, Gen.DoubleType.truediv,
      Gen.DoubleType.rtruediv, Gen.DoubleType.wrap, DoubleOps.neg, DoubleOps.add, DoubleOps.radd,
      DoubleOps.sub, DoubleOps.rsub, DoubleOps.mul, DoubleOps.rmul, DoubleOps.truediv, DoubleOps.rtruediv,
      DoubleOps.wrap])
macro "dbl_bridge" : tactic =>
  `(tactic| first
      | rfl
      | (dbl_unfold
         repeat' split
         all_goals first
           | rfl
           | (simp_all; done)))

theorem dbl_wrap {F : Type} (x : F) : Gen.DoubleType.wrap x = DoubleOps.wrap x := by dbl_bridge
theorem dbl_neg {F : Type} (H : HostFloat F) (x : F) : Gen.DoubleType.neg H x = DoubleOps.neg H x := by dbl_bridge
theorem dbl_add {F : Type} (H : HostFloat F) (x y : F) : Gen.DoubleType.add H x y = DoubleOps.add H x y := by dbl_bridge
theorem dbl_radd {F : Type} (H : HostFloat F) (x y : F) : Gen.DoubleType.radd H x y = DoubleOps.radd H x y := by dbl_bridge
theorem dbl_sub {F : Type} (H : HostFloat F) (x y : F) : Gen.DoubleType.sub H x y = DoubleOps.sub H x y := by dbl_bridge
theorem dbl_rsub {F : Type} (H : HostFloat F) (x y : F) : Gen.DoubleType.rsub H x y = DoubleOps.rsub H x y := by dbl_bridge
theorem dbl_mul {F : Type} (H : HostFloat F) (x y : F) : Gen.DoubleType.mul H x y = DoubleOps.mul H x y := by dbl_bridge
theorem dbl_rmul {F : Type} (H : HostFloat F) (x y : F) : Gen.DoubleType.rmul H x y = DoubleOps.rmul H x y := by dbl_bridge
theorem dbl_truediv {F : Type} (H : HostFloat F) (x y : F) :
    Gen.DoubleType.truediv H x y = DoubleOps.truediv H x y := by dbl_bridge
theorem dbl_rtruediv {F : Type} (H : HostFloat F) (x y : F) :
    Gen.DoubleType.rtruediv H x y = DoubleOps.rtruediv H x y := by dbl_bridge

end Cel.Bridge
