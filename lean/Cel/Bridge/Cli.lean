/- Bridge (C20): the status constants and tables regenerated from __main__.py (Cel.Gen.CliStatus)
   against the constants the model's `main` / `processJsonDoc` / `nullInput` are written with. -/
import Cel.Gen.CliStatus
import Cel.Model.Cli
namespace Cel.Bridge
open Cel Cel.Cli

/-- `except CELParseError: … return 1` -/
theorem cli_parse_error_status : Gen.Cli.parseError = St.parseError := by decide
/-- the `--null-input` branch: 0/1 for a boolean under `-b`, 2 for a non-boolean or an evaluation error,
0 after printing without `-b`; `-b` prints nothing, the plain branch prints the value -/
theorem cli_null_input_status :
    Gen.Cli.nullTrue = St.nullTrue ∧ Gen.Cli.nullFalse = St.nullFalse ∧ Gen.Cli.nullNonBool = St.nullNonBool ∧
    Gen.Cli.nullPlain = St.nullPlain ∧ Gen.Cli.nullEvalError = St.nullEvalError ∧
    Gen.Cli.nullPlainDisplays = true ∧ Gen.Cli.nullBooleanDisplays = false := by decide
/-- `process_json_doc`: bind, evaluate, display, then 0/1 under `-b` for a boolean, else 0; an evaluation error
prints `null` and is 0; malformed JSON prints nothing and is 3; exactly these two exception classes are handled -/
theorem cli_doc_status :
    Gen.Cli.docBindsEvaluatesDisplays = true ∧ Gen.Cli.docTrue = St.docTrue ∧ Gen.Cli.docFalse = St.docFalse ∧
    Gen.Cli.docPlain = St.docPlain ∧ Gen.Cli.docEvalError = St.docEvalError ∧ Gen.Cli.docEvalErrorDisplaysNone = true ∧
    Gen.Cli.docMalformed = St.docMalformed ∧ Gen.Cli.docMalformedDisplays = false ∧
    ("CELEvalError" ∈ Gen.Cli.docHandlers ∧ "JSONDecodeError" ∈ Gen.Cli.docHandlers ∧ Gen.Cli.docHandlers.length = 2) := by decide
/-- the NDJSON loop starts at 0 and combines with `max`; slurp hands the whole input to `process_json_doc` once;
`main` returns the summary -/
theorem cli_loop_shape :
    Gen.Cli.ndjsonInit = St.ndjsonInit ∧ Gen.Cli.ndjsonCombine = "max" ∧ Gen.Cli.slurpIsOneDocument = true ∧
    Gen.Cli.mainReturnsSummary = true := by decide
/-- `CLI_ARG_TYPES` and the default package / variable rule -/
theorem cli_arg_types : Gen.Cli.cliArgTypes = cliArgTypes := by decide
theorem cli_default_package : Gen.Cli.defaultPackage = defaultPackage ∧ Gen.Cli.variableIsDocumentOrPackage = true := by decide

end Cel.Bridge
