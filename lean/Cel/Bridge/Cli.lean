/- Bridge (C20): the behaviour tables regenerated from __main__.py (Cel.Gen.CliStatus — `process_json_doc` and `main` run in the
   C20 interpreter on every scenario of the abstract input space: options × class of the evaluation result × malformed JSON ×
   parse error; trace of observable effects and returned status) against the same tables COMPUTED FROM THE MODEL
   (`Cel.Cli.processJsonDoc`, `nullInput`, `main`, `varName`, `envPackage`, the `max` step of `ndjsonLoop`).
   The comparison is on behaviour, not on the shape of the source: early returns vs. else chains, a local status variable,
   split isinstance tests, reordered `except` clauses, an inverted condition give the same tables. -/
import Cel.Gen.CliStatus
import Cel.Model.Cli
namespace Cel.Bridge
open Cel Cel.Cli

namespace CliT

/-- the abstract result classes of the scenarios, as model outcomes -/
def outcomeOf : String → Outcome
  | "evalError" => .evalError
  | "celTrue" => .bool true
  | "celFalse" => .bool false
  | _ => .value "V"

def lineOf (sc : String) : Line Unit := if sc = "malformed" then .malformed else .json ()

/-- status code of the tables: 1000 = an exception leaves the function -/
def code : PyM Nat → Nat
  | .ok n => n
  | .error _ => 1000

/-- one display event per printed line: `display(None)` for the erroring document, `display(result_value)` otherwise -/
def displays (sc : String) (out : List String) : List String :=
  out.map (fun _ => if sc = "evalError" then "display:null" else "display:value")

def docOutcomes : List String := ["malformed", "evalError", "celTrue", "celFalse", "otherT", "otherF"]
def nullOutcomes : List String := ["evalError", "celTrue", "celFalse", "otherT", "otherF"]

/-- `process_json_doc` of the model on each scenario: a well-formed document is bound, then evaluated, then displayed -/
def expectedDoc : List (Bool × String × List String × Nat) :=
  [false, true].flatMap fun b => docOutcomes.map fun sc =>
    let r := (processJsonDoc (δ := Unit) (fun _ => outcomeOf sc) b [] "v" (lineOf sc)).2
    (b, sc, (if sc = "malformed" then [] else ["bind", "eval"]) ++ displays sc r.out, code r.status)

def optText : Option String → String
  | none => "null"
  | some s => s

/-- the `(--json-document, --json-package)` cases as `get_options` leaves them -/
def pdOf : String → Option String × Option String      -- (package, document)
  | "doc" => (none, some "DOC")
  | _ => (some "PKG", none)

def envEvent (nullIn : Bool) (pd : String) : String :=
  "env:package=" ++ optText (envPackage nullIn (pdOf pd).1 (pdOf pd).2)

def inv (mode : Mode) (b compiles : Bool) (o : Outcome) (whole : Line Unit) : Invocation Unit :=
  ⟨true, compiles, mode, b, "v", [], fun _ => o, whole, []⟩

def modeOf : String → Mode
  | "n" => .nullInput
  | "s" => .slurp
  | _ => .ndjson

/-- a syntax error: the environment is built, nothing is evaluated or printed -/
def expectedParseError : List (String × Bool × List String × Nat) :=
  ["n", "s", "j"].flatMap fun m => [false, true].map fun b =>
    let r := main (inv (modeOf m) b false (.value "V") .malformed)
    (m, b, [envEvent (m = "n") "pkg"] ++ displays "" r.out, code r.status)

/-- `--null-input`: build the environment, evaluate, display (or not), status -/
def expectedNull : List (Bool × String × List String × Nat) :=
  [false, true].flatMap fun b => nullOutcomes.map fun sc =>
    let r := main (inv .nullInput b true (outcomeOf sc) .malformed)
    (b, sc, [envEvent true "pkg", "eval"] ++ displays sc r.out, code r.status)

/-- the call `process_json_doc(output_display, prgm, activation, options.document or options.package, <document>, options.boolean)`;
`output_display` prints the JSON dump (CELJSONEncoder) of a value / of `None` -/
def docEvent (pd : String) (document : String) (b : Bool) : String :=
  "doc(display=display:value+display:null,prgm=prgm,var=" ++ varName (pdOf pd).1 (pdOf pd).2 ++ ",document=" ++ document ++
    ",b=" ++ (if b then "True" else "False") ++ ")"

/-- a one-document invocation whose document has status `d` (0: a value, 1: false under -b, 3: malformed; 2 does not occur) -/
def slurpStatus (d : Nat) : Nat := d

def expectedSlurp : List (Bool × String × Nat × List String × Nat) :=
  [false, true].flatMap fun b => ["pkg", "doc"].flatMap fun pd => [0, 1, 2, 3].map fun d =>
    (b, pd, d, [envEvent false pd, "read", docEvent pd "stdin.read()" b], slurpStatus d)

/-- one step of the NDJSON loop: `summary = max(summary, process_json_doc(…))` — the `max s st` of `ndjsonLoop` -/
def step (s d : Nat) : Nat := max s d

def expectedNdjson : List (Bool × String × List String × String × Nat) :=
  [false, true].flatMap fun b => ["pkg", "doc"].map fun pd => (b, pd, [envEvent false pd], "sys.stdin", St.ndjsonInit)

def expectedNdjsonStep : List ((Bool × String × Nat × Nat) × (List String × Nat)) :=
  [false, true].flatMap fun b => ["pkg", "doc"].flatMap fun pd =>
    [0, 1, 2, 3].flatMap fun s => [0, 1, 2, 3].map fun d => ((b, pd, s, d), ([docEvent pd "line" b], step s d))

end CliT

/-- `process_json_doc`: malformed JSON prints nothing and is 3; otherwise bind, evaluate, display, then 0/1 under `-b` for a boolean,
else 0; an evaluation error prints `null` and is 0 — for every result class, with and without `boolean_to_status` -/
theorem cli_doc_table : Gen.Cli.docTable = CliT.expectedDoc := by decide

/-- `except CELParseError: … return 1` in every mode, nothing printed -/
theorem cli_parse_error_table : Gen.Cli.parseErrorTable = CliT.expectedParseError := by decide

/-- the `--null-input` branch: 0/1 for a boolean under `-b`, 2 for a non-boolean or an evaluation error, 0 after printing without `-b`;
`-b` prints nothing; the environment has no package -/
theorem cli_null_table : Gen.Cli.nullTable = CliT.expectedNull := by decide

/-- `--slurp`: `sys.stdin.read()` is handed to `process_json_doc` once, with the display function, the variable
`document or package` and `-b`; its status is returned -/
theorem cli_slurp_table : Gen.Cli.slurpTable = CliT.expectedSlurp := by decide

/-- NDJSON: the documents are the lines of `sys.stdin`, the status is 0 before the loop, `main` returns the carried status -/
theorem cli_ndjson_table : Gen.Cli.ndjsonTable = CliT.expectedNdjson := by decide
/-- every step of the loop is `max(summary, process_json_doc(line))` with one call of `process_json_doc` on the current line
(the loop carries nothing but the status, so the steps determine the fold for streams of every length) -/
theorem cli_ndjson_step_table : Gen.Cli.ndjsonStepTable = CliT.expectedNdjsonStep := by decide

/-- the step table is the step of the model's loop, and the slurp row is the model's slurp branch -/
theorem cli_step_is_model {δ : Type} (prg : Prog δ) (b : Bool) (var : String) (act : Activation δ) (l : Line δ) (ls : List (Line δ))
    (s st : Nat) (h : (processJsonDoc prg b act var l).2.status = .ok st) :
    (ndjsonLoop prg b var act (l :: ls) s).status =
      (ndjsonLoop prg b var (processJsonDoc prg b act var l).1 ls (CliT.step s st)).status := by
  simp only [ndjsonLoop, h, CliT.step]
theorem cli_slurp_is_model {δ : Type} (i : Invocation δ) (ha : i.argsOk = true) (hc : i.compiles = true) (hm : i.mode = .slurp) :
    main i = (processJsonDoc i.prg i.boolean i.act i.var i.whole).2 := by
  simp [main, ha, hc, hm]

/-- `CLI_ARG_TYPES` and the default package -/
theorem cli_arg_types : Gen.Cli.cliArgTypes = cliArgTypes := by decide
theorem cli_default_package : Gen.Cli.defaultPackage = defaultPackage := by decide

end Cel.Bridge
