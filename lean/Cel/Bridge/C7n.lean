/- Bridge (C17): definitions and tables regenerated from src/celpy/c7nlib.py (Cel.Gen.C7n) equal the hand-written
   model (Cel.Model.C7n) the property theorems are stated over. -/
import Cel.Gen.C7n
namespace Cel.Bridge
open Cel Cel.C7n

section
variable {α : Type} [DecidableEq α]
theorem c7n_intersect_eq (l r : List α) : Gen.C7n.intersect l r = C7n.intersect l r := by
  simp [Gen.C7n.intersect, C7n.intersect, celBool]
theorem c7n_difference_eq (l r : List α) : Gen.C7n.difference l r = C7n.difference l r := by
  simp [Gen.C7n.difference, C7n.difference, celBool]
theorem c7n_unique_size_eq (c : List α) : Gen.C7n.unique_size c = C7n.uniqueSize c := by
  simp [Gen.C7n.unique_size, C7n.uniqueSize, celInt]
end
theorem c7n_normalize_eq (s : Str) : Gen.C7n.normalize s = C7n.normalize s := by
  simp [Gen.C7n.normalize, C7n.normalize, celStr]
/-- `fnmatch.fnmatch` and `fnmatch.fnmatchcase` coincide on POSIX, so either spelling bridges -/
theorem c7n_glob_eq (t p : Str) : Gen.C7n.glob t p = C7n.glob t p := by
  simp [Gen.C7n.glob, C7n.glob, celBool, C7n.fnmatch, C7n.normcase]

/-- `__enter__` installs the context, `__exit__` clears the global on every exit path and swallows nothing -/
theorem c7n_ctx_enter_eq (self : Nat) (g : Option Nat) : Gen.C7n.ctxEnter self g = C7n.ctxEnter self g := by
  simp [Gen.C7n.ctxEnter, C7n.ctxEnter]
theorem c7n_ctx_exit_eq (self : Nat) (raised : Bool) (g : Option Nat) :
    Gen.C7n.ctxExitPair self raised g = (C7n.ctxExit self raised g, C7n.ctxExitSwallows self raised) := by
  cases raised <;> simp [Gen.C7n.ctxExitPair, C7n.ctxExit, C7n.ctxExitSwallows]
theorem c7n_initial : Gen.C7n.c7nInitial = none := by decide
theorem c7n_runner_brackets : Gen.C7n.runnerBrackets = true := by decide

theorem c7n_arn_table : Gen.C7n.arnFieldNames.map (·.map ofString) = C7n.arnFieldNames := by decide
theorem c7n_arn_consts : ofString Gen.C7n.arnSep = [58] ∧ Gen.C7n.arnPrefix = "arn" := by decide
theorem c7n_tag_names : ofString Gen.C7n.tagKeyName = C7n.tagKeyName ∧ ofString Gen.C7n.tagValueName = C7n.tagValueName := by
  decide
/-- `msg, tgt = value.rsplit(":", 1)`; `action, date = tgt.strip().split("@", 1)` — the separators 58 and 64 of
`markedSplit`, in this order, with the strip -/
theorem c7n_marked_shape : Gen.C7n.markedSplits = [("rsplit", ":", 1), ("split", "@", 1)] ∧
    Gen.C7n.markedStripsTarget = true ∧ Gen.C7n.markedResultKeys = ["message", "action", "action_date"] := by decide
theorem c7n_parse_cidr_catches : "ValueError" ∈ Gen.C7n.parseCidrCaught := by decide
theorem c7n_version_base : Gen.C7n.comparableVersionBases = ["Version"] ∧
    Gen.C7n.comparableVersionOverrides = ["__eq__"] := by decide
/-- FUNCTIONS and DECLARATIONS bind every helper the property names -/
theorem c7n_functions_bound :
    ∀ n ∈ ["glob", "difference", "intersect", "normalize", "parse_cidr", "size_parse_cidr", "unique_size", "version",
           "key", "marked_key", "arn_split", "image"],
      n ∈ Gen.C7n.functionNames ∧ n ∈ Gen.C7n.declarationNames := by decide

end Cel.Bridge
