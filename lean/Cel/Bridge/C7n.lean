/- Bridge (C17): definitions and tables regenerated from src/celpy/c7nlib.py (Cel.Gen.C7n) equal the hand-written
   model (Cel.Model.C7n) the property theorems are stated over. -/
import Cel.Gen.C7n
namespace Cel.Bridge
open Cel Cel.C7n

set_option linter.unusedSimpArgs false
set_option linter.unusedSectionVars false

/-! The regenerated helpers are compared by their MEANING: any spelling inside the translated dialect (`&` or
`.intersection`, `bool(s)` / `len(s) > 0` / `not s.isdisjoint(t)`, `if … return True`, `.strip().lower()`, a `for` loop with
early return or a generator with `next()`, guard clauses or if/else or a conditional expression) bridges as long as it
computes the model's function. -/

section
variable {α : Type} [DecidableEq α]
@[simp] theorem c7n_decide_nil (l : List α) : decide (l = []) = l.isEmpty := by cases l <;> simp
@[simp] theorem c7n_decide_len0 (l : List α) : decide (l.length = 0) = l.isEmpty := by cases l <;> simp
@[simp] theorem c7n_decide_lenpos (l : List α) : decide (0 < l.length) = !l.isEmpty := by cases l <;> simp
@[simp] theorem c7n_decide_len1 (l : List α) : decide (1 ≤ l.length) = !l.isEmpty := by cases l <;> simp
@[simp] theorem c7n_decide_lenlt1 (l : List α) : decide (l.length < 1) = l.isEmpty := by cases l <;> simp
theorem c7n_intersect_eq (l r : List α) : Gen.C7n.intersect l r = C7n.intersect l r := by
  simp [Gen.C7n.intersect, C7n.intersect, celBool, pyBool, pyIsDisjoint, pyIsSubset, pyLen]
theorem c7n_difference_eq (l r : List α) : Gen.C7n.difference l r = C7n.difference l r := by
  simp [Gen.C7n.difference, C7n.difference, celBool, pyBool, pyIsDisjoint, pyIsSubset, pyLen]
theorem c7n_unique_size_eq (c : List α) : Gen.C7n.unique_size c = C7n.uniqueSize c := by
  simp [Gen.C7n.unique_size, C7n.uniqueSize, celInt]
end

/-- lower-casing does not create or remove white space, so `.strip().lower()` is `.lower().strip()` -/
theorem c7n_lower_space (c : Nat) : isSpace (lowerCp c) = isSpace c := by
  unfold lowerCp
  split
  · rename_i h
    have h1 : isSpace (c + 32) = false := by simp [isSpace]; omega
    have h2 : isSpace c = false := by simp [isSpace]; omega
    rw [h1, h2]
  · rfl
theorem c7n_dropWhile_lower (s : Str) : (s.map lowerCp).dropWhile isSpace = (s.dropWhile isSpace).map lowerCp := by
  induction s with
  | nil => rfl
  | cons c t ih => simp [List.dropWhile, c7n_lower_space]; split <;> simp_all
theorem c7n_strip_lower (s : Str) : pyLower (pyStrip s) = pyStrip (pyLower s) := by
  simp [pyLower, pyStrip, lstrip, rstrip, c7n_dropWhile_lower, ← List.map_reverse]

theorem c7n_normalize_eq (s : Str) : Gen.C7n.normalize s = C7n.normalize s := by
  simp [Gen.C7n.normalize, C7n.normalize, celStr, c7n_strip_lower]
/-- `fnmatch.fnmatch` and `fnmatch.fnmatchcase` coincide on POSIX, so either spelling bridges -/
theorem c7n_glob_eq (t p : Str) : Gen.C7n.glob t p = C7n.glob t p := by
  simp [Gen.C7n.glob, C7n.glob, celBool, C7n.fnmatch, C7n.normcase]

/-- the regenerated `key` (first-match scan over the tag list with the `MapType.get` accesses of the source) is the
model's `key` on string-valued tags -/
theorem c7n_key_eq (tags : List (Tag Str)) (k : Str) : Gen.C7n.key tags k = C7n.key tags k := by
  induction tags with
  | nil => rfl
  | cons t ts ih =>
    unfold Gen.C7n.key at ih ⊢
    have hk : ofString "Key" = tagKeyName := rfl
    have hv : ofString "Value" = tagValueName := rfl
    have hne : tagValueName ≠ tagKeyName := by decide
    simp only [pyFirst, C7n.key, Tag.get, hk, hv, hne, if_true, if_false]
    cases hkey : t.key with
    | none => simp [bind, Except.bind]
    | some k' =>
      by_cases h : k' = k
      · cases hval : t.value <;> simp [bind, Except.bind, pure, Except.pure, h]
      · simp [bind, Except.bind, pure, Except.pure, h]; exact ih

/-- the regenerated decision of `size_parse_cidr` (guard clauses, if/else or a conditional expression over the truth
value / class of the parsed value) returns the prefix length of a network and null otherwise, and never raises -/
theorem c7n_size_eq (c : Cidr) : Gen.C7n.size_parse_cidr c = .ok (C7n.sizeParseCidr c) := by
  cases c <;> first | rfl | simp [Gen.C7n.size_parse_cidr, C7n.sizeParseCidr, cidrTruthy, cidrIsNone, cidrIsNet, cidrPrefixlen, celInt, pure, Except.pure, bind, Except.bind]

/-- `__enter__` installs the context, `__exit__` clears the global on every exit path and swallows nothing -/
theorem c7n_ctx_enter_eq (self : Nat) (g : Option Nat) : Gen.C7n.ctxEnter self g = C7n.ctxEnter self g := by
  simp [Gen.C7n.ctxEnter, C7n.ctxEnter]
theorem c7n_ctx_exit_eq (self : Nat) (raised : Bool) (g : Option Nat) :
    Gen.C7n.ctxExitPair self raised g = (C7n.ctxExit self raised g, C7n.ctxExitSwallows self raised) := by
  cases raised <;> simp [Gen.C7n.ctxExitPair, C7n.ctxExit, C7n.ctxExitSwallows]
theorem c7n_initial : Gen.C7n.c7nInitial = none := by decide
theorem c7n_runner_brackets : Gen.C7n.runnerBrackets = true := by decide

/-- the `field_names` table has the model's entries; it is looked up by length (the lengths are distinct), so the order in
which the source lists the entries does not matter -/
theorem c7n_arn_table : Gen.C7n.arnFieldNames.map (·.map ofString) = C7n.arnFieldNames ∨
    Gen.C7n.arnFieldNames.map (·.map ofString) = C7n.arnFieldNames.reverse := by decide
theorem c7n_arn_consts : ofString Gen.C7n.arnSep = [58] ∧ Gen.C7n.arnPrefix = "arn" := by decide
theorem c7n_tag_names : ofString Gen.C7n.tagKeyName = C7n.tagKeyName ∧ ofString Gen.C7n.tagValueName = C7n.tagValueName := by
  decide
/-- `msg, tgt = value.rsplit(":", 1)`; `action, date = tgt.strip().split("@", 1)` — the separators 58 and 64 of
`markedSplit`, in this order, with the strip -/
theorem c7n_marked_shape : Gen.C7n.markedSplits = [("rsplit", ":", 1), ("split", "@", 1)] ∧
    Gen.C7n.markedStripsTarget = true ∧ Gen.C7n.markedResultKeys = ["message", "action", "action_date"] := by decide
theorem c7n_parse_cidr_catches : "ValueError" ∈ Gen.C7n.parseCidrCaught := by decide
theorem c7n_version_base : Gen.C7n.comparableVersionBases = ["Version"] ∧
    Gen.C7n.comparableVersionOverrides = ["__eq__"] := by decide
/-- FUNCTIONS and DECLARATIONS bind every helper the property names -/
theorem c7n_functions_bound :
    ∀ n ∈ ["glob", "difference", "intersect", "normalize", "parse_cidr", "size_parse_cidr", "unique_size", "version",
           "key", "marked_key", "arn_split", "image"],
      n ∈ Gen.C7n.functionNames ∧ n ∈ Gen.C7n.declarationNames := by decide

end Cel.Bridge
