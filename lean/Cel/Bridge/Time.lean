/-
  Bridge for C11: what `Cel.Gen.Time` (regenerated from celtypes.py / evaluation.py on every run)
  says, against what `Cel.Model.Time` was written from.  Constants and tables are compared
  semantically; regexes and the statements of the arithmetic dunders / range checks / duration
  parser are compared as normalised source text (the model's parser and checks were written for
  exactly these); accessor bodies are translated to `AExp` and evaluated against `accField`.
-/
import Cel.Gen.Time
import Cel.Model.Time
namespace Cel.Bridge.Time
open Cel Cel.Time Cel.Gen.Time

theorem maxSeconds_eq : Gen.Time.maxSeconds = Cel.Time.maxSeconds := rfl
theorem minSeconds_eq : Gen.Time.minSeconds = Cel.Time.minSeconds := rfl
theorem nanosPerSecond_eq : Gen.Time.nanosPerSecond = 1000000000 := rfl

def unitName : DUnit → String
  | .ns => "ns" | .us => "us" | .ms => "ms" | .s => "s" | .m => "m" | .h => "h" | .d => "d"

def lookupScale (k : String) : List (String × Nat × Nat) → Option (Nat × Nat)
  | [] => none
  | (k', v) :: r => if k' = k then some v else lookupScale k r

/-- `Fraction(scale[u]).limit_denominator(10**9)` of the source is the model's exact unit table -/
theorem scale_eq : ∀ u : DUnit, lookupScale (unitName u) Gen.Time.scaleTable = some u.scale := by
  intro u; cases u <;> rfl
/-- `µs` is the same unit as `us` -/
theorem scale_micro : lookupScale "µs" Gen.Time.scaleTable = some DUnit.us.scale := rfl
/-- and there is no other unit -/
theorem scale_keys : Gen.Time.scaleTable.map (·.1) = ["ns", "us", "µs", "ms", "s", "m", "h", "d"] := rfl

theorem unitOrder_eq : Gen.Time.unitOrder =
    ["ns", "us", "µs", "ms", "s", "m", "h", "d"] := rfl
/-
  The texts below are NORMAL FORMS (py/verif/translate/c11_norm.py): accumulation loops are written as
  `sum((term for v in iter), init)`, single-assigned locals are replaced by their definitions, the locals that
  survive (`sign`) and comprehension variables are renamed `_v0…` / `_c0…`, and a pinned text occurring inside
  another one is shown as ‹name›.  So `‹units›` is the alternation built from
  `sorted(cls.scale.keys(), key=len, reverse=True)` (the model's `unitAt`: two-letter units first), the
  validating and the extracting regex are the model's `parseItems`, `‹total›` is `itemsSeconds` times the sign.
-/
theorem unitsPatternExpr_eq : Gen.Time.unitsPatternExpr =
    "'(?:' + '|'.join(map(re.escape, sorted(cls.scale.keys(), key=len, reverse=True))) + ')'" := rfl
theorem durationPat_eq : Gen.Time.durationPat =
    "f'^[-+]?([0-9]*(\\\\.[0-9]*)?{‹units›})+$'" := rfl
theorem finditerPat_eq : Gen.Time.finditerPat =
    "f'([0-9]*(\\\\.[0-9]*)?)({‹units›})'" := rfl
theorem durTotalExpr_eq : Gen.Time.durTotalExpr =
    "_v0 * sum((Fraction(_c0.group(1)) * Fraction(cls.scale[_c0.group(3)]).limit_denominator(cls.NanosecondsPerSecond) for _c0 in re.finditer(‹finditerPat›, seconds)), Fraction(0))" := rfl
/-- the sign is consumed (and stripped from `seconds`) before the components are summed -/
theorem durSignBeforeTotal_eq : Gen.Time.durSignBeforeTotal = true := rfl
/-- the sum is computed under `except KeyError` only (a bad number is a `ValueError` of `Fraction`) -/
theorem durTotalHandlers_eq : Gen.Time.durTotalHandlers = ["KeyError"] := rfl
theorem durNewTests_eq : Gen.Time.durNewTests =
    ["isinstance(seconds, datetime.timedelta)", "isinstance(seconds, int)", "isinstance(seconds, str)", "else"] := rfl
theorem durRaiseTests_eq : Gen.Time.durRaiseTests =
    ["not datetime.timedelta(seconds=cls.MinSeconds) <= seconds <= datetime.timedelta(seconds=cls.MaxSeconds)", "not cls.MinSeconds <= seconds <= cls.MaxSeconds", "not re.compile(‹durationPat›).match(seconds)", "not cls.MinSeconds <= ‹total› <= cls.MaxSeconds"] := rfl
theorem durCtorCalls_eq : Gen.Time.durCtorCalls =
    ["super().__new__(cls, days=seconds.days, seconds=seconds.seconds, microseconds=seconds.microseconds)", "super().__new__(cls, seconds=seconds, microseconds=nanos // 1000)", "super().__new__(cls, microseconds=round(‹total› * 1000000))"] := rfl
theorem tsAddBody_eq : Gen.Time.tsAddBody =
    "result_value = super().__add__(other)\nif result_value == NotImplemented:\n    return NotImplemented\nreturn TimestampType(result_value)" := rfl
theorem tsRaddBody_eq : Gen.Time.tsRaddBody =
    "result_value = super().__radd__(other)\nif result_value == NotImplemented:\n    return NotImplemented\nreturn TimestampType(result_value)" := rfl
theorem tsSubBody_eq : Gen.Time.tsSubBody =
    "result_value = super().__sub__(other)\nif result_value == NotImplemented:\n    return cast(DurationType, result_value)\nif isinstance(result_value, datetime.timedelta):\n    return DurationType(result_value)\nreturn TimestampType(result_value)" := rfl
/-
  Round 4: `tz_offset_parse` and `tz_parse` are no longer pinned as text.  `py/verif/translate/c11_tz.py` executes
  their bodies symbolically (every statement and expression must be understood) into Lean functions of the facts
  the result depends on; the theorems below hold for ALL values of those facts, so a guard clause instead of
  if/else, an inlined temporary, the regex hoisted into a class constant or the sign applied by an `if` instead
  of a factor are all accepted, while a changed pattern, sign rule, hour/minute weight, exception class or
  empty-zone branch is not.
-/
/-- the pattern `Cel.Time.tzOffsetParse` was written for (matched with `.match` against the zone text) -/
theorem tzOffsetPat_eq : Gen.Time.tzOffsetPat = "^([+-]?)(\\d\\d?):(\\d\\d)$" := rfl
/-- no match: ValueError; otherwise `datetime.timezone(timedelta(seconds = ±(hh·60 + mm)·60))`, negative exactly
when the sign group is `-` (the model's `sign * (hh*60+mm) * 60000000` µs; the `< 24 h` check is `datetime.timezone`'s) -/
theorem tzOffsetParseF_eq (neg : Bool) (hh mm : Int) :
    Gen.Time.tzOffsetParseF false neg hh mm = .raise "ValueError" ∧
    Gen.Time.tzOffsetParseF true neg hh mm = .tz ((if neg then -1 else 1) * (hh * 60 + mm) * 60) := by
  constructor
  · cases neg <;> simp [Gen.Time.tzOffsetParseF]
  · cases neg <;> simp [Gen.Time.tzOffsetParseF] <;> omega
/-- `tz_parse`: a false zone argument (`None`, `''`) is pendulum's UTC, anything else goes to `tz_name_lookup` -/
theorem tzParseF_eq (truthy : Bool) :
    Gen.Time.tzParseF truthy = if truthy then .lookup else .utc := by
  cases truthy <;> simp [Gen.Time.tzParseF]

/-- meaning of the accessor expression language on the civil fields of `self.astimezone(new_tz)` -/
def evalA (c : Civil) : AExp → Option Int
  | .fld "year" => some c.year
  | .fld "month" => some c.month
  | .fld "day" => some c.day
  | .fld "hour" => some c.hour
  | .fld "minute" => some c.minute
  | .fld "second" => some c.second
  | .fld "microsecond" => some c.micro
  | .fld _ => none
  | .call "isoweekday" => some (isoweekday c.dayIndex : Nat)
  | .call "toordinal" => some (toordinal c.dayIndex : Nat)
  | .call _ => none
  | .jan1ord => some (toordinal (daysOfCivil c.year 1 1) : Nat)
  | .sub a b => do let x ← evalA c a; let y ← evalA c b; pure (x - y)
  | .subk a k => do let x ← evalA c a; pure (x - k)
  | .addk a k => do let x ← evalA c a; pure (x + k)
  | .modk a k => do let x ← evalA c a; pure (x % k)
  | .floordivk a k => do let x ← evalA c a; pure (x / k)

def accName : Acc → String
  | .getDate => "getDate" | .getDayOfMonth => "getDayOfMonth" | .getDayOfWeek => "getDayOfWeek"
  | .getDayOfYear => "getDayOfYear" | .getFullYear => "getFullYear" | .getMonth => "getMonth"
  | .getHours => "getHours" | .getMinutes => "getMinutes" | .getSeconds => "getSeconds"
  | .getMilliseconds => "getMilliseconds"

def lookupAcc (k : String) : List (String × AExp) → Option AExp
  | [] => none
  | (k', v) :: r => if k' = k then some v else lookupAcc k r

/-- every accessor body of celtypes.py, as translated, computes the model's `accField` -/
theorem accessors_eq (c : Civil) : ∀ a : Acc,
    (lookupAcc (accName a) Gen.Time.accessors).bind (evalA c) = some (accField a c) := by
  intro a
  cases a <;> simp [lookupAcc, accName, Gen.Time.accessors, evalA, accField, Option.bind] <;> omega

def lookupStr (k : String) : List (String × String) → Option String
  | [] => none
  | (k', v) :: r => if k' = k then some v else lookupStr k r

/-- the CEL function `getX` (evaluation.py `base_functions` → `function_getX`) hands the timestamp and the zone
argument to the `TimestampType` method of the same name, with nothing in between -/
theorem accessor_wrappers : ∀ a : Acc, lookupStr (accName a) Gen.Time.accessorWrappers = some (accName a) := by
  intro a; cases a <;> rfl

/-- the classes the arithmetic raises are evaluation errors of the interpreter's `addition` rule -/
theorem addition_handlers :
    Exc.valueError ∈ Gen.Time.handlers_addition ∧ Exc.overflow ∈ Gen.Time.handlers_addition ∧
    Exc.typeError ∈ Gen.Time.handlers_addition := by decide
theorem addition_handlers_model : ∀ e ∈ Cel.Time.additionHandlers, e ∈ Gen.Time.handlers_addition := by decide
/-- a bad zone text (`ValueError`) is an evaluation error of `method_eval` -/
theorem method_eval_handlers : Exc.valueError ∈ Gen.Time.handlers_method_eval := by decide

end Cel.Bridge.Time
