/- Bridge (C13): what the class bodies of celtypes.py and the helpers of evaluation.py say now about the class of
   every result (Cel.Gen.ResultCls, regenerated on every run) equals what the model assumes; the corollaries
   restate type preservation directly for the regenerated tables. -/
import Cel.Gen.ResultCls
import Cel.Gen.Compare
import Cel.Bridge.Compare
import Cel.Props.C13
namespace Cel.Bridge.ResultCls
open Cel

/-- every wrapper class defines exactly the arithmetic dunders the model assumes, and each of them constructs
exactly the classes the model assumes (a missing dunder = inherited native operator = degraded result class) -/
theorem resTable_eq : Gen.resTable = resTable := by
  funext c op r; cases c <;> cases op <;> cases r <;> rfl
/-- relations, `in`, interpreter `has()`, string predicates, `size`, boolean macros, logical operators and list
results are built with the wrapper constructors; the transpiled `has()` is not (finding D6) -/
theorem wrapSpec_eq : Gen.wrapSpec = wrapSpec := by decide
theorem convTable_eq : Gen.convTable = convTable := by decide
theorem typeNames_eq : Gen.typeNames = typeNames := by decide
theorem type_function_is_TypeType : Gen.typeFunctionIsTypeType = true := by decide
/-- every wrapper constructor hands back an instance of its own class (what `convTo` assumes) -/
theorem constructors_return_self : ∀ p ∈ Gen.newReturnsSelf, p.2 = true := by decide
/-- `TypeType.__new__` is `type(x)`, with `TypeType` for type objects (what `typeFn` assumes) -/
theorem typeType_shape : Gen.typeTypeShape = true := by decide

/-- type preservation for the tables regenerated from the current source -/
theorem gen_preservation (P : Prims) (r : Runner) (e : TExpr) (τ : Cls) (ht : typeOfE e = some τ)
    (hh : r = .C → usesHas e = false) (v : Val)
    (hv : evalT ⟨P, Gen.resTable, Gen.cmpSpecs, Gen.wrapSpec, r⟩ e = .ok v) : clsOf v = τ := by
  rw [resTable_eq, Compare.cmpSpecs_eq, wrapSpec_eq] at hv
  exact Props.C13.preservation P r e τ ht hh v hv

end Cel.Bridge.ResultCls
