/- Bridge: the object-sharing policies regenerated from the source are the ones the C05 theorems are stated for. -/
import Cel.Gen.Runtime
namespace Cel.Bridge.Runtime
open Cel.Runtime

/-- `Referent.clone` clones its nested container (D3 fixed) -/
theorem clone_is_deep : Cel.Gen.Runtime.clonePolicy = .deep := rfl
/-- `CELParser` keeps one lark parser per tree class and parses through the instance's own (D2 fixed) -/
theorem parser_is_perClass : Cel.Gen.Runtime.parserPolicy = .perClass := rfl
/-- the policies of the current source; the exec-namespace policy and the `resolve_name` flag are free in every C05 theorem -/
theorem config_policies (ns : NamespacePolicy) : (Cel.Gen.Runtime.config ns).clone = .deep ∧ (Cel.Gen.Runtime.config ns).parser = .perClass :=
  ⟨rfl, rfl⟩

/-- `Environment.__init__` raises the process-wide recursion limit for EVERY environment, whatever its runner class
(a limit raised only for some environments makes deep expressions depend on which environments exist: `limit_conditional_depends_on_history`) -/
theorem limit_is_unconditional : ∃ n, Cel.Gen.Runtime.limitPolicy = .always n := ⟨_, rfl⟩

end Cel.Bridge.Runtime
