/- Bridge: the sharing policies regenerated from the source are the ones the C05/C16 theorems are stated for. -/
import Cel.Gen.Runtime
namespace Cel.Bridge.Runtime
open Cel.Runtime

/-- `Referent.clone` clones its nested container (D3 fixed) -/
theorem clone_is_deep : Cel.Gen.Runtime.clonePolicy = .deep := rfl
/-- `CELParser` keeps one lark parser per tree class and parses through the instance's own (D2 fixed) -/
theorem parser_is_perClass : Cel.Gen.Runtime.parserPolicy = .perClass := rfl
/-- `Transpiler.evaluate` executes the transpiled statements in a per-call namespace (D4 fixed) -/
theorem namespace_is_perCall : Cel.Gen.Runtime.namespacePolicy = .perCall := rfl
/-- the three sharing policies of the current source are the ones of `Config.fixed`; the remaining field
(`resolve_name` skipping `TypeError`) is free in every theorem -/
theorem config_policies : Cel.Gen.Runtime.config.clone = .deep ∧ Cel.Gen.Runtime.config.parser = .perClass ∧
    Cel.Gen.Runtime.config.ns = .perCall := ⟨rfl, rfl, rfl⟩

end Cel.Bridge.Runtime
