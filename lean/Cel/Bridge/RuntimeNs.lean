/- Bridge: the exec-namespace policy regenerated from `Transpiler.evaluate` is the one the C16 theorem is stated for. -/
import Cel.Gen.RuntimeNs
namespace Cel.Bridge.RuntimeNs
open Cel.Runtime

/-- `Transpiler.evaluate` executes the transpiled statements in a per-call namespace (D4 fixed) -/
theorem namespace_is_perCall : Cel.Gen.RuntimeNs.namespacePolicy = .perCall := rfl

end Cel.Bridge.RuntimeNs
