/-
  Bridge (C19): facts about what is regenerated from `src/xlate/c7n_to_cel.py` on every run
  (Cel.Gen.XlateTables) — the operator table, the value_type table, the resource tables, the data of
  `q`, the units of `seconds_to_duration` — against the hand-written model Cel.Model.XlateValue.
  A changed table entry changes the subject of these `decide`s.
-/
import Cel.Gen.XlateTables
import Cel.Model.XlateCel
namespace Cel.Bridge.XlateTables
open Cel.XlateValue Cel.Gen

/-- every `atomic_op_map` entry under a name of the property parses to the template shape its
relation calls for (checked over the WHOLE regenerated table) -/
theorem op_table_check : XlateTables.atomicOpMap.all entryOk = true := by decide

/-- every op name of the property is a key of the regenerated table -/
theorem op_table_complete :
    ∀ n ∈ opNames, ∃ p ∈ XlateTables.atomicOpMap, p.1 = n ∧ (Op.ofName n).isSome = true := by decide

/-- `filter_op_map` (`value_from` clauses) has the same orientation: the fetched list is the container -/
theorem filter_op_check : XlateTables.filterOpMap.all (fun p =>
    match Op.ofName p.1 with
    | some .in_ => parseTemplate p.2.toList == some (.meth false .h1 "contains" .h0)
    | some .ni => parseTemplate p.2.toList == some (.meth true .h1 "contains" .h0)
    | some .intersect => parseTemplate p.2.toList == some (.meth false .h1 "intersect" .h0)
    | _ => false) = true := by decide

def vtEntryOk (n : String) : Bool :=
  match lookup XlateTables.typeValueMap n, vtShape n with
  | some e, some (x1, x0) => xfOf e.1 == some x1 && xfOf e.2 == some x0
  | _, _ => false

/-- every value type of the property has a `type_value_map` lambda of the expected meaning -/
theorem vt_table_check : vtNames.all vtEntryOk = true := by decide

/-- every resource-table entry has balanced delimiters and closed string literals — necessary for
`tables_are_cel`; `glacier` is excluded: its stray `)` is pinned by tests/test_c7n_to_cel.py
(known finding `glacier_pinned`) -/
theorem tables_balanced :
    allBalanced XlateTables.ageAttr = true ∧ allBalanced XlateTables.sgAttr = true ∧
    allBalanced XlateTables.vpcAttr = true ∧ allBalanced XlateTables.kmsAttr = true ∧
    allBalanced (XlateTables.crossAccount.filter (fun p => p.1 != "glacier")) = true ∧
    allBalanced XlateTables.used = true := by decide +kernel

/-- every resource-table entry, bare and inside the smallest clause its rewriter builds around it,
lexes and is accepted by the grammar model's parser (`glacier` excluded as above) -/
theorem tables_cel_check :
    XlateCel.tableIsCel "age" XlateTables.ageAttr = true ∧
    XlateCel.tableIsCel "security-group" XlateTables.sgAttr = true ∧
    XlateCel.tableIsCel "vpc" XlateTables.vpcAttr = true ∧
    XlateCel.tableIsCel "kms-key" XlateTables.kmsAttr = true ∧
    XlateCel.tableIsCel "cross-account" (XlateTables.crossAccount.filter (fun p => p.1 != "glacier")) = true ∧
    XlateCel.tableIsCel "used" XlateTables.used = true ∧ XlateCel.tableIsCel "unused" XlateTables.used = true := by
  decide +kernel

/-- `escChar` recomputed from the data regenerated from `q` -/
def genEscChar (qc c : Char) : Str :=
  match (XlateTables.qEscapes ++ (if XlateTables.qEscapesQuote then [(qc, String.ofList ['\\', qc])] else [])).find? (fun p => p.1 = c) with
  | some p => p.2.toList
  | none =>
    if c.toNat < XlateTables.qCtlBelow || c.toNat = XlateTables.qCtlAlso then
      ['\\', 'x', hexDigit (c.toNat / 16), hexDigit (c.toNat % 16)]
    else [c]


/-- the `escapes` dict and the control-character test read from `q` are the model's `escChar` -/
theorem q_bridge (qc c : Char) : genEscChar qc c = escChar qc c := by
  unfold genEscChar escChar
  simp only [XlateTables.qEscapes, XlateTables.qEscapesQuote, XlateTables.qCtlBelow, XlateTables.qCtlAlso]
  by_cases h1 : c = '\\'
  · subst h1; simp
  by_cases h2 : c = '\n'
  · subst h2; simp
  by_cases h3 : c = '\r'
  · subst h3; simp
  by_cases h4 : c = '\t'
  · subst h4; simp
  by_cases h5 : c = qc
  · subst h5; simp [List.find?, h1, h2, h3, h4, Ne.symm h1, Ne.symm h2, Ne.symm h3, Ne.symm h4]
  · by_cases h6 : c.toNat < 32 <;> by_cases h7 : c.toNat = 127 <;>
      simp [List.find?, h1, h2, h3, h4, h5, h6, h7, Ne.symm h1, Ne.symm h2, Ne.symm h3, Ne.symm h4, Ne.symm h5]

theorem units_bridge : XlateTables.durationUnits = durationUnits := by decide

theorem consts_bridge : XlateTables.zeroDuration.toList = ['0', 's'] ∧ XlateTables.secondsPerDay = 86400 ∧
    XlateTables.cNow = "now" ∧ XlateTables.cResource = "resource" ∧
    XlateTables.functionMap = [("length", "size")] := by decide

end Cel.Bridge.XlateTables
