/- Bridge for C14: what `Cel.Gen.Funcs` (regenerated from src/celpy on every run) says about binding and applying
   host functions is what `Cel.Model.Funcs` assumes. -/
import Cel.Gen.Funcs
import Cel.Model.Funcs
namespace Cel.Bridge.Funcs
open Cel Cel.Funcs

/-- `Activation.__init__`: local functions come first in the `ChainMap`, `base_functions` last — for a list, a mapping
and for no functions (`chainOf`); a list is keyed by `__name__` (`localOfList`, `Callable.pyName`). -/
theorem chain_order :
    Gen.Funcs.chain_list = ["local_functions", "base_functions"] ∧
    Gen.Funcs.chain_dict = ["functions", "base_functions"] ∧
    Gen.Funcs.chain_none = ["base_functions"] ∧
    Gen.Funcs.listKeyAttr = "__name__" ∧
    Gen.Funcs.resolveFunctionIsChainLookup = true := by decide

/-- no statement in src/celpy writes `base_functions`, and it is never the first (writable) map of a multi-map
ChainMap: `World.evaluate` leaves `World.base` unchanged -/
theorem base_never_written : Gen.Funcs.baseWrites = [] := by decide

/-- `function_eval` and `method_eval` convert the same exception classes around the application (one `Ctx.callCaught`
for both), and these include ValueError, TypeError (the classes C14 names) -/
theorem call_handlers :
    (Gen.Funcs.function_eval_applyCaught.all (· ∈ Gen.Funcs.method_eval_applyCaught) = true) ∧
    (Gen.Funcs.method_eval_applyCaught.all (· ∈ Gen.Funcs.function_eval_applyCaught) = true) ∧
    catches Gen.Funcs.function_eval_applyCaught .valueError = true ∧
    catches Gen.Funcs.function_eval_applyCaught .typeError = true ∧
    catches Gen.Funcs.method_eval_applyCaught .valueError = true ∧
    catches Gen.Funcs.method_eval_applyCaught .typeError = true := by decide

/-- the model's default handler list is contained in what the source catches -/
theorem call_handlers_cover_model :
    (({ fns := fun _ => none } : Ctx).callCaught.all (fun e => catches Gen.Funcs.function_eval_applyCaught e)) = true := by
  decide

/-- an unbound name is a KeyError of the lookup, converted to an error value by both rules -/
theorem lookup_handlers :
    Exc.keyError ∈ Gen.Funcs.function_eval_lookupCaught ∧ Exc.keyError ∈ Gen.Funcs.method_eval_lookupCaught := by decide

/-- the erroneous-argument checks of `functionEval` / `methodEval` / `exprlistI` are in the source, BEFORE the
application (the extractor reads the statements in execution order; `args[*]` = "the first evaluated argument that is a
CELEvalError is the result", however it is written: loop, `next(…)`, comprehension) -/
theorem error_checks :
    "args[*]" ∈ Gen.Funcs.function_eval_errorChecks ∧
    "object" ∈ Gen.Funcs.method_eval_errorChecks ∧ "exprlist" ∈ Gen.Funcs.method_eval_errorChecks ∧
    Gen.Funcs.exprlistReturnsFirstError = true := by decide

/-- **one application, to the evaluated arguments** (`applyI cx fn.fn vs` / `applyI cx fn.fn (obj :: vs)`): between the
lookup and the `return`, `function_eval` consists of the error checks and exactly one `function(*args)`, `method_eval` of
exactly one `function(object, *args)` — the extractor rejects every other statement there (a result cache, a second
application, a rebinding of `function`), so this is also "no memo between the call site and the function". -/
theorem applied_once_to_arguments :
    Gen.Funcs.function_eval_appliedTo = ["*args"] ∧ Gen.Funcs.method_eval_appliedTo = ["object", "*args"] := by decide

/-- `result()` converts ValueError, TypeError, NameError (`CfgOk` of the default context) -/
theorem result_caught :
    catches Gen.Funcs.resultCaught .valueError = true ∧ catches Gen.Funcs.resultCaught .typeError = true ∧
    catches Gen.Funcs.resultCaught .nameError = true ∧
    (({ fns := fun _ => none } : Ctx).resultCaught.all (fun e => catches Gen.Funcs.resultCaught e)) = true := by decide

/-- the built-ins the model executes are entries of `base_functions`; macro names are the same in both evaluators,
equal to the model's (as a *method* name they always denote the macro; `map` is also the key of the map type
conversion in `base_functions`, which only the function syntax reaches) -/
theorem base_keys :
    (baseFns.map (·.1)).all (· ∈ Gen.Funcs.baseKeys) = true ∧
    Gen.Funcs.macroNamesI = Gen.Funcs.macroNamesC ∧
    (macroNames.all (· ∈ Gen.Funcs.macroNamesI) && Gen.Funcs.macroNamesI.all (· ∈ macroNames)) = true := by decide

/-- `func_name`: dotted text only after the identity check; otherwise calls go through `host_function` (argument check),
operators through `resolve_function`; an unbound name becomes a CELEvalError object -/
theorem func_name_shape :
    Gen.Funcs.funcNameIdentityCheck = true ∧ Gen.Funcs.funcNameCallFallbackIsHostFunction = true ∧
    Gen.Funcs.funcNameOperatorFallbackIsResolve = true ∧ Gen.Funcs.funcNameUnboundIsErrorObject = true ∧
    Gen.Funcs.callsPassCallFlag = true ∧ Gen.Funcs.hostFunctionChecksArguments = true := by decide

/-- **the binding decisions are taken per program** (round 3): `func_name` decides — dotted text of a built-in, run-time lookup
through `host_function`, or the constant "unbound function" error — by consulting the activation of the program being
built, and it does so in Phase 1; `Transpiler.transpile` runs Phase 1 on every call, unconditionally, so an AST that was
already packaged into another program (`Environment.compile()` once, `Environment.program()` many times) is decorated
afresh.  This is what lets `World.run` treat a program as (`base`, supplied functions, expression), without the AST's past. -/
theorem binding_decided_per_program : Gen.Funcs.transpilePhase1Unconditional = true := by decide

/-- `?:` visits one branch in the interpreter and wraps three operands in `result()` in the transpiled template;
`||`/`&&` visit both operands -/
theorem cond_shape :
    Gen.Funcs.condLazyI = true ∧ Gen.Funcs.condResultOperandsC = 3 ∧ Gen.Funcs.logicVisitsBothI = true := by decide

end Cel.Bridge.Funcs
