/- Bridge (C15): the ladders regenerated from adapter.py / celtypes.py / evaluation.py (Cel.Gen.JsonLadder)
   against the hand-written model (Cel.Model.Json). -/
import Cel.Gen.JsonLadder
namespace Cel.Bridge
open Cel Cel.JsonM

/-- `json_to_cel` as written now dispatches every class of the lattice to the same constructor as the model
(behavioural equality of the ladders: independent rungs may be reordered, `bool`/`int` may not). -/
theorem json_ladder_dispatch : ∀ c ∈ PCls.all, dispatch Gen.jsonLadder c = dispatch jsonLadder c := by decide

/-- … and falls off the end with the same exception -/
theorem json_ladder_else : Gen.jsonLadderElse = Exc.valueError := by decide

/-- `bool` is tested before `int` in the source (position of the rungs), and a `bool` document reaches `BoolType`. -/
theorem bool_before_int :
    (Gen.jsonLadder.findIdx (fun r => r.1.contains PCls.bool)) < (Gen.jsonLadder.findIdx (fun r => r.1.contains PCls.int)) ∧
    (Gen.jsonLadder.findIdx (fun r => r.1.contains PCls.int)) < Gen.jsonLadder.length ∧
    dispatch Gen.jsonLadder PCls.bool = some Ctor.boolType := by decide

theorem to_python_ladder_dispatch : ∀ c ∈ PCls.all, dispatch Gen.toPythonLadder c = dispatch toPythonLadder c := by decide
theorem default_ladder_dispatch : ∀ c ∈ PCls.all, dispatch Gen.defaultLadder c = dispatch defaultLadder c := by decide
/-- `encode` still converts with `to_python` before handing over to `json` -/
theorem encode_applies_to_python : Gen.encodeAppliesToPython = true := by decide

/-- the celtypes wrappers derive from the natives the model's `mro` says (so `BoolType` is an `int` for `json`) -/
theorem class_bases : ∀ p ∈ Gen.clsBases, p.1.mro = p.1 :: p.2.mro := by decide
theorem valid_key_classes : ∀ c ∈ PCls.all, isInst c Gen.validKeyClasses = isInst c validKeyClasses := by decide
/-- `member_index` turns TypeError / KeyError / IndexError of `operator.getitem` into error results, as `memberIndex` assumes -/
theorem member_index_handlers : Exc.typeError ∈ Gen.handlers_member_index ∧ Exc.keyError ∈ Gen.handlers_member_index ∧
    Exc.indexError ∈ Gen.handlers_member_index := by decide
/-- `CELJSONDecoder.decode` is still `json_to_cel` applied to what `json` parsed (the `dec` cases are compared against `jsonToCel`) -/
theorem decode_applies_json_to_cel : Gen.decodeAppliesJsonToCel = true := by decide
/-- `DurationType.__str__` as written now prints the same whole number of seconds as the model, for EVERY duration
(`int(total_seconds())`: the truncated binary64 quotient; a floor division or a rounding is a different function) -/
theorem dur_seconds (us : Int) : Gen.durSeconds us = durSeconds us := rfl

end Cel.Bridge
