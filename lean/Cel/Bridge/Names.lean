/- Bridge (C12): the decision structure of name resolution re-read from evaluation.py on every run
   (Cel.Gen.Names) is what the hand-written model Cel.Model.Names mirrors. -/
import Cel.Gen.Names
import Cel.Model.Names
namespace Cel.Bridge
open Cel Cel.Names

/-- `Referent.value` prefers the container, then the value, then the annotation — as `Node.result` does -/
theorem names_referent_value :
    Gen.Names.referentValue true true = "container" ∧ Gen.Names.referentValue true false = "container" ∧
    Gen.Names.referentValue false true = "value" ∧ Gen.Names.referentValue false false = "annotation" ∧
    Gen.Names.valueSetterSetsFlag = true := by decide

/-- `Node.result` follows that order -/
theorem names_node_result (a : Option Nat) (v : Option Val) (k : String × Node) (ks : NC) :
    (Node.mk a v (k :: ks)).result = .nc (k :: ks) ∧
    (∀ w, (Node.mk a (some w) []).result = .val w) ∧
    (∀ b, (Node.mk (some b) none []).result = .ann b) := by
  refine ⟨rfl, fun _ => rfl, fun _ => rfl⟩

/-- `load_values` / `load_annotations` expand dotted names through `setdefault` and nested containers and
set the value / annotation on the final component (`setValue`, `setAnn`) -/
theorem names_loading :
    Gen.Names.load_values_expands_dotted_names = true ∧ Gen.Names.load_annotations_expands_dotted_names = true ∧
    Gen.Names.annotationsLoadedBeforeValues = true := by decide

/-- the branch order of `find_name` (`findName`) and `dict_find_name` (`dictFind`) -/
theorem names_find_name :
    Gen.Names.findNameSteps =
      ["empty-path", "split", "lookup-head", "end-of-path", "container", "mapping-value", "type-error"] ∧
    Gen.Names.dictFindNavigatesKeys = true := by decide

/-- `resolve_name` (`resolveName`): package path first, shortened from the end, over the parent chain
(this container first), candidates that raise NotFound/TypeError are skipped, KeyError if nothing
matched, the longest match returned -/
theorem names_resolve_name :
    Gen.Names.resolve_packageFirst = true ∧ Gen.Names.resolve_shrinksFromTheEnd = true ∧
    Gen.Names.resolve_walksParentChain = true ∧ Gen.Names.resolve_looksUpTargetPlusName = true ∧
    Gen.Names.resolve_keyErrorWhenNoMatch = true ∧ Gen.Names.resolve_longestMatch = true ∧
    Gen.Names.resolveSkips = ["NameContainer.NotFound", "TypeError"] ∧
    Gen.Names.parentIterSelfFirst = true := by decide

/-- both runners read a name through `Referent.value` semantics and select fields of a NameContainer
by key (`memberDot`) -/
theorem names_lookup_paths :
    Gen.Names.resolveVariableUsesValue = true ∧ Gen.Names.getattrAgreesWithValue = true ∧
    Gen.Names.memberDotOnNameContainer = true ∧ Gen.Names.nameContainerGetResolves = true ∧
    Gen.Names.transpiledIdentIsActivationAttr = true ∧ Gen.Names.transpiledMemberDotIsGet = true := by decide

/-- macro variables are bound in a nested activation in front of the chain, in both runners (`bindVar`);
top-level bindings are loaded into a clone of the base container -/
theorem names_macro_binding :
    Gen.Names.nestedActivationChains = true ∧ Gen.Names.activationParentIsBasedOn = true ∧
    Gen.Names.macroEvaluatorIsLocal = true ∧ Gen.Names.localScopeUsesNestedActivation = true ∧
    Gen.Names.topLevelLoadsIntoClone = true ∧ Gen.Names.macroBodyBindsIdentifier = true ∧
    Gen.Names.compiledMacrosUseNestedActivation = true := by decide

end Cel.Bridge
