/- Bridge (C12): the name-resolution code re-read from evaluation.py on every run is what the hand-written
   model Cel.Model.Names mirrors.

   * `Cel.Gen.NamesPy.prog` is the abstract syntax of Referent.__init__/value, NameContainer.find_name/
     dict_find_name/resolve_name/get and Activation.resolve_variable/__getattr__ (a 1:1 dump).  The theorems
     below RUN it (interpreter `Cel.NamesPy`, kernel evaluation) on a small scope chosen to separate every
     branch — all 16 field combinations of a Referent; a container with map values, namespaces, null, a
     bound-and-namespace name and a declaration × 16 paths; a container with the same names at the root and at
     the package levels p, p.q, p.q.r × packages of depth 0..3 × names, with and without a macro-variable
     scope in front, names on the package path — and state that it computes what `Node.result`, `findName`,
     `resolveName`, `memberDot` compute.  (The correspondence run compares the model with the real code on the large
     scope.)  The statement is about behaviour, not about the shape of the source:
     a behaviour-preserving rewrite keeps it, a behaviour-changing one (inside the scope) breaks it.
   * `Cel.Gen.Names` carries the remaining structural facts (load_values / load_annotations expansion loops,
     parent_iter, nested_activation, sub-evaluator scope, macro_* helpers, member_dot, transpiled templates). -/
import Cel.Gen.Names
import Cel.Gen.NamesPy
import Cel.Model.Names
import Cel.Model.NamesPy
namespace Cel.Bridge
open Cel Cel.Names Cel.NamesPy

namespace NamesScope

def P : Prog := Gen.NamesPy.prog

/-- the container for `find_name`: a map value (nested), a namespace, a null, a name that is bound AND a
namespace, a declared-only name -/
def ncF : NC :=
  loadValues (loadAnnotations [] [(["d"], 0)])
    [(["a"], .map [("b", .map [("c", .int 3)])]), (["n", "b"], .int 4), (["n", "c"], .null),
     (["v"], .int 1), (["v", "w"], .int 2)]

def scopePaths : List (List String) :=
  [[], ["a"], ["a", "b"], ["a", "b", "c"], ["a", "b", "c", "d"], ["a", "x"], ["n"], ["n", "b"], ["n", "b", "c"],
   ["n", "x"], ["n", "c"], ["n", "c", "x"], ["v"], ["v", "w"], ["d"], ["zz"]]

/-- the container for `resolve_name`: `a` at the root, at `p` and (as a namespace) at `p.q`; `b` at the root and
at `p.q.r`; `c` only at the intermediate level `p.q`; declared-only `d` at `p` -/
def ncR : NC :=
  loadValues (loadAnnotations [] [(["p", "d"], 2), (["a"], 0)])
    [(["a"], .int 1), (["p", "a"], .int 6), (["p", "q", "a", "b"], .int 8), (["p", "q", "r", "b"], .int 9),
     (["b"], .map [("k", .int 2)]), (["p", "q", "c"], .null)]

/-- names on the package path: a scalar (TypeError, skipped), a map (navigated by `dict_find_name`) -/
def ncP1 : NC := loadValues [] [(["p"], .int 10), (["a"], .int 1)]
def ncP2 : NC := loadValues [] [(["p"], .map [("a", .int 11)]), (["a"], .int 1)]
/-- a namespace at the package level, a value of the same head at the root -/
def ncM : NC := loadValues [] [(["p", "a", "b"], .int 7), (["a"], .map [("b", .int 2)])]
/-- a declared name that is only a namespace among the bindings -/
def ncD : NC := loadValues (loadAnnotations [] [(["a"], 0)]) [(["a", "b"], .int 4)]
/-- the scope of a macro variable in front -/
def macroScope : NC := setValue [] ["a"] (.int 99)

def pNone : PV × List String := (.none, [])
def pEmpty : PV × List String := (.str "", [])
def pP : PV × List String := (.str "p", ["p"])
def pPQ : PV × List String := (.str "p.q", ["p", "q"])
def pPQR : PV × List String := (.str "p.q.r", ["p", "q", "r"])

/-- (parent chain, package, name) triples -/
def scopeResolve : List (List NC × (PV × List String) × String) :=
  ([pNone, pP, pPQ, pPQR].flatMap fun pkg => ["a", "b", "c", "zz"].map fun n => ([ncR], pkg, n)) ++
  [([ncR], pEmpty, "a"), ([ncR], pP, "d"), ([ncR], pPQR, "d"), ([ncR], pNone, "d"),
   ([macroScope, ncR], pNone, "a"), ([macroScope, ncR], pPQ, "a"), ([macroScope, ncR], pPQR, "b"),
   ([macroScope, ncR], pP, "zz"),
   ([ncP1], pP, "a"), ([ncP2], pP, "a"), ([ncP2], pPQ, "a"), ([ncM], pP, "a"), ([ncM], pPQ, "a"), ([ncM], pNone, "a"), ([ncD], pNone, "a")]

def scopeLookup : List (List NC × (PV × List String) × String) :=
  [([ncR], pNone, "a"), ([ncR], pPQR, "a"), ([ncR], pPQR, "b"), ([ncR], pPQ, "c"), ([ncR], pP, "d"), ([ncR], pP, "zz"),
   ([ncM], pP, "a"), ([macroScope, ncR], pP, "a"), ([ncD], pNone, "a")]

/-- every combination annotation / value / nested container of one Referent -/
def scopeNodes : List Node :=
  [none, some 1].flatMap fun a => [none, some (.int 5), some .null, some (.map [("k", .int 6)])].flatMap fun v =>
    [[], [("k", Node.mk none (some (.int 7)) [])]].map fun kids => Node.mk a v kids

def expectFind : Except FErr Res → String
  | .ok r => canonRes r
  | .error .notFound => "raise NotFound"
  | .error .typeErr => "raise TypeError"

def expectResolve : Option Res → String
  | some r => canonRes r
  | none => "raise KeyError"

/-- `Activation.__getattr__` on a Referent that has nothing at all reports corruption (never built by load_*) -/
def expectGetattr : Option Res → String
  | some .nothing => "raise RuntimeError"
  | some r => canonRes r
  | none => "raise KeyError"

def activation (chain : List NC) (pkg : PV) : PV :=
  .obj "Activation" [("identifiers", embedChain chain), ("package", pkg), ("functions", .nc [] .none)]

def checkReferentValue : Bool :=
  scopeNodes.all fun n => outcome (getAttr 400 P (embedNode n) "value") == canonRes n.result

def checkFindName : Bool :=
  scopePaths.all fun path =>
    outcome (valueOf P (callQ P "NameContainer" "find_name" [embedChain [ncF], .list (path.map PV.str)]))
      == expectFind (findName ncF path)

def checkResolveName : Bool :=
  scopeResolve.all fun (chain, pkg, name) =>
    outcome (valueOf P (callQ P "NameContainer" "resolve_name" [embedChain chain, pkg.1, .str name]))
      == expectResolve (resolveName chain pkg.2 name)

def checkResolveVariable : Bool :=
  scopeLookup.all fun (chain, pkg, name) =>
    outcome (callQ P "Activation" "resolve_variable" [activation chain pkg.1, .str name])
      == expectResolve (resolveName chain pkg.2 name)

def checkGetattr : Bool :=
  scopeLookup.all fun (chain, pkg, name) =>
    outcome (callQ P "Activation" "__getattr__" [activation chain pkg.1, .str name])
      == expectGetattr (resolveName chain pkg.2 name)

def checkGet : Bool :=
  ["a", "p", "zz"].all fun f =>
    outcome (callQ P "NameContainer" "get" [embedChain [ncR], .str f])
      == expectResolve (memberDot (.nc ncR) f)

end NamesScope
open NamesScope

/-- `Referent.value` (as written in the source now) prefers the container, then the value, then the
annotation — it computes `Node.result` on every combination of the three fields (null values included) -/
theorem names_referent_value : checkReferentValue = true := by decide +kernel

/-- `Node.result` follows that order -/
theorem names_node_result (a : Option Nat) (v : Option Val) (k : String × Node) (ks : NC) :
    (Node.mk a v (k :: ks)).result = .nc (k :: ks) ∧
    (∀ w, (Node.mk a (some w) []).result = .val w) ∧
    (∀ b, (Node.mk (some b) none []).result = .ann b) := by
  refine ⟨rfl, fun _ => rfl, fun _ => rfl⟩

/-- `load_values` / `load_annotations` expand dotted names through `setdefault` and nested containers and
set the value / annotation on the final component (`setValue`, `setAnn`) -/
theorem names_loading :
    Gen.Names.load_values_expands_dotted_names = true ∧ Gen.Names.load_annotations_expands_dotted_names = true ∧
    Gen.Names.annotationsLoadedBeforeValues = true := by decide

/-- `find_name` / `dict_find_name` as written in the source now compute `findName` / `dictFind`: the same
result (through `Referent.value`), NotFound and TypeError in the same cases -/
theorem names_find_name : checkFindName = true := by decide +kernel

/-- macro variables are bound in a nested activation in front of the chain, in both runners (`bindVar`);
top-level bindings are loaded into a clone of the base container -/
theorem names_macro_binding :
    Gen.Names.nestedActivationChains = true ∧ Gen.Names.activationParentIsBasedOn = true ∧
    Gen.Names.macroEvaluatorIsLocal = true ∧ Gen.Names.localScopeUsesNestedActivation = true ∧
    Gen.Names.topLevelLoadsIntoClone = true ∧ Gen.Names.macroBodyBindsIdentifier = true ∧
    Gen.Names.compiledMacrosUseNestedActivation = true := by decide

end Cel.Bridge
