/- Bridge (C09): what is regenerated from evaluation.py / celtypes.py on every run (Cel.Gen.Coll)
   equals what the hand-written model Cel.Model.Coll assumes. -/
import Cel.Gen.Coll
namespace Cel.Bridge
open Cel Cel.Coll

/-- the translated loop of `operator_in` is the model's `inLoop` -/
theorem coll_operator_in_loop_eq (item : V) (l : List V) (acc : V) :
    Gen.Coll.operator_in_loop item l acc = inLoop item l acc := by
  induction l generalizing acc with
  | nil => rfl
  | cons c rest ih =>
    simp only [Gen.Coll.operator_in_loop, inLoop]
    split <;> simp_all

/-- the translated `operator_in` is the model's `vin` -/
theorem coll_operator_in_eq (item container : V) : Gen.Coll.operator_in item container = vin item container := by
  cases item <;> cases container <;> simp [Gen.Coll.operator_in, vin, coll_operator_in_loop_eq, V.isErr]

/-- the translated `ListType.__getitem__` (guard + Python's list indexing) is the model's `listAt`:
the guard against negative indexes (defect D16) is in the source now -/
theorem coll_listGetitem_eq (xs : List V) (n : Int) : Gen.Coll.listGetitem xs n = listAt xs n := by
  simp [Gen.Coll.listGetitem, listAt]

set_option linter.unusedSimpArgs false in
/-- the translated `MapType.get` with the default `None`: a present key gives its value WHATEVER that value is
(`null` included — `None` is not a sentinel for "absent"), a missing key is `KeyError`, a key of an invalid
type `TypeError`.  Proved by cases on the outcome of the dict lookup, so early returns / else chains /
try-except forms of the same behaviour all pass. -/
theorem coll_mapGet_spec (kvs : List (V × V)) (k : V) :
    Gen.Coll.mapGet kvs k .null = (if validKey k then dictGetitem kvs k else .error .typeError) := by
  simp only [Gen.Coll.mapGet, dictContains, dictGetD, dictGetitem, V.isNone, getitem]
  cases hk : validKey k <;> cases h : lookup k kvs with
  | error e => cases e <;> simp [bind, Except.bind, throw, throwThe, MonadExceptOf.throw, hk]
  | ok o => cases o <;> simp [bind, Except.bind, throw, throwThe, MonadExceptOf.throw, pure, Except.pure, hk]

/-- … which is field selection `m.f` of the transpiled-program model (the template is `m.get('f')`) -/
theorem coll_mapGet_eq (kvs : List (V × V)) (f : List Nat) :
    Gen.Coll.mapGet kvs (.str f) .null = select .C (.map kvs) f := by
  rw [coll_mapGet_spec]; simp [validKey, select, handled, dictGetitem]

/-- `result()` catches exactly the classes the model's `result` catches (`catching` only asks for
membership: compared as sets, the order inside the `except (…)` tuple is immaterial) -/
theorem coll_resultCaught_eq (e : Exc) : e ∈ Gen.Coll.resultCaught ↔ e ∈ resultCaught := by
  cases e <;> decide

theorem coll_index_handlers (e : Exc) : e ∈ Gen.Coll.handlers_member_index ↔ e ∈ indexHandlers := by
  cases e <;> decide

theorem coll_member_dot_handlers : Exc.keyError ∈ Gen.Coll.handlers_member_dot := by decide

/-- `function_eval` / `method_eval` turn the classes the model's `callFn` catches into error values -/
theorem coll_call_handlers :
    Exc.typeError ∈ Gen.Coll.handlers_function_eval ∧ Exc.valueError ∈ Gen.Coll.handlers_function_eval ∧
    Exc.attributeError ∈ Gen.Coll.handlers_function_eval ∧
    Exc.typeError ∈ Gen.Coll.handlers_method_eval ∧ Exc.valueError ∈ Gen.Coll.handlers_method_eval ∧
    Exc.attributeError ∈ Gen.Coll.handlers_method_eval := by decide

theorem coll_map_lit_handlers :
    Exc.valueError ∈ Gen.Coll.handlers_map_lit ∧ Exc.typeError ∈ Gen.Coll.handlers_map_lit := by decide

/-- duplicate keys raise ValueError in both construction loops; `mapinits` and `exprlist` return the
first erroneous element; a key of an invalid type raises TypeError; errors values are raised at the API -/
theorem coll_map_facts :
    Gen.Coll.mapinitsDupRaises = .valueError ∧ Gen.Coll.mapInitDupRaises = .valueError ∧
    Gen.Coll.mapinitsReturnsFirstError = true ∧ Gen.Coll.exprlistReturnsFirstError = true ∧
    Gen.Coll.mapGetitemBadKeyRaises = .typeError ∧ Gen.Coll.evaluateRaisesErrorValue = true := by decide

theorem coll_valid_keys :
    Gen.Coll.validKeyTypes = ["BoolType", "IntType", "StringType", "UintType", "str"] := by decide

/-- which primitive each string function delegates to, and in which argument order -/
theorem coll_string_fns :
    Gen.Coll.function_startsWith = ("startswith", 0, 1) ∧ Gen.Coll.function_endsWith = ("endswith", 0, 1) ∧
    Gen.Coll.function_contains = ("contains", 0, 1) ∧ Gen.Coll.stringContainsIsItemInSelf = true ∧
    Gen.Coll.sizeIsLen = true := by decide

/-- `matches` is `re2.search(pattern, text) is not None`; only `re2.error` becomes the error value -/
theorem coll_matches :
    Gen.Coll.matchesSearch = ("re2.search", 1, 0) ∧ Gen.Coll.matchesBadPatternCaught = [.re2Error] ∧
    Gen.Coll.matchesIsNotNone = true := by decide

/-- the five macro branches of `Evaluator.member_dot_arg` as `macroM .I` models them -/
theorem coll_macro_branches :
    Gen.Coll.macroBranches =
      [("all", "build_ss_macro_eval", [], "logical_and", true, true, false),
       ("exists", "build_ss_macro_eval", [], "logical_or", false, true, false),
       ("exists_one", "build_macro_eval", [.celEval], "", false, false, true),
       ("filter", "build_macro_eval", [.celEval], "", false, false, true),
       ("map", "build_macro_eval", [.celEval], "", false, false, false)] ∧
    Gen.Coll.ssBodyCatchesCELEvalError = true := ⟨rfl, rfl⟩

/-- `macro_map/filter/exists_one/exists/all` as `macroM .C` models them -/
theorem coll_compiled_macros :
    Gen.Coll.compiledMacros =
      [("map", "", false, false, false, false), ("filter", "", false, false, false, true),
       ("exists_one", "", false, false, false, true), ("exists", "logical_or", false, true, true, false),
       ("all", "logical_and", true, true, true, false)] := by decide

theorem coll_macro_names :
    "map" ∈ Gen.Coll.macroNames ∧ "filter" ∈ Gen.Coll.macroNames ∧ "all" ∈ Gen.Coll.macroNames ∧
    "exists" ∈ Gen.Coll.macroNames ∧ "exists_one" ∈ Gen.Coll.macroNames := by decide

/-- the operators the model gives a meaning to are bound to the functions it models -/
theorem coll_base_functions :
    Gen.Coll.baseFunctions =
      [("_+_", "operator.add"), ("_==_", "bool_eq"), ("_[_]", "operator.getitem"), ("_in_", "operator_in"),
       ("contains", "function_contains"), ("endsWith", "function_endsWith"), ("matches", "function_matches"),
       ("size", "function_size"), ("startsWith", "function_startsWith"),
       ("bool_eq", "boolean(operator.eq)")] := by decide

end Cel.Bridge
