"""C01 — numeric operators exact (int64/uint64 overflow-checked, double IEEE-754)."""
from __future__ import annotations
import math
import random
import struct
from typing import Any, Dict, Iterable, Optional

from ..core import Prop
from .. import celrun

I_MIN, I_MAX, U_MAX = -2**63, 2**63 - 1, 2**64 - 1
OPSYM = {"add": "+", "sub": "-", "mul": "*", "div": "/", "mod": "%"}


def boundary(signed: bool, small: bool):
    ks = [1, 2, 7, 8, 15, 16, 29, 30, 31, 32, 33, 53, 60, 61, 62, 63] if small else list(range(1, 64))
    vals = {0, 1, 2, 3, 7, 10}
    for k in ks:
        for d in (-1, 0, 1):
            vals.add(2**k + d)
    if signed:
        vals |= {-v for v in vals}
        vals |= {I_MIN, I_MIN + 1, I_MAX, I_MAX - 1}
        return sorted(v for v in vals if I_MIN <= v <= I_MAX)
    vals |= {U_MAX, U_MAX - 1, 2**64 - 2**32}
    return sorted(v for v in vals if 0 <= v <= U_MAX)


def spec_int(op: str, a: int, b: int, lo: int, hi: int, signed: bool) -> str:
    """the property's own arithmetic, written independently of the implementation:
    exact integers, T-division via Fraction-free truncation."""
    if op == "neg":
        if not signed:
            return "err"
        r = -a
    elif op == "add":
        r = a + b
    elif op == "sub":
        r = a - b
    elif op == "mul":
        r = a * b
    elif op in ("div", "mod"):
        if b == 0:
            return "err"
        q = abs(a) // abs(b)
        if (a < 0) != (b < 0):
            q = -q
        r = q if op == "div" else a - b * q
    else:
        raise ValueError(op)
    if lo <= r <= hi:
        return str(r)
    return "err"


def gen_aexpr(rng, depth, B):
    if depth == 0 or rng.random() < 0.2:
        return ["lit", rng.choice(B) if rng.random() < 0.7 else rng.randint(-20, 20)]
    if rng.random() < 0.3:
        return ["neg", gen_aexpr(rng, depth - 1, B)]
    return [rng.choice(["add", "sub", "mul", "div", "mod"]), gen_aexpr(rng, depth - 1, B), gen_aexpr(rng, depth - 1, B)]


def aexpr_tokens(t):
    if t[0] == "lit":
        return f"lit {t[1]}"
    if t[0] == "neg":
        return "neg " + aexpr_tokens(t[1])
    return f"{t[0]} {aexpr_tokens(t[1])} {aexpr_tokens(t[2])}"


def render_aexpr(t, env, style):
    """leaves become bound variables v0, v1, …; style 0: fully parenthesised, 1: unary minus juxtaposed
    (`--x`, `- -x`), 2: minimal parentheses by precedence"""
    def leaf(v):
        name = f"v{len(env)}"
        env[name] = v
        return name
    def go(t, prec):
        if t[0] == "lit":
            return leaf(t[1])
        if t[0] == "neg":
            inner = go(t[1], 3)
            if style == 0:
                return f"-({inner})"
            return ("-" if style == 1 else "- ") + inner
        p = 1 if t[0] in ("add", "sub") else 2
        l, r = go(t[1], p), go(t[2], p + 1)
        s = f"{l} {OPSYM[t[0]]} {r}"
        return f"({s})" if (style == 0 or p < prec) else s
    return go(t, 0)


def spec_aexpr(t):
    """exact integers, range-checked at every node; None = error"""
    if t[0] == "lit":
        return t[1]
    if t[0] == "neg":
        x = spec_aexpr(t[1])
        if x is None:
            return None
        r = spec_int("neg", x, 0, I_MIN, I_MAX, True)
    else:
        x, y = spec_aexpr(t[1]), spec_aexpr(t[2])
        if x is None or y is None:
            return None
        r = spec_int(t[0], x, y, I_MIN, I_MAX, True)
    return None if r == "err" else int(r)


def gen_uexpr(rng, depth, B):
    if depth == 0 or rng.random() < 0.2:
        return ["lit", rng.choice(B) if rng.random() < 0.6 else rng.randint(0, 20)]
    if rng.random() < 0.04:
        return ["neg", gen_uexpr(rng, depth - 1, B)]
    return [rng.choice(["add", "sub", "mul", "div", "mod"]), gen_uexpr(rng, depth - 1, B), gen_uexpr(rng, depth - 1, B)]


def spec_uexpr(t):
    """exact naturals, checked against [0, 2^64) at every node; None = error (unary minus always)"""
    if t[0] == "lit":
        return t[1]
    if t[0] == "neg":
        return None
    x, y = spec_uexpr(t[1]), spec_uexpr(t[2])
    if x is None or y is None:
        return None
    r = spec_int(t[0], x, y, 0, U_MAX, False)
    return None if r == "err" else int(r)


def render_lits(t, suffix):
    """fully parenthesised text with literal leaves (`(-5)`, `7u`)"""
    if t[0] == "lit":
        return f"({t[1]}{suffix})"
    if t[0] == "neg":
        return f"-({render_lits(t[1], suffix)})"
    return f"({render_lits(t[1], suffix)} {OPSYM[t[0]]} {render_lits(t[2], suffix)})"


QNAN_BITS = 0x7ff8000000000000


def ieee_div(x, y):
    """x / y per IEEE-754, written without celtypes: Python raises on a zero divisor, IEEE does not"""
    if y == 0.0:
        if x != x or x == 0.0:
            return math.nan
        return math.copysign(math.inf, x) * math.copysign(1.0, y)
    return x / y


def gen_dexpr(rng, depth, pool):
    if depth == 0 or rng.random() < 0.2:
        return ["lit", celrun.dbl_bits(rng.choice(pool))]
    if rng.random() < 0.3:
        return ["neg", gen_dexpr(rng, depth - 1, pool)]
    return [rng.choice(["add", "sub", "mul", "div"]), gen_dexpr(rng, depth - 1, pool), gen_dexpr(rng, depth - 1, pool)]


def leaf_dbl(b):
    return math.nan if b == "nan" else celrun.bits_dbl(int(b))


def spec_dexpr(t):
    if t[0] == "lit":
        return leaf_dbl(t[1])
    if t[0] == "neg":
        return -spec_dexpr(t[1])
    x, y = spec_dexpr(t[1]), spec_dexpr(t[2])
    if t[0] == "div":
        return ieee_div(x, y)
    return {"add": x + y, "sub": x - y, "mul": x * y}[t[0]]


def dexpr_tokens(t):
    if t[0] == "lit":
        return f"lit {QNAN_BITS if t[1] == 'nan' else t[1]}"
    if t[0] == "neg":
        return "neg " + dexpr_tokens(t[1])
    return f"{t[0]} {dexpr_tokens(t[1])} {dexpr_tokens(t[2])}"


def has_nan_leaf(t):
    if t[0] == "lit":
        return t[1] == "nan"
    return any(has_nan_leaf(x) for x in t[1:])


def band_pairs(rng, signed, n):
    """operand pairs whose EXACT result misses the range by less than one extra bit (or just fits):
    for int the bands [-(2^64-1), -(2^63)-1] and [2^63, 2^64-1], for uint [2^64, 2^65-1] and [-(2^64), -1];
    the class of changes they stand for: a range test that is right on one side only, a test on the bit length,
    a mask, a comparison against the wrong power of two."""
    lo, hi = (I_MIN, I_MAX) if signed else (0, U_MAX)
    width = hi - lo + 1
    out = []
    for _ in range(n):
        below = rng.random() < 0.5
        d = rng.choice([1, 2, 3, rng.randint(1, 2**16), rng.randint(1, width - 1), width - 1, width - 2])
        r = lo - d if below else hi + d          # the exact result aimed at
        if rng.random() < 0.25:
            r = rng.choice([lo, lo + 1, hi, hi - 1])     # ... or the last values that fit
        op = rng.choice(["add", "sub", "mul"])
        a = rng.randint(lo, hi) if rng.random() < 0.6 else rng.choice([lo, lo + 1, hi, hi - 1, -1 if signed else 1, 1, 2, 3])
        if op == "add":
            b = r - a
        elif op == "sub":
            b = a - r
        else:
            a = rng.choice([-3, -2, 2, 3, 5, 2**31, 2**32 + 1, -(2**33) + 1, rng.randint(2, 2**40)])
            if not signed:
                a = abs(a)
            b = r // a
        if lo <= a <= hi and lo <= b <= hi:
            out.append((op, a, b))
    return out


DBL_SPECIAL = [0.0, -0.0, math.inf, -math.inf, math.nan, 5e-324, -5e-324, 1.7976931348623157e308,
               -1.7976931348623157e308, 1.0, -1.0, 2.0, 0.5, 3.0, 1e308, -1e308, 2.2250738585072014e-308, 0.1, 1e-320]


class C01(Prop):
    pid = "C01"
    manifest = dict(
        technique='Lean 4 theorems over Int for every operand pair (IntOps/UintOps exactness, never-wraps, reflected = direct) and for every int64 / uint64 / double expression tree, model regenerated from celtypes.py by py2lean (int dialect + float dialect over an abstract host float) + bridge theorems proved by split/omega; differential correspondence vs. the Lean driver and an independent big-int / IEEE oracle',
        text='proof: int64/uint64 + - * / % neg are proved exact-or-error for ALL integers (no bound) and for all expression trees, on definitions regenerated from celtypes.py on every run and proved equal to the model; every DoubleType operator is proved to be the host binary64 operation on the same operands (for every host float structure), division by zero proved at IEEE class level; the host arithmetic itself is compared bit-for-bit',
        note='Lean kernel; propext/Quot.sound/Classical.choice only; py2lean translator; CPython int semantics modelled by Int.fdiv/fmod; host binary64; lark',
        ref='DESIGN.md §5 C01')
    lean_targets = ["Cel.Props.C01", "Cel.Bridge.Num", "Cel.Bridge.NumD"]
    audit_namespaces = ["Cel.Props.C01", "Cel.Bridge"]
    gen_names = ["Num", "NumD"]
    trusted = ["CPython int arithmetic (`+ - * // % abs`) is modelled by Lean Int (`Int.fdiv/fmod`)",
               "IEEE-754 binary64 arithmetic of the host (CPython float `+ - * /` by a non-zero divisor, unary minus): abstract in the proofs (`HostFloat`), compared bit-for-bit with Lean's native Float by the correspondence run",
               "float.__new__(cls, x) keeps every bit of a Python float x; float operands never make float.__op__ return NotImplemented",
               "lark parsing of the generated `a op b` texts"]
    rule = ("boundary set B={MIN,MAX,0,±1,±2^k,±2^k±1} pairs + random 64-bit pairs + near-overflow products + pairs whose exact result "
            "misses the range by less than one bit on either side + zero divisors on every path + special-shape divisors + zero results, "
            "per operator, for int and uint, through the dunder, the reflected dunder and both runners (literals and bound variables); "
            "int64 / uint64 / double expression trees (literal and variable leaves); doubles as bit patterns incl. ±0, ±inf, NaN, "
            "subnormals, all five operators incl. unary minus. non-trivial = distinct case whose exact result is within 2^8 of a range "
            "boundary, or an error outcome, or a double case involving a zero/inf/NaN operand or result, or any tree")

    def generate(self, rng: random.Random, tier: str) -> Iterable[Dict[str, Any]]:
        quick = tier == "quick"
        cases = []
        for ty, signed in (("i", True), ("u", False)):
            B = boundary(signed, small=quick)
            pairs = [(a, b) for a in B for b in B]
            if quick:
                pairs = rng.sample(pairs, min(len(pairs), 1200))
            lo, hi = (I_MIN, I_MAX) if signed else (0, U_MAX)
            for _ in range(300 if quick else 20000):
                pairs.append((rng.randint(lo, hi), rng.randint(lo, hi)))
            for _ in range(200 if quick else 10000):   # products near the boundary
                a = rng.randint(1, 2**32 + 5) * rng.choice([1, -1] if signed else [1])
                b = (hi // max(1, abs(a))) + rng.randint(-2, 2)
                if lo <= b <= hi:
                    pairs.append((a, b))
            for (a, b) in pairs:
                for op in ("add", "sub", "mul", "div", "mod"):
                    via = rng.choice(["dunder", "dunder", "rdunder", "I", "C", "Ivar", "Cvar"]) if quick else None
                    for v in ([via] if via else ["dunder", "rdunder", rng.choice(["I", "C", "Ivar", "Cvar"])]):
                        cases.append({"kind": ty, "op": op, "a": a, "b": b, "via": v})
            for a in B:
                cases.append({"kind": ty, "op": "neg", "a": a, "b": 0, "via": rng.choice(["dunder", "I", "C"])})
        # arithmetic expression trees (nested unary minus, mixed operators) through both runners
        B = boundary(True, small=True)
        for _ in range(400 if quick else 8000):
            t = gen_aexpr(rng, rng.randint(1, 3), B)
            cases.append({"kind": "x", "tree": t, "via": rng.choice(["I", "C"]), "style": rng.randrange(3)})
        for a in (I_MIN, I_MIN + 1, I_MAX, -1, 0, 1):
            for t in (["neg", ["neg", ["lit", a]]], ["neg", ["neg", ["neg", ["lit", a]]]],
                      ["sub", ["lit", 0], ["neg", ["lit", a]]], ["neg", ["mul", ["lit", a], ["lit", -1]]],
                      ["add", ["neg", ["lit", a]], ["lit", -1]], ["div", ["neg", ["neg", ["lit", a]]], ["lit", -1]]):
                for via in ("I", "C"):
                    for style in range(3):
                        cases.append({"kind": "x", "tree": t, "via": via, "style": style})
        # -- round 2 ------------------------------------------------------------------------------
        ALLVIA = ["dunder", "rdunder", "I", "C", "Ivar", "Cvar"]
        for ty, signed in (("i", True), ("u", False)):
            B = boundary(signed, small=True)
            lo, hi = (I_MIN, I_MAX) if signed else (0, U_MAX)
            # results that miss the range by less than one bit, on either side
            for (op, a, b) in band_pairs(rng, signed, 260 if quick else 6000):
                cases.append({"kind": ty, "op": op, "a": a, "b": b, "via": rng.choice(ALLVIA)})
            # zero divisor for / and %: every path, dividends of every size (also a computed zero: see trees)
            for a in rng.sample(B, 10) + [0, 1, hi, lo, rng.randint(lo, hi)]:
                for op in ("div", "mod"):
                    for via in ALLVIA:
                        cases.append({"kind": ty, "op": op, "a": a, "b": 0, "via": via})
            # divisors with a special shape (powers of two, all ones, +-1, the extremes) against random dividends
            shapes = [1, 2, 4, 8, 2**31, 2**32, 2**62, 2**63 - 1, 3, 10, hi, hi - 1] + ([2**63, 2**63 + 1] if not signed else [-1, -2, -(2**32), lo, lo + 1])
            for _ in range(150 if quick else 4000):
                a = rng.choice([rng.randint(lo, hi), rng.choice(B), rng.randint(lo, hi) >> rng.randrange(64)])
                if not signed:
                    a = abs(a)
                cases.append({"kind": ty, "op": rng.choice(["div", "mod"]), "a": a, "b": rng.choice(shapes), "via": rng.choice(ALLVIA)})
            # results that are exactly zero (a value that is falsy in Python)
            for a in rng.sample(B, 8) + [1, hi, lo]:
                for (op, x, y) in (("sub", a, a), ("mul", a, 0), ("mul", 0, a), ("mod", a, a), ("mod", a, 1), ("div", 0, a), ("add", 0, 0)):
                    cases.append({"kind": ty, "op": op, "a": x, "b": y, "via": rng.choice(ALLVIA)})
                if signed and a != lo:
                    cases.append({"kind": ty, "op": "add", "a": a, "b": -a, "via": rng.choice(ALLVIA)})
        # one program evaluated over a SEQUENCE of operand pairs (a result remembered from an earlier evaluation,
        # or keyed by hash/equality, would show here): operands that collide under CPython's hash (-1/-2, 0/2^61-1,
        # 1/2^61), that are equal across int/uint, and boundary values, in one process with one program
        collide = [-1, -2, 0, 2**61 - 1, 1, 2**61, 2, 2**61 + 1, -(2**61 - 1), -(2**61), 3, 7]
        for ty, signed in (("i", True), ("u", False)):
            lo, hi = (I_MIN, I_MAX) if signed else (0, U_MAX)
            pool = [v for v in collide if lo <= v <= hi] + [lo, hi, hi - 1, lo + 1]
            for op in ("add", "sub", "mul", "div", "mod"):
                for via in ("I", "C", "dunder"):
                    for _ in range(2 if quick else 40):
                        seq = [[rng.choice(pool), rng.choice(pool)] for _ in range(10)]
                        seq += [[seq[0][0], seq[0][1]], [seq[1][1], seq[1][0]]]
                        cases.append({"kind": "seq", "ty": ty, "op": op, "via": via, "pairs": seq})
            # the SAME object on both sides (`x op x`): identity instead of equality, aliasing
            for a in rng.sample(boundary(signed, small=True), 14) + [lo, hi, 0, 1]:
                for op in ("add", "sub", "mul", "div", "mod"):
                    cases.append({"kind": "same", "ty": ty, "op": op, "a": a, "via": rng.choice(["dunder", "I", "C"])})
        # uint expression trees through both runners (literals with the u suffix, or bound variables)
        BU = boundary(False, small=True)
        for _ in range(300 if quick else 6000):
            t = gen_uexpr(rng, rng.randint(1, 3), BU)
            cases.append({"kind": "ux", "tree": t, "via": rng.choice(["I", "C"]), "style": rng.choice([0, 2, "lit"])})
        for a in (0, 1, U_MAX, 2**63, 7):
            for t in (["mod", ["lit", a], ["sub", ["lit", 5], ["lit", 5]]], ["div", ["lit", a], ["mul", ["lit", 0], ["lit", a]]],
                      ["sub", ["lit", 0], ["lit", a]], ["neg", ["lit", a]], ["add", ["lit", a], ["neg", ["lit", 0]]],
                      ["mod", ["lit", a], ["mod", ["lit", a], ["lit", 1]]], ["mul", ["add", ["lit", a], ["lit", 1]], ["lit", 0]]):
                for via in ("I", "C"):
                    cases.append({"kind": "ux", "tree": t, "via": via, "style": rng.choice([0, 2, "lit"])})
        # int trees with literal leaves as well (the compiled runner pastes literals into Python source)
        for _ in range(120 if quick else 3000):
            t = gen_aexpr(rng, rng.randint(1, 3), boundary(True, small=True))
            cases.append({"kind": "x", "tree": t, "via": rng.choice(["I", "C"]), "style": "lit"})
        # double unary minus and double expression trees (a wrong sign of zero shows as the sign of an infinity)
        dpool = list(DBL_SPECIAL) + [struct.unpack("<d", struct.pack("<Q", rng.getrandbits(64)))[0] for _ in range(20)]
        for x in dpool:
            for via in ("dunder", "I", "C", "Ivar", "Cvar"):
                cases.append({"kind": "d", "op": "neg", "a": celrun.dbl_bits(x), "b": "0", "via": via, "nan_a": x != x, "nan_b": False})
        for _ in range(350 if quick else 8000):
            t = gen_dexpr(rng, rng.randint(1, 3), dpool)
            cases.append({"kind": "dx", "tree": t, "via": rng.choice(["I", "C"])})
        for z in (0.0, -0.0):
            for w in (1.0, -1.0, -4.0, math.inf, 5e-324, -5e-324):
                zb, wb, one = celrun.dbl_bits(z), celrun.dbl_bits(w), celrun.dbl_bits(1.0)
                for t in (["div", ["lit", one], ["neg", ["lit", zb]]], ["div", ["lit", one], ["mul", ["lit", zb], ["lit", wb]]],
                          ["div", ["lit", wb], ["div", ["lit", zb], ["lit", wb]]], ["div", ["lit", one], ["sub", ["lit", zb], ["lit", zb]]],
                          ["div", ["lit", one], ["add", ["lit", zb], ["neg", ["lit", zb]]]], ["neg", ["neg", ["lit", zb]]],
                          ["div", ["lit", wb], ["mul", ["lit", celrun.dbl_bits(-1e-200)], ["lit", celrun.dbl_bits(1e-200)]]]):
                    for via in ("I", "C"):
                        cases.append({"kind": "dx", "tree": t, "via": via})
        # doubles
        ds = list(DBL_SPECIAL)
        for _ in range(60 if quick else 600):
            ds.append(struct.unpack("<d", struct.pack("<Q", rng.getrandbits(64)))[0])
        dpairs = [(x, y) for x in DBL_SPECIAL for y in DBL_SPECIAL]
        for _ in range(300 if quick else 20000):
            dpairs.append((rng.choice(ds), rng.choice(ds)))
        for (x, y) in dpairs:
            for op in ("add", "sub", "mul", "div"):
                via = rng.choice(["dunder", "rdunder", "I", "C", "Ivar", "Cvar"])
                cases.append({"kind": "d", "op": op, "a": celrun.dbl_bits(x), "b": celrun.dbl_bits(y),
                              "via": via, "nan_a": x != x, "nan_b": y != y})
        return cases

    # -- implementation ---------------------------------------------------------------------
    def impl(self, c):
        from celpy import celtypes
        import operator
        if c["kind"] in ("x", "ux"):
            T = celtypes.IntType if c["kind"] == "x" else celtypes.UintType
            if c["style"] == "lit":
                return celrun.run(render_lits(c["tree"], "" if c["kind"] == "x" else "u"), c["via"])
            env = {}
            src = render_aexpr(c["tree"], env, c["style"])
            return celrun.run(src, c["via"], {k: T(v) for k, v in env.items()})
        if c["kind"] in ("seq", "same"):
            T = celtypes.IntType if c["ty"] == "i" else celtypes.UintType
            f = {"add": operator.add, "sub": operator.sub, "mul": operator.mul, "div": operator.truediv, "mod": operator.mod}[c["op"]]
            pairs = c["pairs"] if c["kind"] == "seq" else [[c["a"], c["a"]]]
            same = c["kind"] == "same"
            outs = []
            if c["via"] == "dunder":
                for a, b in pairs:
                    try:
                        x = T(a)
                        r = f(x, x if same else T(b))
                        outs.append(("int:" if c["ty"] == "i" else "uint:") + str(int(r)) if type(r) is T else f"wrongtype {type(r).__name__}:{r}")
                    except (ValueError, ZeroDivisionError, TypeError, OverflowError):
                        outs.append("err")
                    except Exception as ex:
                        outs.append("EXC " + type(ex).__name__)
                return ";".join(outs)
            import celpy
            from celpy.evaluation import CELEvalError
            try:
                env = celpy.Environment(runner_class=celrun.RUNNERS[c["via"]])
                prog = env.program(env.compile(f"x {OPSYM[c['op']]} {'x' if same else 'y'}"))
            except Exception as ex:
                return "EXC-program " + type(ex).__name__
            for a, b in pairs:
                try:
                    outs.append(celrun.canon(prog.evaluate({"x": T(a)} if same else {"x": T(a), "y": T(b)})))
                except CELEvalError:
                    outs.append("err")
                except Exception as ex:
                    outs.append("EXC " + type(ex).__name__)
            return ";".join(outs)
        if c["kind"] == "dx":
            env = {}
            src = render_aexpr(c["tree"], env, 0)
            out = celrun.run(src, c["via"], {k: celtypes.DoubleType(leaf_dbl(v)) for k, v in env.items()})
            return out.replace("pyfloat:", "double:")
        kind, op, via = c["kind"], c["op"], c["via"]
        if kind in ("i", "u"):
            T = celtypes.IntType if kind == "i" else celtypes.UintType
            a, b = c["a"], c["b"]
            if via in ("dunder", "rdunder"):
                try:
                    if op == "neg":
                        r = -T(a)
                    elif via == "dunder":
                        r = {"add": operator.add, "sub": operator.sub, "mul": operator.mul,
                             "div": operator.truediv, "mod": operator.mod}[op](T(a), T(b))
                    else:  # native python int on the left -> reflected dunder of the right operand
                        r = {"add": operator.add, "sub": operator.sub, "mul": operator.mul,
                             "div": operator.truediv, "mod": operator.mod}[op](int(a), T(b))
                except Exception as ex:
                    return "raise " + type(ex).__name__
                if type(r) is not T:
                    return f"wrongtype {type(r).__name__}:{r}"
                return f"ok {int(r)}"
            suffix = "u" if kind == "u" else ""
            if via in ("I", "C"):
                if op == "neg":
                    src = f"-({a}{suffix})" if a >= 0 else f"-({a})"
                    if kind == "i" and a == I_MIN:
                        src = f"-({a})"
                else:
                    src = f"({a}{suffix}) {OPSYM[op]} ({b}{suffix})"
                out = celrun.run(src, via)
            else:
                src = "-x" if op == "neg" else f"x {OPSYM[op]} y"
                out = celrun.run(src, via[0], {"x": T(a), "y": T(b)})
            return out
        # doubles
        x, y = celrun.bits_dbl(int(c["a"])) if c["a"] != "nan" else math.nan, celrun.bits_dbl(int(c["b"])) if c["b"] != "nan" else math.nan
        D = celtypes.DoubleType
        if op == "neg":
            if via == "dunder":
                try:
                    r = -D(x)
                except Exception as ex:
                    return "raise " + type(ex).__name__
                return "ok " + celrun.dbl_bits(r)
            if via in ("I", "C") and x == x and not math.isinf(x):
                s_ = repr(abs(float(x)))
                if "e" in s_ and "." not in s_:
                    m_, e_ = s_.split("e")
                    s_ = m_ + ".0e" + e_
                src = f"-({s_})" if math.copysign(1.0, x) > 0 else f"-(-{s_})"
                out = celrun.run(src, via)
            else:
                out = celrun.run("-x", via[0], {"x": D(x)})
            return out.replace("pyfloat:", "double:")
        f = {"add": operator.add, "sub": operator.sub, "mul": operator.mul, "div": operator.truediv}[op]
        if via in ("dunder", "rdunder"):
            try:
                r = f(D(x), D(y)) if via == "dunder" else f(float(x), D(y))
            except Exception as ex:
                return "raise " + type(ex).__name__
            if op == "div" and type(r) is not D:
                return f"wrongtype {type(r).__name__}"
            return "ok " + celrun.dbl_bits(r)
        if via in ("I", "C"):
            def lit(v):
                if v != v:
                    return "(0.0/0.0)"
                if math.isinf(v):
                    return "(1.0/0.0)" if v > 0 else "(-1.0/0.0)"
                s = repr(float(v))
                if "e" in s and "." not in s:
                    m, e = s.split("e")
                    s = m + ".0e" + e
                return f"({s})"
            out = celrun.run(f"{lit(x)} {OPSYM[op]} {lit(y)}", via)
        else:
            out = celrun.run(f"x {OPSYM[op]} y", via[0], {"x": D(x), "y": D(y)})
        # C01 is about the numeric result; which Python class carries it is C13's business
        return out.replace("pyfloat:", "double:")

    # -- model ----------------------------------------------------------------------------------
    def model_line(self, c):
        if c["kind"] == "x":
            return "x " + aexpr_tokens(c["tree"])
        if c["kind"] in ("seq", "same"):
            return None
        if c["kind"] == "ux":
            return "ux " + aexpr_tokens(c["tree"])
        if c["kind"] == "dx":
            return "dx " + dexpr_tokens(c["tree"])
        if c["kind"] in ("i", "u"):
            op = c["op"]
            if c["via"] == "rdunder":
                op = "r" + op
            return f"{c['kind']} {op} {c['a']} {c['b']}"
        a = QNAN_BITS if c["a"] == "nan" else c["a"]
        b = QNAN_BITS if c["b"] == "nan" else c["b"]
        op = ("r" + c["op"]) if (c["via"] == "rdunder" and c["op"] != "neg") else c["op"]
        return f"d2 {op} {a} {b}"

    def model_expect(self, c, m):
        via, kind = c["via"], c["kind"]
        if kind == "x":
            return "int:" + m[3:] if m.startswith("ok ") else "err"
        if kind == "ux":
            return "uint:" + m[3:] if m.startswith("ok ") else "err"
        if kind == "dx":
            return "double:" + m
        if kind in ("i", "u"):
            if via in ("dunder", "rdunder"):
                return m
            if m.startswith("ok "):
                return ("int:" if kind == "i" else "uint:") + m[3:]
            return "err"
        # doubles
        if m.startswith("cls "):
            cls = m[4:]
            val = {"nan": "nan", "+inf": celrun.dbl_bits(math.inf), "-inf": celrun.dbl_bits(-math.inf)}[cls]
        else:
            val = m
        if via in ("dunder", "rdunder"):
            return "ok " + val
        return ("double:" if True else "") + val

    # -- oracle ----------------------------------------------------------------------------------
    def oracle(self, c, out):
        if c["kind"] == "x":
            exp = spec_aexpr(c["tree"])
            exp = "err" if exp is None else f"int:{exp}"
            if out != exp:
                return f"{render_aexpr(c['tree'], {}, c['style'])} with {c['tree']} via {c['via']}: exact arithmetic gives {exp}, implementation gave {out}"
            return None
        if c["kind"] in ("seq", "same"):
            lo, hi = (I_MIN, I_MAX) if c["ty"] == "i" else (0, U_MAX)
            tag = "int:" if c["ty"] == "i" else "uint:"
            pairs = c["pairs"] if c["kind"] == "seq" else [[c["a"], c["a"]]]
            exps = []
            for a, b in pairs:
                e = spec_int(c["op"], a, b, lo, hi, c["ty"] == "i")
                exps.append("err" if e == "err" else tag + e)
            exp = ";".join(exps)
            if out != exp:
                k = next((i for i, (g, e) in enumerate(zip(out.split(";"), exps)) if g != e), 0)
                what = "the same object on both sides" if c["kind"] == "same" else f"one program, evaluation #{k + 1} of {len(pairs)}"
                return (f"{c['ty']} {pairs[k][0]} {c['op']} {pairs[k][1]} via {c['via']} ({what}): expected {exps[k]}, "
                        f"implementation gave {(out.split(';') + ['?'] * len(exps))[k]}")
            return None
        if c["kind"] == "ux":
            exp = spec_uexpr(c["tree"])
            exp = "err" if exp is None else f"uint:{exp}"
            if out != exp:
                return f"{render_lits(c['tree'], 'u')} via {c['via']} (style {c['style']}): exact arithmetic gives {exp}, implementation gave {out}"
            return None
        if c["kind"] == "dx":
            exp = "double:" + celrun.dbl_bits(spec_dexpr(c["tree"]))
            if out != exp:
                return f"double expression {c['tree']} via {c['via']}: IEEE-754 gives {exp}, implementation gave {out}"
            return None
        kind, op, via = c["kind"], c["op"], c["via"]
        if kind in ("i", "u"):
            lo, hi = (I_MIN, I_MAX) if kind == "i" else (0, U_MAX)
            exp = spec_int(op, c["a"], c["b"], lo, hi, kind == "i")
            if via in ("dunder", "rdunder"):
                got = out[3:] if out.startswith("ok ") else ("err" if out.startswith("raise ") else out)
                if out.startswith("raise ") and out[6:] not in ("ValueError", "ZeroDivisionError", "TypeError", "OverflowError"):
                    return f"{kind} {op}: raised {out[6:]}, which the runners do not turn into an evaluation error"
            else:
                tag = "int:" if kind == "i" else "uint:"
                got = out[len(tag):] if out.startswith(tag) else out
            if got != exp:
                return f"{kind} {c['a']} {op} {c['b']} via {via}: expected {exp}, implementation gave {out}"
            return None
        # doubles: IEEE-754 computed independently of celtypes (host float + explicit zero-divisor rule)
        x = math.nan if c["a"] == "nan" else celrun.bits_dbl(int(c["a"]))
        y = math.nan if c["b"] == "nan" else celrun.bits_dbl(int(c["b"]))
        if op == "div":
            r = ieee_div(x, y)
        elif op == "neg":
            r = -x
        else:
            r = {"add": x + y, "sub": x - y, "mul": x * y}[op]
        exp = celrun.dbl_bits(r)
        got = out[3:] if out.startswith("ok ") else (out[7:] if out.startswith("double:") else
                                                     (out[8:] if out.startswith("pyfloat:") else out))
        if got != exp:
            return f"double {x!r} {op} {y!r} via {via}: IEEE-754 gives bits {exp}, implementation gave {out}"
        return None

    def nontrivial(self, c, out):
        if c["kind"] in ("x", "ux", "dx", "seq", "same"):
            return True
        if c["kind"] in ("i", "u"):
            if not celrun.is_value(out) or out.startswith("raise"):
                return True
            m = [int(s) for s in __import__("re").findall(r"-?\d+", out)]
            return bool(m) and min(abs(m[-1] - I_MIN), abs(m[-1] - I_MAX), abs(m[-1] - U_MAX), abs(m[-1])) < 256
        x = math.nan if c["a"] == "nan" else celrun.bits_dbl(int(c["a"]))
        y = math.nan if c["b"] == "nan" else celrun.bits_dbl(int(c["b"]))
        return any(v != v or v == 0.0 or math.isinf(v) for v in (x, y)) or "nan" in out


PROP = C01()
